(* C23 — transaction and check encodings are canonical and signatures bind the signer.
   Decoding and re-encoding any accepted transaction or check gives back the original bytes,
   non-canonical RLP is rejected, and the recovered sender is exactly the key recovered from
   the hash of the signed fields.  Signatures with high S or an invalid recovery id are
   rejected, so a valid transaction cannot be rewritten into a different valid encoding.
   (secp256k1 recovery and Keccak are parameters; the Go decoder is tied to this model
   differentially by harness command c23, dispatch model 10.) *)
From Minter Require Import Base RLP RLPFacts.
From Coq Require Import ZArith List.
Import ListNotations.
Open Scope Z_scope.

(* ---- the generic codec ------------------------------------------------------------------ *)
(* every well-formed item (bytes in 0..255, every payload shorter than 2^64 bytes) decodes
   back from its encoding *)
Theorem C23_decode_encode : forall i, wf_item i -> decode (encode i) = Some i.
Proof. exact decode_encode. Qed.

(* an accepted byte string is the encoding of the value it decodes to: re-encoding gives back
   the original bytes *)
Theorem C23_encode_decode : forall b i, decode b = Some i -> encode i = b.
Proof. exact encode_decode. Qed.

(* hence no value has a second accepted encoding, and the accepted strings are exactly the
   canonical encodings: everything else (long form for a short payload, leading zeros in a
   length, 0x81 xx for xx < 0x80, trailing bytes, truncated input ...) is rejected *)
Theorem C23_no_second_encoding : forall b1 b2 i, decode b1 = Some i -> decode b2 = Some i -> b1 = b2.
Proof. exact decode_injective. Qed.

Theorem C23_accepted_iff_canonical : forall b,
  (exists i, decode b = Some i) <-> (exists i, wf_item i /\ encode i = b).
Proof. exact decode_accepts_iff. Qed.

Theorem C23_noncanonical_rejected : forall b, (forall i, wf_item i -> encode i <> b) -> decode b = None.
Proof.
  intros b H. destruct (decode b) as [i|] eqn:E; [|reflexivity].
  exfalso. apply (H i); [exact (decode_wf b i E)|exact (encode_decode b i E)].
Qed.

(* ---- integers: uint64 / uint32 / byte, big-endian, no leading zeros, zero = empty string ---- *)
Theorem C23_uint64_roundtrip : forall z, 0 <= z < 2 ^ 64 -> dec_uint 8 (enc_uint z) = Some z.
Proof. intros z H. apply dec_enc_uint. split; [tauto|]. intros _. change (256 ^ 8) with (2 ^ 64). tauto. Qed.
Theorem C23_uint32_roundtrip : forall z, 0 <= z < 2 ^ 32 -> dec_uint 4 (enc_uint z) = Some z.
Proof. intros z H. apply dec_enc_uint. split; [tauto|]. intros _. change (256 ^ 4) with (2 ^ 32). tauto. Qed.
Theorem C23_uint8_roundtrip : forall z, 0 <= z < 2 ^ 8 -> dec_uint 1 (enc_uint z) = Some z.
Proof. intros z H. apply dec_enc_uint. split; [tauto|]. intros _. change (256 ^ 1) with (2 ^ 8). tauto. Qed.
Theorem C23_bigint_roundtrip : forall z, 0 <= z -> dec_uint (-1) (enc_uint z) = Some z.
Proof. intros z H. apply dec_enc_uint. split; [exact H|]. intros H'. exfalso. apply H'. reflexivity. Qed.

(* an accepted integer is the canonical encoding of its value, and fits its width *)
Theorem C23_uint_canonical : forall w i z, wf_item i -> dec_uint w i = Some z ->
  enc_uint z = i /\ 0 <= z /\ (0 <= w -> z < 256 ^ w).
Proof. exact enc_dec_uint. Qed.
Theorem C23_uint64_range : forall i z, wf_item i -> dec_uint 8 i = Some z -> 0 <= z < 2 ^ 64.
Proof. exact dec_uint64_range. Qed.
Theorem C23_uint32_range : forall i z, wf_item i -> dec_uint 4 i = Some z -> 0 <= z < 2 ^ 32.
Proof. exact dec_uint32_range. Qed.
Theorem C23_uint8_range : forall i z, wf_item i -> dec_uint 1 i = Some z -> 0 <= z < 2 ^ 8.
Proof. exact dec_uint8_range. Qed.

(* ---- transactions, signatures, checks ----------------------------------------------------- *)
Theorem C23_tx_decode_encode : forall t, wf_tx t -> dec_tx (encode (enc_tx t)) = Some t.
Proof. exact dec_tx_enc_tx. Qed.

(* re-encoding an accepted transaction gives back the original bytes (and its integers are in
   the ranges of their Go types: uint64 nonce, uint32 gas price / coin id, one byte chain id,
   type and signature type) *)
Theorem C23_tx_encode_decode : forall b t, dec_tx b = Some t -> encode (enc_tx t) = b /\ wf_tx t.
Proof. exact enc_tx_dec_tx. Qed.

Theorem C23_tx_no_second_encoding : forall b1 b2 t, dec_tx b1 = Some t -> dec_tx b2 = Some t -> b1 = b2.
Proof.
  intros b1 b2 t H1 H2. apply enc_tx_dec_tx in H1 as [H1 _]. apply enc_tx_dec_tx in H2 as [H2 _]. congruence.
Qed.

(* explicit sufficient conditions for wf_tx *)
Theorem C23_wf_tx_intro : forall t,
  0 <= t_nonce t < 2 ^ 64 -> 0 <= t_chain t < 2 ^ 8 -> 0 <= t_gasprice t < 2 ^ 32 ->
  0 <= t_gascoin t < 2 ^ 32 -> 0 <= t_type t < 2 ^ 8 -> 0 <= t_sigtype t < 2 ^ 8 ->
  Forall byte (t_data t) -> Forall byte (t_payload t) -> Forall byte (t_service t) ->
  Forall byte (t_sigdata t) ->
  len (t_data t) < 2 ^ 60 -> len (t_payload t) < 2 ^ 60 -> len (t_service t) < 2 ^ 60 ->
  len (t_sigdata t) < 2 ^ 60 ->
  wf_tx t.
Proof. exact wf_tx_intro. Qed.

Theorem C23_sig_decode_encode : forall s, wf_sig s -> dec_sig (encode (enc_sig s)) = Some s.
Proof. exact dec_sig_enc_sig. Qed.
Theorem C23_sig_encode_decode : forall b s, dec_sig b = Some s -> encode (enc_sig s) = b /\ wf_sig s.
Proof. exact enc_sig_dec_sig. Qed.

Theorem C23_check_decode_encode : forall k, wf_chk k -> dec_chk (encode (enc_chk k)) = Some k.
Proof. exact dec_chk_enc_chk. Qed.
Theorem C23_check_encode_decode : forall b k, dec_chk b = Some k -> encode (enc_chk k) = b /\ wf_chk k.
Proof. exact enc_chk_dec_chk. Qed.

(* ---- signature values ----------------------------------------------------------------------- *)
(* accepted exactly when V is 27 or 28, 0 < r < N and 0 < s <= N/2 (N the secp256k1 group order) *)
Theorem C23_validate_sig_spec : forall v r s,
  validate_sig v r s = true <->
  (Z.abs v = 27 \/ Z.abs v = 28) /\
  1 <= r < 0xfffffffffffffffffffffffffffffffebaaedce6af48a03bbfd25e8cd0364141 /\
  1 <= s <= 0xfffffffffffffffffffffffffffffffebaaedce6af48a03bbfd25e8cd0364141 / 2.
Proof. exact validate_sig_spec. Qed.

(* the high-S twin (any V', same R, S' = N - S) of an accepted signature is rejected *)
Theorem C23_high_s_rejected : forall v v' r s,
  validate_sig v r s = true ->
  validate_sig v' r (0xfffffffffffffffffffffffffffffffebaaedce6af48a03bbfd25e8cd0364141 - s) = false.
Proof. exact high_s_rejected. Qed.

(* a recovery id other than 27 / 28 is rejected *)
Theorem C23_bad_v_rejected : forall v r s, 0 <= v -> v <> 27 -> v <> 28 -> validate_sig v r s = false.
Proof. exact bad_v_rejected_nonneg. Qed.

Theorem C23_bad_rs_rejected : forall v r s,
  r <= 0 \/ secp_N <= r \/ s <= 0 \/ secp_half_N < s -> validate_sig v r s = false.
Proof. exact bad_rs_rejected. Qed.

(* ---- the sender is bound to the signed fields -------------------------------------------------- *)
(* the bytes that are hashed determine all nine signed fields: two well-formed transactions that
   differ in any of them are hashed from different byte strings *)
Theorem C23_signing_bytes_injective : forall t1 t2, wf_tx t1 -> wf_tx t2 ->
  signing_bytes t1 = signing_bytes t2 -> signed_fields t1 = signed_fields t2.
Proof. exact signing_bytes_injective. Qed.

(* whatever Keccak and public-key recovery are: a sender exists only for valid signature values,
   it is the key recovered from the hash of the signed fields with recovery id V - 27, and the
   (V', R, N - S) rewriting of the signature has no sender on any transaction *)
Theorem C23_sender_is_signer : forall keccak recover t sg a,
  sender keccak recover t sg = Some a ->
  validate_sig (s_v sg) (s_r sg) (s_s sg) = true /\
  recover (keccak (signing_bytes t)) ((Z.abs (s_v sg) - 27) mod 256) (s_r sg) (s_s sg) = Some a.
Proof.
  intros keccak recover t sg a H. split;
  [exact (sender_valid keccak recover t sg a H)|exact (sender_is_recovered keccak recover t sg a H)].
Qed.

Theorem C23_sender_high_s_twin : forall keccak recover t t' sg a v',
  sender keccak recover t sg = Some a ->
  sender keccak recover t' {| s_v := v'; s_r := s_r sg; s_s := secp_N - s_s sg |} = None.
Proof. exact sender_high_s_twin. Qed.

(* ---- non-vacuity: a transaction signed by the real node code (harness c23, seed 1) ------------ *)
Definition ex_tx_bytes : list Z :=
  [248; 110; 97; 129; 222; 127; 127; 1; 157; 220; 128; 148; 38; 147; 200; 224; 37; 126; 92; 94; 89; 1; 6; 41; 63;
   96; 99; 180; 199; 115; 155; 35; 133; 26; 189; 179; 175; 118; 0; 68; 1; 184; 69; 248; 67; 27; 160; 178; 48; 177;
   130; 157; 88; 200; 43; 96; 231; 164; 240; 44; 119; 142; 220; 116; 180; 235; 215; 35; 81; 114; 134; 49; 57; 129;
   131; 213; 126; 241; 194; 160; 118; 61; 64; 183; 131; 160; 32; 83; 149; 131; 18; 232; 115; 97; 50; 136; 147; 86;
   168; 1; 209; 247; 76; 77; 17; 112; 96; 226; 148; 189; 255; 3].

Example C23_ex_tx_accepted :
  match dec_tx ex_tx_bytes with
  | Some t => t_nonce t = 97 /\ t_chain t = 222 /\ t_gasprice t = 127 /\ t_gascoin t = 127 /\ t_type t = 1 /\
              len (t_data t) = 29 /\ t_payload t = [0] /\ t_service t = [68] /\ t_sigtype t = 1 /\
              encode (enc_tx t) = ex_tx_bytes /\
              match dec_sig (t_sigdata t) with
              | Some g => s_v g = 27 /\ validate_sig (s_v g) (s_r g) (s_s g) = true /\
                          validate_sig 28 (s_r g) (secp_N - s_s g) = false /\
                          encode (enc_sig g) = t_sigdata t
              | None => False
              end
  | None => False
  end.
Proof. vm_compute. repeat split; reflexivity. Qed.

(* structured non-canonical variants of that transaction are all rejected *)
Example C23_ex_noncanonical_rejected :
  (* trailing byte *)
  dec_tx (ex_tx_bytes ++ [0]) = None /\
  (* outer length with a leading zero in the length of the length: f9 00 6e *)
  dec_tx (249 :: 0 :: tl ex_tx_bytes) = None /\
  (* nonce 97 (< 0x80) written as 81 61 *)
  dec_tx ([248; 111; 129; 97] ++ skipn 3 ex_tx_bytes) = None /\
  (* nonce with a leading zero: 82 00 61 (a canonical string, not a canonical integer) *)
  decode ([248; 112; 130; 0; 97] ++ skipn 3 ex_tx_bytes) <> None /\
  dec_tx ([248; 112; 130; 0; 97] ++ skipn 3 ex_tx_bytes) = None /\
  (* chain id wider than one byte: 82 01 de *)
  dec_tx ([248; 112; 97; 130; 1; 222] ++ skipn 5 ex_tx_bytes) = None /\
  (* generic: long form for a short string, single byte wrapped, length below 56 in long form,
     empty input, truncated input, list payload overrunning *)
  decode [184; 2; 1; 2] = None /\ decode [129; 5] = None /\ decode [248; 1; 128] = None /\
  decode [] = None /\ decode [130; 1] = None /\ decode [194; 130; 1] = None /\
  (* while the canonical forms are accepted *)
  decode [130; 1; 2] = Some (Str [1; 2]) /\ decode [5] = Some (Str [5]) /\ decode [193; 128] = Some (Lst [Str []]).
Proof. vm_compute. repeat split; discriminate. Qed.

(* the long forms (payloads of 56 bytes and more, two length bytes) round-trip *)
Example C23_ex_long_forms :
  decode (encode (Lst [Str (repeat 7 56); Str (repeat 200 300); Lst (repeat (Str [1]) 60)])) =
  Some (Lst [Str (repeat 7 56); Str (repeat 200 300); Lst (repeat (Str [1]) 60)]) /\
  firstn 3 (encode (Str (repeat 200 300))) = [185; 1; 44].
Proof. vm_compute. split; reflexivity. Qed.

Example C23_ex_sig_values :
  validate_sig 27 1 1 = true /\ validate_sig 28 (secp_N - 1) secp_half_N = true /\
  validate_sig 27 1 (secp_half_N + 1) = false /\ validate_sig 27 secp_N 1 = false /\
  validate_sig 27 0 1 = false /\ validate_sig 27 1 0 = false /\
  validate_sig 26 1 1 = false /\ validate_sig 29 1 1 = false /\ validate_sig 0 1 1 = false /\
  validate_sig 283 1 1 = false.
Proof. vm_compute. repeat split; reflexivity. Qed.

Print Assumptions C23_decode_encode.
Print Assumptions C23_encode_decode.
Print Assumptions C23_no_second_encoding.
Print Assumptions C23_accepted_iff_canonical.
Print Assumptions C23_noncanonical_rejected.
Print Assumptions C23_uint64_roundtrip.
Print Assumptions C23_uint32_roundtrip.
Print Assumptions C23_uint8_roundtrip.
Print Assumptions C23_bigint_roundtrip.
Print Assumptions C23_uint_canonical.
Print Assumptions C23_uint64_range.
Print Assumptions C23_uint32_range.
Print Assumptions C23_uint8_range.
Print Assumptions C23_tx_decode_encode.
Print Assumptions C23_tx_encode_decode.
Print Assumptions C23_tx_no_second_encoding.
Print Assumptions C23_wf_tx_intro.
Print Assumptions C23_sig_decode_encode.
Print Assumptions C23_sig_encode_decode.
Print Assumptions C23_check_decode_encode.
Print Assumptions C23_check_encode_decode.
Print Assumptions C23_validate_sig_spec.
Print Assumptions C23_high_s_rejected.
Print Assumptions C23_bad_v_rejected.
Print Assumptions C23_bad_rs_rejected.
Print Assumptions C23_signing_bytes_injective.
Print Assumptions C23_sender_is_signer.
Print Assumptions C23_sender_high_s_twin.
