(* C01 — coin supply is conserved; the base coin only grows by the block emission.  Theorems only.
   Transaction level on the ledger model (ten transaction types, failed-transaction fee, ticker
   burn, frozen-fund maturity); the block-level part (rewards, emission) is C19 / C28; pools and
   orders: C13 / C14; the whole node is watched by the conservation monitor. *)
From Minter Require Import Base Ledger LedgerFacts LedgerTx LedgerProps LedgerCons LedgerExample.
From Coq Require Import ZArith List.
Import ListNotations.
Open Scope Z_scope.

(* For every history of transactions and block phases and every custom coin c, recorded volume
   minus holdings (balances + frozen funds) never changes: in particular it stays 0. *)
Theorem C01_custom_coin_conserved : forall ops s c, c <> 0 -> 0 <= s_ncoins s ->
  vol_of (s_coins (run_ops s ops)) c - held (run_ops s ops) c = vol_of (s_coins s) c - held s c.
Proof.
  intros ops s c Hc Hn. pose proof (history_conserves ops s c Hn) as H. unfold gap in H.
  destruct (Z.eqb_spec c 0); [contradiction|]. lia.
Qed.

(* For the base coin, holdings plus the block's reward pool change over a history only by what
   EndBlock hands over to the validators' reward accrual (Model/Rewards.v): no transaction, fee,
   failed-transaction fee, ticker burn or fund maturity creates or destroys base coin. *)
Theorem C01_base_coin_conserved : forall ops s, 0 <= s_ncoins s ->
  held (run_ops s ops) 0 + s_rpool (run_ops s ops) + handed s ops
  = held s 0 + s_rpool s + (vol_of (s_coins (run_ops s ops)) 0 - vol_of (s_coins s) 0).
Proof.
  intros ops s Hn. pose proof (history_conserves ops s 0 Hn) as H. unfold gap in H. cbn [Z.eqb] in H. lia.
Qed.

(* one delivered transaction, any outcome *)
Theorem C01_transaction_conserves : forall s t s' code c, deliver s t = (s', code) -> 0 <= s_ncoins s ->
  vol_of (s_coins s') c - held s' c - (if c =? 0 then s_rpool s' else 0)
  = vol_of (s_coins s) c - held s c - (if c =? 0 then s_rpool s else 0).
Proof. intros s t s' code c H Hn. exact (proj1 (deliver_conserves s t s' code c H Hn)). Qed.

Example C01_example :
  let s1 := run_ops ex_state [OpBegin 50; OpTx ex_create; OpTx ex_mint; OpTx ex_lock; OpTx ex_overspend; OpEnd; OpBegin 51; OpBegin 52] in
  vol_of (s_coins s1) 1 = 1700 /\ held s1 1 = 1700 /\ get_bal (s_bal s1) 12 0 = 100000 - 106 /\ s_frozen s1 = [] /\
  held s1 0 + handed ex_state [OpBegin 50; OpTx ex_create; OpTx ex_mint; OpTx ex_lock; OpTx ex_overspend; OpEnd] = 300000.
Proof. vm_compute. repeat split. Qed.

Print Assumptions C01_custom_coin_conserved.
Print Assumptions C01_base_coin_conserved.
Print Assumptions C01_transaction_conserves.
