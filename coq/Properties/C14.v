(* C14 — limit orders execute at their price, in priority order, and refund exactly.
   Theorems only; proofs are in Proofs/OrdersPriority.v.

   The conversions amount1 = Float.SetRat(price*amount0).Int() and amount0 =
   Float.SetRat(amount1/price).Int() enter as parameters rmi/rdi with the hypothesis that
   they return the floor of the exact quotient or one more ([rmi_spec]/[rdi_spec]).  The
   executable instances (Model/Float.v) are tied to math/big by the float differential and
   the hypothesis itself is evaluated on every sampled call by the harness monitor; it is
   not proved for the float model (C14 is therefore labelled partial in that one respect). *)
From Minter Require Import Base Consts Pool Float Orders PoolFacts OrdersFacts OrdersPriority.
From Coq Require Import ZArith List.
Import ListNotations.
Open Scope Z_scope.

Definition rmi_spec (rmi : Z -> Z -> Z -> Z) : Prop :=
  forall s b a, 0 < s -> 0 < b -> 0 <= a -> s * a / b <= rmi s b a <= s * a / b + 1.
Definition rdi_spec (rdi : Z -> Z -> Z -> Z) : Prop :=
  forall s b a, 0 < s -> 0 < b -> 0 <= a -> a * b / s <= rdi s b a <= a * b / s + 1.

(* (1)+(2): a taker sell consumes the book strictly in book order (best price first, lower
   id first among equal 53-bit prices — the order [sort_book] produces), every order but
   the last completely, and each fill gives the maker its price up to one unit *)
Theorem C14_sell_priority_and_price : forall orc rmi r0 r1 ain book out fs,
  rmi_spec rmi -> 0 < r0 -> 0 < r1 -> 0 <= ain ->
  bfs_loop orc rmi r0 r1 ain book = Val (out, fs) ->
  fills_prefix book fs /\ map fid fs = map oid (firstn (length fs) book).
Proof.
  intros orc rmi r0 r1 ain book out fs Hs H0 H1 Ha E.
  pose proof (bfs_loop_prefix orc rmi Hs book r0 r1 ain out fs H0 H1 Ha E) as P.
  split; [exact P|exact (fills_prefix_ids book fs P)].
Qed.

Theorem C14_buy_priority_and_price : forall orc rdi r0 r1 aout book i fs,
  rdi_spec rdi -> 0 < r0 -> 0 < r1 -> 0 <= aout ->
  sfb_loop orc rdi r0 r1 aout book = Val (i, fs) ->
  fills_prefix book fs /\ map fid fs = map oid (firstn (length fs) book).
Proof.
  intros orc rdi r0 r1 aout book i fs Hs H0 H1 Ha E.
  pose proof (sfb_loop_prefix orc rdi Hs book r0 r1 aout i fs H0 H1 Ha E) as P.
  split; [exact P|exact (fills_prefix_ids book fs P)].
Qed.

(* (3) a partially filled order keeps its price (up to the same one unit) *)
Theorem C14_remainder_keeps_price : forall B S b s,
  0 < B -> 0 < S -> 0 <= b <= B -> 0 <= s <= S -> price_ok B S b s ->
  (S - s) * B + B >= (B - b) * S \/ (S - s) * B + S >= (B - b) * S.
Proof. exact remainder_keeps_price. Qed.

(* (4) applying a fill: an emptied order disappears; a remainder below the minimum volume
   (10^10, spec literal via Consts) closes the order and refunds exactly the remaining
   WantSell to its owner; otherwise the order stays with reduced volumes *)
Theorem C14_little_closed : forall dir f book book' refunds,
  NoDup (map oid book) ->
  apply_fill dir f book = (book', refunds) ->
  forall l, In l book -> oid l = fid f ->
    let b := obuy l - fbuy f in let s := osell l - fsell f in
    (is_empty b s = true -> no_id (fid f) book' /\ refunds = []) /\
    (is_empty b s = false -> ((b <? 10000000000) || (s <? 10000000000)) = true ->
       no_id (fid f) book' /\ refunds = [(oid l, oowner l, s)]) /\
    (is_empty b s = false -> ((b <? 10000000000) || (s <? 10000000000)) = false ->
       refunds = [] /\ exists l', In l' book' /\ oid l' = oid l /\ obuy l' = b /\ osell l' = s /\ oowner l' = oowner l).
Proof. exact apply_fill_spec. Qed.

(* (5) cancelling returns exactly the unfilled WantSell of that order, removes it, and a
   second cancel finds nothing *)
Theorem C14_cancel_exact_once : forall id book book' l,
  NoDup (map oid book) ->
  remove_order id book = Some (book', l) ->
  In l book /\ oid l = id /\ no_id id book' /\ remove_order id book' = None /\
  (forall x, In x book' -> In x book) /\ (forall x, In x book -> x = l \/ In x book').
Proof. exact remove_order_spec. Qed.

Example C14_example :
  let book := sort_book true
    [ {| oid := 1; obuy := 20000000000; osell := 39000000000; oowner := 7; oheight := 1 |};
      {| oid := 2; obuy := 20000000000; osell := 39500000000; oowner := 8; oheight := 1 |};
      {| oid := 3; obuy := 40000000000; osell := 79000000000; oowner := 9; oheight := 1 |} ] in
  map oid book = [3; 2; 1]%Z \/ map oid book = [2; 3; 1]%Z \/ map oid book = [2; 1; 3]%Z.
Proof. vm_compute. auto. Qed.

Example C14_trade_example :
  let book := sort_book true
    [ {| oid := 1; obuy := 20000000000; osell := 39000000000; oowner := 7; oheight := 1 |};
      {| oid := 2; obuy := 20000000000; osell := 39500000000; oowner := 8; oheight := 1 |} ] in
  match bfs_loop oracle_float rat_mul_int 1000000000000 2000000000000 50000000000 book with
  | Val (out, fs) => map fid fs = [2; 1] /\ 0 < out
  | _ => False
  end.
Proof. vm_compute. split; reflexivity. Qed.

Print Assumptions C14_sell_priority_and_price.
Print Assumptions C14_buy_priority_and_price.
Print Assumptions C14_remainder_keeps_price.
Print Assumptions C14_little_closed.
Print Assumptions C14_cancel_exact_once.
