(* C04 — a signed transaction takes effect at most once and only in order.  Theorems only. *)
From Minter Require Import Base Ledger LedgerFacts LedgerTx LedgerProps LedgerExample.
From Coq Require Import ZArith List.
Import ListNotations.
Open Scope Z_scope.

(* accepted only with the network's chain id and nonce = last nonce + 1 *)
Theorem C04_accepted_in_order : forall s t s',
  deliver s t = (s', 0) -> t_chain_ok t = true /\ t_nonce t = get_nonce (s_nonce s) (sender_of t) + 1.
Proof. intros s t s' H. destruct (accept_nonce s t s' H) as (A & B & _). split; assumption. Qed.

(* nonces never decrease along any history of transactions and block phases *)
Theorem C04_nonce_monotone : forall ops s a, get_nonce (s_nonce s) a <= get_nonce (s_nonce (run_ops s ops)) a.
Proof. exact run_ops_nonce_mono. Qed.

(* once accepted, delivering the same transaction again — or any transaction of that sender with
   a nonce not above it — after any further history is rejected and leaves the state untouched *)
Theorem C04_no_replay : forall s t s1 ops t',
  deliver s t = (s1, 0) -> sender_of t' = sender_of t -> t_nonce t' <= t_nonce t ->
  let s2 := run_ops s1 ops in exists c, c <> 0 /\ deliver s2 t' = (s2, c).
Proof. exact no_replay. Qed.

(* a transaction signed for another network is refused by both entry points and changes nothing *)
Theorem C04_foreign_chain_rejected : forall s t,
  t_chain_ok t = false -> deliver s t = (s, cWrongChainID) /\ check s t = cWrongChainID.
Proof.
  intros s t H. assert (G : gate s t = Some cWrongChainID) by (unfold gate; rewrite H; reflexivity).
  split; [unfold deliver|unfold check]; rewrite G; reflexivity.
Qed.

Example C04_example :
  let s1 := fst (deliver ex_state ex_send) in
  snd (deliver ex_state ex_send) = 0 /\ deliver s1 ex_send = (s1, 101) /\
  snd (deliver ex_state (mk_tx 11 2 (Send 0 12 1))) = 101.
Proof. vm_compute. repeat split. Qed.

Print Assumptions C04_accepted_in_order.
Print Assumptions C04_nonce_monotone.
Print Assumptions C04_no_replay.
Print Assumptions C04_foreign_chain_rejected.
