(* C20 — governance decisions need strictly more than two-thirds of the voting power. *)
From Minter Require Import Base Govern GovernFacts.
From Minter Require PowerTable PowerTableFacts.
From Coq Require Import ZArith List.
Import ListNotations.
Open Scope Z_scope.

(* halt: accepted iff the validators that voted hold strictly more than 2/3 of the power
   of the validators present *)
Theorem C20_halt_iff : forall total voted,
  halted total voted = true <-> 3 * voted > 2 * total.
Proof. intros; apply more_than_two_thirds_spec. Qed.

(* commission price / network update: with each present validator voting for at most one
   proposal (supports sum to at most the total), proposal k takes effect iff its support is
   strictly more than 2/3; in particular nothing takes effect when no proposal reaches it,
   and the proposal with the largest support is the only possible winner *)
Theorem C20_decide_iff : forall total props,
  0 < total -> (forall x, In x props -> 0 <= x) -> sum_Z props <= total ->
  forall k, 0 < k ->
  (decide total props = k <-> exists v, prop_at props k = Some v /\ 3 * v > 2 * total).
Proof. exact decide_spec. Qed.

(* the exact boundary is rejected (spec literal 2/3): two of three equal validators *)
Example C20_two_of_three_rejected : decide 3 [2] = 0 /\ halted 3 2 = false /\ decide 300 [201; 99] = 1.
Proof. vm_compute. auto. Qed.

(* "of the voting power of the validators present in that block": the table the decisions read holds exactly the
   validators recorded as having signed the last block and not being dropped; a validator that is absent, missing
   from the commit info, or being dropped changes neither the total nor any vote sum, whether or not it voted *)
Theorem C20_only_present_validators_count : forall l1 v l2 voters,
  PowerTable.in_table v = false ->
  PowerTable.total_power (l1 ++ v :: l2) = PowerTable.total_power (l1 ++ l2) /\
  PowerTable.voted_power (l1 ++ v :: l2) voters = PowerTable.voted_power (l1 ++ l2) voters.
Proof. intros l1 v l2 voters H. destruct (PowerTableFacts.not_present_irrelevant l1 v l2 voters H) as (_ & A & B). split; assumption. Qed.

Theorem C20_table_members : forall l v,
  In v (PowerTable.table l) <-> In v l /\ PowerTable.v_status v = 1 /\ PowerTable.v_drop v = false.
Proof. exact PowerTableFacts.table_members. Qed.

(* the composition: a halt takes effect iff the present validators that voted hold more than 2/3 of the present power *)
Theorem C20_halt_by_present_power : forall l voters,
  halted (PowerTable.total_power l) (PowerTable.voted_power l voters) = true <->
  3 * PowerTable.voted_power l voters > 2 * PowerTable.total_power l.
Proof. intros. apply C20_halt_iff. Qed.

Example C20_newcomer_does_not_count :
  (* A, B, C signed; D (stake 20000) joined the application's list but is not in the commit info yet: A, B, D vote *)
  let l := [ {| PowerTable.v_key := 1; PowerTable.v_stake := 10000; PowerTable.v_status := 1; PowerTable.v_drop := false |};
             {| PowerTable.v_key := 2; PowerTable.v_stake := 10000; PowerTable.v_status := 1; PowerTable.v_drop := false |};
             {| PowerTable.v_key := 3; PowerTable.v_stake := 15000; PowerTable.v_status := 1; PowerTable.v_drop := false |};
             {| PowerTable.v_key := 4; PowerTable.v_stake := 20000; PowerTable.v_status := 0; PowerTable.v_drop := false |} ] in
  PowerTable.total_power l = 35000 /\ PowerTable.voted_power l [1; 2; 4] = 20000 /\
  halted (PowerTable.total_power l) (PowerTable.voted_power l [1; 2; 4]) = false.
Proof. vm_compute. auto. Qed.

Print Assumptions C20_halt_iff.
Print Assumptions C20_decide_iff.
Print Assumptions C20_only_present_validators_count.
Print Assumptions C20_table_members.
Print Assumptions C20_halt_by_present_power.
