(* C20 — governance decisions need strictly more than two-thirds of the voting power. *)
From Minter Require Import Base Govern GovernFacts.
From Coq Require Import ZArith List.
Import ListNotations.
Open Scope Z_scope.

(* halt: accepted iff the validators that voted hold strictly more than 2/3 of the power
   of the validators present *)
Theorem C20_halt_iff : forall total voted,
  halted total voted = true <-> 3 * voted > 2 * total.
Proof. intros; apply more_than_two_thirds_spec. Qed.

(* commission price / network update: with each present validator voting for at most one
   proposal (supports sum to at most the total), proposal k takes effect iff its support is
   strictly more than 2/3; in particular nothing takes effect when no proposal reaches it,
   and the proposal with the largest support is the only possible winner *)
Theorem C20_decide_iff : forall total props,
  0 < total -> (forall x, In x props -> 0 <= x) -> sum_Z props <= total ->
  forall k, 0 < k ->
  (decide total props = k <-> exists v, prop_at props k = Some v /\ 3 * v > 2 * total).
Proof. exact decide_spec. Qed.

(* the exact boundary is rejected (spec literal 2/3): two of three equal validators *)
Example C20_two_of_three_rejected : decide 3 [2] = 0 /\ halted 3 2 = false /\ decide 300 [201; 99] = 1.
Proof. vm_compute. auto. Qed.

Print Assumptions C20_halt_iff.
Print Assumptions C20_decide_iff.
