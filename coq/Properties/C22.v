(* C22 — coin registry: fresh ids, owner-only control, minting within max supply.  Theorems only. *)
From Minter Require Import Base Ledger LedgerFacts LedgerTx LedgerProps LedgerCons LedgerReg LedgerExample.
From Coq Require Import ZArith List.
Import ListNotations.
Open Scope Z_scope.

(* every new coin or token gets the next unused id (counter + 1), the counter follows *)
Theorem C22_create_fresh_id : forall s t s' sym symlen symok namelen init maxs mintable burnable,
  t_data t = CreateToken sym symlen symok namelen init maxs mintable burnable -> deliver s t = (s', 0) ->
  sym_exists s sym = false /\ symok = true /\ 1 <= init <= maxs /\ maxs <= 10 ^ 33 /\
  s_ncoins s' = s_ncoins s + 1 /\
  s_coins s' = s_coins s ++ [{| c_id := s_ncoins s + 1; c_sym := sym; c_ver := 0; c_vol := init; c_max := maxs; c_mint := mintable; c_burn := burnable |}] /\
  get_owner (s_symowner s') sym = Some (sender_of t).
Proof. exact createtoken_spec. Qed.

(* ids are never reused: along any history every coin id stays at most the counter, the counter
   never decreases, and every creation uses counter + 1 *)
Theorem C22_ids_never_reused : forall ops s, ids_bounded s -> ids_bounded (run_ops s ops) /\ s_ncoins s <= s_ncoins (run_ops s ops).
Proof. exact run_ops_ids. Qed.

(* recreating: only by the ticker owner; the old coin keeps its id under version max+1 (uint16), the
   new coin has a fresh id and version 0; the ticker owner is unchanged *)
Theorem C22_recreate : forall s t s' sym namelen init maxs mintable burnable,
  t_data t = RecreateToken sym namelen init maxs mintable burnable -> deliver s t = (s', 0) ->
  exists old, find_sym (s_coins s) sym 0 = Some old /\ get_owner (s_symowner s) sym = Some (sender_of t) /\
    1 <= init <= maxs /\ maxs <= 10 ^ 33 /\ s_ncoins s' = s_ncoins s + 1 /\
    s_coins s' = upd_coin (s_coins s) (c_id old)
                          (fun r => {| c_id := c_id r; c_sym := c_sym r; c_ver := (max_version (s_coins s) sym 0 + 1) mod 2 ^ 16;
                                       c_vol := c_vol r; c_max := c_max r; c_mint := c_mint r; c_burn := c_burn r |})
                 ++ [{| c_id := s_ncoins s + 1; c_sym := sym; c_ver := 0; c_vol := init; c_max := maxs; c_mint := mintable; c_burn := burnable |}] /\
    s_symowner s' = s_symowner s.
Proof. exact recreate_spec. Qed.

(* changing the owner: only by the current ticker owner *)
Theorem C22_edit_owner : forall s t s' sym newowner,
  t_data t = EditCoinOwner sym newowner -> deliver s t = (s', 0) ->
  get_owner (s_symowner s) sym = Some (sender_of t) /\ get_owner (s_symowner s') sym = Some newowner /\ s_coins s' = s_coins s.
Proof. exact editowner_spec. Qed.

(* minting: only the ticker owner, only the active (version 0) mintable coin, within max supply; pool
   tokens have no ticker owner, so they cannot be minted *)
Theorem C22_mint : forall s t s' coin value,
  t_data t = MintToken coin value -> deliver s t = (s', 0) ->
  exists c, find_coin (s_coins s) coin = Some c /\ coin <> 0 /\ c_mint c = true /\ c_ver c = 0 /\
            get_owner (s_symowner s) (c_sym c) = Some (sender_of t) /\ c_vol c + value <= c_max c /\
            vol_of (s_coins s') coin = vol_of (s_coins s) coin + value.
Proof. exact mint_spec. Qed.

Example C22_example :
  let s1 := fst (deliver ex_state ex_create) in
  let s2 := fst (deliver s1 ex_mint) in
  snd (deliver ex_state ex_create) = 0 /\ s_ncoins s1 = 1 /\ snd (deliver s1 ex_mint) = 0 /\ vol_of (s_coins s2) 1 = 1700 /\
  (* somebody else cannot mint, re-own or recreate; the same ticker cannot be created twice *)
  snd (deliver s1 (mk_tx 12 1 (MintToken 1 5))) = 206 /\
  snd (deliver s1 (mk_tx 12 1 (EditCoinOwner 4242 12))) = 206 /\
  snd (deliver s1 (mk_tx 12 1 (RecreateToken 4242 1 10 10 true true))) = 206 /\
  snd (deliver s1 (mk_tx 12 1 (CreateToken 4242 7 true 3 1000 5000 true true))) = 201 /\
  (* above max supply *)
  snd (deliver s1 (mk_tx 11 2 (MintToken 1 4001))) = 206.
Proof. vm_compute. repeat split. Qed.

Print Assumptions C22_create_fresh_id.
Print Assumptions C22_ids_never_reused.
Print Assumptions C22_recreate.
Print Assumptions C22_edit_owner.
Print Assumptions C22_mint.
