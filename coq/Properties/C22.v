(* C22 — coin registry: fresh ids, owner-only control, minting within max supply.  Theorems only. *)
From Minter Require Import Base Ledger LedgerFacts LedgerTx LedgerProps LedgerCons LedgerReg LedgerUnique LedgerExample.
From Coq Require Import ZArith List.
Import ListNotations.
Open Scope Z_scope.

(* every new coin or token gets the next unused id (counter + 1), the counter follows *)
Theorem C22_create_fresh_id : forall s t s' sym symlen symok namelen init maxs mintable burnable,
  t_data t = CreateToken sym symlen symok namelen init maxs mintable burnable -> deliver s t = (s', 0) ->
  sym_exists s sym = false /\ symok = true /\ 1 <= init <= maxs /\ maxs <= 10 ^ 33 /\
  s_ncoins s' = s_ncoins s + 1 /\
  s_coins s' = s_coins s ++ [{| c_id := s_ncoins s + 1; c_sym := sym; c_ver := 0; c_vol := init; c_max := maxs; c_mint := mintable; c_burn := burnable |}] /\
  get_owner (s_symowner s') sym = Some (sender_of t).
Proof. exact createtoken_spec. Qed.

(* ids are never reused: along any history every coin id stays at most the counter, the counter
   never decreases, and every creation uses counter + 1 *)
Theorem C22_ids_never_reused : forall ops s, ids_bounded s -> ids_bounded (run_ops s ops) /\ s_ncoins s <= s_ncoins (run_ops s ops).
Proof. exact run_ops_ids. Qed.

(* recreating: only by the ticker owner; the old coin keeps its id under version max+1 (uint16), the
   new coin has a fresh id and version 0; the ticker owner is unchanged *)
Theorem C22_recreate : forall s t s' sym namelen init maxs mintable burnable,
  t_data t = RecreateToken sym namelen init maxs mintable burnable -> deliver s t = (s', 0) ->
  exists old, find_sym (s_coins s) sym 0 = Some old /\ get_owner (s_symowner s) sym = Some (sender_of t) /\
    1 <= init <= maxs /\ maxs <= 10 ^ 33 /\ s_ncoins s' = s_ncoins s + 1 /\
    s_coins s' = upd_coin (s_coins s) (c_id old)
                          (fun r => {| c_id := c_id r; c_sym := c_sym r; c_ver := (max_version (s_coins s) sym 0 + 1) mod 2 ^ 16;
                                       c_vol := c_vol r; c_max := c_max r; c_mint := c_mint r; c_burn := c_burn r |})
                 ++ [{| c_id := s_ncoins s + 1; c_sym := sym; c_ver := 0; c_vol := init; c_max := maxs; c_mint := mintable; c_burn := burnable |}] /\
    s_symowner s' = s_symowner s.
Proof. exact recreate_spec. Qed.

(* changing the owner: only by the current ticker owner *)
Theorem C22_edit_owner : forall s t s' sym newowner,
  t_data t = EditCoinOwner sym newowner -> deliver s t = (s', 0) ->
  get_owner (s_symowner s) sym = Some (sender_of t) /\ get_owner (s_symowner s') sym = Some newowner /\ s_coins s' = s_coins s.
Proof. exact editowner_spec. Qed.

(* minting: only the ticker owner, only the active (version 0) mintable coin, within max supply; pool
   tokens have no ticker owner, so they cannot be minted *)
Theorem C22_mint : forall s t s' coin value,
  t_data t = MintToken coin value -> deliver s t = (s', 0) ->
  exists c, find_coin (s_coins s) coin = Some c /\ coin <> 0 /\ c_mint c = true /\ c_ver c = 0 /\
            get_owner (s_symowner s) (c_sym c) = Some (sender_of t) /\ c_vol c + value <= c_max c /\
            vol_of (s_coins s') coin = vol_of (s_coins s) coin + value.
Proof. exact mint_spec. Qed.

Example C22_example :
  let s1 := fst (deliver ex_state ex_create) in
  let s2 := fst (deliver s1 ex_mint) in
  snd (deliver ex_state ex_create) = 0 /\ s_ncoins s1 = 1 /\ snd (deliver s1 ex_mint) = 0 /\ vol_of (s_coins s2) 1 = 1700 /\
  (* somebody else cannot mint, re-own or recreate; the same ticker cannot be created twice *)
  snd (deliver s1 (mk_tx 12 1 (MintToken 1 5))) = 206 /\
  snd (deliver s1 (mk_tx 12 1 (EditCoinOwner 4242 12))) = 206 /\
  snd (deliver s1 (mk_tx 12 1 (RecreateToken 4242 1 10 10 true true))) = 206 /\
  snd (deliver s1 (mk_tx 12 1 (CreateToken 4242 7 true 3 1000 5000 true true))) = 201 /\
  (* above max supply *)
  snd (deliver s1 (mk_tx 11 2 (MintToken 1 4001))) = 206.
Proof. vm_compute. repeat split. Qed.


(* active tickers are unique: along any history in which no recreation wraps a ticker's uint16 version
   counter (ops_bound), ids stay distinct and every ticker has at most one active (version 0) coin *)
Theorem C22_active_tickers_unique : forall ops s, uinv s -> ops_bound s ops ->
  uinv (run_ops s ops) /\
  forall c1 c2, In c1 (s_coins (run_ops s ops)) -> In c2 (s_coins (run_ops s ops)) ->
                c_ver c1 = 0 -> c_ver c2 = 0 -> c_sym c1 = c_sym c2 -> c1 = c2.
Proof.
  intros ops s Hu Hb. pose proof (run_ops_uinv ops s Hu Hb) as H. split; [exact H|].
  intros c1 c2. apply uinv_unique. exact H.
Qed.

(* without that bound the statement is false of the model (and of the code: types.CoinVersion is uint16 and
   RecreateToken stores maxVersion+1): recreating a ticker whose archived versions reach 65535 gives the
   archived coin version 0 again, next to the new active coin *)
Definition wrap_state : st :=
  {| s_bal := [(11, 0, 100000)]; s_nonce := [];
     s_coins := [ {| c_id := 1; c_sym := 4242; c_ver := 65535; c_vol := 10; c_max := 10; c_mint := true; c_burn := true |};
                  {| c_id := 2; c_sym := 4242; c_ver := 0; c_vol := 10; c_max := 10; c_mint := true; c_burn := true |} ];
     s_symowner := [(4242, 11)]; s_ncoins := 2; s_rpool := 0; s_used := []; s_msig := []; s_frozen := []; s_height := 50;
     s_prices := ex_prices; s_base_sym := 777 |}.

Theorem C22_unique_refuted_at_version_wrap :
  exists s t, uinv s /\ snd (deliver s t) = 0 /\ ~ uinv (fst (deliver s t)) /\
              count_active (s_coins (fst (deliver s t))) 4242 = 2%nat.
Proof.
  exists wrap_state, (mk_tx 11 1 (RecreateToken 4242 1 10 10 true true)).
  split; [|split; [vm_compute; reflexivity|split; [|vm_compute; reflexivity]]].
  - split; [|split].
    + cbn. repeat constructor; cbn; intuition discriminate.
    + intros r [<-|[<-|[]]]; cbn; lia.
    + intros sym. unfold count_active, wrap_state, act. cbn [s_coins filter c_sym c_ver].
      replace (65535 =? 0) with false by reflexivity. rewrite andb_false_r. destruct (4242 =? sym); cbn; lia.
  - intros (_ & _ & Hc). specialize (Hc 4242). vm_compute in Hc. lia.
Qed.

Example C22_unique_nonvacuous :
  let ops := [OpTx ex_create; OpTx ex_mint; OpTx (mk_tx 11 3 (RecreateToken 4242 1 10 10 true true))] in
  uinv ex_state /\ ops_bound ex_state ops /\ s_ncoins (run_ops ex_state ops) = 2 /\
  map (fun c => (c_id c, c_ver c)) (s_coins (run_ops ex_state ops)) = [(1, 1); (2, 0)].
Proof.
  split; [split; [constructor|split; [intros r []|intros sym; cbn; lia]]|].
  split; [cbn [ops_bound op_bound]; unfold recreate_bound; repeat split; vm_compute; reflexivity|].
  split; vm_compute; reflexivity.
Qed.

Print Assumptions C22_create_fresh_id.
Print Assumptions C22_ids_never_reused.
Print Assumptions C22_recreate.
Print Assumptions C22_edit_owner.
Print Assumptions C22_mint.
Print Assumptions C22_active_tickers_unique.
Print Assumptions C22_unique_refuted_at_version_wrap.
