(* C28 — block reward follows the price rule and stops at the emission cap.  Theorems only.
   Model: Model/RewardRule.v (constants regenerated from the Go source into Generated/Consts.v);
   the literals of the property text (10^10 BIP cap, 350, 10 BIP, -10 %, 12..14 h, 3 h, period
   offset 1) appear in the statements.  pc is the oracle value of priceCount (350 * p^(1/4) BIP),
   specified by [is_root] and checked on every observed value by [price_count_ok]. *)
From Minter Require Import Base Consts RewardRule RewardRuleFacts.
From Coq Require Import ZArith List Bool Lia.
Import ListNotations.
Open Scope Z_scope.

(* (1) BeginBlock changes the block reward, the safe reward or the stored price record only
   (a) below the cap, with the BIP/USDT pool present, on the first block of a stake period
       (height mod period = 1), and then only if there is no price record at all or the block's
       hour is 12..14 and the block time is more than 3 h after the stored update time; or
   (b) at/after the cap, where both rewards become 0 and the record is untouched. *)
Theorem C28_reward_changes_only_in_window : forall s h period hour t pool pc s',
  begin_block s h period hour t pool pc = Val s' ->
  rs_reward s' <> rs_reward s \/ rs_safe s' <> rs_safe s \/ rs_price s' <> rs_price s ->
  (rs_emission s < 10 ^ 10 * 10 ^ 18 /\
   is_some pool = true /\ h mod period = 1 /\
   (rs_price s = None \/ (12 <= hour <= 14 /\ t - stored_time (rs_price s) > 3 * 3600 * 10 ^ 9))) \/
  (10 ^ 10 * 10 ^ 18 <= rs_emission s /\ rs_reward s' = 0 /\ rs_safe s' = 0 /\ rs_price s' = rs_price s).
Proof. exact reward_changes_only_in_window. Qed.

(* ... and in the window the update does happen: the record takes the block time and the pool's
   reserves, the safe reward becomes the price-derived value, the validators' reward the stored
   level (the only exception: App.SetReward ignores a change from safe reward 0 to 0) *)
Theorem C28_window_update : forall s h period hour t r0 r1 pc s',
  rs_emission s < 10 ^ 10 * 10 ^ 18 ->
  begin_block s h period hour t (Some (r0, r1)) pc = Val s' ->
  h mod period = 1 -> 12 <= hour <= 14 -> t - stored_time (rs_price s) > 3 * 3600 * 10 ^ 9 ->
  exists p', rs_price s' = Some p' /\ pr_t p' = t /\ pr_r0 p' = r0 /\ pr_r1 p' = r1 /\
             (rs_safe s' = pc /\ rs_reward s' = pr_last p' \/
              rs_safe s = 0 /\ pc = 0 /\ rs_reward s' = rs_reward s /\ rs_safe s' = 0).
Proof. exact window_update. Qed.

(* DECIDED: the "t.IsZero()" disjunct is dead for any chain started through InitChain.  InitChain
   always stores a price record, a stored time is read back as time.Unix(0, int64 T) (never year 1),
   and a record never disappears; so from genesis on every update is inside the daily window —
   also the first one, also with PrevReward.Time = 0 (which is 1970, not "no previous update"). *)
Theorem C28_is_zero_branch_dead_after_genesis : forall period T R0 R1 last off e bs s',
  rr_run_history period (genesis_state T R0 R1 last off e) bs = Val s' ->
  exists p, rs_price s' = Some p /\
    forall h hour t pe, should_update h period hour t (rs_price s') pe = true ->
      pe = true /\ h mod period = 1 /\ 12 <= hour <= 14 /\ t - pr_t p > 3 * 3600 * 10 ^ 9.
Proof.
  intros period T R0 R1 last off e bs s' H.
  assert (Hn : rs_price s' <> None) by (apply (history_keeps_price _ _ _ _ H); discriminate).
  destruct (rs_price s') as [p|] eqn:E; [|congruence]. exists p. split; [reflexivity|].
  intros h hour t pe Hs. apply should_update_spec in Hs. cbn [stored_time] in Hs.
  destruct Hs as (A & B & [C|C]); [discriminate|]. repeat split; lia.
Qed.

(* (2) the percentage is the floor of the exact percentage change of the pool price r1/r0 against
   the stored price R1/R0 ... *)
Theorem C28_percent_is_floor : forall R0 R1 r0 r1, 0 < R1 -> 0 < r0 ->
  let d := pct_change R0 R1 r0 r1 in
  d * (R1 * r0) <= 100 * (r1 * R0 - R1 * r0) < (d + 1) * (R1 * r0).
Proof. exact pct_change_floor. Qed.

(* ... so "-10 % or worse, rounded down" means: the new price is below 91 % of the stored one *)
Theorem C28_drop_iff_below_91_percent : forall R0 R1 r0 r1, 0 < R1 -> 0 < r0 ->
  (pct_change R0 R1 r0 r1 <= -10 <-> 100 * (r1 * R0) < 91 * (R1 * r0)).
Proof. exact drop_iff. Qed.

(* (3) a change of -10 % or worse: validators' reward 0, recovery switched on, level reset to 0,
   safe reward = price-derived value *)
Theorem C28_drop_switches_off : forall o t r0 r1 pc p' nr ns,
  update_price_fix (Some o) t r0 r1 pc = Val (p', nr, ns) ->
  pct_change (pr_r0 o) (pr_r1 o) r0 r1 <= -10 ->
  nr = 0 /\ ns = pc /\ pr_off p' = true /\ pr_last p' = 0.
Proof. exact drop_switches_off. Qed.

(* (4) recovery: while off and below the price-derived level, a qualifying update that is not a
   new drop adds exactly 10 BIP, capped at the price-derived level, where off is cleared *)
Theorem C28_recovery_step : forall o t r0 r1 pc p' nr ns,
  update_price_fix (Some o) t r0 r1 pc = Val (p', nr, ns) ->
  -10 < pct_change (pr_r0 o) (pr_r1 o) r0 r1 ->
  pr_off o = true -> pr_last o < pc ->
  ns = pc /\
  ((pr_last o + 10 * 10 ^ 18 < pc /\ nr = pr_last o + 10 * 10 ^ 18 /\ pr_last p' = nr /\ pr_off p' = true) \/
   (pc <= pr_last o + 10 * 10 ^ 18 /\ nr = pc /\ pr_last p' = pc /\ pr_off p' = false)).
Proof. exact recovery_step. Qed.

Theorem C28_recovered : forall o t r0 r1 pc p' nr ns,
  update_price_fix (Some o) t r0 r1 pc = Val (p', nr, ns) ->
  -10 < pct_change (pr_r0 o) (pr_r1 o) r0 r1 ->
  pr_off o = false \/ pc <= pr_last o ->
  nr = pc /\ ns = pc /\ pr_last p' = pc /\ pr_off p' = false.
Proof. exact recovered. Qed.

(* n qualifying updates in a row without a new drop (price-derived level pc): the validators'
   reward is min (start + n * 10 BIP, pc), and off is cleared exactly when pc is reached *)
Theorem C28_recovery_iter : forall us o pc o',
  run_updates o us pc = Val o' -> no_drops (pr_r0 o) (pr_r1 o) us ->
  pr_off o = true -> pr_last o < pc ->
  let n := Z.of_nat (length us) in
  pr_last o' = Z.min (pr_last o + n * (10 * 10 ^ 18)) pc /\
  pr_off o' = (pr_last o + n * (10 * 10 ^ 18) <? pc).
Proof. exact recovery_iter. Qed.

(* (5) EndBlock below the cap: the emission grows by exactly the safe reward (plus the locked-stake
   surplus [more] of a payout block), max (safe - reward, 0) is credited to the zero address, and
   reward + that burn (+ more) is added to the base-coin volume *)
Theorem C28_withheld_burned : forall s more s' burn mint,
  end_block s more = (s', (burn, mint)) -> rs_emission s < 10 ^ 10 * 10 ^ 18 ->
  rs_emission s' = rs_emission s + more + rs_safe s /\
  burn = Z.max (rs_safe s - rs_reward s) 0 /\
  rs_burned s' = rs_burned s + burn /\
  mint = more + rs_reward s + burn /\ rs_minted s' = rs_minted s + mint /\
  rs_reward s' = rs_reward s /\ rs_safe s' = rs_safe s /\ rs_price s' = rs_price s.
Proof. exact end_block_below. Qed.

(* in every state reachable from a genesis with a non-negative reward (0 <= reward <= safe): what a
   block creates in base coin is exactly what it adds to the emission, and the burn is safe - reward *)
Theorem C28_minted_equals_emission : forall s more s' burn mint,
  end_block s more = (s', (burn, mint)) -> wf s ->
  mint = rs_emission s' - rs_emission s /\ burn = rs_safe s - rs_reward s \/
  10 ^ 10 * 10 ^ 18 <= rs_emission s /\ mint = 0 /\ burn = 0 /\ s' = s.
Proof. exact minted_equals_emission. Qed.

Theorem C28_wf_reachable : forall period T R0 R1 last off e bs s',
  0 <= last -> Forall (fun b => 0 <= rb_pc b) bs ->
  rr_run_history period (genesis_state T R0 R1 last off e) bs = Val s' -> wf s'.
Proof.
  intros period T R0 R1 last off e bs s' Hl Hpc H.
  exact (wf_history _ _ _ _ H Hpc (wf_genesis T R0 R1 last off e Hl)).
Qed.

(* (6) the cap: once the emission is at or above 10^10 BIP, any further history runs without
   panic, changes neither emission nor minted volume nor burn nor the price record, and from the
   first block on both rewards are 0 *)
Theorem C28_cap_stops : forall period bs s, 10 ^ 10 * 10 ^ 18 <= rs_emission s -> wf s ->
  exists s', rr_run_history period s bs = Val s' /\ rs_emission s' = rs_emission s /\ rs_minted s' = rs_minted s /\
             rs_burned s' = rs_burned s /\ rs_price s' = rs_price s /\
             (bs <> [] -> rs_reward s' = 0 /\ rs_safe s' = 0).
Proof. exact cap_stops. Qed.

(* below the cap every block mints the current safe reward — the one in force after this block's
   BeginBlock; consequently the last block below the cap may carry the emission above 10^10 BIP,
   by less than what that block adds *)
Theorem C28_below_cap_mints : forall period s b s',
  rr_run_block period s b = Val s' -> rs_emission s < 10 ^ 10 * 10 ^ 18 ->
  rs_emission s' = rs_emission s + rb_more b + rs_safe s' /\
  rs_emission s' < 10 ^ 10 * 10 ^ 18 + rb_more b + rs_safe s'.
Proof. exact below_cap_mints. Qed.

(* (7) C07 link: a genesis price record with a zero BIP reserve makes the first update in the
   window divide by zero (big.Rat.SetFrac) *)
Theorem C28_zero_stored_reserve_panics : forall s o h period hour t r0 r1 pc,
  rs_emission s < 10 ^ 10 * 10 ^ 18 -> rs_price s = Some o -> pr_r0 o = 0 -> r0 <> 0 -> period <> 0 ->
  h mod period = 1 -> 12 <= hour <= 14 -> t - pr_t o > 3 * 3600 * 10 ^ 9 ->
  begin_block s h period hour t (Some (r0, r1)) pc = Panic 2802.
Proof. exact zero_stored_reserve_panics. Qed.

(* (8) the oracle: a value accepted by the two-sided check is within 2^-40 relative (+1 unit) of
   the exact specification, the largest X with X^4 * r0 <= (350 * 10^18)^4 * r1 *)
Theorem C28_price_count_check_sound : forall r0 r1 x X,
  price_count_ok r0 r1 x = true ->
  (0 <= X /\ X ^ 4 * r0 <= (350 * 10 ^ 18) ^ 4 * r1 < (X + 1) ^ 4 * r0) ->
  Z.abs (x - X) <= x / 2 ^ 40 + 1.
Proof.
  intros r0 r1 x X H HX. apply (price_count_ok_sound r0 r1 x X H).
  unfold is_root. rewrite root_literal, K_literal. exact HX.
Qed.

(* ---- non-vacuity ---------------------------------------------------------------------------------- *)
Definition bip : Z := 10 ^ 18.

(* an 11 % drop (stored price 100/1000, new 89/1000): validators' reward 0, safe reward pc *)
Example C28_example_drop :
  pct_change 1000 100 1000 89 = -11 /\
  update_price_fix (Some (mk_price 7 1000 100 (74 * bip) false)) 9 1000 89 (72 * bip)
  = Val (mk_price 9 1000 89 0 true, 0, 72 * bip).
Proof. vm_compute. auto. Qed.

(* the boundary: exactly -9 % is not a drop, -9.1 % is (floor = -10) *)
Example C28_example_boundary :
  pct_change 1000 1000 1000 910 = -9 /\ pct_change 1000 1000 1000 909 = -10 /\
  update_price_fix (Some (mk_price 7 1000 1000 (74 * bip) false)) 9 1000 910 (72 * bip)
  = Val (mk_price 9 1000 910 (72 * bip) false, 72 * bip, 72 * bip) /\
  update_price_fix (Some (mk_price 7 1000 1000 (74 * bip) false)) 9 1000 909 (72 * bip)
  = Val (mk_price 9 1000 909 0 true, 0, 72 * bip).
Proof. vm_compute. auto. Qed.

(* recovery: from 0 towards 25 BIP in steps of 10 BIP: 10, 20, then 25 with off cleared *)
Example C28_example_recovery :
  run_updates (mk_price 0 1000 89 0 true) [(1, 1000, 89); (2, 1000, 90)] (25 * bip)
  = Val (mk_price 2 1000 90 (20 * bip) true) /\
  run_updates (mk_price 0 1000 89 0 true) [(1, 1000, 89); (2, 1000, 90); (3, 1000, 91)] (25 * bip)
  = Val (mk_price 3 1000 91 (25 * bip) false).
Proof. vm_compute. auto. Qed.

(* a history through BeginBlock/EndBlock: genesis 100 BIP below the cap with reward 74 BIP, a
   period of 12 blocks; block 13 (= 1 mod 12) at 12:30 updates after a 50 % drop: reward 0, safe
   70 BIP, 70 BIP burned and counted; that block crosses the cap (overshoot 44 BIP); the next block
   mints nothing and zeroes the rewards *)
Definition ex_blocks : list rblock :=
  [ {| rb_height := 12; rb_hour := 12; rb_time := 4 * 3600 * 10 ^ 9; rb_pool := Some (1000, 100); rb_pc := 0; rb_more := 0 |};
    {| rb_height := 13; rb_hour := 12; rb_time := 4 * 3600 * 10 ^ 9 + 5; rb_pool := Some (1000, 50); rb_pc := 70 * bip; rb_more := 0 |};
    {| rb_height := 14; rb_hour := 12; rb_time := 4 * 3600 * 10 ^ 9 + 10; rb_pool := Some (1000, 50); rb_pc := 0; rb_more := 0 |} ].

Example C28_example_history :
  let g := genesis_state 0 1000 100 (74 * bip) false (10 ^ 10 * bip - 100 * bip) in
  rr_run_history 12 g (firstn 1 ex_blocks)
  = Val {| rs_price := Some (mk_price 0 1000 100 (74 * bip) false); rs_reward := 74 * bip; rs_safe := 74 * bip;
           rs_emission := 10 ^ 10 * bip - 26 * bip; rs_burned := 0; rs_minted := 74 * bip |} /\
  rr_run_history 12 g (firstn 2 ex_blocks)
  = Val {| rs_price := Some (mk_price (4 * 3600 * 10 ^ 9 + 5) 1000 50 0 true); rs_reward := 0; rs_safe := 70 * bip;
           rs_emission := 10 ^ 10 * bip + 44 * bip; rs_burned := 70 * bip; rs_minted := 144 * bip |} /\
  rr_run_history 12 g ex_blocks
  = Val {| rs_price := Some (mk_price (4 * 3600 * 10 ^ 9 + 5) 1000 50 0 true); rs_reward := 0; rs_safe := 0;
           rs_emission := 10 ^ 10 * bip + 44 * bip; rs_burned := 70 * bip; rs_minted := 144 * bip |}.
Proof. vm_compute. auto. Qed.

(* PrevReward.Time = 0 is not "no previous update": the first period-start block at 09:00 does not
   update, the one at 12:00 does; and with a zero stored BIP reserve that update panics *)
Example C28_example_genesis_time_zero :
  let g := genesis_state 0 1000 100 (74 * bip) false 0 in
  let t9 := 1893488400 * 10 ^ 9 (* 2030-01-01 09:00 UTC *) in
  begin_block g 13 12 9 t9 (Some (1000, 100)) (74 * bip) = Val g /\
  (exists s', begin_block g 13 12 12 (t9 + 3 * 3600 * 10 ^ 9) (Some (1000, 100)) (75 * bip) = Val s' /\
              rs_safe s' = 75 * bip /\ rs_reward s' = 75 * bip) /\
  begin_block (genesis_state 0 0 100 (74 * bip) false 0) 13 12 12 (t9 + 3 * 3600 * 10 ^ 9) (Some (1000, 100)) (75 * bip)
  = Panic 2802.
Proof. vm_compute. repeat split; auto. eexists. repeat split. Qed.

(* the oracle check accepts the exact root and values 2^-41 away, rejects values 2^-38 away *)
Example C28_example_oracle :
  price_count_ok 15006250000 100000000 (100 * bip) = true /\
  price_count_ok 15006250000 100000000 (100 * bip + 100 * bip / 2 ^ 41) = true /\
  price_count_ok 15006250000 100000000 (100 * bip + 100 * bip / 2 ^ 38) = false /\
  price_count_ok 15006250000 100000000 (100 * bip - 100 * bip / 2 ^ 38) = false.
Proof. vm_compute. auto. Qed.

Print Assumptions C28_reward_changes_only_in_window.
Print Assumptions C28_window_update.
Print Assumptions C28_is_zero_branch_dead_after_genesis.
Print Assumptions C28_percent_is_floor.
Print Assumptions C28_drop_iff_below_91_percent.
Print Assumptions C28_drop_switches_off.
Print Assumptions C28_recovery_step.
Print Assumptions C28_recovered.
Print Assumptions C28_recovery_iter.
Print Assumptions C28_withheld_burned.
Print Assumptions C28_minted_equals_emission.
Print Assumptions C28_wf_reachable.
Print Assumptions C28_cap_stops.
Print Assumptions C28_below_cap_mints.
Print Assumptions C28_zero_stored_reserve_panics.
Print Assumptions C28_price_count_check_sound.
