(* Crash.v — Blockchain.Commit as an explicit ordered LIST OF DISK WRITES over the three
   databases of a node, a crash after the k-th write, and recovery (C10).  Extends Persist.v
   (the application database with its caches and dirty flags).  Executable, no proofs.

   What is modelled (what the code DOES):
   * events database (coreV2/events/store.go): CommitEvents walks the pending events; every
     saveAddress / savePubKey of a key that is not in the cache writes TWO records, the table
     entry ("address"+id / "pubKey"+id) and then the counter ("addresses" / "pubKeys"); after
     the loop the batch of the block is written under the 4-byte height.  The caches are lost
     with the process and reloaded from the counters: entries at or above the counter are
     invisible.
   * state database: tree.Commit ends in ONE atomic SaveVersion batch; saving a version that
     already exists succeeds without any write iff the content is identical (iavl
     MutableTree.SaveVersion), otherwise the node panics; State.Commit then deletes version
     (version - keepLastStates - 1) when it is at or above the initial version and exists
     (one more batch).
   * application database: SetLastBlockHash, SetLastHeight, FlushValidators, SaveBlocksTime,
     SaveVersions, SaveEmission, SavePrice in the order of Generated/PersistGen.commit_order,
     each a single Set, with the guards of PersistGen (the guard_ constants).
   * crash k: the first k writes are on disk, every cache is lost.  Recovery: Info reads
     (height, hash) from disk; initState loads the tree version of that height; the consensus
     engine re-sends every block above that height.
   Abstractions, stated: block execution is a parameter (a function of the loaded tree content
   and of what the appdb getters return, the stored hash excluded: only Info reads it); a tree
   version is an opaque content id which is also its app hash; addresses and public keys are
   integers; the event caches are lists without duplicates (id = position; the uint16/uint32
   wrap is C24's subject); tm-db Set / batch Write are atomic and durable. *)
From Minter Require Export Persist.
From Minter Require Import PersistGen.
Open Scope Z_scope.

(* ---- association lists on integer keys, canonical under re-setting a key ----------------- *)
Fixpoint aget {V} (k : Z) (l : list (Z * V)) : option V :=
  match l with [] => None | (k', v) :: r => if k' =? k then Some v else aget k r end.
Fixpoint aset {V} (k : Z) (v : V) (l : list (Z * V)) : list (Z * V) :=
  match l with
  | [] => [(k, v)]
  | (k', v') :: r => if k' =? k then (k, v) :: r else (k', v') :: aset k v r
  end.
Fixpoint adel {V} (k : Z) (l : list (Z * V)) : list (Z * V) :=
  match l with [] => [] | (k', v') :: r => if k' =? k then adel k r else (k', v') :: adel k r end.
Definition is_some {A} (o : option A) : bool := match o with Some _ => true | None => false end.

(* ---- the id tables of the events database ------------------------------------------------ *)
(* entries by position (a missing entry reads as the zero value) and the persisted counter *)
Record tbl := { t_ents : list Z; t_cnt : nat }.
Definition empty_tbl : tbl := {| t_ents := []; t_cnt := O |}.
Fixpoint set_at (n : nat) (a : Z) (l : list Z) : list Z :=
  match n, l with
  | O, [] => [a]
  | O, _ :: r => a :: r
  | S n', [] => 0 :: set_at n' a []
  | S n', x :: r => x :: set_at n' a r
  end.
Fixpoint take_pad (n : nat) (l : list Z) : list Z :=
  match n with
  | O => []
  | S n' => match l with [] => 0 :: take_pad n' [] | x :: r => x :: take_pad n' r end
  end.
(* loadAddresses / loadPubKeys: ids below the counter *)
Definition tload (t : tbl) : list Z := take_pad (t_cnt t) (t_ents t).
Fixpoint index_of (a : Z) (l : list Z) : option nat :=
  match l with [] => None | x :: r => if x =? a then Some O else option_map S (index_of a r) end.

Record edisk := { e_addr : tbl; e_pk : tbl; e_heights : list (Z * list (bool * nat)) }.
Definition empty_edisk : edisk := {| e_addr := empty_tbl; e_pk := empty_tbl; e_heights := [] |}.

(* ---- the three stores, the caches ---------------------------------------------------------- *)
Record cdisk := { cd_app : disk; cd_tree : list (Z * Z); cd_ev : edisk }.
(* cm_tree: the loaded state (version, content), None = initState has not run yet;
   cm_ev: the event caches (addresses, public keys), None = not loaded yet *)
Record cmem := { cm_app : mem; cm_tree : option (Z * Z); cm_ev : option (list Z * list Z) }.
Definition empty_cmem : cmem := {| cm_app := empty_mem; cm_tree := None; cm_ev := None |}.
Definition cst := (cdisk * cmem)%type.
Definition app_of (s : cst) : st := (cd_app (fst s), cm_app (snd s)).

(* ---- writes ------------------------------------------------------------------------------------ *)
Inductive awrite :=
| AHash (x : Z) | AHeight (h : Z) | AVals (l : list Z) | ATimes (l : list Z)
| AVersions (l : list (Z * Z)) | AEmission (e : Z) | APrice (p : list Z).

Inductive write :=
| WEnt (addr : bool) (pos : nat) (a : Z)      (* "address"+id / "pubKey"+id := key *)
| WCnt (addr : bool) (n : nat)                (* "addresses" / "pubKeys" := n *)
| WEvHeight (h : Z) (ids : list (bool * nat)) (* height := compact batch of the block *)
| WTreeSave (ver content : Z)                 (* the SaveVersion batch *)
| WTreeDelete (ver : Z)                       (* the DeleteVersion batch *)
| WApp (a : awrite)                           (* one appdb Set *)
| WAppBatch (l : list awrite).                (* several appdb records in one batch (proposed repair only) *)

Definition apply_awrite (d : disk) (a : awrite) : disk :=
  match a with
  | AHash x => {| d_height := d_height d; d_hash := Some x; d_start := d_start d; d_vals := d_vals d; d_times := d_times d;
                  d_versions := d_versions d; d_emission := d_emission d; d_price := d_price d |}
  | AHeight h => {| d_height := Some h; d_hash := d_hash d; d_start := d_start d; d_vals := d_vals d; d_times := d_times d;
                    d_versions := d_versions d; d_emission := d_emission d; d_price := d_price d |}
  | AVals l => {| d_height := d_height d; d_hash := d_hash d; d_start := d_start d; d_vals := Some l; d_times := d_times d;
                  d_versions := d_versions d; d_emission := d_emission d; d_price := d_price d |}
  | ATimes l => {| d_height := d_height d; d_hash := d_hash d; d_start := d_start d; d_vals := d_vals d; d_times := Some l;
                   d_versions := d_versions d; d_emission := d_emission d; d_price := d_price d |}
  | AVersions l => {| d_height := d_height d; d_hash := d_hash d; d_start := d_start d; d_vals := d_vals d; d_times := d_times d;
                      d_versions := Some l; d_emission := d_emission d; d_price := d_price d |}
  | AEmission e => {| d_height := d_height d; d_hash := d_hash d; d_start := d_start d; d_vals := d_vals d; d_times := d_times d;
                      d_versions := d_versions d; d_emission := Some e; d_price := d_price d |}
  | APrice p => {| d_height := d_height d; d_hash := d_hash d; d_start := d_start d; d_vals := d_vals d; d_times := d_times d;
                   d_versions := d_versions d; d_emission := d_emission d; d_price := Some p |}
  end.
Definition apply_awrites (l : list awrite) (d : disk) : disk := fold_left apply_awrite l d.

Definition tbl_of (addr : bool) (e : edisk) : tbl := if addr then e_addr e else e_pk e.
Definition with_tbl (addr : bool) (t : tbl) (e : edisk) : edisk :=
  if addr then {| e_addr := t; e_pk := e_pk e; e_heights := e_heights e |}
  else {| e_addr := e_addr e; e_pk := t; e_heights := e_heights e |}.

Definition apply_write (d : cdisk) (w : write) : cdisk :=
  match w with
  | WEnt addr pos a =>
    let t := tbl_of addr (cd_ev d) in
    {| cd_app := cd_app d; cd_tree := cd_tree d;
       cd_ev := with_tbl addr {| t_ents := set_at pos a (t_ents t); t_cnt := t_cnt t |} (cd_ev d) |}
  | WCnt addr n =>
    let t := tbl_of addr (cd_ev d) in
    {| cd_app := cd_app d; cd_tree := cd_tree d;
       cd_ev := with_tbl addr {| t_ents := t_ents t; t_cnt := n |} (cd_ev d) |}
  | WEvHeight h ids =>
    {| cd_app := cd_app d; cd_tree := cd_tree d;
       cd_ev := {| e_addr := e_addr (cd_ev d); e_pk := e_pk (cd_ev d); e_heights := aset h ids (e_heights (cd_ev d)) |} |}
  | WTreeSave ver c => {| cd_app := cd_app d; cd_tree := aset ver c (cd_tree d); cd_ev := cd_ev d |}
  | WTreeDelete ver => {| cd_app := cd_app d; cd_tree := adel ver (cd_tree d); cd_ev := cd_ev d |}
  | WApp a => {| cd_app := apply_awrite (cd_app d) a; cd_tree := cd_tree d; cd_ev := cd_ev d |}
  | WAppBatch l => {| cd_app := apply_awrites l (cd_app d); cd_tree := cd_tree d; cd_ev := cd_ev d |}
  end.
Definition apply_writes (ws : list write) (d : cdisk) : cdisk := fold_left apply_write ws d.

(* ---- the appdb part of Blockchain.Commit, from the generated order and guards --------------- *)
(* "this Save* writes": the negation of its early-return guard *)
Definition guard_val (g : Z) (m : mem) : bool :=
  match g with
  | 0 => true
  | 1 => m_dirtyE m
  | 2 => m_dirtyP m
  | 3 => m_dirtyV m
  | 4 => is_some (m_vals m)
  | _ => true
  end.

Definition awrites_of_call (code : Z) (m : mem) (h hash : Z) : list awrite :=
  match code with
  | 1 => [AHash hash]
  | 2 => [AHeight h]
  | 3 => if guard_val guard_FlushValidators m then match m_vals m with Some v => [AVals v] | None => [] end else []
  | 4 => if guard_val guard_SaveBlocksTime m then [ATimes (m_times m)] else []
  | 5 => if guard_val guard_SaveVersions m then [AVersions (m_versions m)] else []
  | 6 => if guard_val guard_SaveEmission m then match m_emission m with Some e => [AEmission e] | None => [] end else []
  | 7 => if guard_val guard_SavePrice m then match m_price m with Some p => [APrice p] | None => [] end else []
  | _ => []
  end.
Definition app_calls : list Z := filter (fun c => (1 <=? c) && (c <=? 7)) commit_order.
(* 8 / 9 = appDB.BeginCommit / EndCommit around the appdb calls: the records go to disk in one batch
   (only a tree with the C10 repair has them) *)
Definition code_batched : bool := existsb (Z.eqb 8) commit_order && existsb (Z.eqb 9) commit_order.
Definition awrites (m : mem) (h hash : Z) : list awrite :=
  flat_map (fun c => awrites_of_call c m h hash) app_calls.

(* the caches after Commit: SetLastHeight caches the height, FlushValidators nils the list,
   SaveVersions / SaveEmission clear their flags, SavePrice does not *)
Definition commit_mem (m : mem) (h : Z) : mem :=
  {| m_height := h; m_start := m_start m; m_vals := None; m_times := m_times m;
     m_versions := m_versions m; m_dirtyV := false; m_emission := m_emission m;
     m_dirtyE := if m_dirtyE m then (if save_emission_clears_dirtyE =? 1 then false else true) else false;
     m_price := m_price m; m_dirtyP := if save_price_clears_dirtyP =? 1 then false else m_dirtyP m |}.

(* ---- the events part -------------------------------------------------------------------------- *)
Definition cget (addr : bool) (c : list Z * list Z) : list Z := if addr then fst c else snd c.
Definition cset (addr : bool) (l : list Z) (c : list Z * list Z) : list Z * list Z :=
  if addr then (l, snd c) else (fst c, l).

(* saveAddress / savePubKey *)
Definition save_key (c : list Z * list Z) (addr : bool) (a : Z) : (list Z * list Z) * nat * list write :=
  match index_of a (cget addr c) with
  | Some i => (c, i, [])
  | None => let i := length (cget addr c) in
            (cset addr (cget addr c ++ [a]) c, i, [WEnt addr i a; WCnt addr (S i)])
  end.

Fixpoint save_all (c : list Z * list Z) (ms : list (bool * Z)) : (list Z * list Z) * list (bool * nat) * list write :=
  match ms with
  | [] => (c, [], [])
  | (addr, a) :: r =>
    let '(c1, i, w) := save_key c addr a in
    let '(c2, ids, ws) := save_all c1 r in
    (c2, (addr, i) :: ids, w ++ ws)
  end.

(* LoadEvents: the ids of the stored batch resolved through the tables *)
Definition resolve (e : edisk) (x : bool * nat) : Z := nth (snd x) (tload (tbl_of (fst x) e)) 0.
Definition load_events (d : cdisk) (h : Z) : option (list Z) :=
  match aget h (e_heights (cd_ev d)) with
  | Some ids => Some (map (resolve (cd_ev d)) ids)
  | None => None
  end.

(* ---- blocks ------------------------------------------------------------------------------------ *)
(* the getters as block execution sees them: the stored hash is read by Info only *)
Definition blind (v : view) : view :=
  {| v_height := v_height v; v_start := v_start v; v_hash := None; v_vals := v_vals v; v_times := v_times v;
     v_versions := v_versions v; v_emission := v_emission v; v_price := v_price v |}.
Definition blindf (f : view -> option setop) : view -> option setop := fun v => f (blind v).

(* everything a block does is a function of the loaded tree content and of the getters at the
   start of the block: the appdb program (Persist.block; b_hash = content of the new version),
   the address / public key arguments of the events (true = address) and the responses *)
Record cblock := {
  cb_prog : Z -> view -> block;
  cb_ment : Z -> view -> list (bool * Z);
  cb_resp : Z -> view -> list Z }.

Record prep := {
  p_app : st; p_h : Z; p_ver : Z; p_content : Z;
  p_ment : list (bool * Z); p_resp : list Z; p_ev : list Z * list Z }.

(* initState (constructor, or lazily in BeginBlock): the tree version of the stored height *)
Definition load_tree (s : cst) : outcome (Z * Z) :=
  match cm_tree (snd s) with
  | Some vc => Val vc
  | None => let h := get_height (app_of s) in
            match aget h (cd_tree (fst s)) with
            | Some c => Val (h, c)
            | None => Panic 199         (* NewStateV3: LoadVersion fails, initState panics *)
            end
  end.
Definition load_ev (s : cst) : list Z * list Z :=
  match cm_ev (snd s) with
  | Some c => c
  | None => (tload (e_addr (cd_ev (fst s))), tload (e_pk (cd_ev (fst s))))
  end.

(* BeginBlock .. EndBlock *)
Definition prepare (s : cst) (b : cblock) : outcome prep :=
  obind (load_tree s) (fun vc =>
    let a0 := app_of s in
    let v0 := blind (view_of a0) in
    let blk := cb_prog b (snd vc) v0 in
    let a1 := apply_set a0 (AddTime (b_time blk)) in
    let a2 := run_steps a1 (map blindf (b_steps blk)) in
    Val {| p_app := a2; p_h := get_height a2 + 1; p_ver := fst vc + 1;
           p_content := b_hash blk (blind (view_of a2));
           p_ment := cb_ment b (snd vc) v0; p_resp := cb_resp b (snd vc) v0; p_ev := load_ev s |}).

Section Params.
Variable keep : Z.        (* cfg.KeepLastStates *)
Variable batched : bool.  (* false: the code as it is; true: the appdb records in one batch *)

Definition ev_writes (p : prep) : (list Z * list Z) * list write :=
  let '(c, ids, ws) := save_all (p_ev p) (p_ment p) in (c, ws ++ [WEvHeight (p_h p) ids]).

Definition tree_writes (d : cdisk) (start : Z) (p : prep) : outcome (list write) :=
  obind (match aget (p_ver p) (cd_tree d) with
         | Some c' => if c' =? p_content p then Val [] else Panic 198  (* saved to a different hash *)
         | None => Val [WTreeSave (p_ver p) (p_content p)]
         end) (fun sv =>
    let vdel := p_ver p - keep - 1 in
    Val (sv ++ (if (start <=? vdel) && is_some (aget vdel (cd_tree d)) then [WTreeDelete vdel] else []))).

(* Blockchain.Commit: the calls of PersistGen.commit_order (30 Check, 40 CommitEvents,
   50 stateDeliver.Commit, 1..7 the appdb functions) *)
Definition commit_writes (s : cst) (p : prep) : outcome (list write * cmem) :=
  let '(evc, wev) := ev_writes p in
  obind (tree_writes (fst s) (get_start (p_app p)) p) (fun wtree =>
    let m := snd (p_app p) in
    let call (c : Z) : list write :=
      if c =? 40 then wev else if c =? 50 then wtree
      else if (1 <=? c) && (c <=? 7) then (if batched then [] else map WApp (awrites_of_call c m (p_h p) (p_content p)))
      else [] in
    let ws := flat_map call commit_order ++
              (if batched then [WAppBatch (awrites m (p_h p) (p_content p))] else []) in
    Val (ws, {| cm_app := commit_mem m (p_h p); cm_tree := Some (p_ver p, p_content p); cm_ev := Some evc |})).

(* what the property observes for a block: responses, app hash, every getter, the events *)
Record obs := { o_resp : list Z; o_hash : Z; o_view : view; o_events : option (list Z) }.

Definition run_block (s : cst) (b : cblock) : outcome (cst * obs * list write) :=
  obind (prepare s b) (fun p =>
  obind (commit_writes s p) (fun wm =>
    let d' := apply_writes (fst wm) (fst s) in
    let s' := (d', snd wm) in
    Val (s', {| o_resp := p_resp p; o_hash := p_content p; o_view := view_of (app_of s');
                o_events := load_events d' (p_h p) |}, fst wm))).

(* the process dies after the k-th write of this Commit: the disk keeps w_1..w_k, memory is lost *)
Definition crash (s : cst) (b : cblock) (k : nat) : outcome cst :=
  obind (prepare s b) (fun p =>
  obind (commit_writes s p) (fun wm =>
    Val (apply_writes (firstn k (fst wm)) (fst s), empty_cmem))).

Fixpoint run_blocks (s : cst) (bs : list cblock) : outcome (cst * list obs) :=
  match bs with
  | [] => Val (s, [])
  | b :: rest =>
    obind (run_block s b) (fun r =>
    obind (run_blocks (fst (fst r)) rest) (fun r' =>
      Val (fst r', snd (fst r) :: snd r')))
  end.

(* Info *)
Definition info (s : cst) : Z * option Z := (get_height (app_of s), get_hash (app_of s)).

(* recovery of a node that crashed while committing height h: the consensus engine re-sends the
   blocks above the height Info reports ([from_h] = block h and the later ones) *)
Definition recover (sk : cst) (h : Z) (from_h : list cblock) : outcome (cst * list obs) :=
  let ih := fst (info sk) in
  if ih =? h - 1 then run_blocks sk from_h
  else if ih =? h then run_blocks sk (tl from_h)
  else Nil.

End Params.

(* ---- model 16: the write sequence of Commit, crash and recovery against the real node -------
   ops   [0; start; keep; content; batched]             the state InitChain leaves in its process
         [1; k; content; vals; ver; em; price; n; (kind, key) * n]
                                                        a block: which setters ran (0/1 each), the new
                                                        tree content, the events' keys (kind 1 address,
                                                        2 public key); k = -1: Commit completes, output
                                                        = the writes; k >= 0: the process dies after
                                                        write k, output = the first k writes, -1, the
                                                        height Info reports after the restart
         [2]                                            restart
   a write is printed as (code, argument): 10 address entry id, 11 addresses counter, 12 pubKey
   entry id, 13 pubKeys counter, 14 events height, 20 SaveVersion version, 21 DeleteVersion
   version, 30 hash, 31 height, 32 validators, 33 blockDelta, 34 versions, 35 emission, 36 price,
   39 appdb batch (number of records) *)
Definition enc_awrite (a : awrite) : Z :=
  match a with AHash _ => 30 | AHeight _ => 31 | AVals _ => 32 | ATimes _ => 33 | AVersions _ => 34 | AEmission _ => 35 | APrice _ => 36 end.
Definition enc_write (w : write) : list Z :=
  match w with
  | WEnt true pos _ => [10; Z.of_nat pos]
  | WEnt false pos _ => [12; Z.of_nat pos + 1]     (* public key ids start at 1 *)
  | WCnt true _ => [11; 0]
  | WCnt false _ => [13; 0]
  | WEvHeight h _ => [14; h mod 2 ^ 32]
  | WTreeSave v _ => [20; v]
  | WTreeDelete v => [21; v]
  | WApp a => [enc_awrite a; 0]
  | WAppBatch l => [39; Z.of_nat (length l)]
  end.

Fixpoint dec_ment (n : nat) (l : list Z) : list (bool * Z) :=
  match n, l with
  | S n', k :: a :: r => (k =? 1, a) :: dec_ment n' r
  | _, _ => []
  end.

Definition op_block (content vals ver em price : Z) (ment : list (bool * Z)) : cblock :=
  {| cb_prog := fun _ v =>
       {| b_time := v_height v + 1;
          b_steps := (if vals =? 1 then [fun _ => Some (SetVals [v_height v + 1])] else []) ++
                     (if ver =? 1 then [fun _ => Some (AddVersion 330 (v_height v + 1))] else []) ++
                     (if em =? 1 then [fun w => Some (SetEmission (odef 0 (v_emission w) + 1))] else []) ++
                     (if price =? 1 then [fun _ => Some (SetPrice [v_height v + 1])] else []);
          b_hash := fun _ => content |};
     cb_ment := fun _ _ => ment;
     cb_resp := fun _ _ => [] |}.

(* the state InitChain leaves in its own process: start height, versions, emission, price saved
   (SavePrice leaves its flag set), validators flushed, tree version [start] committed and loaded *)
Definition genesis_cst (start content : Z) : cst :=
  let d := {| d_height := Some start; d_hash := None; d_start := Some start; d_vals := Some [start]; d_times := None;
              d_versions := Some [(300, 0)]; d_emission := Some 0; d_price := Some [0] |} in
  let m := {| m_height := start; m_start := start; m_vals := None; m_times := []; m_versions := [(300, 0)]; m_dirtyV := false;
              m_emission := Some 0; m_dirtyE := false; m_price := Some [0]; m_dirtyP := true |} in
  ({| cd_app := d; cd_tree := [(start, content)]; cd_ev := empty_edisk |},
   {| cm_app := m; cm_tree := Some (start, content); cm_ev := Some ([], []) |}).

Record cstate := { cs_st : cst; cs_keep : Z; cs_batched : bool }.

Definition crash_init : cstate :=
  {| cs_st := ({| cd_app := empty_disk; cd_tree := []; cd_ev := empty_edisk |}, empty_cmem); cs_keep := 0; cs_batched := false |}.

Definition crash_step (cs : cstate) (op : list Z) : cstate * list Z :=
  match op with
  | [0; start; keep; content; batched] =>
    ({| cs_st := genesis_cst start content; cs_keep := keep; cs_batched := (batched =? 1) |}, [0])
  | 1 :: k :: content :: vals :: ver :: em :: price :: n :: rest =>
    let b := op_block content vals ver em price (dec_ment (Z.to_nat n) rest) in
    if k <? 0 then
      match run_block (cs_keep cs) (cs_batched cs) (cs_st cs) b with
      | Val (s', _, ws) => ({| cs_st := s'; cs_keep := cs_keep cs; cs_batched := cs_batched cs |}, flat_map enc_write ws)
      | Nil => (cs, [-2])
      | Panic site => (cs, [-3; site])
      end
    else
      match run_block (cs_keep cs) (cs_batched cs) (cs_st cs) b, crash (cs_keep cs) (cs_batched cs) (cs_st cs) b (Z.to_nat k) with
      | Val (_, _, ws), Val sk =>
        ({| cs_st := sk; cs_keep := cs_keep cs; cs_batched := cs_batched cs |},
         flat_map enc_write (firstn (Z.to_nat k) ws) ++ [-1; fst (info sk)])
      | _, _ => (cs, [-2])
      end
  | [2] => ({| cs_st := (fst (cs_st cs), empty_cmem); cs_keep := cs_keep cs; cs_batched := cs_batched cs |}, [0])
  | _ => (cs, [-1])
  end.

Fixpoint crash_run_acc (s : cstate) (ops : list (list Z)) (acc : list (list Z)) : list (list Z) :=
  match ops with
  | [] => rev_append acc []
  | o :: rest => let '(s', out) := crash_step s o in crash_run_acc s' rest (out :: acc)
  end.
Definition crash_run (ops : list (list Z)) : list (list Z) := crash_run_acc crash_init ops [].
