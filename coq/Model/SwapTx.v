(* SwapTx.v — C15: the six conversion transactions as the Data structs GetDataV3 resolves to
   (coreV2/transaction): SellSwapPoolDataV260, BuySwapPoolDataV260, SellAllSwapPoolDataV260
   (routes of 2..5 coins through swap pools) and SellCoinData, BuyCoinData, SellAllCoinData
   (bancor), with CalculateCommission (sell_all_swap_pool_v230.go) for every gas coin kind
   (base coin, pool route, reserve route).  Executable, no proofs.

   The CHECK phase (CheckSwap hop by hop on the state as it is BEFORE the transaction, with the
   simulated commission swap AddLastSwapStepWithOrders when the commission pool is on the route)
   and the DELIVER phase (PairSellWithOrders / PairBuyWithOrders hop by hop on the state as it
   evolves, limit 0 / maxCoinSupply) are transliterated SEPARATELY: the slippage limits are only
   compared with the simulated values of the check phase; the deliver phase never looks at them.

   Pools carry NO limit orders here (the order-crossing trade is Model/Orders.v; bfs_wo / sfb_wo /
   sell_wo / buy_wo below are its instances for an empty book, see Proofs/SwapTxFacts.v).
   The four formula.Calculate* functions are oracle arguments (Model/Bancor.v, C12). *)
From Minter Require Export Base Consts Pool.
From Coq Require Import ZArith List Bool.
Import ListNotations.
Open Scope Z_scope.

(* ---- response codes (coreV2/code/code.go) ------------------------------------------------ *)
Definition cOK := 0.
Definition cCoinNotExists := 102.
Definition cCoinReserveNotSufficient := 103.
Definition cDecodeError := 106.
Definition cInsufficientFunds := 107.
Definition cCoinSupplyOverflow := 112.
Definition cCoinReserveUnderflow := 116.
Definition cCommissionCoinNotSufficient := 119.
Definition cCoinHasNotReserve := 200.
Definition cCrossConvert := 301.
Definition cMaximumValueToSellReached := 302.
Definition cMinimumValueToBuyReached := 303.
Definition cPairNotExists := 701.
Definition cInsufficientLiquidity := 703.
Definition cTooLongSwapRoute := 709.
Definition cDuplicatePoolInRoute := 710.

(* create_coin.go *)
Definition max_coin_supply : Z := 10 ^ 33.
Definition min_coin_reserve : Z := 10000 * 10 ^ 18.
Definition burn_address : Z := -1.      (* swap.burnAddress Mx00cedde7... *)

(* ---- results: Go error responses and panics are explicit -------------------------------- *)
Inductive res (A : Type) : Type := Ok (a : A) | Rej (code : Z) | Pan (site : Z).
Arguments Ok {A} a.
Arguments Rej {A} code.
Arguments Pan {A} site.
Definition rbind {A B} (x : res A) (f : A -> res B) : res B :=
  match x with Ok a => f a | Rej c => Rej c | Pan s => Pan s end.
Definition of_outcome {A} (x : outcome A) (nilsite : Z) : res A :=
  match x with Val a => Ok a | Nil => Pan nilsite | Panic s => Pan s end.

(* ---- state --------------------------------------------------------------------------------- *)
Record bcoin := { bc_vol : Z; bc_res : Z; bc_crr : Z; bc_max : Z }.   (* crr = 0: a token (no reserve) *)

(* the voted price table entries of these six types, in base coin (state/commission) *)
Record ptable := { pt_payload_byte : Z; pt_sell_bancor : Z; pt_buy_bancor : Z; pt_sell_all_bancor : Z;
                   pt_sell_pool_base : Z; pt_sell_pool_delta : Z; pt_buy_pool_base : Z; pt_buy_pool_delta : Z;
                   pt_sell_all_pool_base : Z; pt_sell_all_pool_delta : Z; pt_failed : Z }.

Record world := {
  w_pools : list (Z * Z * (Z * Z));   (* sorted pair (c0 < c1) -> (reserve0, reserve1) *)
  w_coins : list (Z * bcoin);         (* custom coins; the base coin (id 0) is implicit *)
  w_bal : list (Z * Z * Z);           (* (address, coin, amount) entries; a balance is the sum of its entries *)
  w_prices : ptable
}.

Definition pkey (a b : Z) : Z * Z := if a <? b then (a, b) else (b, a).
Definition keq (k k' : Z * Z) : bool := (fst k =? fst k') && (snd k =? snd k').
Definition orient (a b : Z) (r : Z * Z) : Z * Z := if a <? b then r else (snd r, fst r).

Fixpoint find_pool (l : list (Z * Z * (Z * Z))) (k : Z * Z) : option (Z * Z) :=
  match l with [] => None | (k', r) :: t => if keq k' k then Some r else find_pool t k end.
Fixpoint upd_pool (l : list (Z * Z * (Z * Z))) (k : Z * Z) (v : Z * Z) : list (Z * Z * (Z * Z)) :=
  match l with [] => [(k, v)] | (k', r) :: t => if keq k' k then (k', v) :: t else (k', r) :: upd_pool t k v end.

(* SwapV2.Pair(a, b): the reserves in the orientation (a, b) *)
Definition get_pool (w : world) (a b : Z) : option (Z * Z) :=
  match find_pool (w_pools w) (pkey a b) with Some r => Some (orient a b r) | None => None end.

Fixpoint find_coin (l : list (Z * bcoin)) (id : Z) : option bcoin :=
  match l with [] => None | (i, c) :: t => if i =? id then Some c else find_coin t id end.
Fixpoint upd_coin (l : list (Z * bcoin)) (id : Z) (f : bcoin -> bcoin) : list (Z * bcoin) :=
  match l with [] => [] | (i, c) :: t => if i =? id then (i, f c) :: t else (i, c) :: upd_coin t id f end.

Definition base_coin : bcoin := {| bc_vol := 0; bc_res := 0; bc_crr := 100; bc_max := 0 |}.   (* never used in a formula *)
Definition get_coin (w : world) (id : Z) : option bcoin :=
  if id =? 0 then Some base_coin else find_coin (w_coins w) id.
Definition base_or_reserve (id : Z) (c : bcoin) : bool := (id =? 0) || (0 <? bc_crr c).

Definition get_bal (l : list (Z * Z * Z)) (a c : Z) : Z :=
  sum_Z (map (fun e => let '(a', c', v) := e in if (a' =? a) && (c' =? c) then v else 0) l).
Fixpoint add_bal (l : list (Z * Z * Z)) (a c d : Z) : list (Z * Z * Z) :=
  match l with
  | [] => [(a, c, d)]
  | (a', c', v) :: r => if (a' =? a) && (c' =? c) then (a', c', v + d) :: r else (a', c', v) :: add_bal r a c d
  end.
Definition bal (w : world) (a c : Z) : Z := get_bal (w_bal w) a c.

(* ---- primitive effects ------------------------------------------------------------------------ *)
Inductive eff :=
| EBal (a c d : Z)            (* Accounts.AddBalance / SubBalance *)
| EPool (a b d0 d1 : Z)       (* PairV2.update on pool {a, b}: reserve of a += d0, reserve of b += d1 *)
| EVol (c d : Z)              (* Coins.AddVolume / SubVolume *)
| ERes (c d : Z)              (* Coins.AddReserve / SubReserve *)
| ERpool (d : Z).             (* rewardPool.Add *)

Definition set_pools (w : world) (l : list (Z * Z * (Z * Z))) : world :=
  {| w_pools := l; w_coins := w_coins w; w_bal := w_bal w; w_prices := w_prices w |}.
Definition set_coins (w : world) (l : list (Z * bcoin)) : world :=
  {| w_pools := w_pools w; w_coins := l; w_bal := w_bal w; w_prices := w_prices w |}.
Definition set_bals (w : world) (l : list (Z * Z * Z)) : world :=
  {| w_pools := w_pools w; w_coins := w_coins w; w_bal := l; w_prices := w_prices w |}.

Definition apply_eff (w : world) (e : eff) : world :=
  match e with
  | EBal a c d => set_bals w (add_bal (w_bal w) a c d)
  | EPool a b d0 d1 =>
    match get_pool w a b with
    | Some (r0, r1) => set_pools w (upd_pool (w_pools w) (pkey a b) (orient a b (r0 + d0, r1 + d1)))
    | None => w
    end
  | EVol c d => set_coins w (upd_coin (w_coins w) c (fun x => {| bc_vol := bc_vol x + d; bc_res := bc_res x; bc_crr := bc_crr x; bc_max := bc_max x |}))
  | ERes c d => set_coins w (upd_coin (w_coins w) c (fun x => {| bc_vol := bc_vol x; bc_res := bc_res x + d; bc_crr := bc_crr x; bc_max := bc_max x |}))
  | ERpool _ => w
  end.
Definition apply_effs (w : world) (l : list eff) : world := fold_left apply_eff l w.

(* ---- the pool trade without orders (orderV2.go with an empty book) ------------------------------ *)
Definition sub1000 (a : Z) : Z := if 0 <? a then a - com1000 a else a.

(* calculateBuyForSellWithOrders on an empty book: never nil; 0 when nothing can be bought *)
Definition bfs_core (r0 r1 a' : Z) : outcome Z :=
  if a' =? 0 then Val 0 else
  match calc_buy_for_sell r0 r1 a' with
  | Val d => if check_swap r0 r1 a' 0 0 d =? 0 then Val d else Panic 4
  | Nil => Val 0
  | Panic s => Panic s
  end.
(* CalculateBuyForSellWithOrders: the burned com1000 is taken off the input first *)
Definition bfs_wo (r0 r1 a : Z) : outcome Z := bfs_core r0 r1 (sub1000 a).

(* calculateSellForBuyWithOrders on an empty book: nil when the reserve is not larger than the
   wanted amount *)
Definition sfb_core (r0 r1 out : Z) : outcome Z :=
  if out =? 0 then Val 0 else
  match calc_sell_for_buy r0 r1 out with
  | Val d => if check_swap r0 r1 d 0 0 out =? 0 then Val d else Panic 4
  | Nil => if (r0 <? 1) || (r1 - out <? 1) then Nil else Val 0
  | Panic s => Panic s
  end.
(* CalculateSellForBuyWithOrders: com0999 is added to a positive input *)
Definition add0999 (d : Z) : Z := if 0 <? d then d + com0999 d else d.
Definition sfb_wo (r0 r1 out : Z) : outcome Z :=
  match sfb_core r0 r1 out with Val d => Val (add0999 d) | Nil => Nil | Panic s => Panic s end.

(* SwapV2.PairSellWithOrders: (pool delta of coin0, amount out); the pool receives the input less
   the burned com1000, pays amount out; panics as coded *)
Definition sell_wo (r0 r1 a minOut : Z) : outcome (Z * Z) :=
  if negb (0 <? a) then Panic 3 else
  let a' := a - com1000 a in
  if negb (0 <? a') then Panic 3 else
  match bfs_core r0 r1 a' with
  | Val out => if negb (0 <? out) then Panic 2 else if out <? minOut then Panic 5 else Val (a', out)
  | Nil => Panic 2
  | Panic s => Panic s
  end.

(* SwapV2.PairBuyWithOrders: (pool delta of coin0, amount in paid by the taker); compares
   amount1Out (not the computed input) with maxAmount0In, as written *)
Definition buy_wo (r0 r1 maxIn out : Z) : outcome (Z * Z) :=
  if negb (0 <? out) then Panic 3 else
  match sfb_core r0 r1 out with
  | Val d => if negb (0 <? d) then Panic 2 else
             if maxIn <? out then Panic 5 else Val (d, d + com0999 d)
  | Nil => Panic 2
  | Panic s => Panic s
  end.

(* PairV2.AddLastSwapStepWithOrders(amount0In, amount1Out, buy) on an empty book: the virtual
   reserves the check phase continues with.  buy = true adds amount0In as it is; buy = false
   first takes the burned com1000 off.  A negative argument reverses the pair, negates and swaps
   the amounts and flips [buy]; arguments of opposite signs recurse for ever in the code. *)
Definition add_last_step_pos (r0 r1 a0 a1 : Z) (buy : bool) : Z * Z :=
  let a0' := if buy then a0 else sub1000 a0 in (r0 + a0', r1 - a1).
Definition add_last_step (r0 r1 a0 a1 : Z) (buy : bool) : res (Z * Z) :=
  if (a0 <? 0) || (a1 <? 0) then
    if (- a1 <? 0) || (- a0 <? 0) then Pan 960 else
    let '(x, y) := add_last_step_pos r1 r0 (- a1) (- a0) (negb buy) in Ok (y, x)
  else Ok (add_last_step_pos r0 r1 a0 a1 buy).

(* ---- CheckSwap (buy_swap_pool_v260.go) on given reserves ------------------------------------------ *)
Definition check_swap_sell (r0 r1 vin vmin : Z) : res Z :=
  match bfs_wo r0 r1 vin with
  | Val o => let m := if vmin =? 0 then 1 else vmin in
             if o <? m then Rej cMinimumValueToBuyReached else Ok o
  | Nil => Rej cInsufficientLiquidity
  | Panic s => Pan s
  end.
Definition check_swap_buy (r0 r1 vmax vout : Z) : res Z :=
  match sfb_wo r0 r1 vout with
  | Val i => if vmax <? i then Rej cMaximumValueToSellReached else Ok i
  | Nil => Rej cInsufficientLiquidity
  | Panic s => Pan s
  end.

Section WithOracles.
(* formula.CalculatePurchaseReturn / PurchaseAmount / SaleReturn / SaleAmount (supply reserve crr x) *)
Variables o_pr o_pa o_sr o_sa : Z -> Z -> Z -> Z -> Z.

(* ---- CalculateCommission --------------------------------------------------------------------------- *)
(* commissionFromPool: inl code | inr amount *)
Definition commission_from_pool (w : world) (gas price : Z) : res (Z + Z) :=
  match get_pool w gas 0 with
  | None => Ok (inl cPairNotExists)
  | Some (g, b) =>
    match check_swap_buy g b max_coin_supply price with
    | Ok c => if negb (0 <? c) then Ok (inl cInsufficientLiquidity) else Ok (inr c)
    | Rej c => Ok (inl c)
    | Pan s => Pan s
    end
  end.
Definition commission_from_reserve (gc : bcoin) (price : Z) : Z + Z :=
  if negb (0 <? bc_crr gc) then inl cCoinHasNotReserve else
  if bc_res gc - price <? min_coin_reserve then inl cCoinReserveUnderflow else
  inr (o_sa (bc_vol gc) (bc_res gc) (bc_crr gc) price).

(* (commission in the gas coin, paid through the pool?) *)
Definition calc_commission (w : world) (gas price : Z) : res (Z * bool) :=
  if gas =? 0 then Ok (price, false) else
  if price =? 0 then Ok (0, false) else
  match get_coin w gas with
  | None => Pan 964
  | Some gc =>
    rbind (commission_from_pool w gas price) (fun fp =>
    match fp, commission_from_reserve gc price with
    | inl _, inl _ => Rej cCommissionCoinNotSufficient
    | inr p, inr r => if r <? p then Ok (r, false) else Ok (p, true)
    | inr p, inl _ => Ok (p, true)
    | inl _, inr r => Ok (r, false)
    end)
  end.

(* the deliver-phase commission: effects, the commission debited, its base-coin value;
   minOut: the minimum output handed to PairSellWithOrders, 0 in every type (SellAllCoin passed the
   price until fix 1f18dbb) *)
Definition commission_deliver (w : world) (sender gas commission price : Z) (is_pool : bool) (minOut : Z)
  : outcome (list eff * Z) :=
  if is_pool then
    match get_pool w gas 0 with
    | None => Panic 961
    | Some (g, b) =>
      match sell_wo g b commission minOut with
      | Val (d0, cib) => Val ([EPool gas 0 d0 (- cib); EBal burn_address gas (com1000 commission)], cib)
      | Nil => Panic 2
      | Panic s => Panic s
      end
    end
  else if negb (gas =? 0) then Val ([EVol gas (- commission); ERes gas (- price)], price)
  else Val ([], price).

(* ---- the routes ------------------------------------------------------------------------------------------ *)
Fixpoint route_basic (w : world) (cin : Z) (rest : list Z) : option Z :=
  match rest with
  | [] => None
  | cout :: r => if cin =? cout then Some cCrossConvert else
                 match get_pool w cin cout with None => Some cPairNotExists | Some _ => route_basic w cout r end
  end.
Definition basic_check_route (w : world) (coins : list Z) : option Z :=
  match coins with
  | [] | [_] => Some cDecodeError
  | c0 :: rest => if 5 <? Z.of_nat (length coins) then Some cTooLongSwapRoute else route_basic w c0 rest
  end.

(* the reserves the check phase uses for the hop csell -> cbuy: the pool's, with the commission
   swap simulated on them when this pool is the commission pool (both calls end in the
   buy = false branch, which takes the burned com1000 off like the delivery does; the first call
   had buy = true until fix d03ff6d) *)
Definition sim_reserves (w : world) (gas commission : Z) (is_pool : bool) (csell cbuy : Z) (r : Z * Z) : res (Z * Z) :=
  if is_pool && keq (pkey csell cbuy) (pkey gas 0) then
    match get_pool w gas 0 with
    | None => Pan 961
    | Some (g, b) =>
      rbind (of_outcome (bfs_wo g b commission) 962) (fun cib =>
      rbind (if (gas =? csell) && (cbuy =? 0) then add_last_step (fst r) (snd r) commission cib false else Ok r) (fun r1 =>
      if (gas =? cbuy) && (csell =? 0) then add_last_step (fst r1) (snd r1) (- cib) (- commission) true else Ok r1))
    end
  else Ok r.

Fixpoint sell_route_check (w : world) (gas commission : Z) (is_pool : bool) (seen : list (Z * Z))
         (cin vin : Z) (rest : list Z) (vmin : Z) : res Z :=
  match rest with
  | [] => Ok vin
  | cout :: rest' =>
    match get_pool w cin cout with
    | None => Pan 963
    | Some r =>
      if existsb (keq (pkey cin cout)) seen then Rej cDuplicatePoolInRoute else
      match sim_reserves w gas commission is_pool cin cout r with
      | Rej c => Rej c | Pan s => Pan s
      | Ok r' =>
        match check_swap_sell (fst r') (snd r') vin (match rest' with [] => vmin | _ => 0 end) with
        | Rej c => Rej c | Pan s => Pan s
        | Ok o => if negb (0 <? o) then Rej cInsufficientLiquidity else
                  sell_route_check w gas commission is_pool (pkey cin cout :: seen) cout o rest' vmin
        end
      end
    end
  end.

(* coins already reversed: cbuy is bought with csell = head of rest *)
Fixpoint buy_route_check (w : world) (gas commission : Z) (is_pool : bool) (seen : list (Z * Z))
         (cbuy vbuy : Z) (rest : list Z) (vmax : Z) : res Z :=
  match rest with
  | [] => Ok vbuy
  | csell :: rest' =>
    match get_pool w csell cbuy with
    | None => Pan 963
    | Some r =>
      if existsb (keq (pkey csell cbuy)) seen then Rej cDuplicatePoolInRoute else
      match sim_reserves w gas commission is_pool csell cbuy r with
      | Rej c => Rej c | Pan s => Pan s
      | Ok r' =>
        match check_swap_buy (fst r') (snd r') (match rest' with [] => vmax | _ => max_coin_supply end) vbuy with
        | Rej c => Rej c | Pan s => Pan s
        | Ok i => if negb (0 <? i) then Rej cInsufficientLiquidity else
                  buy_route_check w gas commission is_pool (pkey csell cbuy :: seen) csell i rest' vmax
        end
      end
    end
  end.

(* deliver phase, sell direction: every hop is PairSellWithOrders(cin, cout, value, 0) on the state
   as it is now; the sender is debited at the first hop and credited at the last one *)
Fixpoint sell_route_deliver (w : world) (sender cin vin : Z) (rest : list Z) (first : bool) : outcome (list eff * Z) :=
  match rest with
  | [] => Val ([], vin)
  | cout :: rest' =>
    match get_pool w cin cout with
    | None => Panic 963
    | Some (r0, r1) =>
      match sell_wo r0 r1 vin 0 with
      | Nil => Panic 2 | Panic s => Panic s
      | Val (d0, out) =>
        let hop := [EPool cin cout d0 (- out); EBal burn_address cin (com1000 vin)]
                   ++ (if first then [EBal sender cin (- vin)] else [])
                   ++ (match rest' with [] => [EBal sender cout out] | _ => [] end) in
        match sell_route_deliver (apply_effs w hop) sender cout out rest' false with
        | Val (effs, res) => Val (hop ++ effs, res)
        | Nil => Nil | Panic s => Panic s
        end
      end
    end
  end.

(* deliver phase, buy direction (coins reversed): every hop is PairBuyWithOrders(csell, cbuy,
   maxCoinSupply, value); the sender is credited at the first hop and debited at the last one *)
Fixpoint buy_route_deliver (w : world) (sender cbuy vbuy : Z) (rest : list Z) (first : bool) : outcome (list eff * Z) :=
  match rest with
  | [] => Val ([], vbuy)
  | csell :: rest' =>
    match get_pool w csell cbuy with
    | None => Panic 963
    | Some (r0, r1) =>
      match buy_wo r0 r1 max_coin_supply vbuy with
      | Nil => Panic 2 | Panic s => Panic s
      | Val (d0, ain) =>
        let hop := [EPool csell cbuy d0 (- vbuy); EBal burn_address csell (com1000 ain)]
                   ++ (if first then [EBal sender cbuy vbuy] else [])
                   ++ (match rest' with [] => [EBal sender csell (- ain)] | _ => [] end) in
        match buy_route_deliver (apply_effs w hop) sender csell ain rest' false with
        | Val (effs, res) => Val (hop ++ effs, res)
        | Nil => Nil | Panic s => Panic s
        end
      end
    end
  end.

(* the coin a route ends in *)
Fixpoint lastc (cin : Z) (rest : list Z) : Z := match rest with [] => cin | c :: r => lastc c r end.

(* ---- transactions --------------------------------------------------------------------------------------------- *)
Inductive txdata :=
| SellPool (coins : list Z) (value vmin : Z)
| BuyPool (coins : list Z) (value vmax : Z)
| SellAllPool (coins : list Z) (vmin : Z)
| SellCoin (csell value cbuy vmin : Z)
| BuyCoin (cbuy value csell vmax : Z)
| SellAllCoin (csell cbuy vmin : Z).

Record tx := { t_sender : Z; t_gas_coin : Z; t_gas_price : Z; t_payload_len : Z; t_data : txdata }.

(* the numeric result tags (tx.return, tx.sell_amount, tx.commission_amount,
   tx.commission_in_base_coin, tx.commission_conversion = "pool") *)
Record tags := { tag_return : Z; tag_sell_amount : option Z; tag_commission : Z; tag_commission_base : Z; tag_pool : bool }.

Inductive txres := Reject (code : Z) | Accept (effs : list eff) (t : tags) | TxPanic (site : Z).

Definition type_price (p : ptable) (d : txdata) : Z :=
  match d with
  | SellPool coins _ _ => pt_sell_pool_base p + pt_sell_pool_delta p * (Z.of_nat (length coins) - 2)
  | BuyPool coins _ _ => pt_buy_pool_base p + pt_buy_pool_delta p * (Z.of_nat (length coins) - 2)
  | SellAllPool coins _ => pt_sell_all_pool_base p + pt_sell_all_pool_delta p * (Z.of_nat (length coins) - 2)
  | SellCoin _ _ _ _ => pt_sell_bancor p
  | BuyCoin _ _ _ _ => pt_buy_bancor p
  | SellAllCoin _ _ _ => pt_sell_all_bancor p
  end.
Definition tx_price (p : ptable) (t : tx) : Z := t_gas_price t * (type_price p (t_data t) + t_payload_len t * pt_payload_byte p).

(* Transaction.CommissionCoin: the sold coin for the two sell-all types, the gas coin otherwise *)
Definition commission_coin (t : tx) : Z :=
  match t_data t with
  | SellAllPool coins _ => match coins with c :: _ => c | [] => 0 end
  | SellAllCoin c _ _ => c
  | _ => t_gas_coin t
  end.

Definition no_tags : tags := {| tag_return := 0; tag_sell_amount := None; tag_commission := 0; tag_commission_base := 0; tag_pool := false |}.

(* the commission part of the deliver phase followed by [k] on the state after it *)
Definition with_commission (w : world) (sender gas commission price : Z) (is_pool : bool) (minOut : Z) (whole : bool)
           (k : world -> outcome (list eff * tags)) (mk : Z -> tags -> tags) : txres :=
  match commission_deliver w sender gas commission price is_pool minOut with
  | Nil => TxPanic 2 | Panic s => TxPanic s
  | Val (ce, cib) =>
    (* whole = SellAllCoin: the sender's whole balance is debited later in one SubBalance *)
    let ce' := ce ++ (if whole then [] else [EBal sender gas (- commission)]) ++ [ERpool cib] in
    match k (apply_effs w ce') with
    | Nil => TxPanic 2 | Panic s => TxPanic s
    | Val (effs, t) => Accept (ce' ++ effs) (mk cib t)
    end
  end.

Definition mk_tags (commission : Z) (is_pool : bool) (cib : Z) (t : tags) : tags :=
  {| tag_return := tag_return t; tag_sell_amount := tag_sell_amount t; tag_commission := commission;
     tag_commission_base := cib; tag_pool := is_pool |}.

Definition ret_tags (r : Z) (sa : option Z) : tags :=
  {| tag_return := r; tag_sell_amount := sa; tag_commission := 0; tag_commission_base := 0; tag_pool := false |}.

(* bancor helpers (buy_coin.go) *)
Definition sale_return_and_check (c : bcoin) (value : Z) : res Z :=
  if bc_vol c <? value then Rej cCoinReserveNotSufficient else
  let v := o_sr (bc_vol c) (bc_res c) (bc_crr c) value in
  if bc_res c - v <? min_coin_reserve then Rej cCoinReserveUnderflow else Ok v.

(* CalculateSaleAmountAndCheck: after [value] has been overwritten with the COIN amount to sell,
   CheckReserveUnderflow compares reserve - (coin amount) with the minimum reserve (as written) *)
Definition sale_amount_and_check (c : bcoin) (value : Z) : res Z :=
  if bc_res c <? value then Rej cCoinReserveNotSufficient else
  let v := o_sa (bc_vol c) (bc_res c) (bc_crr c) value in
  if bc_res c - v <? min_coin_reserve then Rej cCoinReserveUnderflow else Ok v.

Definition adj (c : bcoin) (commission price : Z) : bcoin :=
  {| bc_vol := bc_vol c - commission; bc_res := bc_res c - price; bc_crr := bc_crr c; bc_max := bc_max c |}.

(* basicCheck of the three bancor types *)
Definition basic_check_coins (w : world) (csell cbuy : Z) : option Z :=
  match get_coin w csell with
  | None => Some cCoinNotExists
  | Some cs =>
    if negb (base_or_reserve csell cs) then Some cCoinHasNotReserve else
    match get_coin w cbuy with
    | None => Some cCoinNotExists
    | Some cb =>
      if negb (base_or_reserve cbuy cb) then Some cCoinHasNotReserve else
      if csell =? cbuy then Some cCrossConvert else None
    end
  end.

Definition coin_or_base (w : world) (id : Z) : bcoin := match get_coin w id with Some c => c | None => base_coin end.

(* Data.Run; deliver = false is the check mode (same checks, nothing applied, no tags) *)
Definition run (w : world) (t : tx) (deliver : bool) : txres :=
  let sender := t_sender t in
  let gas := commission_coin t in
  let price := tx_price (w_prices w) t in
  match t_data t with
  | SellPool coins value vmin =>
    match basic_check_route w coins with Some c => Reject c | None =>
    match calc_commission w gas price with Rej c => Reject c | Pan s => TxPanic s | Ok (commission, is_pool) =>
    match coins with [] => Reject cDecodeError | c0 :: rest =>
    match sell_route_check w gas commission is_pool [] c0 value rest vmin with Rej c => Reject c | Pan s => TxPanic s | Ok _ =>
    if negb (gas =? c0) && (bal w sender gas <? commission) then Reject cInsufficientFunds else
    if bal w sender c0 <? (if gas =? c0 then value + commission else value) then Reject cInsufficientFunds else
    if negb deliver then Accept [] no_tags else
    with_commission w sender gas commission price is_pool 0 false
      (fun w1 => match sell_route_deliver w1 sender c0 value rest true with
                 | Val (effs, out) => Val (effs, ret_tags out None) | Nil => Nil | Panic s => Panic s end)
      (mk_tags commission is_pool)
    end end end end
  | BuyPool coins value vmax =>
    match basic_check_route w coins with Some c => Reject c | None =>
    match calc_commission w gas price with Rej c => Reject c | Pan s => TxPanic s | Ok (commission, is_pool) =>
    match rev coins with [] => Reject cDecodeError | ck :: rest =>
    match buy_route_check w gas commission is_pool [] ck value rest vmax with Rej c => Reject c | Pan s => TxPanic s | Ok need =>
    let c0 := lastc ck rest in
    if bal w sender c0 <? (if gas =? c0 then need + commission else need) then Reject cInsufficientFunds else
    if bal w sender gas <? commission then Reject cInsufficientFunds else
    if negb deliver then Accept [] no_tags else
    with_commission w sender gas commission price is_pool 0 false
      (fun w1 => match buy_route_deliver w1 sender ck value rest true with
                 | Val (effs, ain) => Val (effs, ret_tags ain None) | Nil => Nil | Panic s => Panic s end)
      (mk_tags commission is_pool)
    end end end end
  | SellAllPool coins vmin =>
    match basic_check_route w coins with Some c => Reject c | None =>
    match calc_commission w gas price with Rej c => Reject c | Pan s => TxPanic s | Ok (commission, is_pool) =>
    match coins with [] => Reject cDecodeError | c0 :: rest =>
    let available := bal w sender c0 in
    let value := available - commission in
    if negb (0 <? value) then Reject cInsufficientFunds else
    match sell_route_check w gas commission is_pool [] c0 value rest vmin with Rej c => Reject c | Pan s => TxPanic s | Ok _ =>
    if negb deliver then Accept [] no_tags else
    with_commission w sender gas commission price is_pool 0 false
      (fun w1 => match sell_route_deliver w1 sender c0 value rest true with
                 | Val (effs, out) => Val (effs, ret_tags out (Some available)) | Nil => Nil | Panic s => Panic s end)
      (mk_tags commission is_pool)
    end end end end
  | SellCoin csell value cbuy vmin =>
    match basic_check_coins w csell cbuy with Some c => Reject c | None =>
    match calc_commission w gas price with Rej c => Reject c | Pan s => TxPanic s | Ok (commission, is_pool) =>
    if negb (gas =? csell) && (bal w sender csell <? value) then Reject cInsufficientFunds else
    if bal w sender gas <? (if gas =? csell then commission + value else commission) then Reject cInsufficientFunds else
    let adjust := negb is_pool && negb (gas =? 0) in
    let cfrom := if adjust && (gas =? csell) then adj (coin_or_base w csell) commission price else coin_or_base w csell in
    let cto := if adjust && negb (gas =? csell) && (gas =? cbuy) then adj (coin_or_base w cbuy) commission price else coin_or_base w cbuy in
    match (if negb (csell =? 0) then sale_return_and_check cfrom value else Ok value) with Rej c => Reject c | Pan s => TxPanic s | Ok bip =>
    let out := if negb (cbuy =? 0) then o_pr (bc_vol cto) (bc_res cto) (bc_crr cto) bip else bip in
    if negb (cbuy =? 0) && (bc_max cto <? bc_vol cto + out) then Reject cCoinSupplyOverflow else
    if out <? vmin then Reject cMinimumValueToBuyReached else
    if negb deliver then Accept [] no_tags else
    with_commission w sender gas commission price is_pool 0 false
      (fun _ => Val ([EBal sender csell (- value)]
                     ++ (if negb (csell =? 0) then [EVol csell (- value); ERes csell (- bip)] else [])
                     ++ [EBal sender cbuy out]
                     ++ (if negb (cbuy =? 0) then [EVol cbuy out; ERes cbuy bip] else []), ret_tags out None))
      (mk_tags commission is_pool)
    end end end
  | BuyCoin cbuy value csell vmax =>
    match basic_check_coins w csell cbuy with Some c => Reject c | None =>
    match calc_commission w gas price with Rej c => Reject c | Pan s => TxPanic s | Ok (commission, is_pool) =>
    let adjust := negb is_pool && negb (gas =? 0) in
    let cfrom := if adjust && (gas =? csell) then adj (coin_or_base w csell) commission price else coin_or_base w csell in
    let cto := if adjust && negb (gas =? csell) && (gas =? cbuy) then adj (coin_or_base w cbuy) commission price else coin_or_base w cbuy in
    if negb (cbuy =? 0) && (bc_max cto <? bc_vol cto + value) then Reject cCoinSupplyOverflow else
    let bip := if negb (cbuy =? 0) then o_pa (bc_vol cto) (bc_res cto) (bc_crr cto) value else value in
    match (if negb (csell =? 0) then sale_amount_and_check cfrom bip else Ok bip) with Rej c => Reject c | Pan s => TxPanic s | Ok need =>
    if vmax <? need then Reject cMaximumValueToSellReached else
    if negb (gas =? csell) && (bal w sender csell <? need) then Reject cInsufficientFunds else
    if bal w sender gas <? (if gas =? csell then commission + need else commission) then Reject cInsufficientFunds else
    if negb deliver then Accept [] no_tags else
    with_commission w sender gas commission price is_pool 0 false
      (fun _ => Val ([EBal sender csell (- need)]
                     ++ (if negb (csell =? 0) then [EVol csell (- need); ERes csell (- bip)] else [])
                     ++ [EBal sender cbuy value]
                     ++ (if negb (cbuy =? 0) then [EVol cbuy value; ERes cbuy bip] else []), ret_tags need None))
      (mk_tags commission is_pool)
    end end end
  | SellAllCoin csell cbuy vmin =>
    match basic_check_coins w csell cbuy with Some c => Reject c | None =>
    match calc_commission w gas price with Rej c => Reject c | Pan s => TxPanic s | Ok (commission, is_pool) =>
    let balance := bal w sender csell in
    if negb (commission <? balance) then Reject cInsufficientFunds else
    let cfrom := if negb is_pool && negb (csell =? 0) then adj (coin_or_base w csell) commission price else coin_or_base w csell in
    let cto := coin_or_base w cbuy in
    let value := balance - commission in
    if negb (0 <? value) then Reject cInsufficientFunds else
    match (if negb (csell =? 0) then sale_return_and_check cfrom value else Ok value) with Rej c => Reject c | Pan s => TxPanic s | Ok bip =>
    let out := if negb (cbuy =? 0) then o_pr (bc_vol cto) (bc_res cto) (bc_crr cto) bip else bip in
    if negb (cbuy =? 0) && (bc_max cto <? bc_vol cto + out) then Reject cCoinSupplyOverflow else
    if out <? vmin then Reject cMinimumValueToBuyReached else
    if negb deliver then Accept [] no_tags else
    with_commission w sender gas commission price is_pool 0 true
      (fun _ => Val ([EBal sender csell (- balance)]
                     ++ (if negb (csell =? 0) then [EVol csell (- value); ERes csell (- bip)] else [])
                     ++ [EBal sender cbuy out]
                     ++ (if negb (cbuy =? 0) then [EVol cbuy out; ERes cbuy bip] else []), ret_tags out (Some balance)))
      (mk_tags commission is_pool)
    end end end
  end.

(* the failed-transaction branch of RunTx (deliver mode) can REPLACE the response code: the failure
   fee is priced like any commission (CommissionCoinNotSufficient when the gas coin has no route),
   and when the payer's balance is smaller than the fee the whole balance is converted instead
   (CheckSwap on the commission pool, or CalculateSaleReturnAndCheck on the reserve), whose error
   is returned.  Only the code is modelled here; the fee itself is Model/Ledger.v's subject. *)
Definition failed_price (p : ptable) (t : tx) : Z := t_gas_price t * (pt_failed p + t_payload_len t * pt_payload_byte p).
Definition failed_code (w : world) (t : tx) (code : Z) : res Z :=
  let cc := commission_coin t in
  match calc_commission w cc (failed_price (w_prices w) t) with
  | Rej c => Ok c
  | Pan s => Pan s
  | Ok (commission, is_pool) =>
    let b := bal w (t_sender t) cc in
    if negb (0 <? b) then Ok code else
    if negb (b <? commission) then Ok code else
    if is_pool then
      match get_pool w cc 0 with
      | None => Pan 961
      | Some (g, bb) =>
        match check_swap_sell g bb b 0 with
        | Rej c => Ok c
        | Pan s => Pan s
        | Ok cib => if negb (0 <? cib) then Ok cCommissionCoinNotSufficient else Ok code
        end
      end
    else
      match get_coin w cc with
      | Some gc => if negb (cc =? 0) && (0 <? bc_crr gc)
                   then match sale_return_and_check gc b with Rej c => Ok c | Pan s => Pan s | Ok _ => Ok code end
                   else Ok code
      | None => Pan 964
      end
  end.

(* RunTx around Run: the commission coin must exist (executor_v3.go); the other gates (chain id,
   nonce, sizes, signatures) are Model/Ledger.v's and are not repeated here *)
Definition run_tx (w : world) (t : tx) (deliver : bool) : txres :=
  match get_coin w (commission_coin t) with
  | None => Reject cCoinNotExists
  | Some _ =>
    match run w t deliver with
    | Reject c => if deliver then match failed_code w t c with Ok c' => Reject c' | Rej c' => Reject c' | Pan s => TxPanic s end
                  else Reject c
    | r => r
    end
  end.

End WithOracles.
