(* Bancor.v — C12: exact integer specification of the bonding curve ("ideal" functions, no
   reals), the integer branches of /repo/formula/formula.go transliterated, the full functions
   with the 100-bit big.Float branch as an explicit oracle, the tolerance predicate and the
   cheap decision procedure for it used by the dispatcher.  No proofs here
   (Proofs/BancorFacts.v).

   s = coin supply (volume), r = reserve, c = constant reserve ratio in percent (10..100).
   With rho = c/100:
     purchase return (deposit d)   = floor (s * ((1 + d/r)^rho - 1))
     purchase amount (want w)      = floor (r * (((w + s)/s)^(1/rho) - 1))
     sale return     (sell a <= s) = floor (r * (1 - (1 - a/s)^(1/rho)))
     sale amount     (want w <= r) = floor (s * (1 - ((r - w)/r)^rho))
   Each floor is "the largest integer satisfying a polynomial inequality" (raise to the
   100-th power and clear denominators); that inequality is the specification. *)
From Minter Require Import Base.
Open Scope Z_scope.

(* ---- generic: the largest integer in [lo, hi] satisfying a downward-closed predicate -------- *)
(* invariant of the search: P lo holds, P fails from hi upwards, lo < hi; the divisor 2 is a literal *)
Fixpoint bisect (P : Z -> bool) (fuel : nat) (lo hi : Z) : Z :=
  match fuel with
  | O => lo
  | S f =>
    if hi - lo <=? 1 then lo
    else let mid := (lo + hi) / 2 in
         if P mid then bisect P f mid hi else bisect P f lo mid
  end.

(* enough fuel to halve the interval [lo, hi+1) down to width 1 *)
Definition bisect_fuel (lo hi : Z) : nat := Z.to_nat (Z.log2_up (hi + 1 - lo)).

Definition largest_sat (P : Z -> bool) (lo hi : Z) : Z := bisect P (bisect_fuel lo hi) lo (hi + 1).

(* ---- the four defining inequalities ------------------------------------------------------------ *)
(* y coins for a deposit d:   ((y+s)/s)^100 <= ((r+d)/r)^c *)
Definition pr_ok (s r c d y : Z) : bool := (y + s) ^ 100 * r ^ c <=? (r + d) ^ c * s ^ 100.
(* x bips to receive w coins: ((x+r)/r)^c <= ((w+s)/s)^100 *)
Definition pa_ok (s r c w x : Z) : bool := (x + r) ^ c * s ^ 100 <=? r ^ c * (w + s) ^ 100.
(* y bips for selling a coins: ((r-y)/r)^c >= ((s-a)/s)^100 *)
Definition sr_ok (s r c a y : Z) : bool := r ^ c * (s - a) ^ 100 <=? (r - y) ^ c * s ^ 100.
(* x coins to sell to receive w bips: ((s-x)/s)^100 >= ((r-w)/r)^c *)
Definition sa_ok (s r c w x : Z) : bool := s ^ 100 * (r - w) ^ c <=? (s - x) ^ 100 * r ^ c.

(* search ranges: no y above the upper end satisfies the inequality (BancorFacts: *_above) *)
Definition pr_hi (s d : Z) : Z := s * d.
Definition pa_hi (r w : Z) : Z := r * (1 + w) ^ 10.

Definition ideal_purchase_return (s r c d : Z) : Z := largest_sat (pr_ok s r c d) 0 (pr_hi s d).
Definition ideal_purchase_amount (s r c w : Z) : Z := largest_sat (pa_ok s r c w) 0 (pa_hi r w).
Definition ideal_sale_return (s r c a : Z) : Z := largest_sat (sr_ok s r c a) 0 r.
Definition ideal_sale_amount (s r c w : Z) : Z := largest_sat (sa_ok s r c w) 0 s.

(* ---- formula.go: the integer branches, verbatim (big.Int.Div = Euclidean, panics on 0) -------- *)
(* None = the call continues into the big.Float branch *)
Definition code_purchase_return_int (s r c d : Z) : option (outcome Z) :=
  if d =? 0 then Some (Val 0)
  else if c =? 100 then Some (ediv (s * d) r)
  else None.

Definition code_purchase_amount_int (s r c w : Z) : option (outcome Z) :=
  if w =? 0 then Some (Val 0)
  else if c =? 100 then Some (ediv (w * r) s)
  else None.

Definition code_sale_return_int (s r c a : Z) : option (outcome Z) :=
  if a =? 0 then Some (Val 0)
  else if a =? s then Some (Val r)
  else if c =? 100 then Some (ediv (r * a) s)
  else None.

Definition code_sale_amount_int (s r c w : Z) : option (outcome Z) :=
  if w =? 0 then Some (Val 0)
  else if c =? 100 then Some (ediv (w * s) r)
  else None.

(* the full functions: the float branch is an oracle (the value Go computed) *)
Definition oracle := Z -> Z -> Z -> Z -> Z.

Definition purchase_return (orc : oracle) (s r c d : Z) : outcome Z :=
  match code_purchase_return_int s r c d with Some v => v | None => Val (orc s r c d) end.
Definition purchase_amount (orc : oracle) (s r c w : Z) : outcome Z :=
  match code_purchase_amount_int s r c w with Some v => v | None => Val (orc s r c w) end.
Definition sale_return (orc : oracle) (s r c a : Z) : outcome Z :=
  match code_sale_return_int s r c a with Some v => v | None => Val (orc s r c a) end.
Definition sale_amount (orc : oracle) (s r c w : Z) : outcome Z :=
  match code_sale_amount_int s r c w with Some v => v | None => Val (orc s r c w) end.

(* ---- tolerance: |f - ideal| <= (n/d) * ideal + 1 ------------------------------------------------ *)
Definition within (n d f ideal : Z) : Prop := Z.abs (f - ideal) * d <= n * ideal + d.

(* ceiling division for a positive divisor (guarded by the callers: d + n > 0) *)
Definition cdiv (a b : Z) : Z := - ((- a) / b).

(* Deciding [within n d f (largest_sat P 0 hi)] without computing the largest_sat: with v the
   largest integer in [0, hi] satisfying the downward-closed P,
     |f - v| d <= n v + d   <->   ceil ((f-1) d / (d+n)) <= v <= floor ((f+1) d / (d-n))
   and  lb <= v <-> lb <= 0 \/ (lb <= hi /\ P lb),   v <= ub <-> 0 <= ub /\ (hi <= ub \/ ~ P (ub+1)).
   Two evaluations of P instead of a ~100-step bisection. *)
Definition check_within (P : Z -> bool) (hi n d f : Z) : bool :=
  let lb := cdiv ((f - 1) * d) (d + n) in
  let ub := ((f + 1) * d) / (d - n) in
  ((lb <=? 0) || ((lb <=? hi) && P lb)) &&
  ((0 <=? ub) && ((hi <=? ub) || negb (P (ub + 1)))).

(* ---- the dispatcher's check (model 12) ----------------------------------------------------------- *)
(* tolerance of the correspondence check: eps = 2^-33 (observed maximum of the Go float branch
   for supply, reserve < 2^96: 2^-43.9, see harness/cmd/vharness/c12.go) *)
Definition eps_num : Z := 1.
Definition eps_den : Z := 2 ^ 33.

Definition bancor_int (k s r c a : Z) : option (outcome Z) :=
  match k with
  | 1 => code_purchase_return_int s r c a
  | 2 => code_purchase_amount_int s r c a
  | 3 => code_sale_return_int s r c a
  | _ => code_sale_amount_int s r c a
  end.

Definition bancor_float_ok (k s r c a f : Z) : bool :=
  match k with
  | 1 => check_within (pr_ok s r c a) (pr_hi s a) eps_num eps_den f
  | 2 => check_within (pa_ok s r c a) (pa_hi r a) eps_num eps_den f
  | 3 => check_within (sr_ok s r c a) r eps_num eps_den f
  | _ => check_within (sa_ok s r c a) s eps_num eps_den f
  end.

Definition bancor_domain (k s r c a : Z) : bool :=
  (1 <=? k) && (k <=? 4) && (0 <? s) && (0 <? r) && (10 <=? c) && (c <=? 100) && (0 <=? a) &&
  (if k =? 3 then a <=? s else true) && (if k =? 4 then a <=? r else true).

(* op [k; s; r; c; a; f]: k selects the function, f = what the Go function returned
   -> [branch; ok]   branch 0 = integer branch, 1 = float branch;
   ok = 1 iff f is the transliterated integer result (integer branch) resp. within eps of the
   exact curve value (float branch).  [k; s; r; c; a] (the Go call panicked) -> [branch; 0]. *)
Definition run_bancor_op (op : list Z) : list Z :=
  match op with
  | [k; s; r; c; a; f] =>
    if negb (bancor_domain k s r c a) then [-2] else
    match bancor_int k s r c a with
    | Some (Val v) => [0; if f =? v then 1 else 0]
    | Some _ => [0; 0]
    | None => [1; if bancor_float_ok k s r c a f then 1 else 0]
    end
  | [k; s; r; c; a] =>
    if negb (bancor_domain k s r c a) then [-2] else
    match bancor_int k s r c a with Some _ => [0; 0] | None => [1; 0] end
  | _ => [-1]
  end.
