(* FeeRoute.v — which route pays a commission in a custom coin (C27): CalculateCommission of
   coreV2/transaction/sell_all_swap_pool_v230.go.  The two quotes (formula.CalculateSaleAmount on the coin's
   reserve; the pool's CalculateSellForBuy) are inputs: None = that route is not available. *)
From Coq Require Import ZArith List Bool.
Import ListNotations.
Open Scope Z_scope.

Inductive route := RBancor | RPool.

Definition choose_route (reserveQ poolQ : option Z) : option (Z * route) :=
  match reserveQ, poolQ with
  | None, None => None                                   (* code 116: commission coin not sufficient *)
  | Some r, Some p => if r <? p then Some (r, RBancor) else Some (p, RPool)
  | None, Some p => Some (p, RPool)
  | Some r, None => Some (r, RBancor)
  end.

(* integer-list interface (dispatch model 22): [hasReserveQuote; reserveQ; hasPoolQuote; poolQ] -> [amount; route]
   route: 0 bancor, 1 pool; [-1] when neither route is available *)
Definition run_feeroute_op (l : list Z) : list Z :=
  match l with
  | [hr; r; hp; p] =>
    match choose_route (if hr =? 1 then Some r else None) (if hp =? 1 then Some p else None) with
    | Some (a, RBancor) => [a; 0]
    | Some (a, RPool) => [a; 1]
    | None => [-1]
    end
  | _ => [-2]
  end.
