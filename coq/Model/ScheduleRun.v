(* ScheduleRun.v — integer-list interface of Model/Schedule.v for the correspondence check
   (model 20 of Dispatch.v): decoding of operations, observable outputs.  The periods are the
   testnet ones of Generated/Consts.v (the harness runs with types.CurrentChainID = ChainTestnet);
   the init operation carries the periods the Go runtime answers and reports whether they agree. *)
From Minter Require Import Base Consts Schedule.
From Minter Require Punish.
From Coq Require Import ZArith List Bool.
Import ListNotations.
Open Scope Z_scope.

Definition zb (z : Z) : bool := negb (z =? 0).
Definition bz (b : bool) : Z := if b then 1 else 0.
Definition oz (o : option Z) : Z := match o with Some v => v | None => -1 end.

Fixpoint take3 (n : nat) (l : list Z) : list (Z * Z * Z) * list Z :=
  match n, l with
  | S n', a :: b :: c :: r => let '(ts, rest) := take3 n' r in ((a, b, c) :: ts, rest)
  | _, _ => ([], l)
  end.

Fixpoint dec_evid (n : nat) (l : list Z) : list (Z * bool * bool) :=
  match n, l with
  | S n', c :: o :: v :: r => (c, zb o, zb v) :: dec_evid n' r
  | _, _ => []
  end.

Definition dec_data (l : list Z) : option txdata :=
  match l with
  | [1; cand; coin; value] => Some (Unbond cand coin value)
  | [2; from; to; coin; value] => Some (MoveStake from to coin value)
  | [3] => Some LockStake
  | [4; due; coin; value] => Some (Lock due coin value)
  | [5; cand; coin; value; hr; verdict] => Some (Delegate cand coin value (zb hr) verdict)
  | _ => None
  end.

(* the (candidate, coin) whose stake / waitlist / update entries the transaction is about *)
Definition tx_key (d : txdata) : Z * Z :=
  match d with
  | Unbond cand coin _ => (cand, coin)
  | MoveStake from _ coin _ => (from, coin)
  | LockStake => (0, 0)
  | Lock _ coin _ => (0, coin)
  | Delegate cand coin _ _ _ => (cand, coin)
  end.

Definition enc_fund (f : fund) : list Z := [f_due f; f_owner f; f_cand f; f_coin f; f_value f; f_move f].

(* the fund a transaction created: the last one, when the list grew *)
Definition created_view (before after : st) : list Z :=
  if Z.of_nat (length (s_frozen before)) <? Z.of_nat (length (s_frozen after))
  then 1 :: enc_fund (last (s_frozen after) (mkfund 0 0 0 0 0 0))
  else [0; 0; 0; 0; 0; 0; 0].

Definition key_view (s : st) (sender cand coin : Z) : list Z :=
  [oz (efind (s_stakes s) cand sender coin); oz (efind (s_wait s) cand sender coin); esum (s_updates s) cand sender coin].

(* insertion into a list of ((owner, coin), total) sorted by (owner, coin) *)
Fixpoint agg_insert (l : list (Z * Z * Z)) (o k v : Z) : list (Z * Z * Z) :=
  match l with
  | [] => [(o, k, v)]
  | (o', k', v') :: r =>
    if (o' =? o) && (k' =? k) then (o', k', v' + v) :: r
    else if (o <? o') || ((o =? o') && (k <? k')) then (o, k, v) :: l
    else (o', k', v') :: agg_insert r o k v
  end.
Definition aggregate (fs : list fund) : list (Z * Z * Z) :=
  filter (fun x => negb (snd x =? 0)) (fold_left (fun acc f => agg_insert acc (f_owner f) (f_coin f) (f_value f)) fs []).

Definition P0 : periods := testnet_periods.

Definition schedule_step (s : st) (o : list Z) : st * list Z :=
  match o with
  | [0; unbond; move; lockstake; height] =>
    (init_state height, [bz (unbond =? p_unbond P0); bz (move =? p_move P0); bz (lockstake =? p_lockstake P0)])
  | [1; a; c; v] => (apply_env s (SetBal a c v), [0])
  | 2 :: cand :: ns :: r => (apply_env s (SetStakes cand (fst (take3 (Z.to_nat ns) r))), [0])
  | 7 :: cand :: nu :: r => (apply_env s (SetUpdates cand (fst (take3 (Z.to_nat nu) r))), [0])
  | [3; c; ow; k; present; v] => (apply_env s (SetWait c ow k (if zb present then Some v else None)), [0])
  | [4; c; status] => (apply_env s (SetCand c status), [0])
  | [5; a; u] => (apply_env s (SetLock a u), [0])
  | [6; c] => (apply_env s (SetCoin c), [0])
  | 10 :: sender :: com :: ffee :: r =>
    match dec_data r with
    | None => (s, [-1])
    | Some d =>
      let t := {| t_sender := sender; t_com := com; t_ffee := ffee; t_data := d |} in
      let '(s', x) := step P0 s (OpTx t) in
      let '(cand, coin) := tx_key d in
      match x with
      | OTx c => (s', [c; bal s' sender 0; bal s' sender coin; lock_until s' sender] ++ created_view s s' ++ key_view s' sender cand coin)
      | OCrash site => (s', [-2; site])
      | _ => (s', [-1])
      end
    end
  | 20 :: h :: nev :: r =>
    let '(s', x) := step P0 s (OpBegin h (dec_evid (Z.to_nat nev) r)) in
    match x with
    | OBegin m => (s', 0 :: Z.of_nat (length m) :: flat_map (fun f => [f_owner f; f_coin f; f_value f; f_move f]) m)
    | OCrash site => (s', [2; site])
    | _ => (s', [-1])
    end
  | [21; cid; isval] =>
    let '(s', x) := step P0 s (OpRemove cid (zb isval)) in
    match x with
    | ORemove fs =>
      let a := aggregate fs in
      (s', Z.of_nat (length a) :: flat_map (fun x => let '(ow, k, v) := x in [ow; k; v]) a ++
           [match fs with f :: _ => f_due f | [] => 0 end; bz (cand_exists s' cid); cand_id s' cid])
    | _ => (s', [-1])
    end
  | [30; a; c] => (s, [bal s a c])
  | [31; cand; ow; k] => (s, key_view s ow cand k)
  | [32; due] =>
    let fs := filter (due_at due) (s_frozen s) in
    (s, Z.of_nat (length fs) :: flat_map (fun f => [f_owner f; f_cand f; f_coin f; f_value f; f_move f]) fs)
  | [33] => (s, [s_height s; Z.of_nat (length (s_frozen s))])
  | [34; cand; ow; k] => (s, [esum (s_stakes s) cand ow k + esum (s_updates s) cand ow k])
  | _ => (s, [-1])
  end.

Definition schedule_init : st := init_state 0.
