(* Punish.v — punishment of misbehaving validators (C18), transliterated.  Executable, no proofs.

   Go sources:
     coreV2/minter/blockchain.go      BeginBlock: vote loop, byzantine loop (guard, call order)
     coreV2/state/validators          SetValidatorAbsent / SetValidatorPresent / turnValidatorOff /
                                      PunishByzantineValidator; model.go SetAbsent / SetPresent
     coreV2/state/candidates          Punish (jail), IsCandidateJailed, PunishByzantineCandidate,
                                      GetNewCandidates (re-admission at EndBlock)
     coreV2/state/frozenfunds         PunishFrozenFundsWithID
     coreV2/transaction/switch_candidate_status.go   SetCandidateOnData.Run (jail gate)
   Constants come from Generated/Consts.v (regenerated from the Go source). *)
From Minter Require Export Base Consts.
Open Scope Z_scope.

(* ---- 1. the absent window ------------------------------------------------------------ *)

(* Validator.AbsentTimes: a BitArray of ValidatorMaxAbsentWindow bits, bit (height % window) *)
Definition window := list bool.
Definition win_len : nat := Z.to_nat validator_max_absent_window.
Definition fresh_window : window := repeat false win_len.     (* types.NewBitArray(24) *)

Fixpoint set_nth (i : nat) (b : bool) (w : window) : window :=
  match w with
  | [] => []
  | x :: r => match i with O => b :: r | S i' => x :: set_nth i' b r end
  end.

(* index := int(height) % ValidatorMaxAbsentWindow   (heights are non-negative) *)
Definition widx (h : Z) : nat := Z.to_nat (h mod validator_max_absent_window).
Definition set_absent (h : Z) (w : window) : window := set_nth (widx h) true w.     (* SetAbsent *)
Definition set_present (h : Z) (w : window) : window := set_nth (widx h) false w.   (* SetPresent *)

Definition b2z (b : bool) : Z := if b then 1 else 0.
(* CountAbsentTimes *)
Definition count_absent (w : window) : Z := sum_Z (map b2z w).

(* what SetValidatorAbsent / SetValidatorPresent touch: the validator's window and toDrop flag,
   its candidate's status (offline?) and JailedUntil *)
Record vstate := { v_win : window; v_drop : bool; v_offline : bool; v_jail : Z }.

(* a validator as SetNewValidators / Create make it: empty window; its (online) candidate may
   carry a JailedUntil j0 from an earlier punishment *)
Definition joined_with (j0 : Z) : vstate :=
  {| v_win := fresh_window; v_drop := false; v_offline := false; v_jail := j0 |}.
Definition joined : vstate := joined_with 0.

(* one entry of LastCommitInfo.Votes for this validator in the BeginBlock of height h.
   grace = blockchain.grace.IsGraceBlock(h).
     SetValidatorPresent: SetPresent(h), nothing else.
     SetValidatorAbsent : SetAbsent(h); if CountAbsentTimes() > validatorMaxAbsentTimes then
                          { if !grace then Punish: JailedUntil := h + JailPeriod };
                          turnValidatorOff: AbsentTimes := fresh, toDrop := true, candidate offline.
   Neither function looks at toDrop: a validator already marked is treated like any other. *)
Definition on_vote (jail_period : Z) (st : vstate) (h : Z) (signed grace : bool) : vstate :=
  if signed then
    {| v_win := set_present h (v_win st); v_drop := v_drop st; v_offline := v_offline st; v_jail := v_jail st |}
  else
    let w := set_absent h (v_win st) in
    if validator_max_absent_times <? count_absent w then
      {| v_win := fresh_window; v_drop := true; v_offline := true;
         v_jail := if grace then v_jail st else h + jail_period |}
    else
      {| v_win := w; v_drop := v_drop st; v_offline := v_offline st; v_jail := v_jail st |}.

(* a vote history: (signed, grace) for the consecutive heights h0, h0+1, ... *)
Fixpoint run_votes (jail_period : Z) (st : vstate) (h0 : Z) (votes : list (bool * bool)) : vstate :=
  match votes with
  | [] => st
  | (s, g) :: rest => run_votes jail_period (on_vote jail_period st h0 s g) (h0 + 1) rest
  end.

(* upgrades.Grace.IsGraceBlock over periods (from, to): from <= block <= to *)
Definition is_grace_block (periods : list (Z * Z)) (h : Z) : bool :=
  existsb (fun p => (fst p <=? h) && (h <=? snd p)) periods.

(* periods per chain id (types.GetJailPeriodWithChain etc.; 2 = ChainTestnet) *)
Definition jail_period (chain : Z) : Z := if chain =? 2 then jail_period_testnet else jail_period_mainnet.
Definition unbond_period (chain : Z) : Z := if chain =? 2 then unbond_period_testnet else unbond_period_mainnet.
Definition move_period (chain : Z) : Z := if chain =? 2 then move_period_testnet else move_period_mainnet.

(* ---- 2. the jail gate ---------------------------------------------------------------- *)

(* IsCandidateJailed(pubkey, block) = candidate.JailedUntil >= block.  SetCandidateOnData.Run
   passes currentBlock, which DeliverTx sets to blockchain.Height()+1 = the height of the block
   that contains the transaction. *)
Definition is_jailed (jailed_until block : Z) : bool := block <=? jailed_until.
Definition can_switch_on (jailed_until block : Z) : bool := negb (is_jailed jailed_until block).

(* ---- 3. byzantine punishment ------------------------------------------------------------ *)

Record stake := { k_owner : Z; k_coin : Z; k_value : Z; k_bip : Z }.
Record fund := { f_due : Z; f_owner : Z; f_cand : Z; f_coin : Z; f_value : Z; f_move : Z }.

(* newValue = value*95/100 (big.Int.Div by a positive number = floor); slashed = value - newValue *)
Definition keep_stake (v : Z) : Z := v * byz_stake_keep_num / byz_stake_keep_den.
Definition keep_fund (v : Z) : Z := v * byz_fund_keep_num / byz_fund_keep_den.
Definition slash_stake_value (v : Z) : Z := v - keep_stake v.
Definition slash_fund_value (v : Z) : Z := v - keep_fund v.

(* what a slash adds to App.TotalSlashed: the slashed amount itself for the base coin (id 0),
   otherwise the sale return of the slashed amount (formula.CalculateSaleReturn on the coin's
   current volume/reserve — an ORACLE value, supplied per slashed item) *)
Definition to_pool (coin slashed ret : Z) : Z := if coin =? 0 then slashed else ret.

(* a SlashEvent: (owner, coin, amount) *)
Definition slash_event := (Z * Z * Z)%type.

(* a custom-coin effect: (coin, volume decrease, reserve decrease) *)
Definition coin_effect (coin slashed ret : Z) : list (Z * Z * Z) :=
  if coin =? 0 then [] else [(coin, slashed, ret)].

(* PunishFrozenFundsWithID(fromHeight, toHeight, candidateID): every item of every block
   fromHeight <= due <= toHeight (both ends included) whose CandidateID matches; all other
   items are copied unchanged; order preserved.  Input: funds with their oracle value. *)
Definition fund_hit (from to cid : Z) (f : fund) : bool :=
  (from <=? f_due f) && (f_due f <=? to) && (f_cand f =? cid).

Definition punish_fund (from to cid : Z) (fr : fund * Z) : fund :=
  let '(f, _) := fr in
  if fund_hit from to cid f
  then {| f_due := f_due f; f_owner := f_owner f; f_cand := f_cand f; f_coin := f_coin f;
          f_value := keep_fund (f_value f); f_move := f_move f |}
  else f.

Definition fund_pool (from to cid : Z) (fr : fund * Z) : Z :=
  let '(f, ret) := fr in
  if fund_hit from to cid f then to_pool (f_coin f) (slash_fund_value (f_value f)) ret else 0.

Definition fund_event (from to cid : Z) (fr : fund * Z) : list slash_event :=
  let '(f, _) := fr in
  if fund_hit from to cid f then [(f_owner f, f_coin f, slash_fund_value (f_value f))] else [].

Definition fund_coin_effect (from to cid : Z) (fr : fund * Z) : list (Z * Z * Z) :=
  let '(f, ret) := fr in
  if fund_hit from to cid f then coin_effect (f_coin f) (slash_fund_value (f_value f)) ret else [].

Definition punish_funds (from to cid : Z) (fs : list (fund * Z)) : list fund := map (punish_fund from to cid) fs.
Definition punish_funds_pool (from to cid : Z) (fs : list (fund * Z)) : Z := sum_Z (map (fund_pool from to cid) fs).
Definition punish_funds_events (from to cid : Z) (fs : list (fund * Z)) : list slash_event := flat_map (fund_event from to cid) fs.
Definition punish_funds_coins (from to cid : Z) (fs : list (fund * Z)) : list (Z * Z * Z) := flat_map (fund_coin_effect from to cid) fs.

(* PunishByzantineCandidate(height, tmAddress): for every stake (GetStakes: the stake slots,
   NOT the pending updates): slash, AddTotalSlashed, SlashEvent, a frozen fund of the rest at
   height + UnbondPeriod for the same owner/coin, stake value and bip value := 0.
   The candidate is set offline (before the loop over the stakes).  Pending updates are neither
   slashed nor unbonded: they stay with the now offline candidate. *)
Definition stake_fund (h unbond cid : Z) (sr : stake * Z) : fund :=
  let '(s, _) := sr in
  {| f_due := h + unbond; f_owner := k_owner s; f_cand := cid; f_coin := k_coin s;
     f_value := keep_stake (k_value s); f_move := 0 |}.
Definition stake_zero (sr : stake * Z) : stake :=
  let '(s, _) := sr in {| k_owner := k_owner s; k_coin := k_coin s; k_value := 0; k_bip := 0 |}.
Definition stake_pool (sr : stake * Z) : Z :=
  let '(s, ret) := sr in to_pool (k_coin s) (slash_stake_value (k_value s)) ret.
Definition stake_event (sr : stake * Z) : slash_event :=
  let '(s, _) := sr in (k_owner s, k_coin s, slash_stake_value (k_value s)).
Definition stake_coin_effect (sr : stake * Z) : list (Z * Z * Z) :=
  let '(s, ret) := sr in coin_effect (k_coin s) (slash_stake_value (k_value s)) ret.

Definition punish_stakes_funds (h unbond cid : Z) (ss : list (stake * Z)) : list fund := map (stake_fund h unbond cid) ss.
Definition punish_stakes_left (ss : list (stake * Z)) : list stake := map stake_zero ss.
Definition punish_stakes_pool (ss : list (stake * Z)) : Z := sum_Z (map stake_pool ss).
Definition punish_stakes_events (ss : list (stake * Z)) : list slash_event := map stake_event ss.
Definition punish_stakes_coins (ss : list (stake * Z)) : list (Z * Z * Z) := flat_map stake_coin_effect ss.

(* ---- 4. one piece of evidence in BeginBlock ------------------------------------------- *)

(* the part of the state the byzantine loop reads and writes for ONE tendermint address *)
Record bstate := {
  b_known : bool;          (* GetCandidateByTendermintAddress(address) != nil *)
  b_cid : Z;               (* candidate.ID *)
  b_status : Z;            (* candidate.Status: 1 offline, 2 online *)
  b_listed : bool;         (* Validators.GetByTmAddress(address) != nil *)
  b_vtotal : Z;            (* the validator's total bip stake *)
  b_vdrop : bool;          (* the validator's toDrop flag *)
  b_stakes : list stake;
  b_funds : list fund;     (* all frozen funds, in (due block, position) order *)
  b_pool : Z;              (* App.TotalSlashed *)
  b_events : list slash_event
}.

Definition status_offline : Z := 1.
Definition status_online : Z := 2.

(* the guard of the loop: "skip already offline candidates to prevent double punishing" *)
Definition evidence_applies (st : bstate) : bool :=
  b_known st && negb (b_status st =? status_offline) && b_listed st.

(* oracle answers for this piece of evidence: one per frozen fund, one per stake (only the
   answers for punished custom-coin items are used) *)
Definition with_oracle {A} (l : list A) (rets : list Z) : list (A * Z) :=
  combine l (rets ++ repeat 0 (length l)).

Definition evidence (h unbond : Z) (rets_f rets_s : list Z) (st : bstate) : bstate :=
  if negb (evidence_applies st) then st else
  let fs := with_oracle (b_funds st) rets_f in
  let ss := with_oracle (b_stakes st) rets_s in
  let cid := b_cid st in
  (* 1. PunishFrozenFundsWithID(h, h + unbond, cid) *)
  let funds1 := punish_funds h (h + unbond) cid fs in
  (* 2. PunishByzantineValidator: total stake 0, toDrop *)
  (* 3. PunishByzantineCandidate *)
  {| b_known := true; b_cid := cid;
     b_status := status_offline;              (* candidate.setStatus(CandidateStatusOffline) *)
     b_listed := true;                        (* removed from the list only by EndBlock *)
     b_vtotal := 0; b_vdrop := true;
     b_stakes := punish_stakes_left ss;
     b_funds := funds1 ++ punish_stakes_funds h unbond cid ss;
     (* (new funds are appended to the block h+unbond; with no later-due items of other
        blocks in the list this is the export order — the dispatcher's encoding only lists this
        candidate's funds due up to h+unbond) *)
     b_pool := b_pool st + punish_funds_pool h (h + unbond) cid fs + punish_stakes_pool ss;
     b_events := b_events st ++ punish_funds_events h (h + unbond) cid fs ++ punish_stakes_events ss |}.

(* k pieces of evidence against the same address in the ByzantineValidators of one block
   (base-coin-only form: no oracle needed) *)
Fixpoint evidence_n (k : nat) (h unbond : Z) (st : bstate) : bstate :=
  match k with O => st | S k' => evidence_n k' h unbond (evidence h unbond [] [] st) end.

(* EndBlock after a drop: updateValidators = RecalculateStakesV2 (pending updates are merged
   into the stake slots) + GetNewCandidates (online and total bip stake >= minValidatorBipStake,
   cut to the validator count).  [room] says whether the candidate is within the count.  *)
Definition min_validator_stake : Z := min_validator_bip * 1000000000000000000.
Definition sum_bip (ss : list stake) : Z := sum_Z (map k_bip ss).
Definition readmitted (st : bstate) (pending_updates_bip : Z) (room : bool) : bool :=
  (b_status st =? status_online) && (min_validator_stake <=? sum_bip (b_stakes st) + pending_updates_bip) && room.

(* ---- 5. operations for the dispatcher (model 14) ------------------------------------------ *)

(* vote histories are run-length encoded: n runs (signed, grace, number of consecutive blocks) *)
Fixpoint dec_votes (n : nat) (l : list Z) : list (bool * bool) :=
  match n, l with
  | S n', s :: g :: c :: r => repeat (negb (s =? 0), negb (g =? 0)) (Z.to_nat c) ++ dec_votes n' r
  | _, _ => []
  end.

(* the window as an integer: bit i = AbsentTimes.GetIndex(i) *)
Fixpoint win_bits (w : window) : Z :=
  match w with [] => 0 | b :: r => b2z b + 2 * win_bits r end.

(* stake: coin, value, oracle ret *)
Fixpoint dec_stakes3 (n : nat) (l : list Z) : list stake * list Z * list Z :=
  match n, l with
  | S n', c :: v :: ret :: r =>
    let '(ss, rets, rest) := dec_stakes3 n' r in
    ({| k_owner := 0; k_coin := c; k_value := v; k_bip := v |} :: ss, ret :: rets, rest)
  | _, _ => ([], [], l)
  end.

(* fund: due, cand id, coin, value, oracle ret *)
Fixpoint dec_funds5 (n : nat) (l : list Z) : list fund * list Z * list Z :=
  match n, l with
  | S n', d :: c :: co :: v :: ret :: r =>
    let '(fs, rets, rest) := dec_funds5 n' r in
    ({| f_due := d; f_owner := 0; f_cand := c; f_coin := co; f_value := v; f_move := 0 |} :: fs, ret :: rets, rest)
  | _, _ => ([], [], l)
  end.

(* k pieces of evidence against the same address in one block; the oracle answers given are
   those of the first one (histories with custom coins use k = 1) *)
Definition evidence_k (k : nat) (h unbond : Z) (rets_f rets_s : list Z) (st : bstate) : bstate :=
  match k with
  | O => st
  | S k' => evidence_n k' h unbond (evidence h unbond rets_f rets_s st)
  end.

Definition run_punish_op (op : list Z) : list Z :=
  match op with
  (* a vote history of one validator from the block it joined with a fresh window; j0 = the
     candidate's JailedUntil when it joined: [1; chain; h0; j0; runs; (signed, grace, count)*] *)
  | 1 :: chain :: h0 :: j0 :: n :: rest =>
    let st := run_votes (jail_period chain) (joined_with j0) h0 (dec_votes (Z.to_nat n) rest) in
    [b2z (v_drop st); b2z (v_offline st); v_jail st; count_absent (v_win st); win_bits (v_win st)]
  (* SetCandidateOnline in block h of a candidate with the given JailedUntil *)
  | [2; jailed_until; h] => [b2z (can_switch_on jailed_until h)]
  (* PunishByzantineCandidate over stakes (coin, value, ret): per stake due, fund value, slashed, value left *)
  | 3 :: h :: unbond :: cid :: n :: rest =>
    let '(ss, rets, _) := dec_stakes3 (Z.to_nat n) rest in
    flat_map (fun sr => [f_due (stake_fund h unbond cid sr); f_value (stake_fund h unbond cid sr);
                         slash_stake_value (k_value (fst sr)); k_value (stake_zero sr)]) (with_oracle ss rets)
  (* PunishFrozenFundsWithID(h, h+unbond, cid) over funds (due, cand, coin, value, ret): new values *)
  | 4 :: h :: unbond :: cid :: n :: rest =>
    let '(fs, rets, _) := dec_funds5 (Z.to_nat n) rest in
    map f_value (punish_funds h (h + unbond) cid (with_oracle fs rets))
  (* the byzantine loop of one BeginBlock for one address, k pieces of evidence:
     [6; h; unbond; known; cid; status; listed; k; nf; (due, cand, coin, value, ret)*; ns; (coin, value, ret)*]
     -> status, toDrop, pool delta, stake values, the funds still frozen after the block
        (due > h: those due at h are released by the same BeginBlock), slash event amounts,
        total custom-coin volume and reserve decrease *)
  | 6 :: h :: unbond :: known :: cid :: status :: listed :: k :: nf :: rest =>
    let '(fs, rets_f, rest') := dec_funds5 (Z.to_nat nf) rest in
    let '(ss, rets_s, _) := match rest' with
                            | ns :: vs => dec_stakes3 (Z.to_nat ns) vs
                            | [] => ([], [], []) end in
    let st := {| b_known := negb (known =? 0); b_cid := cid; b_status := status; b_listed := negb (listed =? 0);
                 b_vtotal := sum_bip ss; b_vdrop := false; b_stakes := ss; b_funds := fs; b_pool := 0; b_events := [] |} in
    let st' := evidence_k (Z.to_nat k) h unbond rets_f rets_s st in
    let applied := evidence_applies st && (0 <? k) in
    let coins := if applied
                 then punish_funds_coins h (h + unbond) cid (with_oracle fs rets_f) ++ punish_stakes_coins (with_oracle ss rets_s)
                 else [] in
    let live := filter (fun f => h <? f_due f) (b_funds st') in
    [b_status st'; b2z (b_vdrop st'); b_pool st' ] ++
    (Z.of_nat (length (b_stakes st')) :: map k_value (b_stakes st')) ++
    (Z.of_nat (length live) :: flat_map (fun f => [f_due f; f_value f]) live) ++
    (Z.of_nat (length (b_events st')) :: map (fun e => snd e) (b_events st')) ++
    [sum_Z (map (fun e => snd (fst e)) coins); sum_Z (map (fun e => snd e) coins)]
  | _ => [-1]
  end.
