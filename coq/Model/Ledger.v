(* Ledger.v — the account / coin-registry / check / multisig core of the node and the
   transaction executor ExecutorV3.RunTx (coreV2/transaction/executor_v3.go), as an
   executable state machine.  Executable, no proofs.

   Modelled transaction types (the Data structs GetDataV3 resolves to): Send, Multisend,
   CreateToken, RecreateToken, MintToken, BurnToken (V260), Lock, RedeemCheck,
   CreateMultisig, EditCoinOwner; the gate of RunTx (chain id, gas coin, payload sizes,
   multisig signatures, nonce, price), the failed-transaction fee branch and the
   ticker-fee burn branch; BeginBlock's frozen-fund maturity for Lock funds.
   Gas coin: the base coin, or any coin without pool/reserve route (then the commission
   cannot be paid: CommissionCoinNotSufficient) — pools and bancor reserves are not in
   this model (swap pools: Model/Pool.v, Model/Orders.v).

   Every transaction is "validate, then a list of primitive effects": effects are only
   produced when every check passed — the mechanism behind C03. *)
From Minter Require Export Base.
From Minter Require Pool Orders.
From Coq Require Import ZArith List Bool.
Import ListNotations.
Open Scope Z_scope.

(* ---- response codes (coreV2/code/code.go) ---------------------------------------- *)
Definition cOK := 0.
Definition cWrongNonce := 101.
Definition cCoinNotExists := 102.
Definition cInsufficientFunds := 107.
Definition cTxPayloadTooLarge := 109.
Definition cTxServiceDataTooLarge := 110.
Definition cInvalidMultisendData := 111.
Definition cWrongChainID := 115.
Definition cCommissionCoinNotSufficient := 119.
Definition cWrongDueHeight := 123.
Definition cDecodeError := 106.
Definition cCoinAlreadyExists := 201.
Definition cInvalidCoinSymbol := 203.
Definition cInvalidCoinName := 204.
Definition cWrongCoinSupply := 205.
Definition cWrongCoinEmission := 206.
Definition cIsNotOwnerOfCoin := 206.
Definition cCheckInvalidLock := 501.
Definition cCheckExpired := 502.
Definition cCheckUsed := 503.
Definition cTooHighGasPrice := 504.
Definition cWrongGasCoin := 505.
Definition cTooLongNonce := 506.
Definition cIncorrectWeights := 601.
Definition cMultisigExists := 602.
Definition cMultisigNotExists := 603.
Definition cIncorrectMultiSignature := 604.
Definition cTooLargeOwnersList := 605.
Definition cDuplicatedAddresses := 606.
Definition cDifferentCountAddressesAndWeights := 607.
Definition cNotEnoughMultisigVotes := 609.
Definition cMinimumValueToBuyReached := 303.
Definition cInsufficientLiquidity := 703.
Definition cCoinNotMintable := 801.
Definition cCoinNotBurnable := 802.

(* ---- constants of the executor (coreV2/transaction/executor.go, create_coin.go) ------- *)
Definition max_payload_len := 10000.
Definition max_service_len := 128.
Definition max_coin_name_bytes := 64.
Definition min_token_supply := 1.
Definition max_coin_supply := 10 ^ 33.
Definition zero_address := 0.

(* ---- state ----------------------------------------------------------------------------- *)
Record coinrec := { c_id : Z; c_sym : Z; c_ver : Z; c_vol : Z; c_max : Z; c_mint : bool; c_burn : bool }.

(* the voted price table (state/commission), in base coin *)
Record prices := { p_payload_byte : Z; p_send : Z; p_multisend_base : Z; p_multisend_delta : Z;
                   p_ticker3 : Z; p_ticker4 : Z; p_ticker5 : Z; p_ticker6 : Z; p_ticker7 : Z;
                   p_create_token : Z; p_recreate_token : Z; p_mint : Z; p_burn : Z; p_lock : Z;
                   p_redeem : Z; p_create_multisig : Z; p_edit_owner : Z; p_failed : Z;
                   (* the coin the table is denominated in (0 = base coin) and the reserves of its pool with the
                      base coin (price coin, base coin); the pool carries no orders and is not traded in this model *)
                   p_pcoin : Z; p_prc : Z; p_prb : Z }.

Record st := {
  s_bal : list (Z * Z * Z);          (* (address, coin, amount) entries; a balance is the sum of its entries *)
  s_nonce : list (Z * Z);            (* (address, nonce); latest entry first *)
  s_coins : list coinrec;            (* custom coins; the base coin (id 0) is implicit *)
  s_symowner : list (Z * Z);            (* (symbol, owner address); latest entry first *)
  s_ncoins : Z;                      (* App.CoinsCount *)
  s_rpool : Z;                       (* the block's reward pool (fees collected so far) *)
  s_used : list Z;                   (* used checks (by identity) *)
  s_msig : list (Z * (Z * list (Z * Z)));   (* multisig address -> (threshold, [(owner, weight)]) *)
  s_frozen : list (Z * Z * Z * Z);   (* (due height, address, coin, value) *)
  s_height : Z;                      (* the block being executed *)
  s_prices : prices;
  s_base_sym : Z
}.

(* ---- lookups (robust to repeated entries: no well-formedness needed) -------------------- *)
Definition get_bal (l : list (Z * Z * Z)) (a c : Z) : Z :=
  sum_Z (map (fun e => let '(a', c', v) := e in if (a' =? a) && (c' =? c) then v else 0) l).

Fixpoint add_bal (l : list (Z * Z * Z)) (a c d : Z) : list (Z * Z * Z) :=
  match l with
  | [] => [(a, c, d)]
  | (a', c', v) :: r => if (a' =? a) && (c' =? c) then (a', c', v + d) :: r else (a', c', v) :: add_bal r a c d
  end.

Fixpoint get_nonce (l : list (Z * Z)) (a : Z) : Z :=
  match l with [] => 0 | (a', n) :: r => if a' =? a then n else get_nonce r a end.

Fixpoint find_coin (l : list coinrec) (id : Z) : option coinrec :=
  match l with [] => None | c :: r => if c_id c =? id then Some c else find_coin r id end.

Definition coin_exists (s : st) (id : Z) : bool :=
  (id =? 0) || match find_coin (s_coins s) id with Some _ => true | None => false end.

Fixpoint find_sym (l : list coinrec) (sym ver : Z) : option coinrec :=
  match l with [] => None | c :: r => if (c_sym c =? sym) && (c_ver c =? ver) then Some c else find_sym r sym ver end.

Definition sym_exists (s : st) (sym : Z) : bool :=
  (sym =? s_base_sym s) || existsb (fun c => c_sym c =? sym) (s_coins s).

Fixpoint get_owner (l : list (Z * Z)) (sym : Z) : option Z :=
  match l with [] => None | (s', a) :: r => if s' =? sym then Some a else get_owner r sym end.

Fixpoint max_version (l : list coinrec) (sym : Z) (acc : Z) : Z :=
  match l with [] => acc | c :: r => max_version r sym (if (c_sym c =? sym) && (acc <? c_ver c) then c_ver c else acc) end.

Fixpoint find_msig (l : list (Z * (Z * list (Z * Z)))) (a : Z) : option (Z * list (Z * Z)) :=
  match l with [] => None | (a', m) :: r => if a' =? a then Some m else find_msig r a end.

Fixpoint weight_of (ws : list (Z * Z)) (a : Z) : Z :=
  match ws with [] => 0 | (o, w) :: r => if o =? a then w else weight_of r a end.

(* ---- primitive effects ------------------------------------------------------------------ *)
Inductive eff :=
| EBal (a c d : Z)                  (* Accounts.AddBalance / SubBalance *)
| ENonce (a n : Z)                  (* Accounts.SetNonce *)
| EVol (c d : Z)                    (* Coins.AddVolume / SubVolume *)
| ENewCoin (r : coinrec)            (* Coins.CreateToken + App.SetCoinsCount *)
| EVersion (c v : Z)                (* the recreated coin gets a new version *)
| EOwner (sym a : Z)                (* symbol owner (CreateToken, ChangeOwner) *)
| EUse (id : Z)                     (* Checks.UseCheck *)
| EMsig (a thr : Z) (ws : list (Z * Z))   (* Accounts.CreateMultisig *)
| EFrozen (h a c v : Z)             (* FrozenFunds.AddFund *)
| ERpool (d : Z).                   (* rewardPool.Add / Sub *)

Definition set_coins (s : st) (l : list coinrec) : st :=
  {| s_bal := s_bal s; s_nonce := s_nonce s; s_coins := l; s_symowner := s_symowner s; s_ncoins := s_ncoins s;
     s_rpool := s_rpool s; s_used := s_used s; s_msig := s_msig s; s_frozen := s_frozen s; s_height := s_height s;
     s_prices := s_prices s; s_base_sym := s_base_sym s |}.

Fixpoint upd_coin (l : list coinrec) (id : Z) (f : coinrec -> coinrec) : list coinrec :=
  match l with [] => [] | c :: r => if c_id c =? id then f c :: r else c :: upd_coin r id f end.

Definition apply_eff (s : st) (e : eff) : st :=
  match e with
  | EBal a c d =>
    {| s_bal := add_bal (s_bal s) a c d; s_nonce := s_nonce s; s_coins := s_coins s; s_symowner := s_symowner s; s_ncoins := s_ncoins s;
       s_rpool := s_rpool s; s_used := s_used s; s_msig := s_msig s; s_frozen := s_frozen s; s_height := s_height s;
       s_prices := s_prices s; s_base_sym := s_base_sym s |}
  | ENonce a n =>
    {| s_bal := s_bal s; s_nonce := (a, n) :: s_nonce s; s_coins := s_coins s; s_symowner := s_symowner s; s_ncoins := s_ncoins s;
       s_rpool := s_rpool s; s_used := s_used s; s_msig := s_msig s; s_frozen := s_frozen s; s_height := s_height s;
       s_prices := s_prices s; s_base_sym := s_base_sym s |}
  | EVol c d =>
    set_coins s (upd_coin (s_coins s) c (fun r => {| c_id := c_id r; c_sym := c_sym r; c_ver := c_ver r; c_vol := c_vol r + d;
                                                      c_max := c_max r; c_mint := c_mint r; c_burn := c_burn r |}))
  | ENewCoin r =>
    {| s_bal := s_bal s; s_nonce := s_nonce s; s_coins := s_coins s ++ [r]; s_symowner := s_symowner s; s_ncoins := c_id r;
       s_rpool := s_rpool s; s_used := s_used s; s_msig := s_msig s; s_frozen := s_frozen s; s_height := s_height s;
       s_prices := s_prices s; s_base_sym := s_base_sym s |}
  | EVersion c v =>
    set_coins s (upd_coin (s_coins s) c (fun r => {| c_id := c_id r; c_sym := c_sym r; c_ver := v; c_vol := c_vol r;
                                                      c_max := c_max r; c_mint := c_mint r; c_burn := c_burn r |}))
  | EOwner sym a =>
    {| s_bal := s_bal s; s_nonce := s_nonce s; s_coins := s_coins s; s_symowner := (sym, a) :: s_symowner s; s_ncoins := s_ncoins s;
       s_rpool := s_rpool s; s_used := s_used s; s_msig := s_msig s; s_frozen := s_frozen s; s_height := s_height s;
       s_prices := s_prices s; s_base_sym := s_base_sym s |}
  | EUse id =>
    {| s_bal := s_bal s; s_nonce := s_nonce s; s_coins := s_coins s; s_symowner := s_symowner s; s_ncoins := s_ncoins s;
       s_rpool := s_rpool s; s_used := id :: s_used s; s_msig := s_msig s; s_frozen := s_frozen s; s_height := s_height s;
       s_prices := s_prices s; s_base_sym := s_base_sym s |}
  | EMsig a thr ws =>
    {| s_bal := s_bal s; s_nonce := s_nonce s; s_coins := s_coins s; s_symowner := s_symowner s; s_ncoins := s_ncoins s;
       s_rpool := s_rpool s; s_used := s_used s; s_msig := (a, (thr, ws)) :: s_msig s; s_frozen := s_frozen s; s_height := s_height s;
       s_prices := s_prices s; s_base_sym := s_base_sym s |}
  | EFrozen h a c v =>
    {| s_bal := s_bal s; s_nonce := s_nonce s; s_coins := s_coins s; s_symowner := s_symowner s; s_ncoins := s_ncoins s;
       s_rpool := s_rpool s; s_used := s_used s; s_msig := s_msig s; s_frozen := s_frozen s ++ [(h, a, c, v)]; s_height := s_height s;
       s_prices := s_prices s; s_base_sym := s_base_sym s |}
  | ERpool d =>
    {| s_bal := s_bal s; s_nonce := s_nonce s; s_coins := s_coins s; s_symowner := s_symowner s; s_ncoins := s_ncoins s;
       s_rpool := s_rpool s + d; s_used := s_used s; s_msig := s_msig s; s_frozen := s_frozen s; s_height := s_height s;
       s_prices := s_prices s; s_base_sym := s_base_sym s |}
  end.

Definition apply_effs (s : st) (l : list eff) : st := fold_left apply_eff l s.

(* ---- transactions -------------------------------------------------------------------------- *)
Inductive txdata :=
| Send (coin to value : Z)
| Multisend (items : list (Z * Z * Z))                              (* (coin, to, value) *)
| CreateToken (sym symlen : Z) (symok : bool) (namelen init maxs : Z) (mintable burnable : bool)
| RecreateToken (sym namelen init maxs : Z) (mintable burnable : bool)
| MintToken (coin value : Z)
| BurnToken (coin value : Z)
| Lock (due coin value : Z)
| RedeemCheck (rawlen : Z) (decodable chain_ok : bool) (nonce_len : Z) (issuer_ok : bool) (issuer coin gascoin value due id : Z)
              (lock_state : Z)   (* 0: lock key / proof not recoverable (DecodeError), 1: proof made for another address or with another password, 2: valid *)
| CreateMultisig (threshold : Z) (weights addrs : list Z) (msig_addr : Z)
| EditCoinOwner (sym newowner : Z).

Inductive sigdata :=
| SigSingle (sender : Z)
| SigMulti (msig : Z) (signers : list (option Z)).   (* recovered signer of each signature; None = not recoverable *)

Record tx := { t_nonce : Z; t_chain_ok : bool; t_gas_price : Z; t_gas_coin : Z; t_payload_len : Z; t_service_len : Z;
               t_sig : sigdata; t_data : txdata }.

Definition sender_of (t : tx) : Z := match t_sig t with SigSingle a => a | SigMulti m _ => m end.

(* Data.CommissionData for each type (the price of the type in the price table) *)
Definition ticker_price (p : prices) (symlen : Z) : Z :=
  if symlen =? 3 then p_ticker3 p else if symlen =? 4 then p_ticker4 p else if symlen =? 5 then p_ticker5 p
  else if symlen =? 6 then p_ticker6 p else p_ticker7 p.

Definition type_price (p : prices) (d : txdata) : Z :=
  match d with
  | Send _ _ _ => p_send p
  | Multisend items => p_multisend_base p + (Z.of_nat (length items) - 1) * p_multisend_delta p
  | CreateToken _ symlen _ _ _ _ _ _ => ticker_price p symlen + p_create_token p
  | RecreateToken _ _ _ _ _ _ => p_recreate_token p
  | MintToken _ _ => p_mint p
  | BurnToken _ _ => p_burn p
  | Lock _ _ _ => p_lock p
  | RedeemCheck _ _ _ _ _ _ _ _ _ _ _ _ => p_redeem p
  | CreateMultisig _ _ _ _ => p_create_multisig p
  | EditCoinOwner _ _ => p_edit_owner p
  end.

Definition data_len (t : tx) : Z := t_payload_len t + t_service_len t.

(* conversion of an amount of the price coin into base coin through its pool: CheckSwap(pool, valueIn,
   valueOut = 0, isBuy = false) = CalculateBuyForSellWithOrders (order commission taken first) on a pool
   without orders; a result below 1 is MinimumValueToBuyReached *)
Definition conv (p : prices) (x : Z) : Z + Z :=
  match Orders.bfs_loop_x (p_prc p) (p_prb p) (if 0 <? x then x - Pool.com1000 x else x) [] with
  | Val (o, _) => if o <? 1 then inr cMinimumValueToBuyReached else inl o
  | Nil => inr cInsufficientLiquidity
  | Panic _ => inr cInsufficientLiquidity
  end.
Definition base_of (p : prices) (x : Z) : Z + Z := if p_pcoin p =? 0 then inl x else conv p x.

(* Transaction.Price then MulGasPrice, in the price coin *)
Definition table_price (p : prices) (t : tx) : Z := t_gas_price t * (type_price p (t_data t) + data_len t * p_payload_byte p).
Definition failed_table (p : prices) (t : tx) : Z := t_gas_price t * (p_failed p + data_len t * p_payload_byte p).

(* ... converted to base coin as RunTx does: the transaction price only when it is not zero; the
   failed-transaction price always, and it must come out positive *)
Definition tx_price_r (p : prices) (t : tx) : Z + Z := if table_price p t =? 0 then inl 0 else base_of p (table_price p t).
Definition tx_price (p : prices) (t : tx) : Z := match tx_price_r p t with inl v => v | inr _ => 0 end.
Definition failed_price_r (p : prices) (t : tx) : Z + Z :=
  if p_pcoin p =? 0 then inl (failed_table p t)
  else match conv p (failed_table p t) with inr c => inr c | inl v => if 0 <? v then inl v else inr cCommissionCoinNotSufficient end.
Definition failed_price (p : prices) (t : tx) : Z := match failed_price_r p t with inl v => v | inr _ => 0 end.

(* CalculateCommission: base coin: the price itself; zero price: zero; otherwise neither a pool
   nor a reserve route exists in this model *)
Definition calc_commission (gas_coin com_base : Z) : option Z :=
  if gas_coin =? 0 then Some com_base else if com_base =? 0 then Some 0 else None.

(* multisig gate of RunTx; uint32 accumulation of the weights written with its wrap *)
Fixpoint msig_total (ws : list (Z * Z)) (signers : list (option Z)) (used : list Z) (acc : Z) : Z + Z :=  (* inl total | inr code *)
  match signers with
  | [] => inl acc
  | None :: _ => inr cIncorrectMultiSignature
  | Some a :: r =>
    if existsb (Z.eqb a) used then inr cDuplicatedAddresses
    else msig_total ws r (a :: used) ((acc + weight_of ws a) mod 2 ^ 32)
  end.

Definition msig_gate (s : st) (t : tx) : option Z :=   (* Some code = rejected *)
  match t_sig t with
  | SigSingle _ => None
  | SigMulti m signers =>
    match find_msig (s_msig s) m with
    | None => Some cMultisigNotExists
    | Some (thr, ws) =>
      if (32 <? Z.of_nat (length signers)) || (Z.of_nat (length ws) <? Z.of_nat (length signers)) then Some cIncorrectMultiSignature
      else match msig_total ws signers [] 0 with
           | inr c => Some c
           | inl total => if total <? thr then Some cNotEnoughMultisigVotes else None
           end
    end
  end.

(* the gate of RunTx before Run: Some code = rejected with the state untouched *)
Definition gate (s : st) (t : tx) : option Z :=
  if negb (t_chain_ok t) then Some cWrongChainID
  else if negb (coin_exists s (t_gas_coin t)) then Some cCoinNotExists
  else if max_payload_len <? t_payload_len t then Some cTxPayloadTooLarge
  else if max_service_len <? t_service_len t then Some cTxServiceDataTooLarge
  else match msig_gate s t with
       | Some c => Some c
       | None =>
         if negb (get_nonce (s_nonce s) (sender_of t) + 1 =? t_nonce t) then Some cWrongNonce
         else match tx_price_r (s_prices s) t with
              | inr c => Some c
              | inl v => if negb (table_price (s_prices s) t =? 0) && negb (0 <? v) then Some cCommissionCoinNotSufficient else None
              end
       end.

Fixpoint has_dup (l : list Z) : bool :=
  match l with [] => false | x :: r => existsb (Z.eqb x) r || has_dup r end.

(* total per coin of a multisend plus the commission, as checkBalances computes it *)
Fixpoint add_total (tot : list (Z * Z)) (c v : Z) : list (Z * Z) :=
  match tot with [] => [(c, v)] | (c', v') :: r => if c' =? c then (c', v' + v) :: r else (c', v') :: add_total r c v end.

Definition multisend_totals (gas_coin com : Z) (items : list (Z * Z * Z)) : list (Z * Z) :=
  fold_left (fun tot it => let '(c, _, v) := it in add_total tot c v) items [(gas_coin, com)].

(* the fee part shared by every successful transaction paid by [payer] *)
Definition fee_effs (payer gas_coin com : Z) : list eff := [EBal payer gas_coin (- com); ERpool com].

(* Run: inl code = rejected by the transaction's own checks (nothing applied);
        inr effects = accepted, the effects to apply (deliver mode only) *)
Definition run (s : st) (t : tx) : Z + list eff :=
  let sender := sender_of t in
  let gc := t_gas_coin t in
  let price := tx_price (s_prices s) t in
  let bal a c := get_bal (s_bal s) a c in
  let with_commission (k : Z -> Z + list eff) : Z + list eff :=
      match calc_commission gc price with None => inl cCommissionCoinNotSufficient | Some com => k com end in
  match t_data t with
  | Send coin to value =>
    if negb (coin_exists s coin) then inl cCoinNotExists else
    with_commission (fun com =>
      if (if gc =? coin then false else bal sender coin <? value) then inl cInsufficientFunds
      else if bal sender gc <? (if gc =? coin then value + com else com) then inl cInsufficientFunds
      else inr (fee_effs sender gc com ++ [EBal sender coin (- value); EBal to coin value; ENonce sender (t_nonce t)]))
  | Multisend items =>
    if (Z.of_nat (length items) <? 1) || (100 <? Z.of_nat (length items)) then inl cInvalidMultisendData
    else if negb (forallb (fun it => let '(c, _, _) := it in coin_exists s c) items) then inl cCoinNotExists else
    with_commission (fun com =>
      if negb (forallb (fun cv => negb (bal sender (fst cv) <? snd cv)) (multisend_totals gc com items)) then inl cInsufficientFunds
      else inr (fee_effs sender gc com ++
                flat_map (fun it => let '(c, to, v) := it in [EBal sender c (- v); EBal to c v]) items ++
                [ENonce sender (t_nonce t)]))
  | CreateToken sym symlen symok namelen init maxs mintable burnable =>
    if max_coin_name_bytes <? namelen then inl cInvalidCoinName
    else if negb symok then inl cInvalidCoinSymbol
    else if sym_exists s sym then inl cCoinAlreadyExists
    else if negb mintable && negb (init =? maxs) then inl cWrongCoinSupply
    else if (init <? min_token_supply) || (maxs <? init) then inl cWrongCoinSupply
    else if max_coin_supply <? maxs then inl cWrongCoinSupply else
    with_commission (fun com =>
      if bal sender gc <? com then inl cInsufficientFunds
      else let id := s_ncoins s + 1 in
           inr ([ERpool com; EBal sender gc (- com);
                 ENewCoin {| c_id := id; c_sym := sym; c_ver := 0; c_vol := init; c_max := maxs; c_mint := mintable; c_burn := burnable |};
                 EOwner sym sender; EBal sender id init; ENonce sender (t_nonce t)]))
  | RecreateToken sym namelen init maxs mintable burnable =>
    if max_coin_name_bytes <? namelen then inl cInvalidCoinName
    else if negb mintable && negb (init =? maxs) then inl cWrongCoinSupply
    else if (init <? min_token_supply) || (maxs <? init) then inl cWrongCoinSupply
    else if max_coin_supply <? maxs then inl cWrongCoinSupply
    else match find_sym (s_coins s) sym 0 with
         | None => inl cCoinNotExists
         | Some old =>
           match get_owner (s_symowner s) sym with
           | None => inl cIsNotOwnerOfCoin
           | Some o =>
             if negb (o =? sender) then inl cIsNotOwnerOfCoin else
             with_commission (fun com =>
               if bal sender gc <? com then inl cInsufficientFunds
               else let id := s_ncoins s + 1 in
                    inr ([ERpool com; EBal sender gc (- com);
                          EVersion (c_id old) ((max_version (s_coins s) sym 0 + 1) mod 2 ^ 16);
                          ENewCoin {| c_id := id; c_sym := sym; c_ver := 0; c_vol := init; c_max := maxs; c_mint := mintable; c_burn := burnable |};
                          EBal sender id init; ENonce sender (t_nonce t)]))
           end
         end
  | MintToken coin value =>
    if coin =? 0 then inl cCoinNotMintable else       (* Coins.GetCoin(0) is the base coin: neither mintable nor burnable *)
    match find_coin (s_coins s) coin with
    | None => inl cCoinNotExists
    | Some c =>
      if negb (c_mint c) then inl cCoinNotMintable
      else if c_max c <? c_vol c + value then inl cWrongCoinEmission
      else if negb (c_ver c =? 0) then inl cIsNotOwnerOfCoin
      else match get_owner (s_symowner s) (c_sym c) with
           | None => inl cIsNotOwnerOfCoin
           | Some o =>
             if negb (o =? sender) then inl cIsNotOwnerOfCoin else
             with_commission (fun com =>
               if bal sender gc <? com then inl cInsufficientFunds
               else inr (fee_effs sender gc com ++ [EVol coin value; EBal sender coin value; ENonce sender (t_nonce t)]))
           end
    end
  | BurnToken coin value =>
    if coin =? 0 then inl cCoinNotBurnable else
    match find_coin (s_coins s) coin with
    | None => inl cCoinNotExists
    | Some c =>
      if negb (c_burn c) then inl cCoinNotBurnable
      else if c_vol c - value <? min_token_supply then inl cWrongCoinEmission else
      with_commission (fun com =>
        if bal sender gc <? com then inl cInsufficientFunds
        else if bal sender coin <? (if gc =? coin then value + com else value) then inl cInsufficientFunds
        else inr (fee_effs sender gc com ++ [EVol coin (- value); EBal sender coin (- value); ENonce sender (t_nonce t)]))
    end
  | Lock due coin value =>
    if due <=? s_height s then inl cWrongDueHeight
    else if negb (coin_exists s coin) then inl cCoinNotExists else
    with_commission (fun com =>
      if (if gc =? coin then false else bal sender coin <? value) then inl cInsufficientFunds
      else if bal sender gc <? (if gc =? coin then value + com else com) then inl cInsufficientFunds
      else inr (fee_effs sender gc com ++ [EBal sender coin (- value); EFrozen due sender coin value; ENonce sender (t_nonce t)]))
  | RedeemCheck rawlen decodable chain_ok nonce_len issuer_ok issuer coin gascoin value due id lock_state =>
    if rawlen =? 0 then inl cDecodeError
    else if negb (t_gas_price t =? 1) then inl cTooHighGasPrice
    else if negb decodable then inl cDecodeError
    else if negb chain_ok then inl cWrongChainID
    else if 16 <? nonce_len then inl cTooLongNonce
    else if negb issuer_ok then inl cDecodeError
    else if negb (coin_exists s coin) then inl cCoinNotExists
    else if negb (coin_exists s gascoin) then inl cCoinNotExists
    else if negb (gc =? gascoin) then inl cWrongGasCoin
    else if due <? s_height s then inl cCheckExpired
    else if existsb (Z.eqb id) (s_used s) then inl cCheckUsed
    else if lock_state =? 0 then inl cDecodeError
    else if negb (lock_state =? 2) then inl cCheckInvalidLock else
    with_commission (fun com =>
      if (if coin =? gascoin then bal issuer coin <? value + com
          else (bal issuer coin <? value) || (bal issuer gascoin <? com)) then inl cInsufficientFunds
      else inr ([EUse id; ERpool com; EBal issuer gascoin (- com); EBal issuer coin (- value); EBal sender coin value;
                 ENonce sender (t_nonce t)]))
  | CreateMultisig threshold weights addrs msig_addr =>
    if 32 <? Z.of_nat (length weights) then inl cTooLargeOwnersList
    else if negb (Z.of_nat (length addrs) =? Z.of_nat (length weights)) then inl cDifferentCountAddressesAndWeights
    else if existsb (fun w => 1023 <? w) weights then inl cIncorrectWeights
    else if has_dup addrs then inl cDuplicatedAddresses else
    with_commission (fun com =>
      if bal sender gc <? com then inl cInsufficientFunds
      else match find_msig (s_msig s) msig_addr with
           | Some _ => inl cMultisigExists
           | None => inr (fee_effs sender gc com ++ [ENonce sender (t_nonce t); EMsig msig_addr threshold (combine addrs weights)])
           end)
  | EditCoinOwner sym newowner =>
    if negb (sym_exists s sym) then inl cCoinNotExists
    else match get_owner (s_symowner s) sym with
         | None => inl cIsNotOwnerOfCoin
         | Some o =>
           if negb (o =? sender) then inl cIsNotOwnerOfCoin else
           with_commission (fun com =>
             if bal sender gc <? com then inl cInsufficientFunds
             else inr ([ERpool com; EBal sender gc (- com); EOwner sym newowner; ENonce sender (t_nonce t)]))
         end
  end.

(* who pays the failed-transaction fee *)
Definition payer_of (t : tx) : Z + Z :=   (* inl payer | inr code (the check cannot be decoded) *)
  match t_data t with
  | RedeemCheck _ decodable _ _ issuer_ok issuer _ _ _ _ _ _ =>
    if negb decodable then inr cDecodeError else if negb issuer_ok then inr cDecodeError else inl issuer
  | _ => inl (sender_of t)
  end.

(* the failed-transaction branch of RunTx (deliver mode): the response code and the effects *)
Definition failed_branch (s : st) (t : tx) (code : Z) : Z * list eff :=
  match failed_price_r (s_prices s) t with
  | inr c => (c, [])
  | inl _ =>
  match calc_commission (t_gas_coin t) (failed_price (s_prices s) t) with
  | None => (cCommissionCoinNotSufficient, [])
  | Some com =>
    match payer_of t with
    | inr c => (c, [])
    | inl payer =>
      let b := get_bal (s_bal s) payer (t_gas_coin t) in
      if 0 <? b then
        let fee := if b <? com then b else com in
        (code, [EBal payer (t_gas_coin t) (- fee); ERpool fee])
      else (code, [])
    end
  end
  end.

(* the ticker-fee branch after a successful CreateToken: burned from the reward pool to the zero address *)
Definition symbol_branch (s : st) (t : tx) : Z * list eff :=
  match t_data t with
  | CreateToken _ symlen _ _ _ _ _ _ =>
    (* priced in the price coin, converted like the commission; a fee that is zero or cannot be priced is not burned *)
    match base_of (s_prices s) (t_gas_price t * ticker_price (s_prices s) symlen) with
    | inl sp => if 0 <? sp then (cOK, [ERpool (- sp); EBal zero_address 0 sp]) else (cOK, [])
    | inr _ => (cOK, [])
    end
  | _ => (cOK, [])
  end.

(* RunTx in deliver mode *)
Definition deliver (s : st) (t : tx) : st * Z :=
  match gate s t with
  | Some c => (s, c)
  | None =>
    match run s t with
    | inl c => let '(c', effs) := failed_branch s t c in (apply_effs s effs, c')
    | inr effs =>
      let s1 := apply_effs s effs in
      let '(c', effs') := symbol_branch s t in (apply_effs s1 effs', c')
    end
  end.

(* RunTx in check mode (minGasPrice 0, empty mempool): same gate, same Run, nothing applied *)
Definition check (s : st) (t : tx) : Z :=
  match gate s t with
  | Some c => c
  | None => match run s t with inl c => c | inr _ => cOK end
  end.

(* ---- block phases ---------------------------------------------------------------------------- *)
Definition set_height (s : st) (h : Z) : st :=
  {| s_bal := s_bal s; s_nonce := s_nonce s; s_coins := s_coins s; s_symowner := s_symowner s; s_ncoins := s_ncoins s;
     s_rpool := s_rpool s; s_used := s_used s; s_msig := s_msig s; s_frozen := s_frozen s; s_height := h;
     s_prices := s_prices s; s_base_sym := s_base_sym s |}.

Definition set_frozen (s : st) (l : list (Z * Z * Z * Z)) : st :=
  {| s_bal := s_bal s; s_nonce := s_nonce s; s_coins := s_coins s; s_symowner := s_symowner s; s_ncoins := s_ncoins s;
     s_rpool := s_rpool s; s_used := s_used s; s_msig := s_msig s; s_frozen := l; s_height := s_height s;
     s_prices := s_prices s; s_base_sym := s_base_sym s |}.

(* BeginBlock h: frozen funds due at h return to their owners' balances *)
Definition begin_block (s : st) (h : Z) : st :=
  let due := filter (fun f => let '(d, _, _, _) := f in d =? h) (s_frozen s) in
  let rest := filter (fun f => let '(d, _, _, _) := f in negb (d =? h)) (s_frozen s) in
  let s1 := apply_effs (set_frozen (set_height s h) rest) (map (fun f => let '(_, a, c, v) := f in EBal a c v) due) in
  s1.

(* EndBlock: the reward pool is handed to the validators (Model/Rewards.v) *)
Definition end_block (s : st) : st :=
  {| s_bal := s_bal s; s_nonce := s_nonce s; s_coins := s_coins s; s_symowner := s_symowner s; s_ncoins := s_ncoins s;
     s_rpool := 0; s_used := s_used s; s_msig := s_msig s; s_frozen := s_frozen s; s_height := s_height s;
     s_prices := s_prices s; s_base_sym := s_base_sym s |}.

Inductive op := OpTx (t : tx) | OpBegin (h : Z) | OpEnd.

Definition step (s : st) (o : op) : st :=
  match o with OpTx t => fst (deliver s t) | OpBegin h => begin_block s h | OpEnd => end_block s end.

Definition run_ops (s : st) (ops : list op) : st := fold_left step ops s.
