(* Pool.v — transliteration of the integer code of coreV2/state/swap/swapV2.go
   (PairV2) and of the commission helpers of order.go.  Executable, no proofs. *)
From Minter Require Export Base Consts.
Open Scope Z_scope.

Definition isqrt (n : Z) : Z := Z.sqrt n.               (* big.Int.Sqrt: floor sqrt, n >= 0 *)

(* CalculateBuyForSell: r1 - k*10^6 / (((a+r0)*1000 - a*commission)*1000) - 1, nil unless > 0 *)
Definition calc_buy_for_sell (r0 r1 a : Z) : outcome Z :=
  let kAdj := r0 * r1 * 1000000 in
  let b0 := (a + r0) * 1000 - a * swap_commission in
  obind (quo kAdj (b0 * 1000)) (fun q =>
  let out := r1 - q - 1 in
  if 0 <? out then Val out else Nil).

(* CalculateSellForBuy *)
Definition calc_sell_for_buy (r0 r1 out : Z) : outcome Z :=
  if r1 <? out then Nil else
  if negb (out <? r1) then Nil else
  let kAdj := r0 * r1 * 1000000 in
  let b1 := (r1 - out) * 1000 in
  obind (quo kAdj b1) (fun q =>
  obind (quo (q - r0 * 1000) (1000 - swap_commission)) (fun x =>
  Val (x + 1))).

(* checkSwap: 0 ok, 1 ErrorInsufficientLiquidity, 2 ErrorInsufficientOutputAmount,
   3 ErrorInsufficientInputAmount, 4 ErrorK *)
Definition check_swap (r0 r1 a0in a1in a0out a1out : Z) : Z :=
  if (r0 <? a0out) || (r1 <? a1out) then 1 else
  if negb (0 <? a0out) && negb (0 <? a1out) then 2 else
  let a0 := a0in - a0out in
  let a1 := a1in - a1out in
  if negb (0 <? a0) && negb (0 <? a1) then 3 else
  let b0 := (a0 + r0) * 1000 - a0in * swap_commission in
  let b1 := (a1 + r1) * 1000 - a1in * swap_commission in
  if b0 * b1 <? r0 * r1 * 1000000 then 4 else 0.

(* Swap: same tests in the order of PairV2.Swap, panics instead of errors; returns new reserves *)
Definition swap (r0 r1 a0in a1in a0out a1out : Z) : outcome (Z * Z) :=
  if negb (0 <? a0out) && negb (0 <? a1out) then Panic 2 else
  if (r0 <? a0out) || (r1 <? a1out) then Panic 1 else
  let a0 := a0in - a0out in
  let a1 := a1in - a1out in
  if negb (0 <? a0) && negb (0 <? a1) then Panic 3 else
  let b0 := (a0 + r0) * 1000 - a0in * swap_commission in
  let b1 := (a1 + r1) * 1000 - a1in * swap_commission in
  if b0 * b1 <? r0 * r1 * 1000000 then Panic 4 else
  Val (r0 + a0, r1 + a1).

(* PairSell / PairBuy (deprecated plain trades): calculate, compare with the limit, Swap *)
Definition pair_sell (r0 r1 a minOut : Z) : outcome (Z * Z * Z) :=
  match calc_buy_for_sell r0 r1 a with
  | Val o => if o <? minOut then Panic 5 else
             obind (swap r0 r1 a 0 0 o) (fun r => Val (fst r, snd r, o))
  | Nil => Panic 6   (* nil.Cmp dereference *)
  | Panic s => Panic s
  end.

Definition pair_buy (r0 r1 maxIn out : Z) : outcome (Z * Z * Z) :=
  match calc_sell_for_buy r0 r1 out with
  | Val i => if maxIn <? i then Panic 5 else
             obind (swap r0 r1 i 0 0 out) (fun r => Val (fst r, snd r, i))
  | Nil => Panic 6
  | Panic s => Panic s
  end.

(* CalculateAddLiquidity / Mint / Create / Burn / Amounts *)
Definition calc_add_liquidity (r0 r1 a0 total : Z) : outcome (Z * Z) :=
  obind (ediv (total * a0) r0) (fun l =>
  obind (ediv (a0 * r1) r0) (fun a1 => Val (l, a1))).

(* returns (liquidity, new r0, new r1) *)
Definition mint (r0 r1 a0 total : Z) : outcome (Z * Z * Z) :=
  obind (calc_add_liquidity r0 r1 a0 total) (fun la =>
  let '(l, a1) := la in
  if 0 <? l then Val (l, r0 + a0, r1 + a1) else Panic 7).

(* CheckMint: 0 ok, 3 ErrorInsufficientInputAmount, 7 ErrorInsufficientLiquidityMinted *)
Definition check_mint (r0 r1 a0 max1 total : Z) : outcome Z :=
  obind (calc_add_liquidity r0 r1 a0 total) (fun la =>
  let '(l, a1) := la in
  if max1 <? a1 then Val 3 else if 0 <? l then Val 0 else Val 7).

Definition starting_supply (a0 a1 : Z) : Z := isqrt (a0 * a1).

Definition create (a0 a1 : Z) : outcome (Z * Z * Z) :=
  let l := starting_supply a0 a1 in
  if minimum_liquidity <? l then Val (l, a0, a1) else Panic 7.

Definition amounts (r0 r1 l total : Z) : outcome (Z * Z) :=
  obind (ediv (l * r0) total) (fun x0 =>
  obind (ediv (l * r1) total) (fun x1 => Val (x0, x1))).

(* Burn: returns (amount0, amount1, new r0, new r1) *)
Definition burn (r0 r1 l min0 min1 total : Z) : outcome (Z * Z * Z * Z) :=
  obind (amounts r0 r1 l total) (fun x =>
  let '(x0, x1) := x in
  if (x0 <? min0) || (x1 <? min1) then Panic 8 else Val (x0, x1, r0 - x0, r1 - x1)).

(* order commissions (order.go): ceil(a*c/2/1000), ceil(a/(1000+c/2)), ceil(a/(1000-c/2)) *)
Definition half_oc : Z := Z.quot order_commission 2.
Definition ceil_quo (a d : Z) : Z :=
  Z.quot a d + (if 0 <? Z.rem a d then 1 else 0).
Definition com1000 (a : Z) : Z := ceil_quo (a * half_oc) 1000.
Definition com1001 (a : Z) : Z := ceil_quo a (1000 + half_oc).
Definition com0999 (a : Z) : Z := ceil_quo a (1000 - half_oc).
