(* GenesisRun.v — integer-list interface of Model/Genesis.v for the correspondence check (model 18 of
   Dispatch.v).  One operation:

     [1; height; base_sym; nr; (coin, B, V)..nr; APPSTATE]  ->  [verify; 0; APPSTATE']      (or [verify; 2; site])

     [2; base_sym; APPSTATE]                                ->  [verify]

   APPSTATE is the first export of the real node (the modelled sections), verify the model's verdict on
   it (1 / 0), APPSTATE' the export of the state the model imports from it — to be compared with what the
   real node exports right after InitChain from that genesis.  (coin, B, V) are the coinsCache pairs of
   calculateBipValue for the reserve coins that are staked (Ranking.bip_table; the bancor part is computed by
   the real formula package on the Go side).

   APPSTATE :=  nv (pub total accum)..  nc CAND..  nd (id key)..  nw (owner cand coin value)..  np (c0 c1 r0 r1 id)..  na ACCT..
                nk COIN..  nf (due addr coin value)..  nh (height key)..  PRICES(21)  nu check..  maxgas slashed reward
   CAND  := id pub owner status total  ns (owner coin value bip)..  nu (owner coin value bip)..
   ACCT  := addr  nb (coin value)..  nonce  (0 | 1 threshold nw (owner weight)..)
   COIN  := id sym ver vol crr res max (0 | 1 owner) mint burn
   PRICES := the 18 prices of Ledger.prices, the price coin, the reserves (price coin, base coin) of its pool
   Candidates come sorted by id, pools by (coin0, coin1); the waitlist of APPSTATE' is sorted by
   (owner desc, candidate, coin) — orders the node derives from rankings or map iteration.  Commission and
   update votes are opaque to the model and left out. *)
From Minter Require Import Base Consts Ledger LedgerRun Genesis.
From Minter Require Ranking.
From Coq Require Import ZArith List Bool.
Import ListNotations.
Open Scope Z_scope.

(* ---- a small parser over integer lists ---------------------------------------------------------------- *)
Definition parser (A : Type) := list Z -> option (A * list Z).
Definition pret {A} (x : A) : parser A := fun l => Some (x, l).
Definition pbind {A B} (p : parser A) (f : A -> parser B) : parser B :=
  fun l => match p l with Some (x, r) => f x r | None => None end.
Notation "x <- p ;; q" := (pbind p (fun x => q)) (at level 61, p at next level, right associativity).
Definition pz : parser Z := fun l => match l with x :: r => Some (x, r) | [] => None end.
Fixpoint prep {A} (n : nat) (p : parser A) : parser (list A) :=
  match n with
  | O => pret []
  | S n' => x <- p ;; xs <- prep n' p ;; pret (x :: xs)
  end.
Definition plist {A} (p : parser A) : parser (list A) := n <- pz ;; prep (Z.to_nat n) p.

Definition p_stk : parser Ranking.stk :=
  o <- pz ;; c <- pz ;; v <- pz ;; b <- pz ;;
  pret {| Ranking.s_owner := o; Ranking.s_coin := c; Ranking.s_value := v; Ranking.s_bip := b |}.
Definition p_val : parser aval := p <- pz ;; t <- pz ;; a <- pz ;; pret {| av_pub := p; av_total := t; av_accum := a |}.
Definition p_cand : parser acand :=
  i <- pz ;; p <- pz ;; o <- pz ;; s <- pz ;; t <- pz ;; st <- plist p_stk ;; us <- plist p_stk ;;
  pret {| ak_id := i; ak_pub := p; ak_owner := o; ak_status := s; ak_total := t; ak_stakes := st; ak_updates := us |}.
Definition p_4 : parser (Z * Z * Z * Z) := a <- pz ;; b <- pz ;; c <- pz ;; d <- pz ;; pret (a, b, c, d).
Definition p_2 : parser (Z * Z) := a <- pz ;; b <- pz ;; pret (a, b).
Definition p_pool : parser apool :=
  a <- pz ;; b <- pz ;; c <- pz ;; d <- pz ;; i <- pz ;; pret {| ap_c0 := a; ap_c1 := b; ap_r0 := c; ap_r1 := d; ap_id := i |}.
Definition p_msig : parser (option (Z * list (Z * Z))) :=
  f <- pz ;; if f =? 0 then pret None else (t <- pz ;; ws <- plist p_2 ;; pret (Some (t, ws))).
Definition p_acct : parser aacct :=
  a <- pz ;; b <- plist p_2 ;; n <- pz ;; m <- p_msig ;; pret {| aa_addr := a; aa_bal := b; aa_nonce := n; aa_msig := m |}.
Definition p_owner : parser (option Z) := f <- pz ;; if f =? 0 then pret None else (o <- pz ;; pret (Some o)).
Definition p_coin : parser acoin :=
  i <- pz ;; s <- pz ;; v <- pz ;; vol <- pz ;; crr <- pz ;; res <- pz ;; mx <- pz ;; o <- p_owner ;; mi <- pz ;; bu <- pz ;;
  pret {| ac_id := i; ac_sym := s; ac_ver := v; ac_vol := vol; ac_crr := crr; ac_res := res; ac_max := mx; ac_owner := o;
          ac_mint := zb mi; ac_burn := zb bu |}.
Definition p_prices : parser prices :=
  l <- prep 21 pz ;; match dec_prices l with Some p => pret p | None => fun _ => None end.
Definition p_3 : parser (Z * Z * Z) := a <- pz ;; b <- pz ;; c <- pz ;; pret (a, b, c).

Definition p_appstate : parser appstate :=
  vals <- plist p_val ;; cands <- plist p_cand ;; del <- plist p_2 ;; wait <- plist p_4 ;; pools <- plist p_pool ;; accts <- plist p_acct ;;
  coins <- plist p_coin ;; frozen <- plist p_4 ;; halts <- plist p_2 ;; comm <- p_prices ;; used <- plist pz ;;
  mg <- pz ;; sl <- pz ;; rw <- pz ;;
  pret {| a_vals := vals; a_cands := cands; a_deleted := del; a_wait := wait; a_pools := pools; a_accts := accts; a_coins := coins;
          a_frozen := frozen; a_halts := halts; a_comm := comm; a_cvotes := []; a_uvotes := []; a_used := used;
          a_maxgas := mg; a_slashed := sl; a_reward := rw |}.

(* ---- encoding ---------------------------------------------------------------------------------------------- *)
Definition elist {A} (f : A -> list Z) (l : list A) : list Z := Z.of_nat (length l) :: flat_map f l.
Definition e_stk (s : Ranking.stk) : list Z := [Ranking.s_owner s; Ranking.s_coin s; Ranking.s_value s; Ranking.s_bip s].
Definition e_4 (x : Z * Z * Z * Z) : list Z := let '(a, b, c, d) := x in [a; b; c; d].
Definition e_2 (x : Z * Z) : list Z := [fst x; snd x].
Definition e_prices (p : prices) : list Z :=
  [p_payload_byte p; p_send p; p_multisend_base p; p_multisend_delta p; p_ticker3 p; p_ticker4 p; p_ticker5 p; p_ticker6 p; p_ticker7 p;
   p_create_token p; p_recreate_token p; p_mint p; p_burn p; p_lock p; p_redeem p; p_create_multisig p; p_edit_owner p; p_failed p;
   p_pcoin p; p_prc p; p_prb p].

(* the waitlist in a fixed order: owner descending, then candidate, then coin *)
Definition wl_full_lt (a b : Z * Z * Z * Z) : bool :=
  let '(oa, ka, ca, _) := a in let '(ob, kb, cb, _) := b in
  (ob <? oa) || ((oa =? ob) && ((ka <? kb) || ((ka =? kb) && (ca <? cb)))).

Definition e_appstate (a : appstate) : list Z :=
  elist (fun v => [av_pub v; av_total v; av_accum v]) (a_vals a) ++
  elist (fun k => [ak_id k; ak_pub k; ak_owner k; ak_status k; ak_total k] ++ elist e_stk (ak_stakes k) ++ elist e_stk (ak_updates k)) (a_cands a) ++
  elist e_2 (a_deleted a) ++
  elist e_4 (Ranking.sort_stable wl_full_lt (a_wait a)) ++
  elist (fun p => [ap_c0 p; ap_c1 p; ap_r0 p; ap_r1 p; ap_id p]) (a_pools a) ++
  elist (fun x => [aa_addr x] ++ elist e_2 (aa_bal x) ++ [aa_nonce x] ++
                  match aa_msig x with None => [0] | Some (t, ws) => 1 :: t :: elist e_2 ws end) (a_accts a) ++
  elist (fun c => [ac_id c; ac_sym c; ac_ver c; ac_vol c; ac_crr c; ac_res c; ac_max c] ++
                  (match ac_owner c with None => [0] | Some o => [1; o] end) ++ [bz (ac_mint c); bz (ac_burn c)]) (a_coins a) ++
  elist e_4 (a_frozen a) ++
  elist e_2 (a_halts a) ++
  e_prices (a_comm a) ++
  elist (fun x => [x]) (a_used a) ++
  [a_maxgas a; a_slashed a; a_reward a].

Definition run_genesis_op (op : list Z) : list Z :=
  match op with
  | 1 :: h :: base_sym :: rest =>
    match (rates <- plist p_3 ;; a <- p_appstate ;; pret (rates, a)) rest with
    | Some ((rates, a), []) =>
      let v := bz (verify base_sym a) in
      match import (Ranking.bip_table rates) h base_sym a with
      | Val g => v :: 0 :: e_appstate (export g)
      | Nil => [v; 1]
      | Panic s => [v; 2; s]
      end
    | _ => [-1]
    end
  | 2 :: base_sym :: rest =>     (* AppState.Verify alone, on a (possibly corrupted) genesis state *)
    match p_appstate rest with
    | Some (a, []) => [bz (verify base_sym a)]
    | _ => [-1]
    end
  | _ => [-1]
  end.
