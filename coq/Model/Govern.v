(* Govern.v — the governance decisions of coreV2/minter/minter.go (isApplicationHalted,
   isUpdateCommissionsBlockV2, isUpdateNetworkBlockV2) after the fix: integers only. *)
From Minter Require Export Base.
Open Scope Z_scope.

Definition more_than_two_thirds (voted total : Z) : bool := 2 * total <? 3 * voted.

(* leader selection: the first proposal with the strictly largest voted power;
   returns (1-based index of the leader or 0, its voted power) *)
Fixpoint leader_from (idx : Z) (props : list Z) (best : Z * Z) : Z * Z :=
  match props with
  | [] => best
  | v :: rest => leader_from (idx + 1) rest (if snd best <? v then (idx, v) else best)
  end.

Definition leader (props : list Z) : Z * Z := leader_from 1 props (0, 0).

(* 1-based index of the accepted proposal, 0 = none *)
Definition decide (total : Z) (props : list Z) : Z :=
  let '(i, v) := leader props in
  if more_than_two_thirds v total then i else 0.

Definition halted (total voted : Z) : bool := more_than_two_thirds voted total.
