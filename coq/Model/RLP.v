(* RLP.v — canonical RLP (rlp/encode.go, rlp/decode.go) on the generic item tree, the typed
   layer used by coreV2/transaction.Transaction, transaction.Signature and check.Check,
   and crypto.ValidateSignatureValues as it is called from RecoverPlain.
   Bytes are integers 0..255 in a [list Z].  No proofs here. *)
From Minter Require Import Base.
Open Scope Z_scope.

Inductive item : Type :=
| Str (bs : list Z)        (* an RLP string (Kind Byte or String) *)
| Lst (l : list item).     (* an RLP list *)

Definition is_byte (b : Z) : bool := (0 <=? b) && (b <? 256).
Definition len {A} (l : list A) : Z := Z.of_nat (length l).

(* ---- big-endian integers ---------------------------------------------------------- *)
(* little-endian digits of n, lowest first; fuel f is enough when n < 2^f *)
Fixpoint le_bytes (fuel : nat) (n : Z) : list Z :=
  match fuel with
  | O => []
  | S f => if n <=? 0 then [] else (n mod 256) :: le_bytes f (n / 256)
  end.
Fixpoint from_le (l : list Z) : Z :=
  match l with [] => 0 | b :: r => b + 256 * from_le r end.

(* minimal big-endian bytes of n >= 0 (putint / big.Int.Bytes): zero is the empty string *)
Definition to_be (n : Z) : list Z := rev (le_bytes (S (Z.to_nat (Z.log2 n))) n).
Definition from_be (bs : list Z) : Z := from_le (rev bs).

(* ---- encoder (encode.go: puthead, writeBytes/encodeString, list headers) ---------- *)
(* header for a payload of n bytes; off = 128 (string) or 192 (list) *)
Definition enc_len (off n : Z) : list Z :=
  if n <? 56 then [off + n] else let lb := to_be n in (off + 55 + len lb) :: lb.

Definition enc_str (bs : list Z) : list Z :=
  match bs with
  | [x] => if x <? 128 then [x] else enc_len 128 1 ++ bs
  | _ => enc_len 128 (len bs) ++ bs
  end.

Fixpoint encode (i : item) : list Z :=
  match i with
  | Str bs => enc_str bs
  | Lst l => let p := flat_map encode l in enc_len 192 (len p) ++ p
  end.
Definition enc_list (l : list item) : list Z := flat_map encode l.

(* ---- strict decoder (decode.go: Stream.readKind / Kind / Bytes / List / ListEnd) ---- *)
(* read exactly n bytes: ErrValueTooLarge / ErrElemTooLarge / unexpected EOF = None *)
Definition take (n : Z) (l : list Z) : option (list Z * list Z) :=
  if (n <? 0) || (len l <? n) then None
  else Some (firstn (Z.to_nat n) l, skipn (Z.to_nat n) l).

(* long form: ll length bytes (no leading zero: ErrCanonSize), value >= 56 (ErrCanonSize),
   then the payload *)
Definition parse_long (ll : Z) (t : list Z) : option (list Z * list Z) :=
  match take ll t with
  | None => None
  | Some (lb, t') =>
    match lb with
    | [] => None
    | b0 :: _ =>
      if b0 =? 0 then None else
      let n := from_be lb in
      if n <? 56 then None else take n t'
    end
  end.

Definition tag3 (isl : bool) (x : option (list Z * list Z)) : option (bool * list Z * list Z) :=
  match x with Some (p, r) => Some (isl, p, r) | None => None end.

(* one value header + payload from the front of b: (is_list, payload, rest) *)
Definition parse_header (b : list Z) : option (bool * list Z * list Z) :=
  match b with
  | [] => None
  | h :: t =>
    if h <? 128 then Some (false, [h], t)                 (* Kind Byte *)
    else if h <? 184 then
      match take (h - 128) t with
      | None => None
      | Some (p, r) =>
        match p with
        | [x] => if x <? 128 then None else Some (false, p, r)   (* ErrCanonSize in Bytes() *)
        | _ => Some (false, p, r)
        end
      end
    else if h <? 192 then tag3 false (parse_long (h - 183) t)
    else if h <? 248 then tag3 true (take (h - 192) t)
    else if h <? 256 then tag3 true (parse_long (h - 247) t)
    else None
  end.

(* the whole of b as a sequence of values (the content of a list; the top level must be
   a sequence of exactly one).  Both recursive calls are on strictly shorter inputs, so
   fuel = length b is enough. *)
Fixpoint dec_items (fuel : nat) (b : list Z) : option (list item) :=
  match b with
  | [] => Some []
  | _ :: _ =>
    match fuel with
    | O => None
    | S f =>
      match parse_header b with
      | None => None
      | Some (isl, p, r) =>
        match dec_items f r with
        | None => None
        | Some rest =>
          if isl : bool
          then match dec_items f p with None => None | Some xs => Some (Lst xs :: rest) end
          else Some (Str p :: rest)
        end
      end
    end
  end.

(* DecodeBytes: exactly one value, no trailing bytes (ErrMoreThanOneValue) *)
Definition decode (b : list Z) : option item :=
  if forallb is_byte b then
    match dec_items (length b) b with
    | Some [i] => Some i
    | _ => None
    end
  else None.

(* ---- typed layer -------------------------------------------------------------------- *)
(* uintN / big.Int: Stream.uint and decodeBigInt.  w = maximal number of bytes
   (maxbits/8, errUintOverflow), w < 0 = unbounded (big.Int); a leading zero byte is
   ErrCanonInt; zero is the empty string. *)
Definition enc_uint (n : Z) : item := Str (to_be n).
Definition dec_uint (w : Z) (i : item) : option Z :=
  match i with
  | Lst _ => None                                       (* ErrExpectedString *)
  | Str bs =>
    if (0 <=? w) && (w <? len bs) then None else
    match bs with
    | [] => Some 0
    | b0 :: _ => if b0 =? 0 then None else Some (from_be bs)
    end
  end.

Inductive fty : Type := TUint (w : Z) | TBig | TBytes.
Inductive fval : Type := VInt (z : Z) | VBytes (bs : list Z).

Definition dec_field (ty : fty) (i : item) : option fval :=
  match ty with
  | TUint w => match dec_uint w i with Some z => Some (VInt z) | None => None end
  | TBig => match dec_uint (-1) i with Some z => Some (VInt z) | None => None end
  | TBytes => match i with Str bs => Some (VBytes bs) | Lst _ => None end
  end.
Definition enc_field (v : fval) : item :=
  match v with VInt z => enc_uint z | VBytes bs => Str bs end.

(* struct decoder: a list with exactly one element per field
   ("too few elements" / "input list has too many elements") *)
Fixpoint dec_fields (tys : list fty) (l : list item) : option (list fval) :=
  match tys, l with
  | [], [] => Some []
  | ty :: tys', i :: l' =>
    match dec_field ty i with
    | None => None
    | Some v => match dec_fields tys' l' with None => None | Some vs => Some (v :: vs) end
    end
  | _, _ => None
  end.
Definition dec_struct (tys : list fty) (i : item) : option (list fval) :=
  match i with Lst l => dec_fields tys l | Str _ => None end.

(* transaction.Transaction *)
Record tx : Type := {
  t_nonce : Z;      (* uint64 *)
  t_chain : Z;      (* types.ChainID = byte *)
  t_gasprice : Z;   (* uint32 *)
  t_gascoin : Z;    (* types.CoinID = uint32 *)
  t_type : Z;       (* TxType = byte *)
  t_data : list Z;  (* RawData *)
  t_payload : list Z;
  t_service : list Z;
  t_sigtype : Z;    (* SigType = byte *)
  t_sigdata : list Z }.

Definition tx_tys : list fty :=
  [TUint 8; TUint 1; TUint 4; TUint 4; TUint 1; TBytes; TBytes; TBytes; TUint 1; TBytes].
Definition tx_vals (t : tx) : list fval :=
  [VInt (t_nonce t); VInt (t_chain t); VInt (t_gasprice t); VInt (t_gascoin t); VInt (t_type t);
   VBytes (t_data t); VBytes (t_payload t); VBytes (t_service t); VInt (t_sigtype t);
   VBytes (t_sigdata t)].
Definition tx_of_vals (vs : list fval) : option tx :=
  match vs with
  | [VInt n; VInt c; VInt gp; VInt gc; VInt ty; VBytes d; VBytes p; VBytes s; VInt st; VBytes sg] =>
    Some {| t_nonce := n; t_chain := c; t_gasprice := gp; t_gascoin := gc; t_type := ty;
            t_data := d; t_payload := p; t_service := s; t_sigtype := st; t_sigdata := sg |}
  | _ => None
  end.
Definition enc_tx (t : tx) : item := Lst (map enc_field (tx_vals t)).
Definition dec_tx_item (i : item) : option tx :=
  match dec_struct tx_tys i with Some vs => tx_of_vals vs | None => None end.
Definition dec_tx (b : list Z) : option tx :=
  match decode b with Some i => dec_tx_item i | None => None end.

(* what Transaction.Hash() feeds to Keccak: the list of the nine fields before the signature *)
Definition signing_item (t : tx) : item := Lst (map enc_field (firstn 9 (tx_vals t))).
Definition signing_bytes (t : tx) : list Z := encode (signing_item t).

(* transaction.Signature {V, R, S *big.Int} *)
Record sig : Type := { s_v : Z; s_r : Z; s_s : Z }.
Definition sig_tys : list fty := [TBig; TBig; TBig].
Definition sig_vals (s : sig) : list fval := [VInt (s_v s); VInt (s_r s); VInt (s_s s)].
Definition sig_of_vals (vs : list fval) : option sig :=
  match vs with
  | [VInt v; VInt r; VInt s] => Some {| s_v := v; s_r := r; s_s := s |}
  | _ => None
  end.
Definition enc_sig (s : sig) : item := Lst (map enc_field (sig_vals s)).
Definition dec_sig_item (i : item) : option sig :=
  match dec_struct sig_tys i with Some vs => sig_of_vals vs | None => None end.
Definition dec_sig (b : list Z) : option sig :=
  match decode b with Some i => dec_sig_item i | None => None end.

(* check.Check *)
Record chk : Type := {
  k_nonce : list Z; k_chain : Z; k_due : Z; k_coin : Z; k_value : Z; k_gascoin : Z;
  k_lock : Z; k_v : Z; k_r : Z; k_s : Z }.
Definition chk_tys : list fty :=
  [TBytes; TUint 1; TUint 8; TUint 4; TBig; TUint 4; TBig; TBig; TBig; TBig].
Definition chk_vals (k : chk) : list fval :=
  [VBytes (k_nonce k); VInt (k_chain k); VInt (k_due k); VInt (k_coin k); VInt (k_value k);
   VInt (k_gascoin k); VInt (k_lock k); VInt (k_v k); VInt (k_r k); VInt (k_s k)].
Definition chk_of_vals (vs : list fval) : option chk :=
  match vs with
  | [VBytes n; VInt c; VInt d; VInt co; VInt va; VInt g; VInt l; VInt v; VInt r; VInt s] =>
    Some {| k_nonce := n; k_chain := c; k_due := d; k_coin := co; k_value := va; k_gascoin := g;
            k_lock := l; k_v := v; k_r := r; k_s := s |}
  | _ => None
  end.
Definition enc_chk (k : chk) : item := Lst (map enc_field (chk_vals k)).
Definition dec_chk_item (i : item) : option chk :=
  match dec_struct chk_tys i with Some vs => chk_of_vals vs | None => None end.
Definition dec_chk (b : list Z) : option chk :=
  match decode b with Some i => dec_chk_item i | None => None end.

(* ---- signature values (transaction.RecoverPlain + crypto.ValidateSignatureValues with
        homestead = true) --------------------------------------------------------------- *)
Definition secp_N : Z := 0xfffffffffffffffffffffffffffffffebaaedce6af48a03bbfd25e8cd0364141.
Definition secp_half_N : Z := secp_N / 2.    (* new(big.Int).Div(secp256k1N, 2) *)

(* vb is the big.Int V of the signature (27/28 on the wire).
   Vb.BitLen() > 8 -> invalid;  V := byte(Vb.Uint64() - 27)  (BitLen and Uint64 work on |Vb|);
   r >= 1, s >= 1, s <= N/2, r < N, s < N, V = 0 or 1. *)
Definition validate_sig (vb r s : Z) : bool :=
  let a := Z.abs vb in
  if 256 <=? a then false else
  let v := (a - 27) mod 256 in
  (1 <=? r) && (1 <=? s) && (s <=? secp_half_N) && (r <? secp_N) && (s <? secp_N)
  && ((v =? 0) || (v =? 1)).

(* Transaction.Sender() for SigTypeSingle: keccak and public-key recovery are parameters
   (trusted, not modelled); everything around them is explicit. *)
Section Sender.
  Variable keccak : list Z -> Z.
  Variable recover : Z -> Z -> Z -> Z -> option Z.    (* hash, recid, r, s -> address *)
  Definition sender (t : tx) (sg : sig) : option Z :=
    if validate_sig (s_v sg) (s_r sg) (s_s sg)
    then recover (keccak (signing_bytes t)) ((Z.abs (s_v sg) - 27) mod 256) (s_r sg) (s_s sg)
    else None.
End Sender.
