(* CandAuth.v — who may change a candidate's settings (C05, second sentence).
   Transliterates checkCandidateOwnership / checkCandidateControl of coreV2/transaction/edit_candidate.go
   and the effect of the four transactions on the candidate record. *)
From Coq Require Import ZArith List Bool.
Import ListNotations.
Open Scope Z_scope.

Record cand := { ca_owner : Z; ca_control : Z; ca_reward : Z; ca_online : bool; ca_commission : Z }.

Inductive cop :=
| CEdit (sender reward owner control : Z)      (* EditCandidate *)
| CCommission (sender commission : Z)          (* EditCandidateCommission *)
| COn (sender : Z)                             (* SetCandidateOnline *)
| COff (sender : Z).                           (* SetCandidateOffline *)

Definition cIsNotOwnerOfCandidate : Z := 406.

(* checkCandidateOwnership: the sender is the owner *)
Definition is_owner (c : cand) (sender : Z) : bool := sender =? ca_owner c.
(* checkCandidateControl: the sender is the owner or the control address *)
Definition is_controller (c : cand) (sender : Z) : bool := (sender =? ca_owner c) || (sender =? ca_control c).

Definition authorized (c : cand) (o : cop) : bool :=
  match o with
  | CEdit s _ _ _ => is_owner c s
  | CCommission s _ => is_owner c s
  | COn s => is_controller c s
  | COff s => is_controller c s
  end.

(* other [ok] = every other check of the transaction passed (nonce, fee, commission bounds, jail ...) *)
Definition cstep (c : cand) (o : cop) (other_ok : bool) : cand * Z :=
  if negb (authorized c o) then (c, cIsNotOwnerOfCandidate)
  else if negb other_ok then (c, 1)
  else match o with
       | CEdit _ reward owner control =>
         ({| ca_owner := owner; ca_control := control; ca_reward := reward; ca_online := ca_online c; ca_commission := ca_commission c |}, 0)
       | CCommission _ com =>
         ({| ca_owner := ca_owner c; ca_control := ca_control c; ca_reward := ca_reward c; ca_online := ca_online c; ca_commission := com |}, 0)
       | COn _ =>
         ({| ca_owner := ca_owner c; ca_control := ca_control c; ca_reward := ca_reward c; ca_online := true; ca_commission := ca_commission c |}, 0)
       | COff _ =>
         ({| ca_owner := ca_owner c; ca_control := ca_control c; ca_reward := ca_reward c; ca_online := false; ca_commission := ca_commission c |}, 0)
       end.

Definition crun (c : cand) (ops : list (cop * bool)) : cand := fold_left (fun c x => fst (cstep c (fst x) (snd x))) ops c.

(* integer-list interface for the correspondence check (dispatch model 21):
   [kind; sender; owner; control] -> [authorized]   kind 1 EditCandidate, 2 EditCandidateCommission, 3 on, 4 off *)
Definition run_candauth_op (l : list Z) : list Z :=
  match l with
  | [k; s; o; ctl] =>
    let c := {| ca_owner := o; ca_control := ctl; ca_reward := 0; ca_online := true; ca_commission := 0 |} in
    let op := if k =? 1 then CEdit s 0 0 0 else if k =? 2 then CCommission s 0 else if k =? 3 then COn s else COff s in
    [if authorized c op then 1 else 0]
  | _ => [-1]
  end.
