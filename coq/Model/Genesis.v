(* Genesis.v — C11: the state export, the genesis import and the genesis validation.
   Executable model, no proofs.  Transliterated from
     coreV2/state/state.go            CheckState.Export (module order), State.Import
     coreV2/state/accounts            Accounts.Export  (tree order = ascending address, positive balances only,
                                      balances sorted by coin, accounts without balance, nonce and multisig dropped)
     coreV2/state/coins               Coins.Export (sorted by id, owner = the owner of the symbol), ImportToken / ImportCoin
     coreV2/state/checks              Checks.Export (tree order = ascending hash), UseCheckHash
     coreV2/state/frozenfunds         FrozenFunds.Export (heights from the state height on, ascending; list order inside)
     coreV2/state/candidates          Candidates.Export (occupied slots only, in slot order; updates; total; status),
                                      CreateWithID / SetTotalStake / SetStakes, RecalculateStakesV2 -> recalculateStakes
     coreV2/state/waitlist            WaitList.Export (stable sort by owner, descending), AddWaitList (AddToList merges)
     coreV2/state/validators, swap, halts, commission, update, app   copied field by field
     coreV2/types/appstate.go         AppState, Verify
   The ledger part of the state is Ledger.st (balances, nonces, coins, symbol owners, coins count, used
   checks, multisigs, frozen funds of Lock); the staking part is added here.

   What Import does NOT restore, although the state has it (each is a finding, see Properties/C11.v):
     the safe reward (Import sets reward = safe reward = PrevReward.Reward), the positions of empty stake slots
     (Export lists occupied slots).  Repaired in /repo and modelled as repaired: halt votes are imported
     (49ebe8c), the candidate id counter is raised to the ids of the deleted candidates (9497f5f), Verify counts
     the frozen funds of a token (b66d393; the old rule is kept as coin_volume_ok_old for the regression witness).
   What Import does at once, although the chain would do it at the next update block: the stake recalculation.

   Not modelled (covered by the node-level differential of harness/cmd/vharness/c11.go only): candidate-bound
   frozen funds (unbond, move, removed candidates) and the removal of candidates ranked beyond 100 at import
   (Ranking.to_delete), limit orders, jailed-until / last-edit-commission heights, reward / control addresses,
   LockStakeUntilBlock, coin names, validators' absence windows, the block list. *)
From Minter Require Import Base Consts Ledger.
From Minter Require Ranking.
From Coq Require Import ZArith List Bool.
Import ListNotations.
Open Scope Z_scope.

(* ---- sorted duplicate-free lists of integers: the iteration order of the IAVL tree ----------------- *)
Fixpoint ins_uniq (x : Z) (l : list Z) : list Z :=
  match l with
  | [] => [x]
  | y :: r => if x <? y then x :: l else if x =? y then l else y :: ins_uniq x r
  end.
Definition set_of (l : list Z) : list Z := fold_right ins_uniq [] l.

(* ---- types.AppState, the modelled part ------------------------------------------------------------- *)
Record aacct := { aa_addr : Z; aa_bal : list (Z * Z) (* (coin, value) *); aa_nonce : Z;
                  aa_msig : option (Z * list (Z * Z)) (* threshold, [(owner, weight)] *) }.
Record acoin := { ac_id : Z; ac_sym : Z; ac_ver : Z; ac_vol : Z; ac_crr : Z; ac_res : Z; ac_max : Z;
                  ac_owner : option Z; ac_mint : bool; ac_burn : bool }.
Record acand := { ak_id : Z; ak_pub : Z; ak_owner : Z; ak_status : Z (* 1 offline, 2 online *); ak_total : Z;
                  ak_stakes : list Ranking.stk; ak_updates : list Ranking.stk }.
Record aval := { av_pub : Z; av_total : Z; av_accum : Z }.
Record apool := { ap_c0 : Z; ap_c1 : Z; ap_r0 : Z; ap_r1 : Z; ap_id : Z }.

Record appstate := {
  a_vals : list aval;
  a_cands : list acand;
  a_deleted : list (Z * Z);                 (* deleted candidates: (id, key), sorted by id *)
  a_wait : list (Z * Z * Z * Z);            (* (owner, candidate id, coin, value) *)
  a_pools : list apool;
  a_accts : list aacct;
  a_coins : list acoin;
  a_frozen : list (Z * Z * Z * Z);          (* (due height, address, coin, value) *)
  a_halts : list (Z * Z);                   (* (height, candidate key) *)
  a_comm : prices;                          (* the commission price table *)
  a_cvotes : list (Z * list Z * list Z);    (* (height, voters, voted prices) — opaque *)
  a_uvotes : list (Z * list Z * Z);         (* (height, voters, version) — opaque *)
  a_used : list Z;
  a_maxgas : Z;
  a_slashed : Z;
  a_reward : Z                              (* PrevReward.Reward: cmd/minter/cmd/export.go takes it from the appdb *)
}.

(* ---- the state ------------------------------------------------------------------------------------------ *)
Record cand := { k_id : Z; k_pub : Z; k_owner : Z; k_status : Z; k_total : Z;
                 k_slots : list (option Ranking.stk);   (* the stake slots, None = empty *)
                 k_updates : list Ranking.stk }.

Record gst := {
  g_led : st;
  g_res : list (Z * (Z * Z));        (* coin id -> (crr, reserve) for coins with a reserve; any other coin is a token *)
  g_vals : list aval;
  g_cands : list cand;
  g_deleted : list (Z * Z);          (* deleted candidates (id, key) *)
  g_maxid : Z;                       (* Candidates.maxID *)
  g_wait : list (Z * Z * Z * Z);
  g_pools : list apool;
  g_halts : list (Z * Z);
  g_cvotes : list (Z * list Z * list Z);
  g_uvotes : list (Z * list Z * Z);
  g_maxgas : Z;
  g_slashed : Z;
  g_reward : Z;                      (* App.Reward(): reward, safe reward *)
  g_safe : Z
}.

(* ======================================================================================================== *)
(* Export                                                                                                     *)
(* ======================================================================================================== *)

(* accounts.go Export: the tree iterates addresses in ascending order; every address the state ever touched
   (balance entry, nonce, multisig) has a node *)
Definition addr_universe (s : st) : list Z :=
  set_of (map (fun e : Z * Z * Z => fst (fst e)) (s_bal s) ++ map fst (s_nonce s) ++ map fst (s_msig s)).
Definition coins_of (s : st) (a : Z) : list Z :=
  set_of (map (fun e : Z * Z * Z => snd (fst e)) (filter (fun e : Z * Z * Z => fst (fst e) =? a) (s_bal s))).
Definition acct_of (s : st) (a : Z) : aacct :=
  {| aa_addr := a;
     aa_bal := map (fun c => (c, get_bal (s_bal s) a c)) (filter (fun c => 0 <? get_bal (s_bal s) a c) (coins_of s a));
     aa_nonce := get_nonce (s_nonce s) a;
     aa_msig := find_msig (s_msig s) a |}.
Definition acct_empty (x : aacct) : bool :=
  match aa_bal x, aa_msig x with [], None => aa_nonce x =? 0 | _, _ => false end.
Definition export_accts (s : st) : list aacct :=
  filter (fun x => negb (acct_empty x)) (map (acct_of s) (addr_universe s)).

(* coins.go Export: sort.Slice by id; the owner is the symbol's owner (also for archived versions) *)
Fixpoint find_res (l : list (Z * (Z * Z))) (id : Z) : option (Z * Z) :=
  match l with [] => None | (i, p) :: r => if i =? id then Some p else find_res r id end.
Definition coin_lt (a b : coinrec) : bool := c_id a <? c_id b.
Definition export_coin (s : st) (res : list (Z * (Z * Z))) (r : coinrec) : acoin :=
  let p := match find_res res (c_id r) with Some p => p | None => (0, 0) end in
  {| ac_id := c_id r; ac_sym := c_sym r; ac_ver := c_ver r; ac_vol := c_vol r; ac_crr := fst p; ac_res := snd p;
     ac_max := c_max r; ac_owner := get_owner (s_symowner s) (c_sym r); ac_mint := c_mint r; ac_burn := c_burn r |}.
Definition export_coins (s : st) (res : list (Z * (Z * Z))) : list acoin :=
  map (export_coin s res) (Ranking.sort_stable coin_lt (s_coins s)).

(* frozen_funds.go Export: GetFrozenFundsAll(height, MaxUint64): the heights from the state height on, ascending *)
Definition due_of (f : Z * Z * Z * Z) : Z := fst (fst (fst f)).
Definition due_lt (a b : Z * Z * Z * Z) : bool := due_of a <? due_of b.
Definition export_frozen (s : st) : list (Z * Z * Z * Z) :=
  Ranking.sort_stable due_lt (filter (fun f => s_height s <=? due_of f) (s_frozen s)).

(* candidates.go Export: GetStakes = the occupied slots in slot order *)
Definition export_cand (k : cand) : acand :=
  {| ak_id := k_id k; ak_pub := k_pub k; ak_owner := k_owner k; ak_status := k_status k; ak_total := k_total k;
     ak_stakes := Ranking.somes (k_slots k); ak_updates := k_updates k |}.
(* GetCandidates orders by (total stake desc, id desc): a derived order; the model keeps the candidates
   sorted by id and exports them so (the harness canonicalises the same way) *)

(* waitlist.go Export: per address in tree order, then sort.SliceStable by owner, descending *)
Definition wl_owner (w : Z * Z * Z * Z) : Z := fst (fst (fst w)).
Definition wl_gt (a b : Z * Z * Z * Z) : bool := wl_owner b <? wl_owner a.
Definition export_wait (l : list (Z * Z * Z * Z)) : list (Z * Z * Z * Z) := Ranking.sort_stable wl_gt l.

(* candidates.go Export: deleted candidates, sort.SliceStable by id *)
Definition del_lt (a b : Z * Z) : bool := fst a <? fst b.

Definition export (g : gst) : appstate :=
  let s := g_led g in
  {| a_vals := g_vals g;
     a_cands := map export_cand (g_cands g);
     a_deleted := Ranking.sort_stable del_lt (g_deleted g);
     a_wait := export_wait (g_wait g);
     a_pools := g_pools g;
     a_accts := export_accts s;
     a_coins := export_coins s (g_res g);
     a_frozen := export_frozen s;
     a_halts := g_halts g;
     a_comm := s_prices s;
     a_cvotes := g_cvotes g;
     a_uvotes := g_uvotes g;
     a_used := set_of (s_used s);
     a_maxgas := g_maxgas g;
     a_slashed := g_slashed g;
     a_reward := g_reward g |}.

(* ======================================================================================================== *)
(* Import                                                                                                     *)
(* ======================================================================================================== *)

(* accounts: CreateMultisig, SetNonce (every account, also nonce 0), SetBalance per balance *)
Definition import_bal (l : list aacct) : list (Z * Z * Z) :=
  flat_map (fun x => map (fun cv : Z * Z => (aa_addr x, fst cv, snd cv)) (aa_bal x)) l.
Definition import_nonce (l : list aacct) : list (Z * Z) := map (fun x => (aa_addr x, aa_nonce x)) l.
Definition import_msig (l : list aacct) : list (Z * (Z * list (Z * Z))) :=
  flat_map (fun x => match aa_msig x with Some m => [(aa_addr x, m)] | None => [] end) l.

(* coins: ImportToken (crr = 0) / ImportCoin; a coin with an owner sets the symbol's owner *)
Definition import_coin (c : acoin) : coinrec :=
  {| c_id := ac_id c; c_sym := ac_sym c; c_ver := ac_ver c; c_vol := ac_vol c; c_max := ac_max c;
     c_mint := ac_mint c; c_burn := ac_burn c |}.
Definition import_owners (l : list acoin) : list (Z * Z) :=
  flat_map (fun c => match ac_owner c with Some o => [(ac_sym c, o)] | None => [] end) l.
Definition import_res (l : list acoin) : list (Z * (Z * Z)) :=
  flat_map (fun c => if ac_crr c =? 0 then [] else [(ac_id c, (ac_crr c, ac_res c))]) l.

(* the ledger part; height = the height the new chain starts after, base_sym = the chain's base coin *)
Definition import_led (height base_sym : Z) (a : appstate) : st :=
  {| s_bal := import_bal (a_accts a);
     s_nonce := import_nonce (a_accts a);
     s_coins := map import_coin (a_coins a);
     s_symowner := import_owners (a_coins a);
     s_ncoins := Z.of_nat (length (a_coins a));       (* state.go:294 SetCoinsCount(uint32(len(state.Coins))) *)
     s_rpool := 0;
     s_used := a_used a;
     s_msig := import_msig (a_accts a);
     s_frozen := a_frozen a;
     s_height := height;
     s_prices := a_comm a;
     s_base_sym := base_sym |}.

(* candidates: SetStakes puts the first 1000 stakes into slots 0.., the rest joins the updates *)
Definition slot_cap : nat := Z.to_nat max_delegators_per_candidate.
Definition import_slots (stakes : list Ranking.stk) : list (option Ranking.stk) :=
  map Some (firstn slot_cap stakes) ++ repeat None (slot_cap - length (firstn slot_cap stakes)).
Definition import_cand_raw (c : acand) : cand :=
  {| k_id := ak_id c; k_pub := ak_pub c; k_owner := ak_owner c; k_status := ak_status c; k_total := ak_total c;
     k_slots := import_slots (ak_stakes c);
     k_updates := ak_updates c ++ skipn slot_cap (ak_stakes c) |}.

(* the waitlist: AddToList adds to an existing (owner, candidate, coin) entry, else appends *)
Fixpoint add_wait (l : list (Z * Z * Z * Z)) (o k c v : Z) : list (Z * Z * Z * Z) :=
  match l with
  | [] => [(o, k, c, v)]
  | (o', k', c', v') :: r =>
    if (o' =? o) && (k' =? k) && (c' =? c) then (o', k', c', v' + v) :: r else (o', k', c', v') :: add_wait r o k c v
  end.
Definition add_waits (l : list (Z * Z * Z * Z)) (ws : list (Z * Z * Z * Z)) : list (Z * Z * Z * Z) :=
  fold_left (fun acc w => let '(o, k, c, v) := w in add_wait acc o k c v) ws l.

(* recalculateStakes for one candidate (Ranking.recalc_slots); the kicked stakes go to the waitlist *)
Section Recalc.
Variable bipf : Z -> Z -> Z.   (* coin -> value -> bip value (base coin: the value; Ranking.bip_table) *)

Definition recalc_cand (k : cand) : outcome (cand * list (Z * Z * Z * Z)) :=
  obind (Ranking.recalc_slots bipf (k_slots k) (k_updates k)) (fun r =>
  Val ({| k_id := k_id k; k_pub := k_pub k; k_owner := k_owner k; k_status := k_status k;
          k_total := Ranking.r_total r; k_slots := Ranking.r_slots r; k_updates := [] |},
       map (fun s : Ranking.stk => (Ranking.s_owner s, k_id k, Ranking.s_coin s, Ranking.s_value s)) (Ranking.r_kicked r))).

Fixpoint recalc_cands (l : list cand) : outcome (list cand * list (Z * Z * Z * Z)) :=
  match l with
  | [] => Val ([], [])
  | k :: r =>
    obind (recalc_cand k) (fun p1 =>
    obind (recalc_cands r) (fun p2 => Val (fst p1 :: fst p2, snd p1 ++ snd p2)))
  end.

(* the update-block work on the stakes: every candidate recalculated, the kicked stakes put on the waitlist *)
Definition recalc_all (g : gst) : outcome gst :=
  obind (recalc_cands (g_cands g)) (fun p =>
  Val {| g_led := g_led g; g_res := g_res g; g_vals := g_vals g; g_cands := fst p; g_deleted := g_deleted g; g_maxid := g_maxid g;
         g_wait := add_waits (g_wait g) (snd p); g_pools := g_pools g; g_halts := g_halts g; g_cvotes := g_cvotes g;
         g_uvotes := g_uvotes g; g_maxgas := g_maxgas g; g_slashed := g_slashed g; g_reward := g_reward g; g_safe := g_safe g |}).

(* State.Import before the recalculation, waitlist still empty *)
Definition import_pre (height base_sym : Z) (a : appstate) : gst :=
  {| g_led := import_led height base_sym a;
     g_res := import_res (a_coins a);
     g_vals := a_vals a;
     g_cands := map import_cand_raw (a_cands a);
     g_deleted := a_deleted a;
     (* setPubKeyID raises maxID to the largest live id, SetDeletedCandidates to the largest deleted id *)
     g_maxid := Z.max (fold_right Z.max 0 (map ak_id (a_cands a))) (fold_right Z.max 0 (map fst (a_deleted a)));
     g_wait := [];
     g_pools := a_pools a;
     g_halts := a_halts a;                                    (* state.go:389 AddHaltBlock per exported vote *)
     g_cvotes := a_cvotes a;
     g_uvotes := a_uvotes a;
     g_maxgas := a_maxgas a;
     g_slashed := a_slashed a;
     g_reward := a_reward a;
     g_safe := a_reward a |}.                                 (* state.go:292 SetReward(Reward, Reward) *)

Definition set_wait (g : gst) (w : list (Z * Z * Z * Z)) : gst :=
  {| g_led := g_led g; g_res := g_res g; g_vals := g_vals g; g_cands := g_cands g; g_deleted := g_deleted g; g_maxid := g_maxid g;
     g_wait := w; g_pools := g_pools g; g_halts := g_halts g; g_cvotes := g_cvotes g;
     g_uvotes := g_uvotes g; g_maxgas := g_maxgas g; g_slashed := g_slashed g; g_reward := g_reward g; g_safe := g_safe g |}.

(* State.Import: ..., candidates, RecalculateStakesV2 (state.go:370), then the waitlist entries (375), ... *)
Definition import (height base_sym : Z) (a : appstate) : outcome gst :=
  obind (recalc_all (import_pre height base_sym a)) (fun g =>
  Val (set_wait g (add_waits (g_wait g) (a_wait a)))).

(* the same without the recalculation: what Import would be if the update-block work were left to the
   update block (reference for the theorems; the repaired Import of the patch proposal) *)
Definition import_norecalc (height base_sym : Z) (a : appstate) : gst :=
  let g := import_pre height base_sym a in set_wait g (add_waits [] (a_wait a)).
End Recalc.

(* ======================================================================================================== *)
(* Verify (types/appstate.go:49-302)                                                                          *)
(* ======================================================================================================== *)
Definition coin_known (a : appstate) (c : Z) : bool := (c =? 0) || existsb (fun x => ac_id x =? c) (a_coins a).

Fixpoint nodup_z (l : list Z) : bool :=
  match l with [] => true | x :: r => negb (existsb (Z.eqb x) r) && nodup_z r end.
Fixpoint nodup_zz (l : list (Z * Z)) : bool :=
  match l with [] => true | (x, y) :: r => negb (existsb (fun p : Z * Z => (fst p =? x) && (snd p =? y)) r) && nodup_zz r end.

(* the volume Verify recomputes for a coin *)
Definition vol_accounts (a : appstate) (c : Z) : Z :=
  sum_Z (map (fun x => sum_Z (map (fun cv : Z * Z => if fst cv =? c then snd cv else 0) (aa_bal x))) (a_accts a)).
Definition vol_pools (a : appstate) (c : Z) : Z :=
  sum_Z (map (fun p => (if ap_c0 p =? c then ap_r0 p else 0) + (if ap_c1 p =? c then ap_r1 p else 0)) (a_pools a)).
Definition vol_frozen (a : appstate) (c : Z) : Z :=
  sum_Z (map (fun f : Z * Z * Z * Z => if snd (fst f) =? c then snd f else 0) (a_frozen a)).
Definition vol_stk (l : list Ranking.stk) (c : Z) : Z :=
  sum_Z (map (fun s => if Ranking.s_coin s =? c then Ranking.s_value s else 0) l).
Definition vol_cands (a : appstate) (c : Z) : Z :=
  sum_Z (map (fun k => vol_stk (ak_stakes k) c + vol_stk (ak_updates k) c) (a_cands a)).
Definition vol_wait (a : appstate) (c : Z) : Z :=
  sum_Z (map (fun w : Z * Z * Z * Z => if snd (fst w) =? c then snd w else 0) (a_wait a)).

(* 172-210: balances + pools (+ orders) + frozen funds; 212-217: a token (crr = 0) is compared with that;
   219-241: a reserve coin also counts stakes, updates, waitlist *)
Definition coin_volume_ok (a : appstate) (c : acoin) : bool :=
  let v := vol_accounts a (ac_id c) + vol_pools a (ac_id c) + vol_frozen a (ac_id c) in
  if ac_crr c =? 0 then v =? ac_vol c
  else v + vol_cands a (ac_id c) + vol_wait a (ac_id c) =? ac_vol c.

(* the rule before fix b66d393: the frozen funds were added after the token's `continue` *)
Definition coin_volume_ok_old (a : appstate) (c : acoin) : bool :=
  let v := vol_accounts a (ac_id c) + vol_pools a (ac_id c) in
  if ac_crr c =? 0 then v =? ac_vol c
  else v + vol_frozen a (ac_id c) + vol_cands a (ac_id c) + vol_wait a (ac_id c) =? ac_vol c.

(* the rules, in the order of the code:
   R1  50   total slashed is a valid (non-negative) integer
   R2  54   at least one validator
   R3  59   validators: no duplicated key; a candidate with the key exists; total stake and accumulated reward valid
            (absent times non-nil: not modelled)
   R4  94   accounts: no duplicated address; every balance valid; every non-base coin of a balance is declared
   R5 127   candidates: no duplicated (owner, coin) among the stakes; every non-base stake coin is declared
            (updates are not checked)
   R6 156   coins: the base symbol is not declared; no duplicated id; the volume rule above
   R7 244   waitlist: value valid; coin declared
   R8 266   frozen funds: value valid; coin declared
   R9 290   used checks are 32 bytes of hex: not modelled (checks are opaque integers) *)
Definition verify (base_sym : Z) (a : appstate) : bool :=
  (0 <=? a_slashed a) &&
  negb (Nat.eqb (length (a_vals a)) 0) &&
  nodup_z (map av_pub (a_vals a)) &&
  forallb (fun v => existsb (fun k => ak_pub k =? av_pub v) (a_cands a) && (0 <=? av_total v) && (0 <=? av_accum v)) (a_vals a) &&
  nodup_z (map aa_addr (a_accts a)) &&
  forallb (fun x => forallb (fun cv : Z * Z => (0 <=? snd cv) && coin_known a (fst cv)) (aa_bal x)) (a_accts a) &&
  forallb (fun k => nodup_zz (map (fun s => (Ranking.s_owner s, Ranking.s_coin s)) (ak_stakes k)) &&
                    forallb (fun s => coin_known a (Ranking.s_coin s)) (ak_stakes k)) (a_cands a) &&
  forallb (fun c => negb (ac_sym c =? base_sym)) (a_coins a) &&
  nodup_z (map ac_id (a_coins a)) &&
  forallb (coin_volume_ok a) (a_coins a) &&
  forallb (fun w : Z * Z * Z * Z => (0 <=? snd w) && coin_known a (snd (fst w))) (a_wait a) &&
  forallb (fun f : Z * Z * Z * Z => (0 <=? snd f) && coin_known a (snd (fst f))) (a_frozen a).

(* ---- ledger steps on the whole state ---------------------------------------------------------------------- *)
Definition set_led (g : gst) (s : st) : gst :=
  {| g_led := s; g_res := g_res g; g_vals := g_vals g; g_cands := g_cands g; g_deleted := g_deleted g; g_maxid := g_maxid g;
     g_wait := g_wait g; g_pools := g_pools g; g_halts := g_halts g; g_cvotes := g_cvotes g;
     g_uvotes := g_uvotes g; g_maxgas := g_maxgas g; g_slashed := g_slashed g; g_reward := g_reward g; g_safe := g_safe g |}.

(* the response of an operation: the code of a transaction, 0 for the block phases *)
Definition gstep (g : gst) (o : op) : gst * Z :=
  match o with
  | OpTx t => let '(s', c) := deliver (g_led g) t in (set_led g s', c)
  | _ => (set_led g (step (g_led g) o), 0)
  end.

Fixpoint grun (g : gst) (ops : list op) : gst * list Z :=
  match ops with
  | [] => (g, [])
  | o :: r => let '(g1, c) := gstep g o in let '(g2, cs) := grun g1 r in (g2, c :: cs)
  end.
