(* Ranking.v — C17: validator selection, voting powers, removal of candidates ranked beyond
   the limit, and the delegation-slot algorithm of recalculateStakes.  Executable model, no
   proofs.  Transliterated from
     coreV2/state/candidates/candidates.go  getOrderedCandidates / getOrderedCandidatesLessID /
                                            GetNewCandidates / recalculateStakes / stakeKick /
                                            RecalculateStakesV2 / DeleteCandidate
     coreV2/state/candidates/model.go       getFilteredUpdates / filterUpdates
     coreV2/minter/minter.go                updateValidators
   Constants come from Generated/Consts.v (validators_count, max_candidates_kept,
   max_delegators_per_candidate, min_validator_bip_stake, power_scale). *)
From Minter Require Import Base Consts.
Open Scope Z_scope.

(* ---- stable sorting (sort.SliceStable) -------------------------------------------------- *)
Section Sort.
Context {A : Type}.
Variable less : A -> A -> bool.
(* x comes from a position before every element of l: it goes in front of the first element
   that is not strictly less than it, so equal elements keep their input order *)
Fixpoint insert_stable (x : A) (l : list A) : list A :=
  match l with
  | [] => [x]
  | y :: r => if less y x then y :: insert_stable x r else x :: y :: r
  end.
Definition sort_stable (l : list A) : list A := fold_right insert_stable [] l.
End Sort.

(* ---- candidates as the ranking sees them -------------------------------------------------- *)
Record cand := { c_id : Z; c_online : bool; c_stake : Z (* totalBipStake *) }.

(* getOrderedCandidates: larger stake first, ties: larger ID first (candidates.go:1154-1160).
   The comparator is a strict total order when IDs are unique, so the result does not depend on
   the (random) map iteration order the Go code starts from. *)
Definition before_gt (a b : cand) : bool :=
  (c_stake b <? c_stake a) || ((c_stake a =? c_stake b) && (c_id b <? c_id a)).
(* getOrderedCandidatesLessID: larger stake first, ties: smaller ID first (candidates.go:1175-1181) *)
Definition before_lt (a b : cand) : bool :=
  (c_stake b <? c_stake a) || ((c_stake a =? c_stake b) && (c_id a <? c_id b)).

(* GetNewCandidates (candidates.go:377-398): walk GetCandidates() = getOrderedCandidates(), skip
   the ones that are not online or whose stake is below minValidatorBipStake, cut at valCount.
   (This tree has no second sort inside GetNewCandidates: the order, ties included, is the one of
   getOrderedCandidates.) *)
Definition eligible (c : cand) : bool := c_online c && (min_validator_bip_stake <=? c_stake c).
Definition new_validators (cands : list cand) (count : nat) : list cand :=
  firstn count (filter eligible (sort_stable before_gt cands)).

(* updateValidators (minter.go:113-128): power = stake * 100000000 / total, 0 replaced by 1.
   The division is big.Int.Div (panics on a zero total); it is only evaluated inside the loop over
   the selected candidates, so an empty selection divides nothing. *)
Definition power_of (total stake : Z) : outcome Z :=
  obind (ediv (stake * power_scale) total) (fun p => Val (if p =? 0 then 1 else p)).
Fixpoint powers_with (total : Z) (stakes : list Z) : outcome (list Z) :=
  match stakes with
  | [] => Val []
  | s :: r => obind (power_of total s) (fun p => obind (powers_with total r) (fun ps => Val (p :: ps)))
  end.
Definition powers (stakes : list Z) : outcome (list Z) := powers_with (sum_Z stakes) stakes.

(* the ValidatorUpdate list (minter.go:136-155): the new validators with their powers, then every
   previously active validator that is not in the new set with power 0, in the old order *)
Definition removed_validators (old new : list Z) : list Z :=
  filter (fun o => negb (existsb (Z.eqb o) new)) old.

(* RecalculateStakesV2 (candidates.go:495-505): rank with getOrderedCandidatesLessID, nothing to do
   below `max` candidates, DeleteCandidate for every candidate from position `max` on;
   DeleteCandidate (candidates.go:1433-1436) returns immediately for a current validator. *)
Definition to_delete (cands : list cand) (is_validator : cand -> bool) (max : nat) : list cand :=
  let ranked := sort_stable before_lt cands in
  if (length ranked <? max)%nat then []
  else filter (fun c => negb (is_validator c)) (skipn max ranked).

(* ---- stakes ------------------------------------------------------------------------------------ *)
Record stk := { s_owner : Z; s_coin : Z; s_value : Z; s_bip : Z }.
Definition same_key (a b : stk) : bool := (s_owner a =? s_owner b) && (s_coin a =? s_coin b).
Definition add_value (s : stk) (v : Z) : stk :=
  {| s_owner := s_owner s; s_coin := s_coin s; s_value := s_value s + v; s_bip := s_bip s |}.

Fixpoint somes {A} (l : list (option A)) : list A :=
  match l with [] => [] | Some x :: r => x :: somes r | None :: r => somes r end.

(* DeleteCandidate (candidates.go:1441-1468): every stake, then every update, becomes a frozen fund
   of the same owner, coin and value, due at height + UnbondPeriod *)
Record fund := { f_height : Z; f_owner : Z; f_coin : Z; f_value : Z; f_cand : Z }.
Definition fund_of (height unbond cid : Z) (s : stk) : fund :=
  {| f_height := height + unbond; f_owner := s_owner s; f_coin := s_coin s; f_value := s_value s; f_cand := cid |}.
Definition delete_funds (height unbond cid : Z) (slots : list (option stk)) (updates : list stk) : list fund :=
  map (fund_of height unbond cid) (somes slots) ++ map (fund_of height unbond cid) updates.

(* ---- recalculateStakes for one candidate (candidates.go:512-577) --------------------------------
   The bip value of (coin, value) is an input: for the base coin it is the value itself, for a
   reserve coin it is totalDelegatedBasecoin * value / totalDelegatedValue with the two totals
   fixed for the whole call by the coinsCache (calculateBipValue, candidates.go:973-1017); the
   bancor part is an oracle. *)
Section Recalc.
Variable bipf : Z -> Z -> Z.   (* coin -> value -> bip value *)

Definition rebip (s : stk) : stk :=
  {| s_owner := s_owner s; s_coin := s_coin s; s_value := s_value s; s_bip := bipf (s_coin s) (s_value s) |}.

(* 514-519: every occupied slot gets its bip value recomputed *)
Definition rebip_slots (slots : list (option stk)) : list (option stk) := map (option_map rebip) slots.

(* 522-529: an update whose (owner, coin) already has a slot (GetStakeOfAddress: the first such
   slot) is added to it; its own value becomes 0, which makes filterUpdates drop it *)
Fixpoint merge_into (u : stk) (slots : list (option stk)) : option (list (option stk)) :=
  match slots with
  | [] => None
  | Some s :: r =>
    if same_key s u then Some (Some (rebip (add_value s (s_value u))) :: r)
    else option_map (cons (Some s)) (merge_into u r)
  | None :: r => option_map (cons None) (merge_into u r)
  end.
Fixpoint apply_existing (slots : list (option stk)) (updates : list stk) : list (option stk) * list stk :=
  match updates with
  | [] => (slots, [])
  | u :: r =>
    match merge_into u slots with
    | Some slots' => apply_existing slots' r
    | None => let '(s2, us) := apply_existing slots r in (s2, u :: us)
    end
  end.

(* model.go:164-200 getFilteredUpdates: drop values <= 0, add a repeated (owner, coin) to its first
   occurrence (the first one keeps its old BipValue) *)
Fixpoint add_to_first (u : stk) (acc : list stk) : option (list stk) :=
  match acc with
  | [] => None
  | a :: r => if same_key a u then Some (add_value a (s_value u) :: r)
              else option_map (cons a) (add_to_first u r)
  end.
Definition filter_step (acc : list stk) (u : stk) : list stk :=
  if s_value u <=? 0 then acc
  else match add_to_first u acc with Some acc' => acc' | None => acc ++ [u] end.
Definition filtered_updates (us : list stk) : list stk := fold_left filter_step us [].

(* model.go:214-216: sort.SliceStable by the BipValue the updates carry at that moment — the stale
   one (0 for every update created by a transaction: Delegate passes big.NewInt(0); whatever the
   genesis says for imported updates); the fresh bip values are computed after the sort (532-534) *)
Definition bip_gt (a b : stk) : bool := s_bip b <? s_bip a.
Definition ordered_updates (us : list stk) : list stk :=
  map rebip (sort_stable bip_gt (filtered_updates us)).

(* 538-552: the slot an update competes for: the first free slot (bip 0), else the first slot
   holding the minimum bip value *)
Fixpoint find_slot (slots : list (option stk)) (i : nat) (best : option (nat * Z)) : option (nat * Z) :=
  match slots with
  | [] => best
  | None :: _ => Some (i, 0)
  | Some s :: r =>
    find_slot r (S i) (match best with
                       | None => Some (i, s_bip s)
                       | Some (_, m) => if s_bip s <? m then Some (i, s_bip s) else best
                       end)
  end.

Fixpoint set_nth {A} (i : nat) (x : A) (l : list A) : list A :=
  match l, i with
  | [], _ => []
  | _ :: r, O => x :: r
  | y :: r, S j => y :: set_nth j x r
  end.

(* 554-564: smallest > update  ->  the update is kicked (stakeKick with its full Value);
   otherwise the occupant of the slot, if any, is kicked with its full Value and the update takes
   the slot.  With no slot at all Go indexes stakes[-1]. *)
Definition place_one (slots : list (option stk)) (u : stk) : outcome (list (option stk) * list stk) :=
  match find_slot slots 0 None with
  | None => if s_bip u <? 0 then Val (slots, [u]) else Panic 1701
  | Some (i, m) =>
    if s_bip u <? m then Val (slots, [u])
    else Val (set_nth i (Some u) slots, match nth i slots None with Some old => [old] | None => [] end)
  end.
Fixpoint place_all (slots : list (option stk)) (us : list stk) : outcome (list (option stk) * list stk) :=
  match us with
  | [] => Val (slots, [])
  | u :: r =>
    obind (place_one slots u) (fun p1 =>
    obind (place_all (fst p1) r) (fun p2 => Val (fst p2, snd p1 ++ snd p2)))
  end.

Definition total_bip (slots : list (option stk)) : Z := sum_Z (map s_bip (somes slots)).

Record recalc_result := { r_slots : list (option stk); r_kicked : list stk; r_total : Z }.

Definition recalc_slots (slots : list (option stk)) (updates : list stk) : outcome recalc_result :=
  let '(s2, us) := apply_existing (rebip_slots slots) updates in
  obind (place_all s2 (ordered_updates us)) (fun p =>
  Val {| r_slots := fst p; r_kicked := snd p; r_total := total_bip (fst p) |}).
End Recalc.

(* the concrete bip function of a recalculation: base coin (id 0) -> the value; otherwise the
   coinsCache pair (totalDelegatedBasecoin, totalDelegatedValue) of the coin *)
Fixpoint coin_rate (tbl : list (Z * Z * Z)) (coin : Z) : option (Z * Z) :=
  match tbl with
  | [] => None
  | (c, b, v) :: r => if c =? coin then Some (b, v) else coin_rate r coin
  end.
Definition bip_table (tbl : list (Z * Z * Z)) (coin value : Z) : Z :=
  if coin =? 0 then value
  else if value =? 0 then 0
  else match coin_rate tbl coin with
       | Some (b, v) => if v =? 0 then 0 else b * value / v
       | None => 0
       end.

(* ---- dispatcher (model 15), stateless ---------------------------------------------------------
   [1; count; n; (id, online, stake)*n; m; old_id*m]
        -> [0; k; id*k; power*k; r; removed_id*r]      (or [2; site] when Go would panic)
   [2; max; n; (id, is_validator, stake)*n]  -> [k; id*k]   (deleted, in deletion order)
   [3; cap; nc; (coin, B, V)*nc; ns; (owner, coin, value)*ns; nu; (owner, coin, value, stale_bip)*nu]
        -> [0; ns'; (owner, coin, value, bip)*ns'; nk; (owner, coin, value)*nk; total]
      the ns occupied slots are slots 0..ns-1 (the harness never creates holes), the other
      cap - ns slots are free *)
Fixpoint dec_cands (n : nat) (l : list Z) : list cand * list Z :=
  match n, l with
  | S n', i :: o :: s :: r =>
    let '(cs, rest) := dec_cands n' r in ({| c_id := i; c_online := negb (o =? 0); c_stake := s |} :: cs, rest)
  | _, _ => ([], l)
  end.
Fixpoint dec_rates (n : nat) (l : list Z) : list (Z * Z * Z) * list Z :=
  match n, l with
  | S n', c :: b :: v :: r => let '(cs, rest) := dec_rates n' r in ((c, b, v) :: cs, rest)
  | _, _ => ([], l)
  end.
Fixpoint dec_slots (n : nat) (l : list Z) : list stk * list Z :=
  match n, l with
  | S n', o :: c :: v :: r =>
    let '(cs, rest) := dec_slots n' r in ({| s_owner := o; s_coin := c; s_value := v; s_bip := 0 |} :: cs, rest)
  | _, _ => ([], l)
  end.
Fixpoint dec_updates (n : nat) (l : list Z) : list stk * list Z :=
  match n, l with
  | S n', o :: c :: v :: b :: r =>
    let '(cs, rest) := dec_updates n' r in ({| s_owner := o; s_coin := c; s_value := v; s_bip := b |} :: cs, rest)
  | _, _ => ([], l)
  end.

Definition run_ranking_op (op : list Z) : list Z :=
  match op with
  | 1 :: count :: n :: rest =>
    let '(cs, rest1) := dec_cands (Z.to_nat n) rest in
    let old := match rest1 with m :: ids => firstn (Z.to_nat m) ids | [] => [] end in
    let vs := new_validators cs (Z.to_nat count) in
    match powers (map c_stake vs) with
    | Val ps =>
      let r := removed_validators old (map c_id vs) in
      0 :: Z.of_nat (length vs) :: map c_id vs ++ ps ++ Z.of_nat (length r) :: r
    | Nil => [1]
    | Panic s => [2; s]
    end
  | 2 :: max :: n :: rest =>
    let '(cs, _) := dec_cands (Z.to_nat n) rest in
    let d := to_delete cs c_online (Z.to_nat max) in
    Z.of_nat (length d) :: map c_id d
  | 3 :: cap :: nc :: rest =>
    let '(tbl, rest1) := dec_rates (Z.to_nat nc) rest in
    match rest1 with
    | ns :: rest2 =>
      let '(sl, rest3) := dec_slots (Z.to_nat ns) rest2 in
      match rest3 with
      | nu :: rest4 =>
        let '(us, _) := dec_updates (Z.to_nat nu) rest4 in
        if (Z.to_nat cap <? length sl)%nat then [-1] else
        let slots := map Some sl ++ repeat None (Z.to_nat cap - length sl) in
        match recalc_slots (bip_table tbl) slots us with
        | Val r =>
          let ss := somes (r_slots r) in
          0 :: Z.of_nat (length ss) :: flat_map (fun s => [s_owner s; s_coin s; s_value s; s_bip s]) ss
            ++ Z.of_nat (length (r_kicked r)) :: flat_map (fun s => [s_owner s; s_coin s; s_value s]) (r_kicked r)
            ++ [r_total r]
        | Nil => [1]
        | Panic s => [2; s]
        end
      | [] => [-1]
      end
    | [] => [-1]
    end
  | _ => [-1]
  end.
