(* Float.v — the part of Go's math/big.Float semantics the node relies on: binary
   floating point with p significant bits, unbounded exponent, round to nearest even.
   A value is (m, e) meaning m * 2^e with m a signed integer.  Executable, no proofs. *)
From Minter Require Export Base.
Open Scope Z_scope.

Definition fl := (Z * Z)%type.

Definition bitlen (n : Z) : Z := if n =? 0 then 0 else Z.log2 (Z.abs n) + 1.

(* round the non-negative integer n*2^e to p significant bits *)
Definition rnd_pos (p n e : Z) : fl :=
  let b := bitlen n in
  if b <=? p then (n, e) else
  let sh := b - p in
  let q := Z.shiftr n sh in
  let r := n - Z.shiftl q sh in
  let half := Z.shiftl 1 (sh - 1) in
  let q' := if (half <? r) || ((r =? half) && Z.odd q) then q + 1 else q in
  (q', e + sh).

Definition rnd (p : Z) (x : fl) : fl :=
  let '(m, e) := x in
  if m =? 0 then (0, 0) else
  let '(q, e') := rnd_pos p (Z.abs m) e in (Z.sgn m * q, e').

(* correctly rounded n/d (n, d > 0) to p bits: first a quotient with p+2 or more bits and a
   sticky bit, then one rounding *)
Definition quo_pos (p n d : Z) : fl :=
  let k := Z.max 0 (p + 2 - (bitlen n - bitlen d)) in   (* scale so that the quotient has > p+1 bits *)
  let nn := Z.shiftl n k in
  let q := nn / d in
  let sticky := if nn mod d =? 0 then 0 else 1 in
  rnd_pos p (2 * q + sticky) (- k - 1).

Definition fquo (p : Z) (x y : fl) : fl :=
  let '(m1, e1) := x in let '(m2, e2) := y in
  if m1 =? 0 then (0, 0) else
  let '(q, e) := quo_pos p (Z.abs m1) (Z.abs m2) in
  (Z.sgn m1 * Z.sgn m2 * q, e + e1 - e2).

Definition fmul (p : Z) (x y : fl) : fl :=
  rnd p (fst x * fst y, snd x + snd y).

Definition fadd (p : Z) (x y : fl) : fl :=
  let '(m1, e1) := x in let '(m2, e2) := y in
  let e := Z.min e1 e2 in
  rnd p (Z.shiftl m1 (e1 - e) + Z.shiftl m2 (e2 - e), e).

Definition fneg (x : fl) : fl := (- fst x, snd x).
Definition fsub (p : Z) (x y : fl) : fl := fadd p x (fneg y).

(* correctly rounded square root of a positive float *)
Definition fsqrt (p : Z) (x : fl) : fl :=
  let '(m, e) := x in
  if m <=? 0 then (0, 0) else
  let k0 := Z.max 0 (2 * p + 4 - bitlen m) in
  let k := if Z.even (e - k0) then k0 else k0 + 1 in
  let mm := Z.shiftl m k in
  let q := Z.sqrt mm in
  let sticky := if q * q =? mm then 0 else 1 in
  rnd_pos p (2 * q + sticky) ((e - k) / 2 - 1).

(* Float.Int: truncation toward zero *)
Definition fint (x : fl) : Z :=
  let '(m, e) := x in
  if 0 <=? e then Z.shiftl m e else Z.sgn m * Z.shiftr (Z.abs m) (- e).

Definition of_int (p : Z) (z : Z) : fl := rnd p (z, 0).

(* Float.SetRat on a zero-precision receiver: p = max(bitlen num, bitlen den, 64) of the
   normalised fraction *)
Definition of_rat_auto (n d : Z) : fl :=
  if n =? 0 then (0, 0) else
  let g := Z.gcd n d in
  let n' := n / g in let d' := d / g in
  let p := Z.max (Z.max (bitlen n') (bitlen d')) 64 in
  let '(q, e) := quo_pos p (Z.abs n') d' in (Z.sgn n' * q, e).

(* Float.SetRat on a receiver of precision p (d > 0) *)
Definition of_rat (p n d : Z) : fl :=
  if n =? 0 then (0, 0) else
  let '(q, e) := quo_pos p (Z.abs n) d in (Z.sgn n * q, e).

(* exact comparison: -1, 0, 1 *)
Definition fcmp (x y : fl) : Z :=
  let '(m1, e1) := x in let '(m2, e2) := y in
  let e := Z.min e1 e2 in
  let a := Z.shiftl m1 (e1 - e) in let b := Z.shiftl m2 (e2 - e) in
  if a <? b then -1 else if b <? a then 1 else 0.
