(* Persist.v — the appdb layer of coreV2/appdb/appdb.go: on-disk records, in-memory caches
   with their dirty flags, the getters/setters/Save* functions transliterated, the commit
   sequence of Blockchain.Commit, restart (= the caches are lost).  Values are abstract
   integers / integer lists.  Executable, no proofs. *)
From Minter Require Export Base.
Open Scope Z_scope.

Record disk := {
  d_height : option Z; d_hash : option Z; d_start : option Z;
  d_vals : option (list Z); d_times : option (list Z); d_versions : option (list (Z * Z));
  d_emission : option Z; d_price : option (list Z) }.

Record mem := {
  m_height : Z; m_start : Z; m_vals : option (list Z); m_times : list Z;
  m_versions : list (Z * Z); m_dirtyV : bool;
  m_emission : option Z; m_dirtyE : bool;
  m_price : option (list Z); m_dirtyP : bool }.

Definition empty_mem : mem :=
  {| m_height := 0; m_start := 0; m_vals := None; m_times := []; m_versions := []; m_dirtyV := false;
     m_emission := None; m_dirtyE := false; m_price := None; m_dirtyP := false |}.

Definition empty_disk : disk :=
  {| d_height := None; d_hash := None; d_start := None; d_vals := None; d_times := None;
     d_versions := None; d_emission := None; d_price := None |}.

Definition st := (disk * mem)%type.

Definition odef {A} (d : A) (o : option A) : A := match o with Some x => x | None => d end.

(* ---- getters: what the node observes ("logical view") -------------------------------- *)
Definition get_height (s : st) : Z :=
  let '(d, m) := s in if m_height m =? 0 then odef 0 (d_height d) else m_height m.
Definition get_start (s : st) : Z :=
  let '(d, m) := s in if m_start m =? 0 then odef 0 (d_start d) else m_start m.
Definition get_hash (s : st) : option Z := d_hash (fst s).
Definition get_vals (s : st) : list Z :=
  let '(d, m) := s in match m_vals m with Some v => v | None => odef [] (d_vals d) end.
Definition get_times (s : st) : list Z :=
  let '(d, m) := s in match m_times m with [] => odef [] (d_times d) | l => l end.
Definition get_versions (s : st) : list (Z * Z) :=
  let '(d, m) := s in match m_versions m with [] => odef [] (d_versions d) | l => l end.
Definition get_emission (s : st) : option Z :=
  let '(d, m) := s in match m_emission m with Some e => Some e | None => d_emission d end.
Definition get_price (s : st) : option (list Z) :=
  let '(d, m) := s in match m_price m with Some p => Some p | None => d_price d end.

Record view := {
  v_height : Z; v_start : Z; v_hash : option Z; v_vals : list Z; v_times : list Z;
  v_versions : list (Z * Z); v_emission : option Z; v_price : option (list Z) }.

Definition view_of (s : st) : view :=
  {| v_height := get_height s; v_start := get_start s; v_hash := get_hash s; v_vals := get_vals s;
     v_times := get_times s; v_versions := get_versions s; v_emission := get_emission s;
     v_price := get_price s |}.

(* ---- setters ---------------------------------------------------------------------------- *)
Definition last4 (l : list Z) : list Z := skipn (length l - 4) l.

Inductive setop :=
| SetVals (v : list Z)
| AddTime (t : Z)
| AddVersion (name height : Z)
| SetEmission (e : Z)
| SetPrice (p : list Z).

Definition upd_mem (m : mem) vals times versions dV emission dE price dP : mem :=
  {| m_height := m_height m; m_start := m_start m; m_vals := vals; m_times := times;
     m_versions := versions; m_dirtyV := dV; m_emission := emission; m_dirtyE := dE;
     m_price := price; m_dirtyP := dP |}.

Definition apply_set (s : st) (o : setop) : st :=
  let '(d, m) := s in
  match o with
  | SetVals v => (d, upd_mem m (Some v) (m_times m) (m_versions m) (m_dirtyV m) (m_emission m) (m_dirtyE m) (m_price m) (m_dirtyP m))
  | AddTime t =>
    (* AddBlocksTime: load from disk when the cache is empty, append, keep the last 4 *)
    let cur := get_times s in
    (d, upd_mem m (m_vals m) (last4 (cur ++ [t])) (m_versions m) (m_dirtyV m) (m_emission m) (m_dirtyE m) (m_price m) (m_dirtyP m))
  | AddVersion n h =>
    let cur := get_versions s in
    (d, upd_mem m (m_vals m) (m_times m) (cur ++ [(n, h)]) true (m_emission m) (m_dirtyE m) (m_price m) (m_dirtyP m))
  | SetEmission e =>
    (d, upd_mem m (m_vals m) (m_times m) (m_versions m) (m_dirtyV m) (Some e) true (m_price m) (m_dirtyP m))
  | SetPrice p =>
    (d, upd_mem m (m_vals m) (m_times m) (m_versions m) (m_dirtyV m) (m_emission m) (m_dirtyE m) (Some p) true)
  end.

(* ---- Blockchain.Commit: the appdb writes in code order -------------------------------------- *)
(* [fixed] selects the guard of SaveEmission: true = isDirtyEmission (current tree, after the
   fix), false = isDirtyPrice (the tree before the fix) *)
Definition commit (fixed : bool) (s : st) (h hash : Z) : st :=
  let '(d, m) := s in
  (* SetLastBlockHash; SetLastHeight *)
  let d := {| d_height := Some h; d_hash := Some hash; d_start := d_start d; d_vals := d_vals d;
              d_times := d_times d; d_versions := d_versions d; d_emission := d_emission d; d_price := d_price d |} in
  let m := {| m_height := h; m_start := m_start m; m_vals := m_vals m; m_times := m_times m;
              m_versions := m_versions m; m_dirtyV := m_dirtyV m; m_emission := m_emission m; m_dirtyE := m_dirtyE m;
              m_price := m_price m; m_dirtyP := m_dirtyP m |} in
  (* FlushValidators *)
  let '(dv, mv) := match m_vals m with Some v => (Some v, None) | None => (d_vals d, None) end in
  (* SaveBlocksTime (unconditional) *)
  let dt := Some (m_times m) in
  (* SaveVersions *)
  let '(dver, dirtyV) := if m_dirtyV m then (Some (m_versions m), false) else (d_versions d, false) in
  (* SaveEmission *)
  let guard := if fixed then m_dirtyE m else m_dirtyP m in
  let '(de, dirtyE) := if guard then (match m_emission m with Some e => Some e | None => d_emission d end,
                                      if fixed then false else m_dirtyE m)
                       else (d_emission d, m_dirtyE m) in
  (* SavePrice (the flag is never cleared) *)
  let dp := if m_dirtyP m then (match m_price m with Some p => Some p | None => d_price d end) else d_price d in
  ({| d_height := d_height d; d_hash := d_hash d; d_start := d_start d; d_vals := dv; d_times := dt;
      d_versions := dver; d_emission := de; d_price := dp |},
   {| m_height := m_height m; m_start := m_start m; m_vals := mv; m_times := m_times m;
      m_versions := m_versions m; m_dirtyV := dirtyV; m_emission := m_emission m; m_dirtyE := dirtyE;
      m_price := m_price m; m_dirtyP := m_dirtyP m |}).

Definition restart (s : st) : st := (fst s, empty_mem).

(* ---- blocks ------------------------------------------------------------------------------------ *)
(* A block is whatever the node does with the appdb during BeginBlock..EndBlock, as a list
   of steps each computed from the current logical view (block execution reads the appdb
   only through the getters), preceded by AddBlocksTime (BeginBlock always calls it), and
   followed by Commit with the app hash produced for that block. *)
Record block := { b_time : Z; b_steps : list (view -> option setop); b_hash : view -> Z }.

Fixpoint run_steps (s : st) (steps : list (view -> option setop)) : st :=
  match steps with
  | [] => s
  | f :: rest => run_steps (match f (view_of s) with Some o => apply_set s o | None => s end) rest
  end.

Definition run_block (fixed : bool) (s : st) (b : block) : st :=
  let s1 := apply_set s (AddTime (b_time b)) in
  let s2 := run_steps s1 (b_steps b) in
  commit fixed s2 (get_height s2 + 1) (b_hash b (view_of s2)).

(* a history: blocks, each followed by k restarts *)
Fixpoint iter_restart (k : nat) (s : st) : st :=
  match k with O => s | S k' => iter_restart k' (restart s) end.

Fixpoint run_hist (fixed : bool) (s : st) (h : list (block * nat)) : st * list view :=
  match h with
  | [] => (s, [])
  | (b, k) :: rest =>
    let s' := iter_restart k (run_block fixed s b) in
    let '(sf, vs) := run_hist fixed s' rest in (sf, view_of s' :: vs)
  end.

Definition no_restarts (h : list (block * nat)) : list (block * nat) := map (fun x => (fst x, O)) h.
