(* Snapshot.v — state-sync snapshots (C29): AppDB.Snapshot / AppDB.Restore of
   coreV2/appdb/snapshot.go on the three-store model of Crash.v.  Executable, no proofs.

   What is modelled (what the code DOES):
   * Snapshot(height): refused unless height is the appdb's last height and non-zero; the appdb
     records are read FROM DISK (appDB.db.Get — PersistGen.snapshot_reads_disk) in the fixed order
     PersistGen.snapshot_records, a record whose stored value is empty is skipped (a missing record;
     the emission record of value 0, whose big.Int bytes are empty); then the tree is exported at
     that version (the version must exist).
   * Restore on a node: every record item is written back with db.Set if its name is one of
     PersistGen.restore_records (otherwise the restore fails); the "state" item creates the tree
     with the stored start height as initial version and imports the version.  No cache is filled
     except the start height; the state is initialised lazily by the next BeginBlock (initState).
   * a history with process restarts between blocks (the disk stays, every cache is lost).
   Abstractions: the chunking / compression / protobuf framing of the cosmos-sdk snapshot store and
   the IAVL export / import are the identity on (version, content). *)
From Minter Require Export Crash.
From Minter Require Import PersistGen.
Open Scope Z_scope.

Inductive sitem :=
| SApp (a : awrite)        (* an appdb record other than the start height *)
| SStart (h : Z)           (* the startHeight record *)
| STree (ver content : Z). (* the "state" item followed by the exported nodes *)

Definition snap_record (code : Z) (d : disk) : list sitem :=
  match code with
  | 30 => match d_hash d with Some x => [SApp (AHash x)] | None => [] end
  | 31 => match d_height d with Some h => [SApp (AHeight h)] | None => [] end
  | 32 => match d_vals d with Some l => [SApp (AVals l)] | None => [] end
  | 33 => match d_times d with Some l => [SApp (ATimes l)] | None => [] end
  | 34 => match d_versions d with Some l => [SApp (AVersions l)] | None => [] end
  | 35 => match d_emission d with Some e => if e =? 0 then [] else [SApp (AEmission e)] | None => [] end
  | 36 => match d_price d with Some p => [SApp (APrice p)] | None => [] end
  | 37 => match d_start d with Some h => [SStart h] | None => [] end
  | _ => []
  end.

Definition snapshot (s : cst) (h : Z) : outcome (list sitem) :=
  if negb (h =? get_height (app_of s)) then Nil         (* "cannot snapshot future height" *)
  else if h =? 0 then Nil                               (* "cannot snapshot height 0" *)
  else match aget h (cd_tree (fst s)) with
       | Some c => Val (flat_map (fun code => snap_record code (cd_app (fst s))) snapshot_records ++ [STree h c])
       | None => Nil                                    (* the export fails *)
       end.

Definition item_code (it : sitem) : Z :=
  match it with
  | SApp (AHash _) => 30 | SApp (AHeight _) => 31 | SApp (AVals _) => 32 | SApp (ATimes _) => 33
  | SApp (AVersions _) => 34 | SApp (AEmission _) => 35 | SApp (APrice _) => 36 | SStart _ => 37
  | STree _ _ => 0
  end.

Definition set_start (d : disk) (h : Z) : disk :=
  {| d_height := d_height d; d_hash := d_hash d; d_start := Some h; d_vals := d_vals d; d_times := d_times d;
     d_versions := d_versions d; d_emission := d_emission d; d_price := d_price d |}.

Definition cache_start (m : mem) (h : Z) : mem :=
  {| m_height := m_height m; m_start := h; m_vals := m_vals m; m_times := m_times m; m_versions := m_versions m;
     m_dirtyV := m_dirtyV m; m_emission := m_emission m; m_dirtyE := m_dirtyE m; m_price := m_price m; m_dirtyP := m_dirtyP m |}.

Definition restore_item (s : cst) (it : sitem) : outcome cst :=
  let '(d, m) := s in
  match it with
  | STree ver c =>
    (* tree.NewMutableTree(0, stateDB, _, appDB.GetStartHeight()): the getter caches the start height *)
    let start := get_start (cd_app d, cm_app m) in
    Val ({| cd_app := cd_app d; cd_tree := aset ver c (cd_tree d); cd_ev := cd_ev d |},
         {| cm_app := cache_start (cm_app m) start; cm_tree := cm_tree m; cm_ev := cm_ev m |})
  | SApp a =>
    if existsb (Z.eqb (item_code it)) restore_records
    then Val ({| cd_app := apply_awrite (cd_app d) a; cd_tree := cd_tree d; cd_ev := cd_ev d |}, m)
    else Nil                                             (* "unknown store name" *)
  | SStart h =>
    if existsb (Z.eqb 37) restore_records
    then Val ({| cd_app := set_start (cd_app d) h; cd_tree := cd_tree d; cd_ev := cd_ev d |}, m)
    else Nil
  end.

Fixpoint restore_items (s : cst) (items : list sitem) : outcome cst :=
  match items with
  | [] => Val s
  | it :: r => obind (restore_item s it) (fun s' => restore_items s' r)
  end.

(* a node that never ran: empty databases, empty caches *)
Definition fresh_cst : cst :=
  ({| cd_app := empty_disk; cd_tree := []; cd_ev := empty_edisk |}, empty_cmem).

Definition restore (items : list sitem) : outcome cst := restore_items fresh_cst items.

(* ---- histories with process restarts between blocks ------------------------------------------- *)
Definition crestart (s : cst) : cst := (fst s, empty_cmem).
Fixpoint iter_crestart (k : nat) (s : cst) : cst :=
  match k with O => s | S k' => iter_crestart k' (crestart s) end.

Fixpoint run_hist_c (keep : Z) (s : cst) (h : list (cblock * nat)) : outcome (cst * list obs) :=
  match h with
  | [] => Val (s, [])
  | (b, k) :: rest =>
    obind (run_block keep false s b) (fun r =>
    obind (run_hist_c keep (iter_crestart k (fst (fst r))) rest) (fun r' =>
      Val (fst r', snd (fst r) :: snd r')))
  end.
