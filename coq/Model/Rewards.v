(* Rewards.v — reward accrual of Blockchain.EndBlock and the payout of
   Validators.PayRewardsV5Fix, transliterated (all integer arithmetic, floor division).
   Executable, no proofs. *)
From Minter Require Export Base Consts.
Open Scope Z_scope.

(* ---- accrual (EndBlock) ------------------------------------------------------------ *)
Record val := { vid : Z; vstake : Z; vaccum : Z; vpresent : bool; vdrop : bool }.

Definition set_accum (v : val) (a : Z) : val :=
  {| vid := vid v; vstake := vstake v; vaccum := a; vpresent := vpresent v; vdrop := vdrop v |}.

Definition counts (v : val) : bool := negb (vdrop v) && vpresent v.

(* step 1: accumulated rewards of dropped validators go back to the pool *)
Definition dropped_back (vals : list val) : list val * Z :=
  (map (fun v => if vdrop v then set_accum v 0 else v) vals,
   sum_Z (map (fun v => if vdrop v then vaccum v else 0) vals)).

Definition total_power (vals : list val) : Z :=
  let t := sum_Z (map (fun v => if counts v then vstake v else 0) vals) in
  if t =? 0 then 1 else t.

Definition share (rwt total : Z) (v : val) : Z := if counts v then rwt * vstake v / total else 0.

(* returns (validators after accrual, remainder added to total slashed) *)
Definition accrue (reward pool : Z) (vals : list val) : list val * Z :=
  let '(vals1, back) := dropped_back vals in
  let rwt := reward + pool + back in
  let total := total_power vals1 in
  let vals2 := map (fun v => set_accum v (vaccum v + share rwt total v)) vals1 in
  (vals2, rwt - sum_Z (map (share rwt total) vals1)).

(* ---- payout (PayRewardsV5Fix) -------------------------------------------------------- *)
Record stake := { s_owner : Z; s_coin : Z; s_bip : Z; s_x3 : bool }.

(* an entry of the payout: role 1 validator, 2 delegator, 3 DAO, 4 developers *)
Record pay := { p_role : Z; p_owner : Z; p_coin : Z; p_amount : Z }.

Definition dao_pct : Z := dao_commission.
Definition dev_pct : Z := developers_commission.

Record pstate := { ps_rem : Z; ps_dao : Z; ps_dev : Z; ps_more : Z; ps_pays : list pay }.

(* one delegator stake; totalAccum = sum of all validators' accumulated rewards, totalStakes =
   sum of validators' total bip stakes (only used when totalAccum <= 0) *)
Definition pay_stake (calcReward safeReward period totalAccum totalStakes : Z)
           (accum vtotal commission totalReward : Z) (st : pstate) (s : stake) : outcome pstate :=
  if s_bip s =? 0 then Val st else
  obind (ediv (totalReward * s_bip s) vtotal) (fun reward =>
  let rem := ps_rem st - reward in
  if negb (s_x3 s) then
    if reward <? 1 then Val {| ps_rem := rem; ps_dao := ps_dao st; ps_dev := ps_dev st; ps_more := ps_more st; ps_pays := ps_pays st |}
    else Val {| ps_rem := rem; ps_dao := ps_dao st; ps_dev := ps_dev st; ps_more := ps_more st;
                ps_pays := ps_pays st ++ [{| p_role := 2; p_owner := s_owner s; p_coin := s_coin s; p_amount := reward |}] |}
  else
    if (0 <? totalAccum) && (0 <? accum) then
      obind (ediv (safeReward * period * s_bip s * 3 * accum) vtotal) (fun x =>
      obind (ediv x totalAccum) (fun safe0 =>
      let taxDAOx3 := safe0 * dev_pct / 100 in
      let taxDEVx3 := safe0 * dao_pct / 100 in
      let safe1 := safe0 - taxDAOx3 - taxDEVx3 in
      let safe2 := safe1 - safe1 * commission / 100 in
      obind (ediv (calcReward * period * s_bip s * accum) vtotal) (fun y =>
      obind (ediv y totalAccum) (fun calc0 =>
      let taxDAO := calc0 * dev_pct / 100 in
      let taxDEV := calc0 * dao_pct / 100 in
      let calc1 := calc0 - taxDAO - taxDEV in
      let calc2 := calc1 - calc1 * (dev_pct + dao_pct) / 100 in
      let calc3 := calc2 - calc2 * commission / 100 in
      let diffDAO := taxDAOx3 - taxDAO in
      let diffDEV := taxDAOx3 - taxDEV in
      let fee := reward - calc3 in
      let sv := safe2 + fee in
      let st1 := {| ps_rem := rem; ps_dao := ps_dao st + diffDAO; ps_dev := ps_dev st + diffDEV;
                    ps_more := ps_more st + diffDAO + diffDEV; ps_pays := ps_pays st |} in
      if sv <? 1 then Val st1 else
      Val {| ps_rem := ps_rem st1; ps_dao := ps_dao st1; ps_dev := ps_dev st1; ps_more := ps_more st1 + (sv - reward);
             ps_pays := ps_pays st1 ++ [{| p_role := 2; p_owner := s_owner s; p_coin := s_coin s; p_amount := sv |}] |}))))
    else if negb (0 <? totalAccum) && negb (0 <? accum) then
      obind (ediv (safeReward * period * s_bip s * 3) totalStakes) (fun safe0 =>
      let taxDAO := safe0 * dev_pct / 100 in
      let taxDEV := safe0 * dao_pct / 100 in
      let safe1 := safe0 - taxDAO - taxDEV in
      let safe2 := safe1 - safe1 * commission / 100 in
      let st1 := {| ps_rem := rem; ps_dao := ps_dao st + taxDAO; ps_dev := ps_dev st + taxDEV;
                    ps_more := ps_more st + taxDAO + taxDEV; ps_pays := ps_pays st |} in
      if safe2 <? 1 then Val st1 else
      Val {| ps_rem := ps_rem st1; ps_dao := ps_dao st1; ps_dev := ps_dev st1; ps_more := ps_more st1 + (safe2 - reward);
             ps_pays := ps_pays st1 ++ [{| p_role := 2; p_owner := s_owner s; p_coin := s_coin s; p_amount := safe2 |}] |})
    else
      (* x3 stake but neither branch applies: treated like a plain stake *)
      let st1 := {| ps_rem := rem; ps_dao := ps_dao st; ps_dev := ps_dev st; ps_more := ps_more st; ps_pays := ps_pays st |} in
      if reward <? 1 then Val st1 else
      Val {| ps_rem := rem; ps_dao := ps_dao st; ps_dev := ps_dev st; ps_more := ps_more st + (reward - reward);
             ps_pays := ps_pays st ++ [{| p_role := 2; p_owner := s_owner s; p_coin := s_coin s; p_amount := reward |}] |}).

Fixpoint pay_stakes calcReward safeReward period totalAccum totalStakes accum vtotal commission totalReward
         (st : pstate) (ss : list stake) : outcome pstate :=
  match ss with
  | [] => Val st
  | s :: rest =>
    obind (pay_stake calcReward safeReward period totalAccum totalStakes accum vtotal commission totalReward st s)
          (fun st' => pay_stakes calcReward safeReward period totalAccum totalStakes accum vtotal commission totalReward st' rest)
  end.

Record payout := { po_pays : list pay; po_more : Z; po_slashed : Z }.

(* one validator: accum = accumulated reward, vtotal = validator's total bip stake,
   commission = candidate commission (percent), reward_addr = candidate reward address *)
Definition pay_validator (calcReward safeReward period totalAccum totalStakes : Z)
           (accum vtotal commission reward_addr : Z) (ss : list stake) : outcome payout :=
  let dao0 := accum * dao_pct / 100 in
  let dev0 := accum * dev_pct / 100 in
  let tr := accum - dev0 - dao0 in
  let vr := tr * commission / 100 in
  let tr2 := tr - vr in
  let st0 := {| ps_rem := accum - dao0 - dev0 - vr; ps_dao := dao0; ps_dev := dev0; ps_more := 0;
                ps_pays := [{| p_role := 1; p_owner := reward_addr; p_coin := 0; p_amount := vr |}] |} in
  obind (pay_stakes calcReward safeReward period totalAccum totalStakes accum vtotal commission tr2 st0 ss) (fun st =>
  if ps_rem st <? 0 then Panic 700 else
  Val {| po_pays := ps_pays st ++ [{| p_role := 3; p_owner := 0; p_coin := 0; p_amount := ps_dao st |};
                                   {| p_role := 4; p_owner := 0; p_coin := 0; p_amount := ps_dev st |}];
         po_more := ps_more st; po_slashed := ps_rem st |}).

Definition paid_total (l : list pay) : Z := sum_Z (map p_amount l).
