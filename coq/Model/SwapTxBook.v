(* SwapTxBook.v — C15 with limit orders, single hop: SellSwapPool [gas coin; base coin] paid in
   the gas coin through the pool {gas coin, base coin} that carries an order book (the orders a
   seller of the gas coin meets).  The amount the CHECK phase compares with MinimumValueToBuy
   (commission swap simulated by AddLastSwapStepWithOrders(commission, commissionInBaseCoin,
   false)) and the amount the DELIVER phase credits
   (PairSellWithOrders of the commission, then of the value).  Built on Model/Orders.v with the
   executable float instances.  Executable, no proofs. *)
From Minter Require Import Base Consts Pool Float Orders SwapTx.
From Coq Require Import ZArith List Bool.
Import ListNotations.
Open Scope Z_scope.

(* CalculateCommission through the pool: CalculateSellForBuyWithOrders(price) *)
Definition book_commission (dir : bool) (r0 r1 : Z) (book : list order) (price : Z) : outcome Z :=
  match sfb_loop_x r0 r1 price book with
  | Val (i, _) => Val (add0999 i)
  | Nil => Nil | Panic s => Panic s
  end.

(* the pair the check phase continues with: AddLastSwapStepWithOrders(commission,
   commissionInBaseCoin, false): the fills of the sale of the commission less com1000, reserves by
   CalcDiffPool on that net amount *)
Definition book_simulate (dir : bool) (r0 r1 : Z) (book : list order) (commission : Z) : outcome (Z * Z * list order * Z) :=
  match bfs_loop_x r0 r1 (sub1000 commission) book with       (* commissionInBaseCoin and the fills *)
  | Val (cib, fills) =>
    let '(c0, c1, a0, a1) := calc_diff_pool (sub1000 commission) cib fills in
    Val (r0 + a0 + c0, r1 - a1 + c1, fst (apply_fills dir fills book), cib)
  | Nil => Nil | Panic s => Panic s
  end.

(* (amount the check phase compares with the minimum, amount the deliver phase credits) *)
Definition sell_single_book (dir : bool) (r0 r1 : Z) (book : list order) (price value : Z) : outcome (Z * Z) :=
  obind (book_commission dir r0 r1 book price) (fun commission =>
  obind (book_simulate dir r0 r1 book commission) (fun sim =>
  let '(s0, s1, sbook, _) := sim in
  match bfs_loop_x s0 s1 (sub1000 value) sbook with
  | Val (simulated, _) =>
    obind (sell_with_orders_x dir r0 r1 book commission 0) (fun t1 =>
    obind (sell_with_orders_x dir (t_r0 t1) (t_r1 t1) (t_book t1) value 0) (fun t2 =>
    Val (simulated, t_out t2)))
  | Nil => Nil | Panic s => Panic s
  end)).
