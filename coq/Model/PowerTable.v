(* PowerTable.v — the per-block voting-power table of coreV2/minter/minter.go (calculatePowers) and the vote
   sums the governance decisions take from it (C20: "of the voting power of the validators present in that block").
   A validator has status 1 (signed the last block), 2 (listed in the commit info, did not sign) or 0 (not in the
   commit info at all: Tendermint's set lags the application's by two blocks). *)
From Minter Require Export Base.
From Coq Require Import ZArith List Bool.
Import ListNotations.
Open Scope Z_scope.

Record vrec := { v_key : Z; v_stake : Z; v_status : Z; v_drop : bool }.

Definition in_table (v : vrec) : bool := (v_status v =? 1) && negb (v_drop v).

Definition table (l : list vrec) : list vrec := filter in_table l.

Definition raw_total (l : list vrec) : Z := sum_Z (map v_stake (table l)).
(* calculatePowers never leaves a zero total (division guard) *)
Definition total_power (l : list vrec) : Z := if raw_total l =? 0 then 1 else raw_total l.

(* power of the validators of the table whose key is among the voters *)
Definition voted_power (l : list vrec) (voters : list Z) : Z :=
  sum_Z (map v_stake (filter (fun v => existsb (Z.eqb (v_key v)) voters) (table l))).

(* integer-list interface (dispatch model 23): [n; (key stake status drop)*n] -> [size of the table; total power] *)
Fixpoint parse_vrecs (n : nat) (l : list Z) : list vrec :=
  match n, l with
  | S n', k :: s :: st :: d :: r => {| v_key := k; v_stake := s; v_status := st; v_drop := d =? 1 |} :: parse_vrecs n' r
  | _, _ => []
  end.

Definition run_powertable_op (l : list Z) : list Z :=
  match l with
  | n :: r => let vs := parse_vrecs (Z.to_nat n) r in [Z.of_nat (length (table vs)); total_power vs]
  | [] => [-1]
  end.
