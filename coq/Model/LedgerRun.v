(* LedgerRun.v — integer-list interface of the ledger model for the correspondence check
   (model 7 of Dispatch.v): decoding of operations, observable outputs. *)
From Minter Require Import Base Ledger.
From Coq Require Import ZArith List Bool.
Import ListNotations.
Open Scope Z_scope.

Definition zb (z : Z) : bool := negb (z =? 0).
Definition bz (b : bool) : Z := if b then 1 else 0.

Fixpoint take_triples (n : nat) (l : list Z) : list (Z * Z * Z) * list Z :=
  match n, l with
  | S n', a :: b :: c :: r => let '(ts, rest) := take_triples n' r in ((a, b, c) :: ts, rest)
  | _, _ => ([], l)
  end.

Fixpoint take_signers (n : nat) (l : list Z) : list (option Z) * list Z :=
  match n, l with
  | S n', ok :: a :: r => let '(ss, rest) := take_signers n' r in ((if zb ok then Some a else None) :: ss, rest)
  | _, _ => ([], l)
  end.

Definition dec_data (l : list Z) : option txdata :=
  match l with
  | [1; coin; to; value] => Some (Send coin to value)
  | 2 :: n :: r => let '(items, rest) := take_triples (Z.to_nat n) r in
                   match rest with [] => Some (Multisend items) | _ => None end
  | [3; sym; symlen; symok; namelen; init; maxs; mi; bu] => Some (CreateToken sym symlen (zb symok) namelen init maxs (zb mi) (zb bu))
  | [4; sym; namelen; init; maxs; mi; bu] => Some (RecreateToken sym namelen init maxs (zb mi) (zb bu))
  | [5; coin; value] => Some (MintToken coin value)
  | [6; coin; value] => Some (BurnToken coin value)
  | [7; due; coin; value] => Some (Lock due coin value)
  | [8; rawlen; decodable; chain_ok; nonce_len; issuer_ok; issuer; coin; gascoin; value; due; id; lock_state] =>
    Some (RedeemCheck rawlen (zb decodable) (zb chain_ok) nonce_len (zb issuer_ok) issuer coin gascoin value due id lock_state)
  | 9 :: thr :: n :: r =>
    let ws := firstn (Z.to_nat n) r in
    match skipn (Z.to_nat n) r with
    | m :: r2 => let ads := firstn (Z.to_nat m) r2 in
                 match skipn (Z.to_nat m) r2 with [ma] => Some (CreateMultisig thr ws ads ma) | _ => None end
    | _ => None
    end
  | [10; sym; newowner] => Some (EditCoinOwner sym newowner)
  | _ => None
  end.

Definition dec_tx (l : list Z) : option tx :=
  match l with
  | nonce :: chain_ok :: gp :: gc :: plen :: slen :: 1 :: sender :: r =>
    match dec_data r with
    | Some d => Some {| t_nonce := nonce; t_chain_ok := zb chain_ok; t_gas_price := gp; t_gas_coin := gc; t_payload_len := plen;
                        t_service_len := slen; t_sig := SigSingle sender; t_data := d |}
    | None => None
    end
  | nonce :: chain_ok :: gp :: gc :: plen :: slen :: 2 :: msig :: n :: r =>
    let '(ss, rest) := take_signers (Z.to_nat n) r in
    match dec_data rest with
    | Some d => Some {| t_nonce := nonce; t_chain_ok := zb chain_ok; t_gas_price := gp; t_gas_coin := gc; t_payload_len := plen;
                        t_service_len := slen; t_sig := SigMulti msig ss; t_data := d |}
    | None => None
    end
  | _ => None
  end.

Definition dec_prices (l : list Z) : option prices :=
  match l with
  | [a; b; c; d; e; f; g; h; i; j; k; m; n; o; p; q; r; t; pc; rc; rb] =>
    Some {| p_payload_byte := a; p_send := b; p_multisend_base := c; p_multisend_delta := d;
            p_ticker3 := e; p_ticker4 := f; p_ticker5 := g; p_ticker6 := h; p_ticker7 := i;
            p_create_token := j; p_recreate_token := k; p_mint := m; p_burn := n; p_lock := o;
            p_redeem := p; p_create_multisig := q; p_edit_owner := r; p_failed := t; p_pcoin := pc; p_prc := rc; p_prb := rb |}
  | _ => None
  end.

Definition zero_prices : prices :=
  {| p_payload_byte := 0; p_send := 0; p_multisend_base := 0; p_multisend_delta := 0; p_ticker3 := 0; p_ticker4 := 0;
     p_ticker5 := 0; p_ticker6 := 0; p_ticker7 := 0; p_create_token := 0; p_recreate_token := 0; p_mint := 0; p_burn := 0;
     p_lock := 0; p_redeem := 0; p_create_multisig := 0; p_edit_owner := 0; p_failed := 0; p_pcoin := 0; p_prc := 0; p_prb := 0 |}.

Definition ledger_init : st :=
  {| s_bal := []; s_nonce := []; s_coins := []; s_symowner := []; s_ncoins := 0; s_rpool := 0; s_used := []; s_msig := [];
     s_frozen := []; s_height := 0; s_prices := zero_prices; s_base_sym := 0 |}.

Fixpoint pairs_of (l : list Z) : list (Z * Z) :=
  match l with a :: b :: r => (a, b) :: pairs_of r | _ => [] end.

Definition coin_view (s : st) (id : Z) : list Z :=
  match find_coin (s_coins s) id with
  | None => [0; 0; 0; 0; 0; -1]
  | Some c => [1; c_sym c; c_ver c; c_vol c; c_max c; match get_owner (s_symowner s) (c_sym c) with Some o => o | None => -1 end]
  end.

Definition ledger_step (s : st) (o : list Z) : st * list Z :=
  match o with
  | 0 :: base_sym :: ncoins :: height :: pr =>
    match dec_prices pr with
    | Some p => ({| s_bal := []; s_nonce := []; s_coins := []; s_symowner := []; s_ncoins := ncoins; s_rpool := 0; s_used := [];
                    s_msig := []; s_frozen := []; s_height := height; s_prices := p; s_base_sym := base_sym |}, [0])
    | None => (s, [-1])
    end
  | [1; a; c; v] => (apply_eff s (EBal a c v), [0])
  | [2; id; sym; ver; vol; maxs; mi; bu; has_owner; owner] =>   (* genesis coin *)
    let s1 := apply_eff s (ENewCoin {| c_id := id; c_sym := sym; c_ver := ver; c_vol := vol; c_max := maxs; c_mint := zb mi; c_burn := zb bu |}) in
    ((if zb has_owner then apply_eff s1 (EOwner sym owner) else s1), [0])
  | 10 :: mode :: r =>
    match dec_tx r with
    | None => (s, [-1])
    | Some t =>
      if mode =? 1 then (s, [check s t])
      else let '(s', c) := deliver s t in
           (s', [c; get_bal (s_bal s') (sender_of t) (t_gas_coin t); get_nonce (s_nonce s') (sender_of t); s_rpool s'])
    end
  | [20; h] => (begin_block s h, [0])
  | [21] => (end_block s, [s_rpool s])
  | 30 :: r => (s, map (fun ac => get_bal (s_bal s) (fst ac) (snd ac)) (pairs_of r))
  | 31 :: r => (s, map (get_nonce (s_nonce s)) r)
  | 32 :: r => (s, flat_map (coin_view s) r)
  | [33] => (s, [s_ncoins s; s_rpool s; Z.of_nat (length (s_frozen s))]
                ++ flat_map (fun f => let '(d, a, c, v) := f in [d; a; c; v]) (s_frozen s))
  | _ => (s, [-1])
  end.
