(* SwapTxRun.v — integer-list interface of Model/SwapTx.v for the correspondence check
   (model 19 of Dispatch.v): decoding of operations, the oracle table, observable outputs.

   ops:
     [0; payload_byte; sell_bancor; buy_bancor; sell_all_bancor; sell_pool_base; sell_pool_delta;
         buy_pool_base; buy_pool_delta; sell_all_pool_base; sell_all_pool_delta; failed_tx]   new world -> [0]
     [1; address; coin; value]                 the balance is set to value                           -> [0]
     [2; c0; c1; r0; r1]                       pool {c0, c1} is set (reserve of c0, of c1)            -> [0]
     [3; id; volume; reserve; crr; max]        coin is set (crr 0 = token)                           -> [0]
     10 :: mode :: typ :: sender :: gas :: gas_price :: payload_len :: v1 :: v2 :: n :: coins(n) ++ oracle table
        mode 1 = check (RunTx on a check state) -> [code];  mode 0 = deliver ->
          rejected [code] | accepted 0 :: dFirst :: dLast :: dGas :: return :: sell_amount (-1 = no tag) ::
          commission :: commission_in_base :: pool? :: reserves of every adjacent pair of coins (-1 -1 = no pool) ++
          reserves of the pool {commission coin, base} ++ volume, reserve of the first, last, commission coin
        typ 1 SellSwapPool (v1 value, v2 minimum) 2 BuySwapPool (v1 value, v2 maximum) 3 SellAllSwapPool (v2 minimum)
            4 SellCoin (coins [sell; buy]) 5 BuyCoin (coins [sell; buy], v1 value to buy) 6 SellAllCoin
        oracle table: entries k s r c a f = formula function k (1 purchase return, 2 purchase amount, 3 sale return,
        4 sale amount) on (supply s, reserve r, crr c, argument a) returned f.  A query that is not in the table and
        whose value matters gives [-2].
     20 :: r0 :: r1 :: price :: value :: n :: (id buy sell)(n)    SellSwapPool [gas coin; base coin] paid in the gas coin
        through a pool with limit orders (Model/SwapTxBook.v): reserves of the gas coin / base coin, the orders a seller
        of the gas coin meets, best first -> [0; amount the check phase computes; amount the deliver phase credits] *)
From Minter Require Import Base Pool Orders SwapTx SwapTxBook.
From Coq Require Import ZArith List Bool.
Import ListNotations.
Open Scope Z_scope.

Fixpoint dec_orc (l : list Z) : list (Z * Z * Z * Z * Z * Z) :=
  match l with
  | k :: s :: r :: c :: a :: f :: t => (k, s, r, c, a, f) :: dec_orc t
  | _ => []
  end.

Fixpoint orc_lookup (tbl : list (Z * Z * Z * Z * Z * Z)) (dflt k s r c a : Z) : Z :=
  match tbl with
  | [] => dflt
  | (k', s', r', c', a', f) :: t =>
    if (k' =? k) && (s' =? s) && (r' =? r) && (c' =? c) && (a' =? a) then f else orc_lookup t dflt k s r c a
  end.

Fixpoint dec_book (n : nat) (l : list Z) : list order :=
  match n, l with
  | S n', i :: b :: s :: t => {| oid := i; obuy := b; osell := s; oowner := 0; oheight := 0 |} :: dec_book n' t
  | _, _ => []
  end.

Definition empty_prices : ptable :=
  {| pt_payload_byte := 0; pt_sell_bancor := 0; pt_buy_bancor := 0; pt_sell_all_bancor := 0; pt_sell_pool_base := 0;
     pt_sell_pool_delta := 0; pt_buy_pool_base := 0; pt_buy_pool_delta := 0; pt_sell_all_pool_base := 0; pt_sell_all_pool_delta := 0; pt_failed := 0 |}.
Definition swaptx_init : world := {| w_pools := []; w_coins := []; w_bal := []; w_prices := empty_prices |}.

Definition has_coin (w : world) (id : Z) : bool := match find_coin (w_coins w) id with Some _ => true | None => false end.

Definition dec_data (typ v1 v2 : Z) (coins : list Z) : option txdata :=
  match typ, coins with
  | 1, _ => Some (SellPool coins v1 v2)
  | 2, _ => Some (BuyPool coins v1 v2)
  | 3, _ => Some (SellAllPool coins v2)
  | 4, [cs; cb] => Some (SellCoin cs v1 cb v2)
  | 5, [cs; cb] => Some (BuyCoin cb v1 cs v2)
  | 6, [cs; cb] => Some (SellAllCoin cs cb v2)
  | _, _ => None
  end.

Fixpoint pairs_view (w : world) (cin : Z) (rest : list Z) : list Z :=
  match rest with
  | [] => []
  | cout :: r => (match get_pool w cin cout with Some (x, y) => [x; y] | None => [-1; -1] end) ++ pairs_view w cout r
  end.
Definition pool_view (w : world) (a b : Z) : list Z :=
  if a =? b then [-1; -1] else match get_pool w a b with Some (x, y) => [x; y] | None => [-1; -1] end.
Definition coin_view (w : world) (id : Z) : list Z :=
  match find_coin (w_coins w) id with Some c => [bc_vol c; bc_res c] | None => [-1; -1] end.

Definition enc_res (w : world) (t : tx) (coins : list Z) (deliver : bool) (r : txres) : world * list Z :=
  match r with
  | Reject c => (w, [c])
  | TxPanic s => (w, [-3; s])
  | Accept effs tg =>
    if negb deliver then (w, [0]) else
    let w' := apply_effs w effs in
    let first := hd 0 coins in
    let lst := last coins 0 in
    let gas := commission_coin t in
    let d c := bal w' (t_sender t) c - bal w (t_sender t) c in
    (w', [0; d first; d lst; d gas; tag_return tg; match tag_sell_amount tg with Some v => v | None => -1 end;
          tag_commission tg; tag_commission_base tg; if tag_pool tg then 1 else 0]
         ++ pairs_view w' first (tl coins) ++ pool_view w' gas 0
         ++ coin_view w' first ++ coin_view w' lst ++ coin_view w' gas)
  end.

Definition zl_eq (a b : list Z) : bool :=
  (Z.of_nat (length a) =? Z.of_nat (length b)) && forallb (fun p => fst p =? snd p) (combine a b).

Definition swaptx_step (w : world) (op : list Z) : world * list Z :=
  match op with
  | [0; a; b; c; d; e; f; g; h; i; j; k] =>
    ({| w_pools := []; w_coins := []; w_bal := [];
        w_prices := {| pt_payload_byte := a; pt_sell_bancor := b; pt_buy_bancor := c; pt_sell_all_bancor := d;
                       pt_sell_pool_base := e; pt_sell_pool_delta := f; pt_buy_pool_base := g; pt_buy_pool_delta := h;
                       pt_sell_all_pool_base := i; pt_sell_all_pool_delta := j; pt_failed := k |} |}, [0])
  | [1; a; c; v] => (apply_eff w (EBal a c (v - bal w a c)), [0])
  | [2; c0; c1; r0; r1] => (set_pools w (upd_pool (w_pools w) (pkey c0 c1) (orient c0 c1 (r0, r1))), [0])
  | [3; id; vol; rs; crr; mx] =>
    let c := {| bc_vol := vol; bc_res := rs; bc_crr := crr; bc_max := mx |} in
    (set_coins w (if has_coin w id then upd_coin (w_coins w) id (fun _ => c) else w_coins w ++ [(id, c)]), [0])
  | 10 :: mode :: typ :: sender :: gas :: gp :: plen :: v1 :: v2 :: n :: r =>
    let coins := firstn (Z.to_nat n) r in
    let tbl := dec_orc (skipn (Z.to_nat n) r) in
    match dec_data typ v1 v2 coins with
    | None => (w, [-1])
    | Some d =>
      let t := {| t_sender := sender; t_gas_coin := gas; t_gas_price := gp; t_payload_len := plen; t_data := d |} in
      let deliver := mode =? 0 in
      let go dflt := enc_res w t coins deliver
                       (run_tx (orc_lookup tbl dflt 1) (orc_lookup tbl dflt 2) (orc_lookup tbl dflt 3) (orc_lookup tbl dflt 4) w t deliver) in
      let '(w1, o1) := go (-7777777) in
      let '(_, o2) := go (-8888888) in
      if zl_eq o1 o2 then (w1, o1) else (w, [-2])
    end
  | 20 :: r0 :: r1 :: price :: value :: n :: r =>
    (w, match sell_single_book false r0 r1 (dec_book (Z.to_nat n) r) price value with
        | Val (s, d) => [0; s; d] | Nil => [1] | Panic x => [2; x]
        end)
  | _ => (w, [-1])
  end.
