(* EventStore.v — executable model of coreV2/events/store.go + types.go (C24).  No proofs here.

   What is modelled (what the code DOES):
   * the tm-db database as five tables (the byte keys of the five kinds have different lengths
     -- 4 bytes for a height, "pubKey"+2, "address"+4, "pubKeys", "addresses" -- so they never
     collide and are kept apart here): height -> stored batch, pubkey id -> key, address id ->
     address, and the two persisted counters;
   * the four Go maps idPubKey/pubKeyID/idAddress/addressID.  A Go map is modelled as a finite
     map plus its element count ([zm_len], what Go's len() returns: incremented by an assignment
     exactly when the key was absent);
   * id assignment with the Go integer widths as the parameters [wp] (uint16: 16) and [wa]
     (uint32: 32): id := uint16(len(idPubKey)) + 1, id := uint32(len(addressID)), the counters
     uint16(len(idPubKey)), uint32(len(addressID)), the loop bound uint16(count)+1 of loadPubKeys;
   * loadCache (reload exactly when len(idPubKey) == 0), CommitEvents (which kind is compacted
     by which branch; RemoveCandidateEvent has no branch and is stored uncompacted; the second
     StakeMoveEvent branch is dead code), LoadEvents (compile, the nil dereference of
     reward/slash/kick.compile as Panic sites), restart = a fresh NewEventsStore on the same db;
   * the narrowing conversions uint32(Coin), uint32(ForCoin), uint32(ID) and big.Int.Bytes()
     (absolute value) of convert.

   Abstractions, stated: tmjson Marshal/Unmarshal of a batch is the identity (trusted, exercised
   by the differential run); addresses ([20]byte) and public keys ([32]byte) are the integers
   their bytes denote big-endian (the zero array is 0); an Amount string is the integer it
   denotes (only decimal strings occur; a non-numeric string would be a nil dereference in
   convert and is not representable here); a Role string is its index 0..3 in
   Validator/Delegator/DAO/Developers, any other integer stands for an undefined role name;
   the three event kinds that the store never compacts (UpdateNetwork, UpdateCommissions,
   UpdatedBlockReward) carry an opaque integer payload.
   For speed the finite maps are binary tries (stdlib PositiveMap) rather than association
   lists: the harness drives the model across 65536 distinct keys. *)
From Minter Require Import Base.
From Coq Require Import FMapPositive.
Open Scope Z_scope.

(* ---- Go maps with integer keys ------------------------------------------------------------- *)
Definition key_pos (k : Z) : positive :=
  match k with Z0 => 1%positive | Zpos p => xO p | Zneg p => xI p end.

Record zmap (A : Type) := { zm_tr : PositiveMap.t A; zm_len : Z }.
Arguments zm_tr {A} _.
Arguments zm_len {A} _.

Definition zm_empty {A} : zmap A := {| zm_tr := PositiveMap.empty A; zm_len := 0 |}.
Definition zm_get {A} (k : Z) (m : zmap A) : option A := PositiveMap.find (key_pos k) (zm_tr m).
Definition zm_set {A} (k : Z) (v : A) (m : zmap A) : zmap A :=
  {| zm_tr := PositiveMap.add (key_pos k) v (zm_tr m);
     zm_len := match zm_get k m with Some _ => zm_len m | None => zm_len m + 1 end |}.
(* reading an absent key of a Go map / a missing db entry copied into an array: the zero value *)
Definition zm_get0 (k : Z) (m : zmap Z) : Z := match zm_get k m with Some v => v | None => 0 end.

(* ---- events (types.go) ----------------------------------------------------------------------- *)
Inductive event : Type :=
| EReward (role addr amount pk forcoin : Z)        (* RewardEvent: ValidatorPubKey is a value *)
| ESlash (addr amount coin pk : Z)                 (* SlashEvent *)
| EUnbond (addr amount coin : Z) (pk : option Z)   (* UnbondEvent: ValidatorPubKey is a pointer, may be nil *)
| EKick (addr amount coin pk : Z)                  (* StakeKickEvent *)
| EJail (pk until : Z)                             (* JailEvent *)
| EOrderExpired (id addr coin amount : Z)          (* OrderExpiredEvent *)
| EUnlock (addr amount coin : Z)                   (* UnlockEvent *)
| EMove (addr amount coin pk topk : Z)             (* StakeMoveEvent *)
| ERemoveCandidate (pk : Z)                        (* RemoveCandidateEvent *)
| EOther (kind : Z) (payload : list Z).            (* UpdateNetwork 10 / UpdateCommissions 11 / UpdatedBlockReward 12 *)

(* what CommitEvents marshals: the compact structs, or the event itself *)
Inductive compact : Type :=
| CReward (role aid amount pkid forcoin : Z)
| CSlash (aid amount coin pkid : Z)
| CUnbond (aid amount coin pkid : Z)
| CKick (aid amount coin pkid : Z)
| CJail (pkid until : Z)
| COrderExpired (aid amount coin id : Z)
| CUnlock (aid amount coin : Z)
| CMove (aid amount coin frompk topk : Z)
| CRemoveCandidate (pkid : Z)                       (* registered and handled by LoadEvents, never produced *)
| CPlain (e : event).

Definition es_u32 (x : Z) : Z := x mod 2 ^ 32.

(* ---- the store -------------------------------------------------------------------------------------- *)
Definition tbl : Type := (zmap Z * zmap Z)%type.     (* (id -> key, key -> id) *)
Definition tbl_empty : tbl := (zm_empty, zm_empty).
(* cachePubKey / cacheAddress *)
Definition cache_entry (id key : Z) (t : tbl) : tbl := (zm_set id key (fst t), zm_set key id (snd t)).

Record es_disk := { db_ev : zmap (list compact); db_pk : zmap Z; db_pkn : option Z;
                 db_ad : zmap Z; db_adn : option Z }.
(* s_pending: pending.items, newest first (append = cons here; CommitEvents walks it oldest first) *)
Record es_store := { s_disk : es_disk; s_pk : tbl; s_ad : tbl; s_pending : list event }.

Definition es_empty_disk : es_disk :=
  {| db_ev := zm_empty; db_pk := zm_empty; db_pkn := None; db_ad := zm_empty; db_adn := None |}.
(* NewEventsStore(db) *)
Definition es_new (d : es_disk) : es_store :=
  {| s_disk := d; s_pk := tbl_empty; s_ad := tbl_empty; s_pending := [] |}.
Definition es_restart (s : es_store) : es_store := es_new (s_disk s).

Definition add_event (s : es_store) (e : event) : es_store :=
  {| s_disk := s_disk s; s_pk := s_pk s; s_ad := s_ad s; s_pending := e :: s_pending s |}.

(* the loops of loadPubKeys / loadAddresses: ids first, first+1, ..., [iters] times *)
Definition load_step (dbt : zmap Z) (x : Z * tbl) : Z * tbl :=
  (fst x + 1, cache_entry (fst x) (zm_get0 (fst x) dbt) (snd x)).
Definition load_table (first iters : Z) (dbt : zmap Z) (t : tbl) : tbl :=
  snd (Z.iter iters (load_step dbt) (first, t)).

(* bit widths of the pubkey and address ids: uint16 and uint32 in the code *)
Record widths := { w_pk : Z; w_ad : Z }.
Definition go_widths : widths := {| w_pk := 16; w_ad := 32 |}.

Section Width.
Variable W : widths.

Definition wrapp (x : Z) : Z := x mod 2 ^ w_pk W.
Definition wrapa (x : Z) : Z := x mod 2 ^ w_ad W.

(* loadPubKeys: for id := uint16(1); id < Uint16(count)+1; id++.  The bound is a uint16, so it is
   0 when count = 2^16-1 and the loop body never runs; otherwise id runs 1..count without
   wrapping (id < bound <= 2^16-1). *)
Definition load_pubkeys (d : es_disk) (t : tbl) : tbl :=
  match db_pkn d with
  | None => t
  | Some count => load_table 1 (wrapp (count + 1) - 1) (db_pk d) t
  end.
(* loadAddresses: for id := uint32(0); id < Uint32(count); id++ *)
Definition load_addresses (d : es_disk) (t : tbl) : tbl :=
  match db_adn d with
  | None => t
  | Some count => load_table 0 count (db_ad d) t
  end.

(* loadCache: only when the pubkey cache is empty; then both tables are read *)
Definition load_cache (s : es_store) : es_store :=
  if zm_len (fst (s_pk s)) =? 0
  then {| s_disk := s_disk s; s_pk := load_pubkeys (s_disk s) (s_pk s);
          s_ad := load_addresses (s_disk s) (s_ad s); s_pending := s_pending s |}
  else s.

Definition save_address (s : es_store) (a : Z) : es_store * Z :=
  match zm_get a (snd (s_ad s)) with
  | Some id => (s, id)
  | None =>
    let id := wrapa (zm_len (snd (s_ad s))) in
    let t := cache_entry id a (s_ad s) in
    let d := s_disk s in
    ({| s_disk := {| db_ev := db_ev d; db_pk := db_pk d; db_pkn := db_pkn d;
                     db_ad := zm_set id a (db_ad d); db_adn := Some (wrapa (zm_len (snd t))) |};
        s_pk := s_pk s; s_ad := t; s_pending := s_pending s |}, id)
  end.

Definition save_pubkey (s : es_store) (k : option Z) : es_store * Z :=
  match k with
  | None => (s, 0)
  | Some key =>
    match zm_get key (snd (s_pk s)) with
    | Some id => (s, id)
    | None =>
      let id := wrapp (wrapp (zm_len (fst (s_pk s))) + 1) in
      let t := cache_entry id key (s_pk s) in
      let d := s_disk s in
      ({| s_disk := {| db_ev := db_ev d; db_pk := zm_set id key (db_pk d);
                       db_pkn := Some (wrapp (zm_len (fst t))); db_ad := db_ad d; db_adn := db_adn d |};
          s_pk := t; s_ad := s_ad s; s_pending := s_pending s |}, id)
    end
  end.

(* NewRole(string): panics (types.go:95) on an undefined role name *)
Definition role_ok (r : Z) : bool := (0 <=? r) && (r <=? 3).

(* one iteration of the loop in CommitEvents.  Order of evaluation as in the code: saveAddress,
   then savePubKey(s), then convert. *)
Definition commit_item (s : es_store) (e : event) : es_store * outcome compact :=
  match e with
  | EReward role addr amount pk forcoin =>            (* Stake branch *)
    let '(s1, aid) := save_address s addr in
    let '(s2, pid) := save_pubkey s1 (Some pk) in
    (s2, if role_ok role then Val (CReward role aid (Z.abs amount) pid (es_u32 forcoin)) else Panic 95)
  | ESlash addr amount coin pk =>
    let '(s1, aid) := save_address s addr in
    let '(s2, pid) := save_pubkey s1 (Some pk) in
    (s2, Val (CSlash aid (Z.abs amount) (es_u32 coin) pid))
  | EUnbond addr amount coin pk =>
    let '(s1, aid) := save_address s addr in
    let '(s2, pid) := save_pubkey s1 pk in
    (s2, Val (CUnbond aid (Z.abs amount) (es_u32 coin) pid))
  | EKick addr amount coin pk =>
    let '(s1, aid) := save_address s addr in
    let '(s2, pid) := save_pubkey s1 (Some pk) in
    (s2, Val (CKick aid (Z.abs amount) (es_u32 coin) pid))
  | EJail pk until =>                                  (* *JailEvent branch *)
    let '(s1, pid) := save_pubkey s (Some pk) in
    (s1, Val (CJail pid until))
  | EOrderExpired id addr coin amount =>               (* addressE branch *)
    let '(s1, aid) := save_address s addr in
    (s1, Val (COrderExpired aid (Z.abs amount) (es_u32 coin) (es_u32 id)))
  | EUnlock addr amount coin =>
    let '(s1, aid) := save_address s addr in
    (s1, Val (CUnlock aid (Z.abs amount) (es_u32 coin)))
  | EMove addr amount coin pk topk =>                  (* first *StakeMoveEvent branch *)
    let '(s1, aid) := save_address s addr in
    let '(s2, pid) := save_pubkey s1 (Some pk) in
    let '(s3, tid) := save_pubkey s2 (Some topk) in
    (s3, Val (CMove aid (Z.abs amount) (es_u32 coin) pid tid))
  | ERemoveCandidate _ | EOther _ _ => (s, Val (CPlain e))   (* no branch: data = append(data, item) *)
  end.

(* acc: data, newest first *)
Fixpoint commit_items (s : es_store) (items : list event) (acc : list compact) : es_store * outcome (list compact) :=
  match items with
  | [] => (s, Val (rev_append acc []))
  | e :: rest =>
    match commit_item s e with
    | (s', Val c) => commit_items s' rest (c :: acc)
    | (s', Nil) => (s', Nil)
    | (s', Panic site) => (s', Panic site)
    end
  end.

(* CommitEvents(height): a panic inside the loop leaves the ids saved so far, the pending list
   and no batch *)
Definition es_commit (s : es_store) (h : Z) : es_store * outcome unit :=
  let s0 := load_cache s in
  match commit_items s0 (rev_append (s_pending s0) []) [] with
  | (s1, Val data) =>
    let d := s_disk s1 in
    ({| s_disk := {| db_ev := zm_set h data (db_ev d); db_pk := db_pk d; db_pkn := db_pkn d;
                     db_ad := db_ad d; db_adn := db_adn d |};
        s_pk := s_pk s1; s_ad := s_ad s1; s_pending := [] |}, Val tt)
  | (s1, Nil) => (s1, Nil)
  | (s1, Panic site) => (s1, Panic site)
  end.

(* Role.String(): panics (types.go:80) on an undefined role byte *)
(* compile: `*pubKey` of reward (types.go:109), slash (:177), kick (:508) panics on nil *)
Definition es_compile (s : es_store) (c : compact) : outcome event :=
  let pk id := zm_get id (fst (s_pk s)) in
  let pk0 id := zm_get0 id (fst (s_pk s)) in
  let ad id := zm_get0 id (fst (s_ad s)) in
  match c with
  | CReward role aid amount pid forcoin =>
    match pk pid with
    | None => Panic 109
    | Some k => if role_ok role then Val (EReward role (ad aid) amount k forcoin) else Panic 80
    end
  | CSlash aid amount coin pid =>
    match pk pid with None => Panic 177 | Some k => Val (ESlash (ad aid) amount coin k) end
  | CUnbond aid amount coin pid => Val (EUnbond (ad aid) amount coin (pk pid))
  | CKick aid amount coin pid =>
    match pk pid with None => Panic 508 | Some k => Val (EKick (ad aid) amount coin k) end
  | CJail pid until => Val (EJail (pk0 pid) until)
  | COrderExpired aid amount coin id => Val (EOrderExpired id (ad aid) coin amount)
  | CUnlock aid amount coin => Val (EUnlock (ad aid) amount coin)
  | CMove aid amount coin f t => Val (EMove (ad aid) amount coin (pk0 f) (pk0 t))
  | CRemoveCandidate pid => Val (ERemoveCandidate (pk0 pid))
  | CPlain e => Val e
  end.

Fixpoint es_compile_all (s : es_store) (l : list compact) : outcome (list event) :=
  match l with
  | [] => Val []
  | c :: rest =>
    match es_compile s c with
    | Val e => match es_compile_all s rest with Val es => Val (e :: es) | Nil => Nil | Panic x => Panic x end
    | Nil => Nil
    | Panic x => Panic x
    end
  end.

(* LoadEvents(height): Nil = the Go nil slice (nothing stored under the height) *)
Definition es_load (s : es_store) (h : Z) : es_store * outcome (list event) :=
  let s0 := load_cache s in
  (s0, match zm_get h (db_ev (s_disk s0)) with
       | None => Nil
       | Some items => es_compile_all s0 items
       end).

(* ---- operations and runs ----------------------------------------------------------------------- *)
Inductive es_op : Type := OAdd (e : event) | OCommit (h : Z) | ORestart | OLoad (h : Z).
Inductive es_obs : Type := BAck | BCommit (r : outcome unit) | BLoad (r : outcome (list event)).

Definition es_step (s : es_store) (o : es_op) : es_store * es_obs :=
  match o with
  | OAdd e => (add_event s e, BAck)
  | OCommit h => let '(s', r) := es_commit s h in (s', BCommit r)
  | ORestart => (es_restart s, BAck)
  | OLoad h => let '(s', r) := es_load s h in (s', BLoad r)
  end.

Fixpoint es_run (s : es_store) (ops : list es_op) : list es_obs :=
  match ops with
  | [] => []
  | o :: rest => let '(s', b) := es_step s o in b :: es_run s' rest
  end.

End Width.

(* ---- integer coding for the dispatcher ------------------------------------------------------------
   event: kind :: fields; a nil *Pubkey is -1; kinds >= 10 carry  n :: payload *)
Definition enc_opt (o : option Z) : Z := match o with Some k => k | None => -1 end.
Definition dec_opt (z : Z) : option Z := if z =? -1 then None else Some z.

Definition enc_event (e : event) : list Z :=
  match e with
  | EReward role addr amount pk forcoin => [1; role; addr; amount; pk; forcoin]
  | ESlash addr amount coin pk => [2; addr; amount; coin; pk]
  | EUnbond addr amount coin pk => [3; addr; amount; coin; enc_opt pk]
  | EKick addr amount coin pk => [4; addr; amount; coin; pk]
  | EJail pk until => [5; pk; until]
  | EOrderExpired id addr coin amount => [6; id; addr; coin; amount]
  | EUnlock addr amount coin => [7; addr; amount; coin]
  | EMove addr amount coin pk topk => [8; addr; amount; coin; pk; topk]
  | ERemoveCandidate pk => [9; pk]
  | EOther kind payload => kind :: Z.of_nat (length payload) :: payload
  end.

Definition dec_event (l : list Z) : option event :=
  match l with
  | [1; role; addr; amount; pk; forcoin] => Some (EReward role addr amount pk forcoin)
  | [2; addr; amount; coin; pk] => Some (ESlash addr amount coin pk)
  | [3; addr; amount; coin; pk] => Some (EUnbond addr amount coin (dec_opt pk))
  | [4; addr; amount; coin; pk] => Some (EKick addr amount coin pk)
  | [5; pk; until] => Some (EJail pk until)
  | [6; id; addr; coin; amount] => Some (EOrderExpired id addr coin amount)
  | [7; addr; amount; coin] => Some (EUnlock addr amount coin)
  | [8; addr; amount; coin; pk; topk] => Some (EMove addr amount coin pk topk)
  | [9; pk] => Some (ERemoveCandidate pk)
  | kind :: _ :: payload => if 10 <=? kind then Some (EOther kind payload) else None
  | _ => None
  end.

Definition enc_batch (es : list event) : list Z := Z.of_nat (length es) :: flat_map enc_event es.

(* model 11: ops [1; kind; fields..] AddEvent -> [0]; [2; h] CommitEvents -> [0] | [2; site];
   [3] restart -> [0]; [4; h] LoadEvents -> [0; n; events..] | [1] (nil) | [2; site] *)
Definition evstore_step (s : es_store) (o : list Z) : es_store * list Z :=
  match o with
  | 1 :: ev =>
    match dec_event ev with
    | Some e => (add_event s e, [0])
    | None => (s, [-1])
    end
  | [2; h] => let '(s', r) := es_commit go_widths s h in (s', enc_outcome (fun _ => []) r)
  | [3] => (es_restart s, [0])
  | [4; h] => let '(s', r) := es_load go_widths s h in (s', enc_outcome enc_batch r)
  | _ => (s, [-1])
  end.

Definition evstore_init : es_store := es_new es_empty_disk.

(* tail-recursive runner (a case of the harness has several hundred thousand operations) *)
Fixpoint evstore_run_acc (s : es_store) (ops : list (list Z)) (acc : list (list Z)) : list (list Z) :=
  match ops with
  | [] => rev_append acc []
  | o :: rest => let '(s', out) := evstore_step s o in evstore_run_acc s' rest (out :: acc)
  end.
Definition evstore_run (ops : list (list Z)) : list (list Z) := evstore_run_acc evstore_init ops [].
