(* CoinSupply.v — volume and reserve of one bancor coin under conversions (C02: "coin volume never exceeds max
   supply", reserves stay above the minimum).  Transliterates the two guards of coreV2/transaction/transaction.go
   (CheckForCoinSupplyOverflow, CheckReserveUnderflow) and the AddVolume/AddReserve, SubVolume/SubReserve pairs of
   buy_coin.go, sell_coin.go, sell_all_coin.go.  The amounts computed by formula.go are inputs (C12 speaks of them). *)
From Minter Require Export Base.
From Coq Require Import ZArith List Bool.
Import ListNotations.
Open Scope Z_scope.

Record bcoin := { b_vol : Z; b_res : Z; b_max : Z }.

Definition min_coin_reserve : Z := 10000 * 10 ^ 18.
Definition cCoinSupplyOverflow : Z := 112.
Definition cCoinReserveUnderflow : Z := 116.

Inductive bop :=
| BMint (minted deposit : Z)     (* the coin is bought: BuyCoin (minted = ValueToBuy), SellCoin / SellAllCoin into it *)
| BBurn (burned paid : Z).       (* the coin is sold, or pays a commission through its reserve *)

Definition bstep (c : bcoin) (o : bop) : bcoin * Z :=
  match o with
  | BMint minted deposit =>
    if b_max c <? b_vol c + minted then (c, cCoinSupplyOverflow)
    else ({| b_vol := b_vol c + minted; b_res := b_res c + deposit; b_max := b_max c |}, 0)
  | BBurn burned paid =>
    if b_res c - paid <? min_coin_reserve then (c, cCoinReserveUnderflow)
    else ({| b_vol := b_vol c - burned; b_res := b_res c - paid; b_max := b_max c |}, 0)
  end.

Definition brun (c : bcoin) (ops : list bop) : bcoin := fold_left (fun c o => fst (bstep c o)) ops c.

(* integer-list interface (dispatch model 24): [1; vol; max; minted] -> [accepted; new volume] *)
Definition run_coinsupply_op (l : list Z) : list Z :=
  match l with
  | [1; vol; maxs; minted] =>
    let '(c', code) := bstep {| b_vol := vol; b_res := min_coin_reserve; b_max := maxs |} (BMint minted 0) in
    [if code =? 0 then 1 else 0; b_vol c']
  | _ => [-1]
  end.
