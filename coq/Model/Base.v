(* Base.v — shared conventions of the executable models (no proofs here). *)
From Coq Require Export ZArith List Bool Lia.
Export ListNotations.
Open Scope Z_scope.

(* Explicit outcomes: Go nil results, error returns and panics are never hidden
   behind totalised arithmetic. *)
Inductive outcome (A : Type) : Type :=
| Val (a : A)          (* normal result *)
| Nil                  (* the Go function returned nil / an error value *)
| Panic (site : Z).    (* the Go function panics (site = small id) *)
Arguments Val {A} a.
Arguments Nil {A}.
Arguments Panic {A} site.

Definition obind {A B} (x : outcome A) (f : A -> outcome B) : outcome B :=
  match x with Val a => f a | Nil => Nil | Panic s => Panic s end.

(* Go big.Int Quo/Rem are truncated (T-) division; Div/Mod are Euclidean.  Both
   panic on a zero divisor.  Every division in the models goes through these. *)
Definition quo (a b : Z) : outcome Z := if b =? 0 then Panic 900 else Val (Z.quot a b).
Definition rem (a b : Z) : outcome Z := if b =? 0 then Panic 900 else Val (Z.rem a b).
Definition ediv (a b : Z) : outcome Z :=
  if b =? 0 then Panic 900 else Val (if 0 <? b then a / b else - (a / - b)).

(* encoding of outcomes as integer lists for the dispatcher:
   [0; v...] value, [1] nil, [2; site] panic *)
Definition enc_outcome {A} (f : A -> list Z) (x : outcome A) : list Z :=
  match x with Val a => 0 :: f a | Nil => [1] | Panic s => [2; s] end.

Definition sum_Z (l : list Z) : Z := fold_right Z.add 0 l.
