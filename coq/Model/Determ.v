(* Determ.v — C08: the only nondeterminism of the deliver path that the Go language itself
   introduces is the iteration order of `range` over a map.  This file makes that order explicit:
   every loop over a map is given the entry list of the map in the order chosen by an ORACLE
   (any permutation, a fresh one for every executed loop), and defines the loop shapes the
   translator harness/cmd/xlate/mapranges.go recognises in /repo:

     collect-then-sort   keys/values appended to a slice, the slice sorted before any other use
     commutative fold    sums into big.Int / counters, building another map or set, deletes
     find / exists       return or break on a condition at most one entry satisfies
     per-entry           each entry only updates its own in-memory record (NOT the IAVL tree: its
                         root hash depends on the insertion order, see Properties/C08.v)

   plus a tiny language of programs built from these loops and deterministic code.
   Executable definitions only; the proofs are in Proofs/DetermFacts.v.

   The site inventory types (constructor per class) are used by Generated/MapRanges.v. *)
From Coq Require Import ZArith List String Bool.
Import ListNotations.

(* ---- the inventory of map-range sites (filled by the translator) ---------------------------- *)
Inductive mr_class :=
| CollectThenSort (sort_key : string)       (* sorted by an injective key before use *)
| CommutativeFold
| ExistsOrFindUnique (why : string)
| PerEntryIndependent (why : string)
| ReadOnlyApi                               (* not reachable from InitChain/BeginBlock/DeliverTx/EndBlock/Commit *)
| OrderDependent (why : string)             (* a finding: the result depends on the iteration order *)
| Goroutine (why : string)                  (* a reviewed `go` statement (inventory go_statements) *)
| Unknown.                                  (* the translator could not classify the loop: fail closed *)

Record site := mk_site {
  s_file : string; s_line : Z; s_func : string; s_expr : string; s_class : mr_class; s_note : string }.

Definition is_unknown (s : site) : bool := match s_class s with Unknown => true | _ => false end.
Definition is_order_dependent (s : site) : bool := match s_class s with OrderDependent _ => true | _ => false end.
Definition sites_classified (l : list site) : bool := forallb (fun s => negb (is_unknown s)) l.
Definition sites_order_independent (l : list site) : bool := forallb (fun s => negb (is_order_dependent s)) l.
Definition count_class (p : mr_class -> bool) (l : list site) : nat := List.length (filter (fun s => p (s_class s)) l).
Definition is_cts c := match c with CollectThenSort _ => true | _ => false end.
Definition is_fold c := match c with CommutativeFold => true | _ => false end.
Definition is_find c := match c with ExistsOrFindUnique _ => true | _ => false end.
Definition is_per_entry c := match c with PerEntryIndependent _ => true | _ => false end.
Definition is_api c := match c with ReadOnlyApi => true | _ => false end.

(* ---- sorting: sort.Slice / sort.SliceStable by a key ------------------------------------------ *)
Section Sort.
Context {A K : Type}.
Variable key : A -> K.
Variable leb : K -> K -> bool.
(* stable insertion: x came before every element of l; it stays in front of equal keys *)
Fixpoint insert_by (x : A) (l : list A) : list A :=
  match l with
  | [] => [x]
  | y :: r => if leb (key x) (key y) then x :: y :: r else y :: insert_by x r
  end.
Definition sort_by (l : list A) : list A := fold_right insert_by [] l.
End Sort.

(* ---- a finite map of records: path -> option value; set / remove ------------------------------ *)
Section Tree.
Context {P W : Type}.
Variable P_eq_dec : forall a b : P, {a = b} + {a <> b}.
Definition tree := P -> option W.
Definition upd (t : tree) (p : P) (w : option W) : tree := fun q => if P_eq_dec p q then w else t q.
(* a list of Set (Some w) / Remove (None) operations applied in list order *)
Definition apply_updates (l : list (P * option W)) (t : tree) : tree :=
  fold_left (fun t u => upd t (fst u) (snd u)) l t.
End Tree.

(* a canonical finite map (sorted association list over Z paths) — used where the theorems want
   Leibniz equality of whole states *)
Fixpoint zm_set {W : Type} (k : Z) (w : W) (m : list (Z * W)) : list (Z * W) :=
  match m with
  | [] => [(k, w)]
  | (k', w') :: r => if (k <? k')%Z then (k, w) :: m else if (k =? k')%Z then (k, w) :: r else (k', w') :: zm_set k w r
  end.

(* ---- programs ------------------------------------------------------------------------------------
   S: the whole node state incl. responses and events produced so far; E: map entries (key,value).
   An oracle gives, for the n-th executed map loop and the map's entry list, the order in which
   Go happens to iterate.  *)
Section Prog.
Variables S E K : Type.
Variable leb : K -> K -> bool.

Inductive loop :=
| LCollectSort (entries : S -> list E) (key : E -> K) (use : list E -> S -> S)
    (* for e := range m { l = append(l, e) }; sort(l by key); use l *)
| LFold (entries : S -> list E) (f : S -> E -> S)
    (* for e := range m { s = f s e }  with f commutative: sums, set/map building, deletes *)
| LFind (entries : S -> list E) (p : S -> E -> bool) (use : option E -> S -> S)
    (* for e := range m { if p e { return/break with e } } *)
| LPerEntry (entries : S -> list E) (f : S -> E -> S).
    (* for e := range m { e.method() / record[path e] = ... }  entries independent *)

Inductive prog :=
| Skip
| Step (g : S -> S)                               (* deterministic code *)
| Seq (p q : prog)
| If (c : S -> bool) (p q : prog)
| ForEach (items : S -> list E) (body : E -> prog) (* range over a slice: fixed order *)
| Loop (l : loop).

Definition oracle := nat -> list E -> list E.

Definition run_loop (o : oracle) (l : loop) (n : nat) (s : S) : S :=
  match l with
  | LCollectSort entries key use => use (sort_by key leb (o n (entries s))) s
  | LFold entries f => fold_left f (o n (entries s)) s
  | LFind entries p use => use (find (p s) (o n (entries s))) s
  | LPerEntry entries f => fold_left f (o n (entries s)) s
  end.

(* the counter n numbers the executed map loops, so every execution gets its own permutation *)
Fixpoint run (o : oracle) (p : prog) (n : nat) (s : S) : nat * S :=
  match p with
  | Skip => (n, s)
  | Step g => (n, g s)
  | Seq a b => let '(n1, s1) := run o a n s in run o b n1 s1
  | If c a b => if c s then run o a n s else run o b n s
  | ForEach items body =>
      fold_left (fun ns x => run o (body x) (fst ns) (snd ns)) (items s) (n, s)
  | Loop l => (Datatypes.S n, run_loop o l n s)
  end.
End Prog.

Arguments Skip {S E K}.
Arguments Step {S E K}.
Arguments Seq {S E K}.
Arguments If {S E K}.
Arguments ForEach {S E K}.
Arguments Loop {S E K}.
Arguments LCollectSort {S E K}.
Arguments LFold {S E K}.
Arguments LFind {S E K}.
Arguments LPerEntry {S E K}.
Arguments run {S E K}.
Arguments run_loop {S E K}.

(* ---- a concrete instance used by the examples: committing dirty accounts ---------------------
   state: dirty set (address -> balance, as entry list), the tree (sorted association list), a
   running total, an event log.  The program is the shape of Accounts.Commit + a sum + a lookup:
     keys := collect dirty; sort keys; for k in keys { tree.Set(k, balance k); log k }
     for e in dirty { total += balance }
     for e in dirty { if address == 7 { found = e; break } }                                    *)
Record demo_state := mk_demo { d_dirty : list (Z * Z); d_tree : list (Z * Z); d_total : Z; d_log : list Z; d_found : option (Z * Z) }.
Definition demo_commit : prog demo_state (Z * Z) Z :=
  Seq (Loop (LCollectSort d_dirty fst
              (fun l s => mk_demo (d_dirty s) (fold_left (fun t e => zm_set (fst e) (snd e) t) l (d_tree s)) (d_total s)
                                  (d_log s ++ map fst l) (d_found s))))
  (Seq (Loop (LFold d_dirty (fun s e => mk_demo (d_dirty s) (d_tree s) (d_total s + snd e) (d_log s) (d_found s))))
  (Seq (Loop (LFind d_dirty (fun _ e => (fst e =? 7)%Z) (fun r s => mk_demo (d_dirty s) (d_tree s) (d_total s) (d_log s) r)))
       (Loop (LPerEntry d_dirty (fun s e => mk_demo (d_dirty s) (zm_set (fst e + 100) (snd e) (d_tree s)) (d_total s) (d_log s) (d_found s)))))).
(* the same with the events emitted in map order (no sort): NOT one of the classes *)
Definition demo_bad : prog demo_state (Z * Z) Z :=
  Loop (LFold d_dirty (fun s e => mk_demo (d_dirty s) (d_tree s) (d_total s) (d_log s ++ [fst e]) (d_found s))).
Definition demo_init := mk_demo [(9, 5); (7, 3); (8, 4); (1, 10)]%Z [(8, 1)]%Z 0%Z [] None.
Definition o_id : oracle (Z * Z) := fun _ l => l.
Definition o_rev : oracle (Z * Z) := fun _ l => rev l.
