(* Dispatch.v — one entry point for the correspondence check: a model is selected by
   number, takes the operation list of a case (each operation a list of integers) and
   returns one integer list per operation, in the same canonical form the Go harness
   prints for the implementation. *)
From Minter Require Import Base Consts Pool Float Orders Govern Persist PersistGen Rewards Ledger LedgerRun RLP Bancor.
From Minter Require RewardRule.
From Minter Require Ranking.
From Minter Require Punish.
From Minter Require EventStore.
From Minter Require GenesisRun.
From Minter Require CandAuth.
From Minter Require FeeRoute.
From Minter Require PowerTable.
From Minter Require CoinSupply.
From Minter Require SwapTx.
From Minter Require SwapTxRun.
From Minter Require Crash.
From Minter Require Schedule ScheduleRun.
Open Scope Z_scope.

Definition enc1 (z : Z) : list Z := [z].
Definition enc2 (p : Z * Z) : list Z := [fst p; snd p].
Definition enc3 (p : Z * Z * Z) : list Z := let '(a, b, c) := p in [a; b; c].
Definition enc4 (p : Z * Z * Z * Z) : list Z := let '(a, b, c, d) := p in [a; b; c; d].

(* model 1: pure pool arithmetic (C13) *)
Definition run_pool_op (op : list Z) : list Z :=
  match op with
  | [1; r0; r1; a] => enc_outcome enc1 (calc_buy_for_sell r0 r1 a)
  | [2; r0; r1; o] => enc_outcome enc1 (calc_sell_for_buy r0 r1 o)
  | [3; r0; r1; a0i; a1i; a0o; a1o] => [check_swap r0 r1 a0i a1i a0o a1o]
  | [4; r0; r1; a; m] => enc_outcome enc3 (pair_sell r0 r1 a m)
  | [5; r0; r1; m; o] => enc_outcome enc3 (pair_buy r0 r1 m o)
  | [6; r0; r1; a0; t] => enc_outcome enc3 (mint r0 r1 a0 t)
  | [7; r0; r1; a0; m1; t] => enc_outcome enc1 (check_mint r0 r1 a0 m1 t)
  | [8; a0; a1] => enc_outcome enc3 (create a0 a1)
  | [9; r0; r1; l; m0; m1; t] => enc_outcome enc4 (burn r0 r1 l m0 m1 t)
  | [10; a] => [com1000 a; com1001 a; com0999 a]
  | _ => [-1]
  end.

(* model 2: big.Float semantics (used by C14, C20, C13's oracle instance) *)
Definition canon (x : fl) : list Z :=
  let '(m, e) := x in
  if m =? 0 then [0; 1] else
  if 0 <=? e then [Z.shiftl m e; 1] else
  let g := Z.gcd m (Z.shiftl 1 (- e)) in [m / g; Z.shiftl 1 (- e) / g].

Definition run_float_op (op : list Z) : list Z :=
  match op with
  | [1; p; n; d] => canon (of_rat p n d)
  | [2; n; d] => fint (of_rat_auto n d) :: canon (of_rat_auto n d)
  | [3; a; b] => canon (fmul 53 (of_int 53 a) (of_int 53 b))
  | [4; a; b] => canon (fquo 53 (of_int 53 a) (of_int 53 b))
  | [5; a; b] => canon (fsub 53 (of_int 53 a) (of_int 53 b))
  | [6; a] => canon (fsqrt 53 (of_int 53 a))
  | [7; p; a] => canon (of_int p a)
  | _ => [-1]
  end.

(* model 3: one pool with its two abstract order books, stateful (C13, C14) *)
Record pstate := { p_r0 : Z; p_r1 : Z; p_next : Z; p_sell : list order; p_buy : list order;
                   p_disk : list Z (* ids of orders present in the committed tree *) }.

Definition enc_fills (fs : list fill) : list Z :=
  Z.of_nat (length fs) :: flat_map (fun f => [fid f; fbuy f; fsell f]) fs.
Definition enc_refunds (rs : list (Z * Z * Z)) : list Z :=
  Z.of_nat (length rs) :: flat_map (fun r => let '(i, o, s) := r in [i; o; s]) rs.
Definition enc_book (b : list order) : list Z :=
  Z.of_nat (length b) :: flat_map (fun l => [oid l; obuy l; osell l]) b.

Definition enc_trade (t : trade_result) : list Z :=
  [t_in t; t_out t; t_r0 t; t_r1 t] ++ enc_fills (t_fills t) ++ enc_refunds (t_refunds t).

Definition pool3_step (st : pstate) (op : list Z) : pstate * list Z :=
  match op with
  | [0; a0; a1] =>
    match create a0 a1 with
    | Val (l, r0, r1) => ({| p_r0 := r0; p_r1 := r1; p_next := 1; p_sell := []; p_buy := []; p_disk := [] |}, [0; l])
    | _ => (st, [2; 7])
    end
  | [1; dir; b; s; owner; h] =>
    let l := {| oid := p_next st; obuy := b; osell := s; oowner := owner; oheight := h |} in
    if dir =? 1
    then ({| p_r0 := p_r0 st; p_r1 := p_r1 st; p_next := p_next st + 1;
             p_sell := insert_order true l (p_sell st); p_buy := p_buy st; p_disk := p_disk st |}, [oid l])
    else ({| p_r0 := p_r0 st; p_r1 := p_r1 st; p_next := p_next st + 1;
             p_sell := p_sell st; p_buy := insert_order false l (p_buy st); p_disk := p_disk st |}, [oid l])
  | [2; dir; a] =>
    if dir =? 1 then
      match sell_with_orders_x true (p_r0 st) (p_r1 st) (p_sell st) a 0 with
      | Val t => ({| p_r0 := t_r0 t; p_r1 := t_r1 t; p_next := p_next st; p_sell := t_book t; p_buy := p_buy st; p_disk := p_disk st |}, 0 :: enc_trade t)
      | Nil => (st, [1]) | Panic x => (st, [2; x])
      end
    else
      match sell_with_orders_x false (p_r1 st) (p_r0 st) (p_buy st) a 0 with
      | Val t => ({| p_r0 := t_r1 t; p_r1 := t_r0 t; p_next := p_next st; p_sell := p_sell st; p_buy := t_book t; p_disk := p_disk st |}, 0 :: enc_trade t)
      | Nil => (st, [1]) | Panic x => (st, [2; x])
      end
  | [3; dir; o] =>
    if dir =? 1 then
      match buy_with_orders_x true (p_r0 st) (p_r1 st) (p_sell st) o o with
      | Val t => ({| p_r0 := t_r0 t; p_r1 := t_r1 t; p_next := p_next st; p_sell := t_book t; p_buy := p_buy st; p_disk := p_disk st |}, 0 :: enc_trade t)
      | Nil => (st, [1]) | Panic x => (st, [2; x])
      end
    else
      match buy_with_orders_x false (p_r1 st) (p_r0 st) (p_buy st) o o with
      | Val t => ({| p_r0 := t_r1 t; p_r1 := t_r0 t; p_next := p_next st; p_sell := p_sell st; p_buy := t_book t; p_disk := p_disk st |}, 0 :: enc_trade t)
      | Nil => (st, [1]) | Panic x => (st, [2; x])
      end
  | [4; id] =>
    if negb (existsb (Z.eqb id) (p_disk st)) then (st, [0]) else   (* loadOrder finds nothing on disk *)
    match remove_order id (p_sell st) with
    | Some (b', l) => ({| p_r0 := p_r0 st; p_r1 := p_r1 st; p_next := p_next st; p_sell := b'; p_buy := p_buy st; p_disk := p_disk st |}, [osell l])
    | None =>
      match remove_order id (p_buy st) with
      | Some (b', l) => ({| p_r0 := p_r0 st; p_r1 := p_r1 st; p_next := p_next st; p_sell := p_sell st; p_buy := b'; p_disk := p_disk st |}, [osell l])
      | None => (st, [0])
      end
    end
  | [5] => ({| p_r0 := p_r0 st; p_r1 := p_r1 st; p_next := p_next st; p_sell := p_sell st; p_buy := p_buy st;
              p_disk := map oid (p_sell st) ++ map oid (p_buy st) |}, [0])
  | [6; dir] => (st, enc_book (if dir =? 1 then p_sell st else p_buy st))
  | [7] => (st, [0])
  | [8; dir; a] =>   (* CalculateBuyForSellWithOrders (read-only) *)
    let '(r0, r1, bk) := if dir =? 1 then (p_r0 st, p_r1 st, p_sell st) else (p_r1 st, p_r0 st, p_buy st) in
    let ain := if 0 <? a then a - com1000 a else a in
    (st, enc_outcome (fun x => fst x :: enc_fills (snd x)) (bfs_loop_x r0 r1 ain bk))
  | [9; dir; o] =>   (* CalculateSellForBuyWithOrders (read-only) *)
    let '(r0, r1, bk) := if dir =? 1 then (p_r0 st, p_r1 st, p_sell st) else (p_r1 st, p_r0 st, p_buy st) in
    (st, enc_outcome (fun x => (if 0 <? fst x then fst x + com0999 (fst x) else fst x) :: enc_fills (snd x))
                     (sfb_loop_x r0 r1 o bk))
  | _ => (st, [-1])
  end.

Fixpoint run_states {S} (step : S -> list Z -> S * list Z) (st : S) (ops : list (list Z)) : list (list Z) :=
  match ops with
  | [] => []
  | op :: rest => let '(st', out) := step st op in out :: run_states step st' rest
  end.

Definition pool3_init : pstate := {| p_r0 := 0; p_r1 := 0; p_next := 1; p_sell := []; p_buy := []; p_disk := [] |}.

(* model 4: governance decisions (C20): [1; total; n; v_1..v_n; votedHalt] *)
Definition run_govern_op (op : list Z) : list Z :=
  match op with
  | 1 :: total :: n :: rest =>
    let props := firstn (Z.to_nat n) rest in
    let vh := nth (Z.to_nat n) rest 0 in
    [ (if halted total vh then 1 else 0); decide total props; decide total props ]
  | _ => [-1]
  end.

(* model 5: the appdb layer (C09/C10/C29): ops on (disk, mem) *)
Fixpoint enc_versions (l : list (Z * Z)) : list Z :=
  match l with [] => [] | (n, h) :: r => n :: h :: enc_versions r end.
Fixpoint dec_versions (l : list Z) : list (Z * Z) :=
  match l with n :: h :: r => (n, h) :: dec_versions r | _ => [] end.

Definition enc_view (v : view) : list Z :=
  [v_height v; v_start v] ++ (Z.of_nat (length (v_vals v)) :: v_vals v) ++
  (Z.of_nat (length (v_times v)) :: v_times v) ++
  (Z.of_nat (length (v_versions v)) :: enc_versions (v_versions v)) ++
  (match v_emission v with Some e => [1; e] | None => [0] end) ++
  (match v_price v with Some p => 1 :: p | None => [0] end).

Definition code_guard : bool := guard_SaveEmission =? 1.

Definition appdb_step (s : Persist.st) (op : list Z) : Persist.st * list Z :=
  match op with
  | 1 :: vals => (apply_set s (SetVals vals), [0])
  | [2; t] => (apply_set s (AddTime t), [0])
  | [3; n; h] => (apply_set s (AddVersion n h), [0])
  | [4; e] => (apply_set s (SetEmission e), [0])
  | 5 :: p => (apply_set s (SetPrice p), [0])
  | [6; h; hash] => (commit code_guard s h hash, [0])
  | [7] => (restart s, [0])
  | [8] => (s, enc_view (view_of s))
  | [9; start] =>   (* InitChain: SetStartHeight; SaveStartHeight *)
    let '(d, m) := s in
    (({| d_height := d_height d; d_hash := d_hash d; d_start := Some start; d_vals := d_vals d; d_times := d_times d;
         d_versions := d_versions d; d_emission := d_emission d; d_price := d_price d |},
      {| m_height := m_height m; m_start := start; m_vals := m_vals m; m_times := m_times m; m_versions := m_versions m;
         m_dirtyV := m_dirtyV m; m_emission := m_emission m; m_dirtyE := m_dirtyE m; m_price := m_price m; m_dirtyP := m_dirtyP m |}), [0])
  | _ => (s, [-1])
  end.

(* model 6: rewards (C19) *)
Fixpoint dec_vals (n : nat) (l : list Z) : list val :=
  match n, l with
  | S n', s :: a :: p :: d :: r => {| vid := 0; vstake := s; vaccum := a; vpresent := negb (p =? 0); vdrop := negb (d =? 0) |} :: dec_vals n' r
  | _, _ => []
  end.
Fixpoint dec_stakes (n : nat) (l : list Z) : list stake :=
  match n, l with
  | S n', o :: c :: b :: x :: r => {| s_owner := o; s_coin := c; s_bip := b; s_x3 := negb (x =? 0) |} :: dec_stakes n' r
  | _, _ => []
  end.
Definition enc_pays (l : list pay) : list Z :=
  Z.of_nat (length l) :: flat_map (fun p => [p_role p; p_owner p; p_coin p; p_amount p]) l.

Definition run_rewards_op (op : list Z) : list Z :=
  match op with
  | 1 :: reward :: pool :: n :: rest =>
    let '(vals', rem) := accrue reward pool (dec_vals (Z.to_nat n) rest) in
    map vaccum vals' ++ [rem]
  | 2 :: cr :: sr :: period :: tA :: tS :: accum :: vtotal :: comm :: raddr :: n :: rest =>
    enc_outcome (fun po => [po_more po; po_slashed po] ++ enc_pays (po_pays po))
                (pay_validator cr sr period tA tS accum vtotal comm raddr (dec_stakes (Z.to_nat n) rest))
  | _ => [-1]
  end.

(* model 10: RLP codec and signature values (C23) *)
Definition run_rlp_op (op : list Z) : list Z :=
  match op with
  | 1 :: bytes =>      (* generic decode; accepted -> the re-encoded bytes *)
    match decode bytes with Some i => 1 :: encode i | None => [0] end
  | 2 :: bytes =>      (* rlp.DecodeBytes(b, &transaction.Transaction{}) *)
    match dec_tx bytes with
    | Some t => [1; t_nonce t; t_chain t; t_gasprice t; t_gascoin t; t_type t; t_sigtype t;
                 len (t_data t); len (t_payload t); len (t_service t)]
    | None => [0]
    end
  | [3; v; r; s] => [if validate_sig v r s then 1 else 0]
  | 4 :: bytes =>      (* check.DecodeFromBytes *)
    match dec_chk bytes with
    | Some k => [1; len (k_nonce k); k_chain k; k_due k; k_coin k; k_value k; k_gascoin k;
                 k_lock k; k_v k; k_r k; k_s k]
    | None => [0]
    end
  | 5 :: bytes =>      (* rlp.DecodeBytes(b, &transaction.Signature{}) *)
    match dec_sig bytes with Some g => [1; s_v g; s_r g; s_s g] | None => [0] end
  | _ => [-1]
  end.

Definition dispatch (model : Z) (ops : list (list Z)) : list (list Z) :=
  match model with
  | 1 => map run_pool_op ops
  | 2 => map run_float_op ops
  | 3 => run_states pool3_step pool3_init ops
  | 4 => map run_govern_op ops
  | 5 => run_states appdb_step (empty_disk, empty_mem) ops
  | 6 => map run_rewards_op ops
  | 7 => run_states ledger_step ledger_init ops
  | 10 => map run_rlp_op ops
  | 11 => EventStore.evstore_run ops
  | 12 => map run_bancor_op ops
  | 14 => map Punish.run_punish_op ops
  | 15 => map Ranking.run_ranking_op ops
  | 16 => Crash.crash_run ops
  | 18 => map GenesisRun.run_genesis_op ops
  | 19 => run_states SwapTxRun.swaptx_step SwapTxRun.swaptx_init ops
  | 24 => map CoinSupply.run_coinsupply_op ops
  | 23 => map PowerTable.run_powertable_op ops
  | 22 => map FeeRoute.run_feeroute_op ops
  | 21 => map CandAuth.run_candauth_op ops
  | 20 => run_states ScheduleRun.schedule_step ScheduleRun.schedule_init ops
  | 13 => run_states RewardRule.rewardrule_step RewardRule.rewardrule_init ops
  | _ => map (fun _ => [-1]) ops
  end.

(* used by the vm_compute cross-check (work/cases_Cxx.v written by bin/check) *)
(* -999 in an observed output is a wildcard (a value the harness cannot observe) *)
Fixpoint zl_eqb (a b : list Z) : bool :=
  match a, b with
  | [], [] => true
  | x :: a', y :: b' => ((x =? y) || (y =? -999)) && zl_eqb a' b'
  | _, _ => false
  end.
Fixpoint zll_eqb (a b : list (list Z)) : bool :=
  match a, b with
  | [], [] => true
  | x :: a', y :: b' => zl_eqb x y && zll_eqb a' b'
  | _, _ => false
  end.
Definition count_mismatches (cs : list (Z * list (list Z) * list (list Z))) : nat :=
  length (filter (fun c => let '(m, ops, outs) := c in negb (zll_eqb (dispatch m ops) outs)) cs).
