(* RewardRule.v — the block-reward rule (property C28): the update test of
   Blockchain.BeginBlock, AppDB.UpdatePriceFix, App.SetReward, and the emission / burn
   bookkeeping of Blockchain.EndBlock, transliterated.  Executable, no proofs.

   Go anchors (line numbers of the pinned tree):
     coreV2/minter/blockchain.go:279-293  BeginBlock: cap test, window test, SetReward
     coreV2/minter/blockchain.go:417-423  EndBlock: reward only while emission < cap
     coreV2/minter/blockchain.go:476-485  EndBlock: emission += rewardForBlock, burn, volume
     coreV2/appdb/appdb.go:455-495        UpdatePriceFix
     coreV2/appdb/appdb.go:541-553,575-597 SetPrice / GetPrice (time kept as UnixNano uint64)
     coreV2/state/app/app.go:183-190      SetReward (no-op when old and new safe reward are 0)
     coreV2/state/state.go:292            Import: reward = safe reward = PrevReward.Reward
   Constants come from Generated/Consts.v (names rw_...), regenerated from those files.

   Not modelled: UpdatePriceBug (only before version v320), the one-off emission fix of
   v330, and the float computation of priceCount = Int(350 * 1e18 * (r1/r0)^0.25), which is
   an ORACLE argument [pc] everywhere and is validated separately by [price_count_ok]. *)
From Minter Require Export Base Consts.
Open Scope Z_scope.

(* the price record of the appdb ("price" key): AppDB.price *TimePrice *)
Record price_rec := { pr_t : Z;      (* T, read back as int64 nanoseconds since 1970 *)
                      pr_r0 : Z;     (* BIP reserve at the last update *)
                      pr_r1 : Z;     (* USDT reserve at the last update *)
                      pr_last : Z;   (* Last: validators' reward level *)
                      pr_off : bool  (* Off: recovering after a drop *) }.

Record rstate := {
  rs_price : option price_rec;  (* None: no record in the appdb (GetPrice returns time.Time{}) *)
  rs_reward : Z;     (* stateDeliver.App.Reward() first component: validators' block reward *)
  rs_safe : Z;       (* second component: the price-derived ("safe") reward *)
  rs_emission : Z;   (* appDB.Emission() *)
  rs_burned : Z;     (* total credited to the zero address by EndBlock *)
  rs_minted : Z      (* total added to the base-coin volume by EndBlock *)
}.

Definition with_price (s : rstate) (p : option price_rec) : rstate :=
  {| rs_price := p; rs_reward := rs_reward s; rs_safe := rs_safe s;
     rs_emission := rs_emission s; rs_burned := rs_burned s; rs_minted := rs_minted s |}.

(* App.SetReward: returns early, changing nothing, when the stored safe reward and the new one
   are both zero (app.go:186); otherwise stores both values.  (Model.setReward stores
   big.Int.Bytes(), i.e. absolute values; all values here are non-negative.) *)
Definition set_reward (s : rstate) (nr ns : Z) : rstate :=
  if (rs_safe s =? ns) && (ns =? 0) then s else
  {| rs_price := rs_price s; rs_reward := nr; rs_safe := ns;
     rs_emission := rs_emission s; rs_burned := rs_burned s; rs_minted := rs_minted s |}.

(* int64(uint64 T): how a stored / genesis time is read back (GetPrice, InitChain) *)
Definition as_int64 (T : Z) : Z := if T <? 2 ^ 63 then T else T - 2 ^ 64.

(* t.IsZero() for the time GetPrice returns: time.Time{} when there is no record; for a
   record it is time.Unix(0, int64 T), a year between 1677 and 2262, never year 1 *)
Definition is_zero_time (p : option price_rec) : bool :=
  match p with None => true | Some _ => false end.

Definition stored_time (p : option price_rec) : Z := match p with Some r => pr_t r | None => 0 end.

(* the test of blockchain.go:281 (Go precedence: a && b && (z || (h1 && h2) && gap)); [hour] is
   req.Header.Time.Hour(), [t_new] the block time in nanoseconds.  Time.Sub saturates at the
   int64 range, which does not change the comparison with 3 h. *)
Definition in_window (hour : Z) : bool := (rw_hour_from <=? hour) && (hour <=? rw_hour_to).

Definition should_update (height period hour t_new : Z) (p : option price_rec) (pool_exists : bool) : bool :=
  pool_exists && (height mod period =? rw_period_offset) &&
  (is_zero_time p || in_window hour && (rw_gap_ns <? t_new - stored_time p)).

(* the percentage change computed with big.Rat in UpdatePriceFix:
     rat = ((r1/r0 - R1/R0) / (R1/R0)) * 100,  diff = rat.Num() Div rat.Denom()
   big.Rat keeps the denominator positive, so the Euclidean Div is the floor of the exact value:
   floor (100 * (r1*R0 - R1*r0) / (r0*R1)); Coq's Z.div is the floor for either sign of the divisor *)
Definition pct_change (R0 R1 r0 r1 : Z) : Z := (rw_pct * (r1 * R0 - R1 * r0)) / (r0 * R1).

Definition mk_price (t r0 r1 last : Z) (off : bool) : price_rec :=
  {| pr_t := t; pr_r0 := r0; pr_r1 := r1; pr_last := last; pr_off := off |}.

(* AppDB.UpdatePriceFix(t, r0, r1) with the oracle value pc; result: (new record, reward, safe).
   Panic sites: 2801 SetFrac(r1, r0) with r0 = 0; 2802 SetFrac(reserve1, reserve0) with a stored
   BIP reserve 0; 2803 Quo by fOld = 0 (stored USDT reserve 0). *)
Definition update_price_fix (p : option price_rec) (t r0 r1 pc : Z) : outcome (price_rec * Z * Z) :=
  if r0 =? 0 then Panic 2801 else
  match p with
  | None => Val (mk_price t r0 r1 pc false, pc, pc)
  | Some o =>
    if pr_r0 o =? 0 then Panic 2802 else
    if pr_r1 o =? 0 then Panic 2803 else
    let diff := pct_change (pr_r0 o) (pr_r1 o) r0 r1 in
    if diff <=? rw_drop then Val (mk_price t r0 r1 0 true, 0, pc) else
    if pr_off o && (pr_last o <? pc) then
      let last := pr_last o + rw_step in
      if pc - last <=? 0 then Val (mk_price t r0 r1 pc false, pc, pc)
      else Val (mk_price t r0 r1 last true, last, pc)
    else Val (mk_price t r0 r1 pc false, pc, pc)
  end.

(* the reward part of BeginBlock; pool = reserves of the BIP/USDT pool of the committed state *)
Definition begin_block (s : rstate) (height period hour t_new : Z) (pool : option (Z * Z)) (pc : Z) : outcome rstate :=
  if rs_emission s <? rw_total_emission then
    match pool with
    | None => Val s
    | Some (r0, r1) =>
      if period =? 0 then Panic 2800 (* height % 0 *) else
      if should_update height period hour t_new (rs_price s) true then
        obind (update_price_fix (rs_price s) t_new r0 r1 pc) (fun x =>
          let '(p', nr, ns) := x in Val (set_reward (with_price s (Some p')) nr ns))
      else Val s
    end
  else Val (set_reward s 0 0).

(* the reward part of EndBlock.  rewardForBlock is read through CurrentState(), which wraps the
   very same State object as stateDeliver (blockchain.go:206), so it is the safe reward as set by
   this block's BeginBlock.  [more] = moreRewards returned by PayRewards on a payout block (0 otherwise, and 0 without
   locked stakes); at/after the cap PayRewards is called with height = MaxUint64, for which no
   stake counts as locked, so [more] is not read.  Result: (state, burn of this block, base-coin
   volume minted by this block). *)
Definition end_block (s : rstate) (more : Z) : rstate * (Z * Z) :=
  if rs_emission s <? rw_total_emission then
    let d := rs_safe s - rs_reward s in
    let burn := if 0 <? d then d else 0 in
    ({| rs_price := rs_price s; rs_reward := rs_reward s; rs_safe := rs_safe s;
        rs_emission := rs_emission s + more + rs_safe s; rs_burned := rs_burned s + burn;
        rs_minted := rs_minted s + more + rs_reward s + burn |}, (burn, more + rs_reward s + burn))
  else (s, (0, 0)).

(* ---- histories ------------------------------------------------------------------------- *)
Record rblock := { rb_height : Z; rb_hour : Z; rb_time : Z; rb_pool : option (Z * Z); rb_pc : Z; rb_more : Z }.

Definition rr_run_block (period : Z) (s : rstate) (b : rblock) : outcome rstate :=
  obind (begin_block s (rb_height b) period (rb_hour b) (rb_time b) (rb_pool b) (rb_pc b)) (fun s1 =>
  Val (fst (end_block s1 (rb_more b)))).

Fixpoint rr_run_history (period : Z) (s : rstate) (bs : list rblock) : outcome rstate :=
  match bs with
  | [] => Val s
  | b :: rest => obind (rr_run_block period s b) (fun s' => rr_run_history period s' rest)
  end.

(* state right after InitChain: Import sets reward = safe = PrevReward.Reward, InitChain stores
   the price record with PrevReward.Time read back as int64 *)
Definition genesis_state (T R0 R1 last : Z) (off : bool) (emission : Z) : rstate :=
  {| rs_price := Some (mk_price (as_int64 T) R0 R1 last off); rs_reward := last; rs_safe := last;
     rs_emission := emission; rs_burned := 0; rs_minted := 0 |}.

(* ---- the oracle's specification ----------------------------------------------------------
   exact value: the largest X with X^4 * r0 <= (350*10^18)^4 * r1 *)
Definition rw_K : Z := rw_coeff * rw_unit.
Definition is_root (r0 r1 X : Z) : Prop :=
  0 <= X /\ X ^ rw_root * r0 <= rw_K ^ rw_root * r1 < (X + 1) ^ rw_root * r0.

(* tolerance: relative 2^-40 plus one unit for the final truncation *)
Definition pc_tol (x : Z) : Z := x / 2 ^ 40 + 1.

(* two-sided check: the exact root lies in [x - tol, x + tol] *)
Definition price_count_ok (r0 r1 x : Z) : bool :=
  let t := pc_tol x in
  let lo := Z.max 0 (x - t) in
  (0 <=? x) && (0 <? r0) && (lo ^ rw_root * r0 <=? rw_K ^ rw_root * r1) &&
  (rw_K ^ rw_root * r1 <? (x + t + 1) ^ rw_root * r0).

(* ---- dispatcher entry (model 13) ----------------------------------------------------------
   [0; T; R0; R1; last; off; reward; safe; emission; period]   state after InitChain        -> [0]
   [1; height; t_nanos; hour; pool_exists; r0; r1; pc]          reward part of BeginBlock
        -> [0; reward; safe; t; r0; r1; last; off] (stored record after the block) | [2; site]
   [2] / [2; more]                                               EndBlock -> [emission; burn; minted]
   [3; r0; r1; x]                                                oracle validation -> [1] iff price_count_ok
   [4; has; T; R0; R1; last; off; t; r0; r1; pc]                 UpdatePriceFix alone on a given record
        -> [0; reward; safe; t; r0; r1; last; off] | [2; site] *)
Record rr_state := { rr_s : rstate; rr_period : Z }.

Definition b2z (b : bool) : Z := if b then 1 else 0.

Definition enc_rec (p : option price_rec) : list Z :=
  match p with
  | Some r => [pr_t r; pr_r0 r; pr_r1 r; pr_last r; b2z (pr_off r)]
  | None => [-1; -1; -1; -1; -1]
  end.

Definition rewardrule_init : rr_state :=
  {| rr_s := {| rs_price := None; rs_reward := 0; rs_safe := 0; rs_emission := 0;
                rs_burned := 0; rs_minted := 0 |}; rr_period := 1 |}.

Definition rewardrule_step (st : rr_state) (op : list Z) : rr_state * list Z :=
  match op with
  | [0; T; R0; R1; last; off; reward; safe; emission; period] =>
    ({| rr_s := {| rs_price := Some (mk_price (as_int64 T) R0 R1 last (negb (off =? 0)));
                   rs_reward := reward; rs_safe := safe; rs_emission := emission;
                   rs_burned := 0; rs_minted := 0 |}; rr_period := period |}, [0])
  | [1; height; t; hour; pe; r0; r1; pc] =>
    match begin_block (rr_s st) height (rr_period st) hour t (if pe =? 0 then None else Some (r0, r1)) pc with
    | Val s' => ({| rr_s := s'; rr_period := rr_period st |}, [0; rs_reward s'; rs_safe s'] ++ enc_rec (rs_price s'))
    | Nil => (st, [1])
    | Panic x => (st, [2; x])
    end
  | [2] =>
    let '(s', (burn, mint)) := end_block (rr_s st) 0 in
    ({| rr_s := s'; rr_period := rr_period st |}, [rs_emission s'; burn; mint])
  | [2; more] =>
    let '(s', (burn, mint)) := end_block (rr_s st) more in
    ({| rr_s := s'; rr_period := rr_period st |}, [rs_emission s'; burn; mint])
  | [3; r0; r1; x] => (st, [b2z (price_count_ok r0 r1 x)])
  | [4; has; T; R0; R1; last; off; t; r0; r1; pc] =>
    (st, enc_outcome (fun x => let '(p', nr, ns) := x in [nr; ns] ++ enc_rec (Some p'))
           (update_price_fix (if has =? 0 then None else Some (mk_price (as_int64 T) R0 R1 last (negb (off =? 0)))) t r0 r1 pc))
  | _ => (st, [-1])
  end.
