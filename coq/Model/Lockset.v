(* Lockset.v — a tiny threads-with-locks semantics (Go sync.RWMutex: W exclusive, R shared,
   acquisition blocks otherwise), the lockset discipline as a decidable checker, the access
   table format emitted by harness/cmd/xlate/locks.go, and the memoisation model of C25.
   No proofs here (Proofs/LocksetFacts.v). *)
From Coq Require Import List Bool Arith ZArith String.
Import ListNotations.

(* ---- threads, mutexes, fields ------------------------------------------------------ *)
Notation tid := nat (only parsing).
Notation mutex := string (only parsing).   (* "Struct.mutexField", e.g. "SwapV2.muPairs" *)
Notation field := string (only parsing).   (* "Struct.field",      e.g. "SwapV2.pairs"   *)

Inductive mode := MR | MW.

Inductive action :=
| Acq (m : mutex) (md : mode)   (* m.RLock() / m.Lock()     *)
| Rel (m : mutex)               (* m.RUnlock() / m.Unlock() *)
| Read (f : field)
| Write (f : field).

Definition thread := list action.

(* state of one RWMutex: the reader threads (one entry per RLock) and the writer thread *)
Record mstate := MS { readers : list tid; writer : option tid }.
Definition free_mutex : mstate := MS [] None.

Definition locks := mutex -> mstate.
Definition upd_lock (L : locks) (m : mutex) (s : mstate) : locks :=
  fun m' => if String.eqb m' m then s else L m'.

Definition progs := tid -> thread.
Definition upd_prog (P : progs) (i : tid) (p : thread) : progs :=
  fun j => if Nat.eqb j i then p else P j.

Record config := Cfg { c_locks : locks; c_progs : progs }.

Fixpoint remove_one (i : tid) (l : list tid) : list tid :=
  match l with
  | [] => []
  | j :: r => if Nat.eqb j i then r else j :: remove_one i r
  end.

(* exec L i a = Some L' : thread i can perform a in lock state L, giving L';
   None: the thread is blocked (Acq) or the runtime faults (Rel of a mutex not held) *)
Definition exec (L : locks) (i : tid) (a : action) : option locks :=
  match a with
  | Acq m MW =>
      match L m with
      | MS [] None => Some (upd_lock L m (MS [] (Some i)))
      | _ => None
      end
  | Acq m MR =>
      match writer (L m) with
      | None => Some (upd_lock L m (MS (i :: readers (L m)) None))
      | Some _ => None
      end
  | Rel m =>
      match writer (L m) with
      | Some j => if Nat.eqb j i then Some (upd_lock L m (MS (readers (L m)) None)) else None
      | None =>
          if existsb (Nat.eqb i) (readers (L m))
          then Some (upd_lock L m (MS (remove_one i (readers (L m))) None))
          else None
      end
  | Read _ => Some L
  | Write _ => Some L
  end.

(* interleaving semantics: any thread whose next action is enabled may move *)
Inductive step : config -> config -> Prop :=
| Step : forall L P i a rest L',
    P i = a :: rest -> exec L i a = Some L' ->
    step (Cfg L P) (Cfg L' (upd_prog P i rest)).

Inductive reach (c0 : config) : config -> Prop :=
| reach_refl : reach c0 c0
| reach_step : forall c c', reach c0 c -> step c c' -> reach c0 c'.

Definition init (P : progs) : config := Cfg (fun _ => free_mutex) P.

(* the access a thread is about to perform: (field, is it a write) *)
Definition next_access (p : thread) : option (field * bool) :=
  match p with
  | Read f :: _ => Some (f, false)
  | Write f :: _ => Some (f, true)
  | _ => None
  end.

(* RACE: two different threads are both about to access the same field, one a Write.
   (On a Go map this is exactly the situation in which the runtime may throw
   "concurrent map read and map write" / "concurrent map iteration and map write".) *)
Definition race (c : config) : Prop :=
  exists i j f wi wj, i <> j /\
    next_access (c_progs c i) = Some (f, wi) /\
    next_access (c_progs c j) = Some (f, wj) /\
    (wi || wj) = true.

(* ---- the discipline, as a checker ---------------------------------------------------- *)
Definition lockset := list (mutex * mode).

Definition is_w (md : mode) : bool := match md with MW => true | MR => false end.
Definition holds_m (h : lockset) (m : mutex) : bool :=
  existsb (fun x => String.eqb (fst x) m) h.
Definition holds_w (h : lockset) (m : mutex) : bool :=
  existsb (fun x => String.eqb (fst x) m && is_w (snd x)) h.
Definition drop_m (h : lockset) (m : mutex) : lockset :=
  filter (fun x => negb (String.eqb (fst x) m)) h.

(* guard f: the mutexes guarding field f.  A READ needs one of them (any mode), a WRITE all of
   them in W mode (and there must be one): the read/write-lockset discipline. *)
Definition read_ok (h : lockset) (gs : list mutex) : bool := existsb (holds_m h) gs.
Definition write_ok (h : lockset) (gs : list mutex) : bool :=
  match gs with [] => false | _ => forallb (holds_w h) gs end.

(* run_ls guard h p: follow the thread's own lockset h along p; None as soon as the thread
   - acquires a mutex it already holds (Go RWMutex is not reentrant),
   - releases a mutex it does not hold (not well bracketed),
   - reads f without a guard of f held, or writes f without all guards of f held in W mode;
   otherwise the lockset at the end of p. *)
Fixpoint run_ls (guard : field -> list mutex) (h : lockset) (p : thread) : option lockset :=
  match p with
  | [] => Some h
  | Acq m md :: r => if holds_m h m then None else run_ls guard ((m, md) :: h) r
  | Rel m :: r => if holds_m h m then run_ls guard (drop_m h m) r else None
  | Read f :: r => if read_ok h (guard f) then run_ls guard h r else None
  | Write f :: r => if write_ok h (guard f) then run_ls guard h r else None
  end.

Definition thread_ok (guard : field -> list mutex) (p : thread) : bool :=
  match run_ls guard [] p with Some _ => true | None => false end.

(* ---- the access table (Generated/Locks.v) -------------------------------------------- *)
Record access := Acc {
  a_file : string;           (* path below the repo root                                   *)
  a_func : string;           (* "Recv.Method" or "func"; "#n" suffix: n-th function literal *)
  a_line : Z;
  a_field : field;
  a_write : bool;
  a_held : lockset;          (* MUST-held locks at the access, in acquisition order          *)
  a_via : string;            (* "local": all acquired in this function; "callers": some inherited
                                from every call site; "" none held                           *)
  a_api : bool;              (* reachable from a read-only (query) entry point               *)
  a_init : bool              (* allow-listed: runs before the object is shared               *)
}.

Definition acc_action (a : access) : action :=
  if a_write a then Write (a_field a) else Read (a_field a).

(* one access as a well-bracketed critical section: acquire the held locks in order,
   access, release in reverse order *)
Definition block_of (a : access) : thread :=
  map (fun x => Acq (fst x) (snd x)) (a_held a) ++ [acc_action a]
  ++ map (fun x => Rel (fst x)) (rev (a_held a)).

Definition guard_of (tbl : list (field * list mutex)) (f : field) : list mutex :=
  match find (fun x => String.eqb (fst x) f) tbl with
  | Some x => snd x
  | None => []              (* a field without an entry has no guard: every access fails *)
  end.

Definition site_guarded (guard : field -> list mutex) (a : access) : bool :=
  match run_ls guard [] (block_of a) with Some [] => true | _ => false end.

(* a field is SHARED when some access to it outside initialisation is reachable from a query
   entry point; fields touched by the block executor only cannot race (one thread) *)
Definition shared_field (tbl : list access) (f : field) : bool :=
  existsb (fun a => a_api a && negb (a_init a) && String.eqb (a_field a) f) tbl.

Definition relevant (tbl : list access) (a : access) : bool :=
  negb (a_init a) && shared_field tbl (a_field a).

Definition site_ok (guard : field -> list mutex) (tbl : list access) (a : access) : bool :=
  negb (relevant tbl a) || site_guarded guard a.

Definition all_guarded (guard : field -> list mutex) (tbl : list access) : bool :=
  forallb (site_ok guard tbl) tbl.

(* the key the harness reports for an unguarded site *)
Definition site_key (a : access) : string :=
  ("c25-unguarded:" ++ a_file a ++ ":" ++ a_func a ++ ":" ++ a_field a)%string.

Fixpoint dedup (l : list string) : list string :=
  match l with
  | [] => []
  | x :: r => if existsb (String.eqb x) r then dedup r else x :: dedup r
  end.

Definition unguarded_keys (guard : field -> list mutex) (tbl : list access) : list string :=
  dedup (map site_key (filter (fun a => negb (site_ok guard tbl a)) tbl)).

(* writes performed on the query side (the memoisation sites of C25_memo_transparent) *)
Definition query_write_keys (tbl : list access) : list string :=
  dedup (map (fun a => (a_func a ++ ":" ++ a_field a)%string)
             (filter (fun a => a_api a && a_write a && negb (a_init a)) tbl)).

(* the table without the sites whose key is listed *)
Definition without (keys : list string) (tbl : list access) : list access :=
  filter (fun a => negb (existsb (String.eqb (site_key a)) keys)) tbl.

(* ---- lock order (deadlock candidates) ------------------------------------------------- *)
(* edges (held, acquired, on a query path, witness) from Generated/Locks.v.  Two mutexes a, b are
   reported when a query path takes them in one order (all edges of that path on query paths) and some
   path (query or block execution) takes them in the other: two threads are needed for a deadlock and
   block execution is a single thread.  Reported only: the race theorem does not cover deadlocks. *)
Definition lo_edge := (string * string * bool * string)%type.
Definition lo_from (e : lo_edge) : string := fst (fst (fst e)).
Definition lo_to (e : lo_edge) : string := snd (fst (fst e)).
Definition lo_api (e : lo_edge) : bool := snd (fst e).

Definition lo_succs (only_api : bool) (edges : list lo_edge) (a : string) : list string :=
  map lo_to (filter (fun e => String.eqb (lo_from e) a && (negb only_api || lo_api e)) edges).

Fixpoint lo_reach_set (only_api : bool) (edges : list lo_edge) (fuel : nat) (front : list string) : list string :=
  match fuel with
  | O => front
  | S k => lo_reach_set only_api edges k (dedup (front ++ flat_map (lo_succs only_api edges) front))
  end.

Definition lo_reaches (only_api : bool) (edges : list lo_edge) (n : nat) (a b : string) : bool :=
  existsb (String.eqb b) (lo_reach_set only_api edges n (lo_succs only_api edges a)).

Definition lo_opposite (edges : list lo_edge) (n : nat) (a b : string) : bool :=
  (lo_reaches true edges n a b && lo_reaches false edges n b a)
  || (lo_reaches true edges n b a && lo_reaches false edges n a b).

Fixpoint lo_cycle_keys (edges : list lo_edge) (n : nat) (l : list string) : list string :=
  match l with
  | [] => []
  | a :: r =>
      map (fun b => ("c25-lock-order:" ++ a ++ "|" ++ b)%string) (filter (lo_opposite edges n a) r)
      ++ lo_cycle_keys edges n r
  end.

(* nodes must list every endpoint (else the answer says so) *)
Definition lock_cycle_keys (edges : list lo_edge) (nodes : list string) : list string :=
  if forallb (fun e => existsb (String.eqb (lo_from e)) nodes && existsb (String.eqb (lo_to e)) nodes) edges
  then lo_cycle_keys edges (List.length nodes) nodes
  else ["c25-lock-order:NODE-LIST-INCOMPLETE"%string].

(* ---- memoisation --------------------------------------------------------------------- *)
(* The state modules keep maps that are at once the executor's write buffer and a cache of
   decoded tree values; queries fill the cache.  key -> option val is such a map,
   truth k the value the committed tree holds for k. *)
Definition key := Z.
Definition val := Z.
Definition cache := key -> option val.

Inductive mact :=
| EGet (k : key)             (* executor: read k (hit, or load from the tree and memoise) *)
| ESet (k : key) (v : val)   (* executor: write k (dirty entry)                          *)
| QFill (k : key) (v : val)  (* query: in ONE critical section, if k is absent store v     *)
| QStore (k : key) (v : val). (* query: store v unconditionally — the second half of a fill
                                 whose absence check ran in an EARLIER critical section      *)

Definition cset (c : cache) (k : key) (v : val) : cache :=
  fun k' => if Z.eqb k' k then Some v else c k'.

Section Memo.
  Variable truth : key -> val.

  (* the logical content: what the executor reads and what Commit will write *)
  Definition view (c : cache) (k : key) : val :=
    match c k with Some v => v | None => truth k end.

  Definition mstep (c : cache) (a : mact) : cache * list val :=
    match a with
    | EGet k => (cset c k (view c k), [view c k])
    | ESet k v => (cset c k v, [])
    | QFill k v => (match c k with None => cset c k v | Some _ => c end, [])
    | QStore k v => (cset c k v, [])
    end.

  Fixpoint mrun (c : cache) (tr : list mact) : cache * list val :=
    match tr with
    | [] => (c, [])
    | a :: r => let '(c1, o1) := mstep c a in let '(c2, o2) := mrun c1 r in (c2, o1 ++ o2)
    end.

  Definition is_query (a : mact) : bool :=
    match a with QFill _ _ => true | QStore _ _ => true | _ => false end.

  (* every query-side store is an ATOMIC fill with the memoised tree value *)
  Definition memo_only (tr : list mact) : bool :=
    forallb (fun a => match a with QFill k v => Z.eqb v (truth k) | QStore _ _ => false | _ => true end) tr.

  (* weaker: every query-side store, atomic or not, stores the tree value *)
  Definition memo_values (tr : list mact) : bool :=
    forallb (fun a => match a with QFill k v => Z.eqb v (truth k) | QStore k v => Z.eqb v (truth k) | _ => true end) tr.

  (* the executor's own program: the trace without the query actions *)
  Definition erase (tr : list mact) : list mact := filter (fun a => negb (is_query a)) tr.
End Memo.
