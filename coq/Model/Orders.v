(* Orders.v — limit orders and the order-crossing trade of orderV2.go, over the abstract
   order book (a list sorted by the 53-bit price key and id).  The lazily loaded, cached
   book of the implementation is NOT modelled; it is compared with this abstract book by
   the correspondence check.  Executable, no proofs. *)
From Minter Require Export Base Consts Pool Float.
Open Scope Z_scope.

Record order := { oid : Z; obuy : Z; osell : Z; oowner : Z; oheight : Z }.

(* a fill of an order: (id, amount0 the maker receives = taker pays, amount1 the maker gives) *)
Record fill := { fid : Z; fbuy : Z; fsell : Z; fowner : Z }.

(* ---- calculateAddAmountsForPrice ------------------------------------------------ *)
(* float instance of the oracle: x1 = (-b + sqrt(d)) / (1000-c), all at 53 bits *)
Definition oracle_float (r0 r1 ob os : Z) : Z :=
  let P := 53 in
  let c := swap_commission in
  let price := of_rat P os ob in                       (* limit.Price() *)
  let f0 := of_int P r0 in let f1 := of_int P r1 in
  let k := fmul P f0 f1 in
  let r0q := fmul P f0 f0 in
  let b := fmul P (of_int P ((2000 - c) / 2)) f0 in
  let kmp := fmul P k (fquo P (of_int P 1) price) in
  let r0qs := fsub P r0q kmp in
  let d := fsub P (fmul P (of_int P ((2000 - c) * (2000 - c) / 4)) r0q)
                  (fmul P (of_int P (2000 * (1000 - c) / 2)) r0qs) in
  let x1 := fquo P (fadd P (fneg b) (fsqrt P d)) (of_int P (1000 - c)) in
  fint x1.

(* ---- the abstract book: sort key and insertion ------------------------------------- *)
(* dir = true: orders whose maker buys the sorted pair's coin0 (taker sells coin0);
   the key is the 53-bit price in the sorted orientation *)
Definition sort_key (dir : bool) (l : order) : fl :=
  if dir then of_rat order_precision (osell l) (obuy l)
  else of_rat order_precision (obuy l) (osell l).

(* before dir a b: a is consumed before b *)
Definition before (dir : bool) (a b : order) : bool :=
  let c := fcmp (sort_key dir a) (sort_key dir b) in
  let c := if dir then c else - c in
  if c =? 1 then true else if c =? 0 then oid a <? oid b else false.

Fixpoint insert_order (dir : bool) (l : order) (book : list order) : list order :=
  match book with
  | [] => [l]
  | x :: rest => if before dir l x then l :: x :: rest else x :: insert_order dir l rest
  end.

Definition sort_book (dir : bool) (ls : list order) : list order :=
  fold_right (insert_order dir) [] ls.

(* removeLimitOrder on the abstract book: returns (book', returned WantSell) or Nil when
   the id is not live *)
Fixpoint remove_order (id : Z) (book : list order) : option (list order * order) :=
  match book with
  | [] => None
  | l :: rest => if oid l =? id then Some (rest, l) else
                 match remove_order id rest with
                 | Some (r, x) => Some (l :: r, x)
                 | None => None
                 end
  end.

(* amount1 := Float.SetRat(priceRat * amount0).Int() *)
Definition rat_mul_int (os ob a0 : Z) : Z := fint (of_rat_auto (os * a0) ob).
(* amount0 := Float.SetRat(amount1 / priceRat).Int() *)
Definition rat_div_int (os ob a1 : Z) : Z := fint (of_rat_auto (a1 * ob) os).

Section WithOracle.
(* the float/sqrt step is an oracle: theorems quantify over it *)
Variable orc : Z -> Z -> Z -> Z -> Z.
(* amount1 := Float.SetRat(priceRat * amount0).Int() and amount0 := Float.SetRat(amount1 /
   priceRat).Int(): float rounding enters here too, so these are parameters as well; the
   executable instances are rat_mul_int / rat_div_int below *)
Variable rmi : Z -> Z -> Z -> Z.
Variable rdi : Z -> Z -> Z -> Z.

Definition add_amounts (r0 r1 : Z) (l : order) : outcome (Z * Z) :=
  let a0 := orc r0 r1 (obuy l) (osell l) in
  if negb (0 <? a0) then Nil else
  match calc_buy_for_sell r0 r1 a0 with
  | Val a1 => Val (a0, a1)
  | Nil => Nil
  | Panic s => Panic s
  end.


Definition mkfill (l : order) (b s : Z) : fill := {| fid := oid l; fbuy := b; fsell := s; fowner := oowner l |}.

(* result of the price-reaching pool leg *)
Inductive pre_res := PreBreak | PreGo (r0 r1 rem d0 d1 : Z).

(* calculateBuyForSellWithOrders: r0 r1 = virtual reserves, ain = remaining input,
   book = remaining orders (best first); returns (output, fills) — the Go loop's
   accumulators amountOut/orders are returned additively *)
Definition bfs_final (r0 r1 ain : Z) : outcome (Z * list fill) :=
  match calc_buy_for_sell r0 r1 ain with
  | Val d => if check_swap r0 r1 ain 0 0 d =? 0 then Val (d, []) else Panic 4
  | Nil => Val (0, [])
  | Panic s => Panic s
  end.

Definition bfs_pre (r0 r1 ain : Z) (l : order) : outcome pre_res :=
  (* pool price r1/r0 > order price s/b : first move the pool to the order's price *)
  if osell l * r0 <? r1 * obuy l then
    match add_amounts r0 r1 l with
    | Val (d0, d1) =>
      if negb (d0 <? ain) then Val PreBreak else
      if check_swap r0 r1 d0 0 0 d1 =? 0 then Val (PreGo (r0 + d0) (r1 - d1) (ain - d0) d0 d1)
      else Panic 4
    | Nil => Val (PreGo r0 r1 ain 0 0)
    | Panic s => Panic s
    end
  else Val (PreGo r0 r1 ain 0 0).

Definition bfs_partial (l : order) (ain : Z) : outcome (Z * list fill) :=
  let amount0 := ain - com1001 ain in
  let a1 := rmi (osell l) (obuy l) amount0 in
  if (a1 =? osell l) && negb (amount0 =? obuy l) then Panic 951 else     (* "neg BFS 0" *)
  let a1 := if osell l <? a1 then (if amount0 <? obuy l then osell l - 1 else osell l) else a1 in
  let a1 := if (a1 <? osell l) && (amount0 =? obuy l) then osell l else a1 in
  Val (a1 - com1000 a1, [mkfill l amount0 a1]).

Fixpoint bfs_loop (r0 r1 ain : Z) (book : list order) : outcome (Z * list fill) :=
  if ain =? 0 then Val (0, []) else
  match book with
  | [] => bfs_final r0 r1 ain
  | l :: rest =>
    if (obuy l <=? 0) || (osell l <=? 0) then Panic 950 else
    match bfs_pre r0 r1 ain l with
    | Panic s => Panic s
    | Nil => Nil
    | Val PreBreak => bfs_final r0 r1 ain
    | Val (PreGo r0' r1' ain' _ d1) =>
      if ain' - com1001 ain' <=? obuy l then
        (* partial (or exact) fill: the taker's remaining input ends inside this order *)
        match bfs_partial l ain' with
        | Val (o, fs) => Val (d1 + o, fs)
        | Nil => Nil | Panic s => Panic s
        end
      else
        let comS := com1000 (obuy l) in
        let comB := com1000 (osell l) in
        match bfs_loop (r0' + comS) (r1' + comB) (ain' - (obuy l + comS)) rest with
        | Val (o, fs) => Val (d1 + (osell l - comB) + o, mkfill l (obuy l) (osell l) :: fs)
        | Nil => Nil | Panic s => Panic s
        end
    end
  end.

(* calculateSellForBuyWithOrders: aout = remaining output wanted; returns (input, fills) *)
Definition sfb_final (r0 r1 aout : Z) : outcome (Z * list fill) :=
  match calc_sell_for_buy r0 r1 aout with
  | Val d => if check_swap r0 r1 d 0 0 aout =? 0 then Val (d, []) else Panic 4
  | Nil => if (r0 <? 1) || (r1 - aout <? 1) then Nil else Val (0, [])
  | Panic s => Panic s
  end.

Definition sfb_pre (r0 r1 aout : Z) (l : order) : outcome pre_res :=
  if osell l * r0 <? r1 * obuy l then
    match add_amounts r0 r1 l with
    | Val (d0, d1) =>
      if negb (d1 <? aout) then Val PreBreak else
      if check_swap r0 r1 d0 0 0 d1 =? 0 then Val (PreGo (r0 + d0) (r1 - d1) (aout - d1) d0 d1)
      else Panic 4
    | Nil => Val (PreGo r0 r1 aout 0 0)
    | Panic s => Panic s
    end
  else Val (PreGo r0 r1 aout 0 0).

Definition sfb_partial (l : order) (aout : Z) : outcome (Z * list fill) :=
  let amount1 := aout + com0999 aout in
  let a0 := rdi (osell l) (obuy l) amount1 in
  if (amount1 =? osell l) && negb (a0 =? obuy l) && negb (a0 <? obuy l) then Panic 952 else  (* "neg SFB 0" *)
  let a0 := if (amount1 =? osell l) && negb (a0 =? obuy l) then obuy l else a0 in
  let amount1 := if (amount1 <? osell l) && (a0 =? obuy l) then osell l else amount1 in
  Val (a0 + com1000 a0, [mkfill l a0 amount1]).

Fixpoint sfb_loop (r0 r1 aout : Z) (book : list order) : outcome (Z * list fill) :=
  if aout =? 0 then Val (0, []) else
  match book with
  | [] => sfb_final r0 r1 aout
  | l :: rest =>
    if (obuy l <=? 0) || (osell l <=? 0) then Panic 950 else
    match sfb_pre r0 r1 aout l with
    | Panic s => Panic s
    | Nil => Nil
    | Val PreBreak => sfb_final r0 r1 aout
    | Val (PreGo r0' r1' aout' d0 _) =>
      if aout' + com0999 aout' <=? osell l then
        match sfb_partial l aout' with
        | Val (i, fs) => Val (d0 + i, fs)
        | Nil => Nil | Panic s => Panic s
        end
      else
        let comB := com1000 (osell l) in
        let comS := com1000 (obuy l) in
        match sfb_loop (r0' + comS) (r1' + comB) (aout' - (osell l - comB)) rest with
        | Val (i, fs) => Val (d0 + (obuy l + comS) + i, mkfill l (obuy l) (osell l) :: fs)
        | Nil => Nil | Panic s => Panic s
        end
    end
  end.

(* CalcDiffPool: (commission0orders, commission1orders, amount0, amount1) *)
Definition calc_diff_pool (ain aout : Z) (fs : list fill) : Z * Z * Z * Z :=
  let c0 := sum_Z (map (fun f => com1000 (fbuy f)) fs) in
  let c1 := sum_Z (map (fun f => com1000 (fsell f)) fs) in
  let a0o := sum_Z (map fbuy fs) + c0 in
  let a1o := sum_Z (map fsell fs) - c1 in
  (c0, c1, ain - a0o, aout - a1o).

(* updateOrders on the abstract book: subtract each fill; an order whose remainder is
   non-empty but below the minimum volume on either side is closed and its remaining
   WantSell refunded ("little"); empty orders are removed. Returns (book', refunds). *)
Definition is_empty (b s : Z) : bool := (b =? 0) || (s =? 0).

(* the order a fill refers to is taken out of the book; its remainder, if it stays open,
   is re-filed under its new 53-bit price (the implementation marks it "unsorted" and
   re-inserts it) *)
Fixpoint take_order (id : Z) (book : list order) : option (order * list order) :=
  match book with
  | [] => None
  | l :: rest => if oid l =? id then Some (l, rest) else
                 match take_order id rest with
                 | Some (x, r) => Some (x, l :: r)
                 | None => None
                 end
  end.

Definition apply_fill (dir : bool) (f : fill) (book : list order) : list order * list (Z * Z * Z) :=
  match take_order (fid f) book with
  | None => (book, [])
  | Some (l, rest) =>
    let b := obuy l - fbuy f in let s := osell l - fsell f in
    if is_empty b s then (rest, []) else
    if (b <? minimum_order_volume) || (s <? minimum_order_volume)
    then (rest, [(oid l, oowner l, s)])
    else (insert_order dir {| oid := oid l; obuy := b; osell := s; oowner := oowner l; oheight := oheight l |} rest, [])
  end.

Fixpoint apply_fills (dir : bool) (fs : list fill) (book : list order) : list order * list (Z * Z * Z) :=
  match fs with
  | [] => (book, [])
  | f :: fs' => let '(b1, x1) := apply_fill dir f book in
                let '(b2, x2) := apply_fills dir fs' b1 in (b2, x1 ++ x2)
  end.

Record trade_result := {
  t_in : Z; t_out : Z;                       (* what the taker pays / receives *)
  t_r0 : Z; t_r1 : Z;                        (* new reserves (taker orientation) *)
  t_fills : list fill;
  t_book : list order;                       (* remaining book of that side *)
  t_refunds : list (Z * Z * Z);              (* closed "little" orders: id, owner, refunded WantSell *)
  t_burn : Z                                 (* commission sent to the burn address (coin0) *)
}.

(* PairV2.SellWithOrders + SwapV2.PairSellWithOrders *)
Definition sell_with_orders (dir : bool) (r0 r1 : Z) (book : list order) (amount0In minOut : Z) : outcome trade_result :=
  if negb (0 <? amount0In) then Panic 3 else
  let ain := amount0In - com1000 amount0In in
  if negb (0 <? ain) then Panic 3 else
  match bfs_loop r0 r1 ain book with
  | Panic s => Panic s
  | Nil => Panic 2
  | Val (out, fs) =>
    if negb (0 <? out) then Panic 2 else
    let '(c0, c1, a0, a1) := calc_diff_pool ain out fs in
    let '(book', refunds) := apply_fills dir fs book in
    if out <? minOut then Panic 5 else
    Val {| t_in := amount0In; t_out := out; t_r0 := r0 + a0 + c0; t_r1 := r1 - a1 + c1;
           t_fills := fs; t_book := book'; t_refunds := refunds; t_burn := com1000 amount0In |}
  end.

(* PairV2.BuyWithOrders + SwapV2.PairBuyWithOrders (which compares amount1Out, not the
   computed input, with maxAmount0In — transliterated as written) *)
Definition buy_with_orders (dir : bool) (r0 r1 : Z) (book : list order) (maxIn amount1Out : Z) : outcome trade_result :=
  if negb (0 <? amount1Out) then Panic 3 else
  match sfb_loop r0 r1 amount1Out book with
  | Panic s => Panic s
  | Nil => Panic 2
  | Val (ain, fs) =>
    if negb (0 <? ain) then Panic 2 else
    let '(c0, c1, a0, a1) := calc_diff_pool ain amount1Out fs in
    let '(book', refunds) := apply_fills dir fs book in
    let ain' := ain + com0999 ain in
    if maxIn <? amount1Out then Panic 5 else
    Val {| t_in := ain'; t_out := amount1Out; t_r0 := r0 + a0 + c0; t_r1 := r1 - a1 + c1;
           t_fills := fs; t_book := book'; t_refunds := refunds; t_burn := com1000 ain' |}
  end.

End WithOracle.

(* the executable instances used by the correspondence check *)
Definition sell_with_orders_x := sell_with_orders oracle_float rat_mul_int.
Definition buy_with_orders_x := buy_with_orders oracle_float rat_div_int.
Definition bfs_loop_x := bfs_loop oracle_float rat_mul_int.
Definition sfb_loop_x := sfb_loop oracle_float rat_div_int.

