(* Schedule.v — how staked and locked coins leave and come back (C16).  Executable, no proofs.

   Go sources:
     coreV2/transaction/unbond_v3.go    UnbondDataV3.basicCheck / Run
     coreV2/transaction/move_stake.go   MoveStakeData.basicCheck / Run
     coreV2/transaction/lock_stake.go   LockStakeData.Run
     coreV2/transaction/lock.go         LockData.Run
     coreV2/transaction/delegate_v260.go DelegateDataV260 (simplified: the slot algorithm is C17's)
     coreV2/transaction/executor_v3.go  the failed-transaction fee of RunTx
     coreV2/minter/blockchain.go        BeginBlock: byzantine loop, frozen-fund maturity loop
     coreV2/state/frozenfunds           AddFund, GetFrozenFunds, Delete, PunishFrozenFundsWithID
     coreV2/state/candidates            Exists, ID, SubStake, Delegate, DeleteCandidate, PunishByzantineCandidate
     coreV2/state/waitlist              Get (first match), Delete (all matches), AddWaitList (merge)
   Periods come from Generated/Consts.v; every definition is parametric in them.

   Candidates are integers: a public key that has (or had) a candidate ID is that ID (> 0), any
   other public key is some other integer.  Candidates.Exists(pk) = membership in s_cands
   (the pubKeyIDs map); Candidates.ID(pk) also answers for deleted candidates (s_deleted), and is
   0 for a key that never was a candidate.
   Gas coin: the base coin (id 0); the commission and the failed-transaction fee are inputs.
   Frozen funds are Punish.fund records; CandidateKey is not modelled (it is non-nil exactly for
   the funds that carry a candidate id). *)
From Minter Require Export Base Consts.
From Minter Require Punish.
From Minter Require Ledger.
From Coq Require Import ZArith List Bool.
Import ListNotations.
Open Scope Z_scope.

(* ---- response codes (coreV2/code/code.go) -------------------------------------------------- *)
Definition cOK := 0.
Definition cCoinNotExists := 102.
Definition cCoinReserveNotSufficient := 103.
Definition cDecodeError := 106.
Definition cInsufficientFunds := 107.
Definition cWrongDueHeight := 123.
Definition cCandidateNotFound := 403.
Definition cStakeNotFound := 404.
Definition cInsufficientStake := 405.
Definition cStakeShouldBePositive := 408.
Definition cTooLowStake := 409.
Definition cInsufficientWaitList := 412.
Definition cTooBigStake := 415.
Definition cUnbondBlocked := 416.
Definition cEqualPubKey := 417.

(* ---- periods (types/constants.go, per chain id) ----------------------------------------------- *)
Record periods := { p_unbond : Z; p_move : Z; p_lockstake : Z }.
Definition testnet_periods : periods :=
  {| p_unbond := unbond_period_testnet; p_move := move_period_testnet; p_lockstake := lockstake_period_testnet |}.
Definition mainnet_periods : periods :=
  {| p_unbond := unbond_period_mainnet; p_move := move_period_mainnet; p_lockstake := lockstake_period_mainnet |}.

(* ---- state --------------------------------------------------------------------------------------- *)
Definition fund := Punish.fund.
Definition mkfund (due owner cand coin value move : Z) : fund :=
  {| Punish.f_due := due; Punish.f_owner := owner; Punish.f_cand := cand; Punish.f_coin := coin;
     Punish.f_value := value; Punish.f_move := move |}.
Notation f_due := Punish.f_due.
Notation f_owner := Punish.f_owner.
Notation f_cand := Punish.f_cand.
Notation f_coin := Punish.f_coin.
Notation f_value := Punish.f_value.
Notation f_move := Punish.f_move.

(* a stake slot, a pending update or a waitlist item: (candidate id, owner, coin, value) *)
Record entry := { e_cand : Z; e_owner : Z; e_coin : Z; e_value : Z }.

Record st := {
  s_height : Z;                   (* the block being executed (currentBlock of Run) *)
  s_bal : list (Z * Z * Z);       (* (address, coin, amount) *)
  s_coins : list Z;               (* existing custom coins; the base coin 0 always exists *)
  s_cands : list Z;               (* existing candidates *)
  s_deleted : list Z;             (* deleted candidates (their ID is still known) *)
  s_stakes : list entry;          (* candidate.stakes *)
  s_updates : list entry;         (* candidate.updates *)
  s_wait : list entry;            (* waitlist *)
  s_frozen : list fund;           (* frozen funds in creation order (per due block: the order of Model.List) *)
  s_lock : list (Z * Z)           (* (address, LockStakeUntilBlock), latest first *)
}.

Definition mem (z : Z) (l : list Z) : bool := existsb (Z.eqb z) l.
Definition coin_exists (s : st) (c : Z) : bool := (c =? 0) || mem c (s_coins s).
Definition cand_exists (s : st) (c : Z) : bool := (0 <? c) && mem c (s_cands s).
Definition cand_id (s : st) (c : Z) : Z := if (0 <? c) && (mem c (s_cands s) || mem c (s_deleted s)) then c else 0.

Definition ekey (c o k : Z) (e : entry) : bool := (e_cand e =? c) && (e_owner e =? o) && (e_coin e =? k).
Fixpoint efind (l : list entry) (c o k : Z) : option Z :=
  match l with [] => None | e :: r => if ekey c o k e then Some (e_value e) else efind r c o k end.
Definition esum (l : list entry) (c o k : Z) : Z :=
  sum_Z (map (fun e => if ekey c o k e then e_value e else 0) l).
Definition set_value (e : entry) (v : Z) : entry :=
  {| e_cand := e_cand e; e_owner := e_owner e; e_coin := e_coin e; e_value := v |}.
(* stake.subValue on the first matching slot (GetStakeOfAddress) *)
Fixpoint esub (l : list entry) (c o k d : Z) : list entry :=
  match l with
  | [] => []
  | e :: r => if ekey c o k e then set_value e (e_value e - d) :: r else e :: esub r c o k d
  end.
(* Model.AddToList: merged into the first matching item, else appended *)
Fixpoint eadd (l : list entry) (c o k v : Z) : list entry :=
  match l with
  | [] => [{| e_cand := c; e_owner := o; e_coin := k; e_value := v |}]
  | e :: r => if ekey c o k e then set_value e (e_value e + v) :: r else e :: eadd r c o k v
  end.
(* WaitList.Delete: every matching item *)
Definition edel (l : list entry) (c o k : Z) : list entry := filter (fun e => negb (ekey c o k e)) l.

Definition bal (s : st) (a c : Z) : Z := Ledger.get_bal (s_bal s) a c.
Fixpoint lock_of (l : list (Z * Z)) (a : Z) : Z :=
  match l with [] => 0 | (a', u) :: r => if a' =? a then u else lock_of r a end.
Definition lock_until (s : st) (a : Z) : Z := lock_of (s_lock s) a.     (* GetLockStakeUntilBlock *)

(* WaitList.Get(address, pubkey, coin): nil when Candidates.ID(pubkey) = 0 *)
Definition wait_get (s : st) (o c k : Z) : option Z :=
  if cand_id s c =? 0 then None else efind (s_wait s) c o k.
(* Candidates.GetStakeValueOfAddress: nil when the candidate is not in the list *)
Definition stake_get (s : st) (c o k : Z) : option Z :=
  if cand_exists s c then efind (s_stakes s) c o k else None.

(* ---- record updates --------------------------------------------------------------------------- *)
Definition set_height (s : st) (h : Z) : st :=
  {| s_height := h; s_bal := s_bal s; s_coins := s_coins s; s_cands := s_cands s; s_deleted := s_deleted s;
     s_stakes := s_stakes s; s_updates := s_updates s; s_wait := s_wait s; s_frozen := s_frozen s; s_lock := s_lock s |}.
Definition set_bal (s : st) (l : list (Z * Z * Z)) : st :=
  {| s_height := s_height s; s_bal := l; s_coins := s_coins s; s_cands := s_cands s; s_deleted := s_deleted s;
     s_stakes := s_stakes s; s_updates := s_updates s; s_wait := s_wait s; s_frozen := s_frozen s; s_lock := s_lock s |}.
Definition set_stakes (s : st) (l : list entry) : st :=
  {| s_height := s_height s; s_bal := s_bal s; s_coins := s_coins s; s_cands := s_cands s; s_deleted := s_deleted s;
     s_stakes := l; s_updates := s_updates s; s_wait := s_wait s; s_frozen := s_frozen s; s_lock := s_lock s |}.
Definition set_updates (s : st) (l : list entry) : st :=
  {| s_height := s_height s; s_bal := s_bal s; s_coins := s_coins s; s_cands := s_cands s; s_deleted := s_deleted s;
     s_stakes := s_stakes s; s_updates := l; s_wait := s_wait s; s_frozen := s_frozen s; s_lock := s_lock s |}.
Definition set_wait (s : st) (l : list entry) : st :=
  {| s_height := s_height s; s_bal := s_bal s; s_coins := s_coins s; s_cands := s_cands s; s_deleted := s_deleted s;
     s_stakes := s_stakes s; s_updates := s_updates s; s_wait := l; s_frozen := s_frozen s; s_lock := s_lock s |}.
Definition set_frozen (s : st) (l : list fund) : st :=
  {| s_height := s_height s; s_bal := s_bal s; s_coins := s_coins s; s_cands := s_cands s; s_deleted := s_deleted s;
     s_stakes := s_stakes s; s_updates := s_updates s; s_wait := s_wait s; s_frozen := l; s_lock := s_lock s |}.
Definition set_lock (s : st) (l : list (Z * Z)) : st :=
  {| s_height := s_height s; s_bal := s_bal s; s_coins := s_coins s; s_cands := s_cands s; s_deleted := s_deleted s;
     s_stakes := s_stakes s; s_updates := s_updates s; s_wait := s_wait s; s_frozen := s_frozen s; s_lock := l |}.
Definition set_cands (s : st) (cs ds : list Z) : st :=
  {| s_height := s_height s; s_bal := s_bal s; s_coins := s_coins s; s_cands := cs; s_deleted := ds;
     s_stakes := s_stakes s; s_updates := s_updates s; s_wait := s_wait s; s_frozen := s_frozen s; s_lock := s_lock s |}.
Definition set_coins (s : st) (l : list Z) : st :=
  {| s_height := s_height s; s_bal := s_bal s; s_coins := l; s_cands := s_cands s; s_deleted := s_deleted s;
     s_stakes := s_stakes s; s_updates := s_updates s; s_wait := s_wait s; s_frozen := s_frozen s; s_lock := s_lock s |}.

(* ---- primitive effects ---------------------------------------------------------------------------- *)
Inductive eff :=
| EBal (a c d : Z)              (* Accounts.AddBalance / SubBalance *)
| EStakeSub (c o k d : Z)       (* Candidates.SubStake *)
| EUpdAdd (c o k v : Z)         (* Candidates.Delegate: candidate.addUpdate *)
| EWaitDel (c o k : Z)          (* WaitList.Delete *)
| EWaitAdd (c o k v : Z)        (* WaitList.AddWaitList *)
| EFund (f : fund)              (* FrozenFunds.AddFund *)
| ELock (a u : Z).              (* Accounts.SetLockStakeUntilBlock *)

Definition apply_eff (s : st) (e : eff) : st :=
  match e with
  | EBal a c d => set_bal s (Ledger.add_bal (s_bal s) a c d)
  | EStakeSub c o k d => set_stakes s (esub (s_stakes s) c o k d)
  | EUpdAdd c o k v => set_updates s (s_updates s ++ [{| e_cand := c; e_owner := o; e_coin := k; e_value := v |}])
  | EWaitDel c o k => set_wait s (edel (s_wait s) c o k)
  | EWaitAdd c o k v => set_wait s (eadd (s_wait s) c o k v)
  | EFund f => set_frozen s (s_frozen s ++ [f])
  | ELock a u => set_lock s ((a, u) :: s_lock s)
  end.
Definition apply_effs (s : st) (l : list eff) : st := fold_left apply_eff l s.

(* ---- transactions ------------------------------------------------------------------------------------ *)
Inductive txdata :=
| Unbond (cand coin value : Z)
| MoveStake (from to coin value : Z)
| LockStake
| Lock (due coin value : Z)
| Delegate (cand coin value : Z) (has_reserve : bool) (verdict : Z).
  (* has_reserve: coin.BaseOrHasReserve(); verdict: IsDelegatorStakeAllowed — 0 allowed, 1 too low, 2 too big (C17) *)

(* t_com: the commission (price of the type times the gas price, in the base coin);
   t_ffee: the failed-transaction fee *)
Record tx := { t_sender : Z; t_com : Z; t_ffee : Z; t_data : txdata }.

Inductive result := Reject (code : Z) | Accept (effs : list eff) | Crash (site : Z).

(* the part of basicCheck shared by Unbond and MoveStake, from the waitlist lookup on:
   None = passed, Some code = rejected *)
Definition leave_check (s : st) (sender cand coin value : Z) : option Z :=
  let rest (wl : Z) : option Z :=
      if negb (cand_exists s cand) then Some cCandidateNotFound else
      let nostake := if wl <? value
                     then (if 0 <? wl then Some cInsufficientWaitList else Some cStakeNotFound)
                     else None in
      match stake_get s cand sender coin with
      | Some sv => if 0 <? sv then (if wl + sv <? value then Some cInsufficientStake else None) else nostake
      | None => nostake
      end in
  match wait_get s sender cand coin with
  | Some wv => if value <=? wv then None else rest wv
  | None => rest 0
  end.

(* the stake / waitlist part of Run shared by Unbond and MoveStake; SubStake dereferences the
   stake it looks up: a missing stake is a nil dereference (model.go:288) *)
Definition leave_effs (s : st) (sender cand coin value : Z) : outcome (list eff) :=
  match wait_get s sender cand coin with
  | Some wv =>
    let diff := value - wv in
    if diff <? 0 then Val [EWaitDel cand sender coin; EWaitAdd cand sender coin (- diff)]
    else if 0 <? diff then
      match stake_get s cand sender coin with
      | Some _ => Val [EWaitDel cand sender coin; EStakeSub cand sender coin diff]
      | None => Panic 1601
      end
    else Val [EWaitDel cand sender coin]
  | None =>
    match stake_get s cand sender coin with
    | Some _ => Val [EStakeSub cand sender coin value]
    | None => Panic 1601
    end
  end.

Definition leave (s : st) (sender com cand coin value : Z) (f : fund) : result :=
  match leave_check s sender cand coin value with
  | Some c => Reject c
  | None =>
    if bal s sender 0 <? com then Reject cInsufficientFunds else
    match leave_effs s sender cand coin value with
    | Val effs => Accept (EBal sender 0 (- com) :: effs ++ [EFund f])
    | Nil => Crash 1601
    | Panic site => Crash site
    end
  end.

Definition run (P : periods) (s : st) (t : tx) : result :=
  let sender := t_sender t in
  let com := t_com t in
  let h := s_height s in
  match t_data t with
  | Unbond cand coin value =>
    if h <? lock_until s sender then Reject cUnbondBlocked          (* GetLockStakeUntilBlock(sender) > currentBlock *)
    else if value <=? 0 then Reject cDecodeError
    else if negb (coin_exists s coin) then Reject cCoinNotExists
    else leave s sender com cand coin value (mkfund (h + p_unbond P) sender (cand_id s cand) coin value 0)
  | MoveStake from to coin value =>
    if value <=? 0 then Reject cDecodeError
    else if from =? to then Reject cEqualPubKey
    else if negb (coin_exists s coin) then Reject cCoinNotExists
    else if negb (cand_exists s to) then Reject cCandidateNotFound
    else leave s sender com from coin value (mkfund (h + p_move P) sender (cand_id s from) coin value (cand_id s to))
  | LockStake =>
    if bal s sender 0 <? com then Reject cInsufficientFunds
    else Accept [EBal sender 0 (- com); ELock sender (h + p_lockstake P)]
  | Lock due coin value =>
    if due <=? h then Reject cWrongDueHeight
    else if negb (coin_exists s coin) then Reject cCoinNotExists
    else if (if coin =? 0 then false else bal s sender coin <? value) then Reject cInsufficientFunds
    else if bal s sender 0 <? (if coin =? 0 then value + com else com) then Reject cInsufficientFunds
    else Accept [EBal sender 0 (- com); EBal sender coin (- value); EFund (mkfund due sender 0 coin value 0)]
  | Delegate cand coin value has_reserve verdict =>
    if negb (coin_exists s coin) then Reject cCoinNotExists
    else if negb has_reserve then Reject cCoinReserveNotSufficient
    else
      let wl := match wait_get s sender cand coin with Some wv => wv | None => 0 end in
      if value + wl <? 1 then Reject cStakeShouldBePositive
      else if negb (cand_exists s cand) then Reject cCandidateNotFound
      else if verdict =? 1 then Reject cTooLowStake
      else if verdict =? 2 then Reject cTooBigStake
      else if bal s sender 0 <? com then Reject cInsufficientFunds
      else if bal s sender coin <? value then Reject cInsufficientFunds
      else if (coin =? 0) && (bal s sender 0 <? value + com) then Reject cInsufficientFunds
      else Accept ([EBal sender 0 (- com); EBal sender coin (- value)] ++
                   (match wait_get s sender cand coin with Some _ => [EWaitDel cand sender coin] | None => [] end) ++
                   [EUpdAdd cand sender coin (value + wl)])
  end.

(* the failed-transaction branch of RunTx (deliver mode, base gas coin): the sender pays the
   failed-transaction fee, capped by a positive balance *)
Definition failed_effs (s : st) (t : tx) : list eff :=
  let b := bal s (t_sender t) 0 in
  if 0 <? b then [EBal (t_sender t) 0 (- (if b <? t_ffee t then b else t_ffee t))] else [].

(* ---- observable result of a step ----------------------------------------------------------------------- *)
Inductive out :=
| OTx (code : Z)                (* response code of a delivered transaction *)
| OBegin (matured : list fund)  (* the funds due in this block, as they were paid (after a byzantine slash) *)
| ORemove (created : list fund) (* the funds DeleteCandidate created *)
| OEnv
| OCrash (site : Z).            (* the node panics (unreachable: Proofs/ScheduleSteps.v run_never_crashes) *)

Definition deliver (P : periods) (s : st) (t : tx) : st * out :=
  match run P s t with
  | Reject c => (apply_effs s (failed_effs s t), OTx c)
  | Accept effs => (apply_effs s effs, OTx cOK)
  | Crash site => (s, OCrash site)
  end.

(* ---- BeginBlock ------------------------------------------------------------------------------------------- *)
(* one item of ByzantineValidators: the candidate found for the address (0: none), whether its
   status is online, whether the address is in the validator list (blockchain.go:343-351).
   PunishFrozenFundsWithID(h, h+UnbondPeriod, id); PunishByzantineCandidate: every stake slot
   becomes a frozen fund of 95 % of its value due at h+UnbondPeriod, the slot keeps value 0;
   pending updates and the waitlist are untouched. *)
Definition of_cand (cid : Z) (e : entry) : bool := e_cand e =? cid.
Definition byz_fund (P : periods) (h cid : Z) (e : entry) : fund :=
  mkfund (h + p_unbond P) (e_owner e) cid (e_coin e) (Punish.keep_stake (e_value e)) 0.
Definition byz_one (P : periods) (h : Z) (s : st) (ev : Z * bool * bool) : st :=
  let '(cid, online, isval) := ev in
  if negb (cand_exists s cid && online && isval) then s else
  let fr := map (fun f => Punish.punish_fund h (h + p_unbond P) cid (f, 0)) (s_frozen s) in
  let new := map (byz_fund P h cid) (filter (of_cand cid) (s_stakes s)) in
  set_frozen (set_stakes s (map (fun e => if of_cand cid e then set_value e 0 else e) (s_stakes s))) (fr ++ new).
Definition byz_all (P : periods) (h : Z) (s : st) (evid : list (Z * bool * bool)) : st := fold_left (byz_one P h) evid s.

(* one matured item (blockchain.go:356-393): MoveToCandidateID = 0: the owner's balance is credited;
   otherwise, if the target candidate is still in the list, Candidates.Delegate(owner, target, ...):
   a pending update; if it was removed while the move was in flight (fix c9a3e76; before it
   Candidates.Delegate dereferenced the missing candidate and BeginBlock panicked): the coins are
   frozen again, for the same owner and origin candidate, bound for the balance, due one unbond
   period from now *)
Definition bounce_fund (P : periods) (h : Z) (f : fund) : fund :=
  mkfund (h + p_unbond P) (f_owner f) (f_cand f) (f_coin f) (f_value f) 0.
Definition mature_one (P : periods) (h : Z) (s : st) (f : fund) : st :=
  if f_move f =? 0 then apply_eff s (EBal (f_owner f) (f_coin f) (f_value f))
  else if cand_exists s (f_move f) then apply_eff s (EUpdAdd (f_move f) (f_owner f) (f_coin f) (f_value f))
  else apply_eff s (EFund (bounce_fund P h f)).
Definition mature_all (P : periods) (h : Z) (s : st) (l : list fund) : st := fold_left (mature_one P h) l s.

Definition due_at (h : Z) (f : fund) : bool := f_due f =? h.

(* the byzantine loop, then the funds due at h in list order, then FrozenFunds.Delete(h) *)
Definition begin_block (P : periods) (s : st) (h : Z) (evid : list (Z * bool * bool)) : st * out :=
  let s1 := byz_all P h (set_height s h) evid in
  let due := filter (due_at h) (s_frozen s1) in
  let rest := filter (fun f => negb (due_at h f)) (s_frozen s1) in
  (mature_all P h (set_frozen s1 rest) due, OBegin due).

(* ---- DeleteCandidate (candidates.go:1437-1478), called by RecalculateStakesV2 at EndBlock for the
   candidates ranked beyond 100: a validator is kept; every stake, then every update, becomes a
   frozen fund of equal value due at height + UnbondPeriod; the candidate leaves the list (its ID
   stays known); its waitlist items stay. *)
Definition removal_fund (P : periods) (h cid : Z) (e : entry) : fund :=
  mkfund (h + p_unbond P) (e_owner e) cid (e_coin e) (e_value e) 0.
Definition removal_funds (P : periods) (s : st) (cid : Z) : list fund :=
  map (removal_fund P (s_height s) cid) (filter (of_cand cid) (s_stakes s)) ++
  map (removal_fund P (s_height s) cid) (filter (of_cand cid) (s_updates s)).
Definition remove_candidate (P : periods) (s : st) (cid : Z) (isval : bool) : st * out :=
  if isval || negb (cand_exists s cid) then (s, ORemove []) else
  let fs := removal_funds P s cid in
  let keep := fun e => negb (of_cand cid e) in
  (set_frozen (set_cands (set_updates (set_stakes s (filter keep (s_stakes s))) (filter keep (s_updates s)))
                         (filter (fun c => negb (c =? cid)) (s_cands s)) (cid :: s_deleted s))
              (s_frozen s ++ fs),
   ORemove fs).

(* ---- everything else the node does (EndBlock recalculation, rewards, other transactions):
   arbitrary changes of balances, stakes, updates, waitlist, candidate and coin registries and
   lock marks — but never of the frozen funds *)
Inductive env :=
| SetBal (a c v : Z)
| SetStakes (cand : Z) (stakes : list (Z * Z * Z))              (* (owner, coin, value) *)
| SetUpdates (cand : Z) (updates : list (Z * Z * Z))
| SetWait (c o k : Z) (v : option Z)
| SetCand (c status : Z)                                         (* 0 unknown, 1 existing, 2 deleted *)
| SetCoin (c : Z)
| SetLock (a u : Z).

Definition mk_entries (cand : Z) (l : list (Z * Z * Z)) : list entry :=
  map (fun x => let '(o, k, v) := x in {| e_cand := cand; e_owner := o; e_coin := k; e_value := v |}) l.

Definition apply_env (s : st) (e : env) : st :=
  match e with
  | SetBal a c v => set_bal s (Ledger.add_bal (s_bal s) a c (v - bal s a c))
  | SetStakes cand ss => set_stakes s (filter (fun e => negb (of_cand cand e)) (s_stakes s) ++ mk_entries cand ss)
  | SetUpdates cand us => set_updates s (filter (fun e => negb (of_cand cand e)) (s_updates s) ++ mk_entries cand us)
  | SetWait c o k v =>
    set_wait s (match v with
                | Some x => eadd (edel (s_wait s) c o k) c o k x
                | None => edel (s_wait s) c o k
                end)
  | SetCand c status =>
    let cs := filter (fun x => negb (x =? c)) (s_cands s) in
    let ds := filter (fun x => negb (x =? c)) (s_deleted s) in
    if status =? 1 then set_cands s (c :: cs) ds else if status =? 2 then set_cands s cs (c :: ds) else set_cands s cs ds
  | SetCoin c => set_coins s (c :: s_coins s)
  | SetLock a u => set_lock s ((a, u) :: s_lock s)
  end.

(* ---- steps and histories ----------------------------------------------------------------------------------- *)
Inductive op :=
| OpTx (t : tx)
| OpBegin (h : Z) (evid : list (Z * bool * bool))
| OpRemove (cid : Z) (isval : bool)
| OpEnv (e : env).

Definition step (P : periods) (s : st) (o : op) : st * out :=
  match o with
  | OpTx t => deliver P s t
  | OpBegin h evid => begin_block P s h evid
  | OpRemove cid isval => remove_candidate P s cid isval
  | OpEnv e => (apply_env s e, OEnv)
  end.

Definition is_crash (x : out) : bool := match x with OCrash _ => true | _ => false end.

(* a history stops at the first panic: the node is dead *)
Fixpoint run_ops (P : periods) (s : st) (ops : list op) : st * list out :=
  match ops with
  | [] => (s, [])
  | o :: r =>
    let '(s', x) := step P s o in
    if is_crash x then (s, [x]) else let '(s'', xs) := run_ops P s' r in (s'', x :: xs)
  end.

Definition init_state (h : Z) : st :=
  {| s_height := h; s_bal := []; s_coins := []; s_cands := []; s_deleted := []; s_stakes := []; s_updates := [];
     s_wait := []; s_frozen := []; s_lock := [] |}.
