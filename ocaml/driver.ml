(* driver.ml — generic correspondence driver.  Reads a cases file:
     case <model>
     > <ints: one operation>
     < <ints: what the implementation returned for it>
     ...
     end
   runs the extracted Coq [dispatch] on the operations of each case and compares the
   outputs per operation.  Prints one MISMATCH line per differing operation (first per
   case only) and a final summary line. *)
let parse_ints (s : string) : Z.t list =
  String.split_on_char ' ' s |> List.filter (fun x -> x <> "") |> List.map Z.of_string

let show (l : Z.t list) = String.concat " " (List.map Z.to_string l)

let () =
  let file = Sys.argv.(1) in
  let dump = Array.length Sys.argv > 2 && Sys.argv.(2) = "--dump" in
  let ic = open_in file in
  let ncases = ref 0 and nops = ref 0 and nmis = ref 0 in
  let cur_model = ref Z.zero in
  let ops = ref [] and outs = ref [] in
  let finish () =
    incr ncases;
    let ops_l = List.rev !ops and outs_l = List.rev !outs in
    let res = Model.dispatch !cur_model ops_l in
    let rec cmp i os es rs =
      match os, es, rs with
      | o :: os', e :: es', r :: rs' ->
        incr nops;
        if dump then Printf.printf "OUT case=%d op=%d %s\n" !ncases i (show r);
        let wild = Z.of_int (-999) in
        let eqw a b = List.length a = List.length b && List.for_all2 (fun x y -> Z.equal x wild || Z.equal x y) a b in
        if not (eqw e r) then begin
          incr nmis;
          Printf.printf "MISMATCH case=%d op=%d model=%s input=[%s] impl=[%s] coq=[%s]\n"
            !ncases i (Z.to_string !cur_model) (show o) (show e) (show r)
        end else cmp (i + 1) os' es' rs'
      | [], [], [] -> ()
      | _ -> incr nmis; Printf.printf "MISMATCH case=%d op=%d length\n" !ncases i
    in
    cmp 0 ops_l outs_l res;
    ops := []; outs := []
  in
  (try
    while true do
      let line = input_line ic in
      let n = String.length line in
      if n = 0 then ()
      else if n >= 5 && String.sub line 0 5 = "case " then
        cur_model := Z.of_string (String.trim (String.sub line 5 (n - 5)))
      else if line.[0] = '>' then ops := parse_ints (String.sub line 1 (n - 1)) :: !ops
      else if line.[0] = '<' then outs := parse_ints (String.sub line 1 (n - 1)) :: !outs
      else if line = "end" then finish ()
      else ()
    done
  with End_of_file -> ());
  Printf.printf "SUMMARY cases=%d ops=%d mismatches=%d\n" !ncases !nops !nmis;
  exit (if !nmis = 0 then 0 else 3)
