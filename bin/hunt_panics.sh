#!/bin/bash
# background search: many seeds of the C07 harness; prints every distinct panic key found
cd "$(dirname "$0")/.."
export VERIF_TMP=$PWD/work; mkdir -p work
[ -x harness/bin/vharness ] || bin/build_harness.sh
for s in $(seq ${1:-100} ${2:-160}); do
  harness/bin/vharness c07 -seed $s -n 60 -out work/h07.txt -stats work/h07_$s.json >/dev/null 2>&1
  python3 - <<PY
import json
s=json.load(open("work/h07_$s.json"))
for m in (s["monitor_failures"] or []): print("SEED $s", m["key"], "|", m["what"][:500], "|", m["replay"])
PY
done
echo hunt done
