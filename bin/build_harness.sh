#!/bin/bash
# Build the Go harness against /repo's current working tree with -tags verif.
# go.mod/go.sum are regenerated from /repo's own on every build.
set -e
export GOFLAGS=-mod=mod GOPROXY=off GOSUMDB=off GOTOOLCHAIN=local CGO_ENABLED=1
REPO=${VERIF_REPO:-/repo}
ROOT=$(cd "$(dirname "$0")/.." && pwd)
H=$ROOT/harness
cd $H
{
  echo "module verif/harness"
  echo
  echo "go 1.17"
  echo
  echo "require github.com/MinterTeam/minter-go-node v0.0.0"
  echo "replace github.com/MinterTeam/minter-go-node => $REPO"
  # copy require/replace blocks of the repo
  awk '/^require \(/,/^\)/' $REPO/go.mod
  grep -E '^replace ' $REPO/go.mod || true
} > go.mod.new
cmp -s go.mod.new go.mod || mv go.mod.new go.mod
rm -f go.mod.new
cmp -s $REPO/go.sum go.sum || cp $REPO/go.sum go.sum
mkdir -p bin
OUT=bin/vharness
for a in "$@"; do [ "$a" = "-race" ] && OUT=bin/vharness-race; done   # C25: a second binary, so that the two modes do not relink each other
go build -tags verif "$@" -o $OUT ./cmd/vharness
