#!/bin/bash
# Regenerate coq/Generated/*.v from /repo's working tree (files rewritten only when changed).
set -e
export GOFLAGS=-mod=mod GOPROXY=off GOSUMDB=off GOTOOLCHAIN=local
REPO=${VERIF_REPO:-/repo}
cd /verif/harness
[ -f go.mod ] || /verif/bin/build_harness.sh >/dev/null
mkdir -p bin
if [ ! -x bin/xlate ] || [ -n "$(find cmd/xlate -newer bin/xlate -name '*.go')" ]; then
  go build -o bin/xlate ./cmd/xlate
fi
bin/xlate $REPO /verif/coq/Generated
