#!/bin/bash
# Runs the repository's test suite with the verif guard OFF and compares with BASELINE.json.
export GOFLAGS=-mod=mod GOPROXY=off GOSUMDB=off GOTOOLCHAIN=local
cd /repo && go test -json -vet=off -count=1 -timeout 25m ./... > /tmp/baseline_run.json 2>/dev/null
python3 - <<'PY'
import json
base=set(json.load(open('/root/.vp/BASELINE.json'))['stable_pass'])
res={}
for l in open('/tmp/baseline_run.json'):
    try: e=json.loads(l)
    except: continue
    if e.get('Test') and e.get('Action') in ('pass','fail'):
        res[e['Package']+'::'+e['Test']]=e['Action']
missing=[t for t in base if res.get(t)!='pass']
print("baseline tests:",len(base),"passing now:",len(base)-len(missing),"not passing:",missing[:20])
PY
