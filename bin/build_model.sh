#!/bin/bash
# Build the extracted OCaml model runner (after make in /verif/coq produced model.ml).
set -e
cd /verif/ocaml
if [ ! -x modelrun ] || [ ../coq/model.ml -nt modelrun ] || [ driver.ml -nt modelrun ]; then
  cp ../coq/model.ml ../coq/model.mli .
  ocamlfind ocamlopt -package zarith -linkpkg -O2 -w -a model.mli model.ml driver.ml -o modelrun 2>&1 | grep -v "^$" || true
  [ -x modelrun ]
fi
