package main

import (
	"fmt"
	"math/big"

	"github.com/MinterTeam/minter-go-node/coreV2/state/bus"
	"github.com/MinterTeam/minter-go-node/coreV2/state/checker"
	"github.com/MinterTeam/minter-go-node/coreV2/state/swap"
	"github.com/MinterTeam/minter-go-node/coreV2/types"
	"github.com/MinterTeam/minter-go-node/tree"
	db "github.com/tendermint/tm-db"
)

func init() { commands["pool3"] = runPool3 }

type pool3 struct {
	mem  db.DB
	t    tree.MTree
	b    *bus.Bus
	s    *swap.SwapV2
	ver  uint64
	live map[uint32][3]*big.Int // harness-side shadow of live orders (dir, b, s) for generation only
}

func newPool3() *pool3 {
	p := &pool3{mem: db.NewMemDB(), live: map[uint32][3]*big.Int{}}
	t, err := tree.NewMutableTree(0, p.mem, 1024, 0)
	if err != nil {
		panic(err)
	}
	p.t = t
	p.b = bus.NewBus()
	checker.NewChecker(p.b)
	p.s = swap.NewV2(p.b, t.GetLastImmutable())
	return p
}

func (p *pool3) commit() {
	_, v, err := p.t.Commit(p.s)
	if err != nil {
		panic(err)
	}
	p.ver = uint64(v)
}

func (p *pool3) restart() {
	t, err := tree.NewMutableTree(p.ver, p.mem, 1024, 0)
	if err != nil {
		panic(err)
	}
	p.t = t
	p.s = swap.NewV2(p.b, t.GetLastImmutable())
}

func (p *pool3) pair(dir bool) *swap.PairV2 {
	if dir {
		return p.s.Pair(0, 1)
	}
	return p.s.Pair(1, 0)
}

func encTrade(in, out *big.Int, pr *swap.PairV2, det *swap.ChangeDetailsWithOrders, expired []*swap.Limit) []*big.Int {
	r0, r1 := pr.Reserves()
	v := L(Z(0), cp(in), cp(out), r0, r1, Z(int64(len(det.Orders))))
	for _, o := range det.Orders {
		v = append(v, Z(int64(o.ID())), cp(o.WantBuy), cp(o.WantSell))
	}
	v = append(v, Z(int64(len(expired))))
	for _, o := range expired {
		v = append(v, Z(int64(o.ID())), new(big.Int).SetBytes(o.Owner[:]), cp(o.WantSell))
	}
	return v
}

func ownerAddr(i int64) types.Address {
	var a types.Address
	a[19] = byte(i)
	return a
}

// monitorTrade evaluates C13/C14 directly on what the implementation did.
func monitorTrade(mon *[]MonitorFailure, replay *[]string, r0b, r1b *big.Int, pr *swap.PairV2, det *swap.ChangeDetailsWithOrders, before map[uint32][2]*big.Int) {
	r0a, r1a := pr.Reserves()
	kb := new(big.Int).Mul(r0b, r1b)
	ka := new(big.Int).Mul(r0a, r1a)
	if ka.Cmp(kb) < 0 || r0a.Sign() <= 0 || r1a.Sign() <= 0 {
		*mon = append(*mon, MonitorFailure{What: fmt.Sprintf("C13: reserve product decreased or reserve not positive: (%s,%s) -> (%s,%s)", r0b, r1b, r0a, r1a), Key: "c13-k", Replay: joinLines(*replay)})
	}
	for _, o := range det.Orders {
		bs, ok := before[o.ID()]
		if !ok {
			continue
		}
		B, S := bs[0], bs[1]
		// fill (b, s) of order (B, S): s*B <= b*S + B  and b <= B, s <= S
		// at the order's price up to one unit of rounding in either coin:
		//   (s-1)*B <= b*S  or  s*B <= (b+1)*S
		c1 := new(big.Int).Mul(new(big.Int).Sub(o.WantSell, Z(1)), B).Cmp(new(big.Int).Mul(o.WantBuy, S)) <= 0
		c2 := new(big.Int).Mul(o.WantSell, B).Cmp(new(big.Int).Mul(new(big.Int).Add(o.WantBuy, Z(1)), S)) <= 0
		if !(c1 || c2) || o.WantBuy.Cmp(B) > 0 || o.WantSell.Cmp(S) > 0 {
			*mon = append(*mon, MonitorFailure{What: fmt.Sprintf("C14: order %d (buy %s sell %s) filled worse than its price: gets %s gives %s", o.ID(), B, S, o.WantBuy, o.WantSell), Key: "c14-price", Replay: joinLines(*replay)})
		}
	}
}

func joinLines(l []string) string {
	s := ""
	for _, x := range l {
		s += x + "\n"
	}
	return s
}

func (p *pool3) book(dir bool) (v []*big.Int, m map[uint32][2]*big.Int) {
	m = map[uint32][2]*big.Int{}
	pr := p.pair(dir)
	n := 0
	var items []*big.Int
	for i := 0; i < 10000; i++ {
		o := pr.OrderSellByIndex(i)
		if o == nil {
			break
		}
		n++
		items = append(items, Z(int64(o.ID())), cp(o.WantBuy), cp(o.WantSell))
		m[o.ID()] = [2]*big.Int{cp(o.WantBuy), cp(o.WantSell)}
	}
	return append(L(Z(int64(n))), items...), m
}

func runPool3(seed uint64, n int, out, stats string, _ []string) {
	r := NewRng(seed)
	c := NewCases(out)
	var mon []MonitorFailure
	trades, fills, refunds, partial := 0, 0, 0, 0
	for i := 0; i < n; i++ {
		p := newPool3()
		c.Begin(3)
		var replay []string
		rec := func(in, outv []*big.Int) {
			c.Op(in, outv)
			replay = append(replay, "> "+ints(in), "< "+ints(outv))
		}
		// reserves around 1e18..1e24 so that orders above the minimum volume matter
		var r0, r1 *big.Int
		switch r.Intn(3) {
		case 0:
			r0, r1 = new(big.Int).Add(r.Big(24), ZS("1000000000000")), new(big.Int).Add(r.Big(24), ZS("1000000000000"))
		case 1:
			r0, r1 = new(big.Int).Add(r.Big(30), ZS("1000000000000")), new(big.Int).Add(r.Big(20), ZS("1000000000000"))
		default:
			r0, r1 = ZS("1000000000000000000000"), ZS("1000000000000000000000")
		}
		var l0 *big.Int
		func() {
			_, _, l0, _ = p.s.PairCreate(0, 1, cp(r0), cp(r1))
		}()
		rec(L(Z(0), r0, r1), L(Z(0), l0))
		p.commit()
		nops := 3 + r.Intn(14)
		nt := false
		for j := 0; j < nops; j++ {
			dir := r.Intn(3) != 0
			dz := Z(0)
			if dir {
				dz = Z(1)
			}
			pr := p.pair(dir)
			x0, x1 := pr.Reserves()
			switch k := r.Intn(12); {
			case k < 4: // add order near the pool price (mostly better for the maker than the pool)
				b := new(big.Int).Add(r.BigBelow(new(big.Int).Div(x0, Z(int64(2+r.Intn(50))))), ZS("20000000000"))
				// s ~ b * x1/x0 * (0.5..1.1)
				s := new(big.Int).Div(new(big.Int).Mul(b, x1), x0)
				s.Mul(s, Z(int64(500+r.Intn(600))))
				s.Div(s, Z(1000))
				if r.Intn(6) == 0 && len(p.live) > 0 { // same price as an existing order (tie at 53 bits)
					for _, v := range p.live {
						if (v[0].Sign() == 1) == dir {
							b, s = cp(v[1]), cp(v[2])
							if r.Bool() {
								b.Mul(b, Z(3))
								s.Mul(s, Z(3))
							}
							break
						}
					}
				}
				if s.Cmp(ZS("10000000000")) < 0 {
					s = ZS("10000000000")
				}
				owner := int64(1 + r.Intn(5))
				var id uint32
				v := guard(func() []*big.Int {
					if dir {
						id, _ = p.s.PairAddOrder(0, 1, cp(b), cp(s), ownerAddr(owner), uint64(10+j))
					} else {
						id, _ = p.s.PairAddOrder(1, 0, cp(b), cp(s), ownerAddr(owner), uint64(10+j))
					}
					return L(Z(int64(id)))
				})
				rec(L(Z(1), dz, b, s, Z(owner), Z(int64(10+j))), v)
				dd := Z(0)
				if dir {
					dd = Z(1)
				}
				p.live[id] = [3]*big.Int{dd, b, s}
			case k < 7: // sell
				a := r.BigBelow(new(big.Int).Div(x0, Z(int64(1+r.Intn(20)))))
				if r.Intn(10) == 0 {
					a = Z(int64(r.Intn(3000)))
				}
				_, before := p.book(dir)
				v := guard(func() []*big.Int {
					o, _, det, exp := pr.SellWithOrders(cp(a))
					monitorTrade(&mon, &replay, x0, x1, p.pair(dir), det, before)
					trades++
					fills += len(det.Orders)
					refunds += len(exp)
					if len(det.Orders) > 0 {
						nt = true
						last := det.Orders[len(det.Orders)-1]
						if bs, ok := before[last.ID()]; ok && last.WantBuy.Cmp(bs[0]) < 0 {
							partial++
						}
					}
					return encTrade(a, o, p.pair(dir), det, exp)
				})
				rec(L(Z(2), dz, a), v)
			case k < 9: // buy
				o := r.BigBelow(new(big.Int).Div(x1, Z(int64(1+r.Intn(20)))))
				if r.Intn(10) == 0 {
					o = Z(int64(r.Intn(3000)))
				}
				_, before := p.book(dir)
				v := guard(func() []*big.Int {
					in, _, det, exp := pr.BuyWithOrders(cp(o))
					monitorTrade(&mon, &replay, x0, x1, p.pair(dir), det, before)
					trades++
					fills += len(det.Orders)
					refunds += len(exp)
					if len(det.Orders) > 0 {
						nt = true
					}
					return encTrade(in, o, p.pair(dir), det, exp)
				})
				rec(L(Z(3), dz, o), v)
			case k < 10: // commit, then remove a random known order id
				p.commit()
				rec(L(Z(5)), L(Z(0)))
				id := uint32(1 + r.Intn(len(p.live)+2))
				v := guard(func() []*big.Int {
					_, vol := p.s.PairRemoveLimitOrder(id)
					return L(cp(vol))
				})
				rec(L(Z(4), Z(int64(id))), v)
				// second removal must return nothing
				v2 := guard(func() []*big.Int {
					_, vol := p.s.PairRemoveLimitOrder(id)
					return L(cp(vol))
				})
				if len(v2) == 1 && v2[0].Sign() != 0 {
					mon = append(mon, MonitorFailure{What: fmt.Sprintf("C14: order %d cancelled twice, second cancel returned %s", id, v2[0]), Key: "c14-double-cancel", Replay: joinLines(replay)})
				}
				rec(L(Z(4), Z(int64(id))), v2)
			case k < 11:
				if r.Bool() {
					p.commit()
					rec(L(Z(5)), L(Z(0)))
					if r.Intn(3) == 0 {
						p.restart()
						rec(L(Z(7)), L(Z(0)))
					}
				} else {
					bk, _ := p.book(dir)
					rec(L(Z(6), dz), bk)
				}
			default: // read-only calculation
				if r.Bool() {
					a := r.BigBelow(x0)
					v := guard(func() []*big.Int {
						o, os := pr.CalculateBuyForSellWithOrders(cp(a))
						if o == nil {
							return L(Z(1))
						}
						w := L(Z(0), o, Z(int64(len(os))))
						for _, x := range os {
							w = append(w, Z(int64(x.ID())), cp(x.WantBuy), cp(x.WantSell))
						}
						return w
					})
					rec(L(Z(8), dz, a), v)
				} else {
					o := r.BigBelow(x1)
					v := guard(func() []*big.Int {
						in, os := pr.CalculateSellForBuyWithOrders(cp(o))
						if in == nil {
							return L(Z(1))
						}
						w := L(Z(0), in, Z(int64(len(os))))
						for _, x := range os {
							w = append(w, Z(int64(x.ID())), cp(x.WantBuy), cp(x.WantSell))
						}
						return w
					})
					rec(L(Z(9), dz, o), v)
				}
			}
		}
		// final books
		for _, d := range []bool{true, false} {
			bk, _ := p.book(d)
			dz := Z(0)
			if d {
				dz = Z(1)
			}
			rec(L(Z(6), dz), bk)
		}
		c.End(nt, fmt.Sprintf("len%02d", nops/4*4))
	}
	c.Close()
	writeStats(stats, &Stats{Property: "pool3", Seed: seed, Cases: c.NCases, Ops: c.NOps, NonTrivial: c.NonTriv,
		Rule: "history of 3-16 operations (add order / sell / buy with orders / commit+cancel twice / commit / restart / dump book / read-only calculation) on one real PairV2 with both order sides; non-trivial = at least one trade filled at least one order; distinct = distinct history text",
		Dist: c.Dist, Samples: c.Samples, Monitor: mon,
		Extra: map[string]interface{}{"trades": trades, "order_fills": fills, "little_refunds": refunds, "partial_last_fills": partial}})
}
