package main

import (
	"fmt"
	"math/big"

	"github.com/MinterTeam/minter-go-node/coreV2/state/bus"
	"github.com/MinterTeam/minter-go-node/coreV2/state/checker"
	"github.com/MinterTeam/minter-go-node/coreV2/state/swap"
	"github.com/MinterTeam/minter-go-node/coreV2/types"
	"github.com/MinterTeam/minter-go-node/tree"
	db "github.com/tendermint/tm-db"
)

func init() { commands["pool3"] = runPool3 }

type pool3 struct {
	mem  db.DB
	t    tree.MTree
	b    *bus.Bus
	s    *swap.SwapV2
	ver  uint64
	live map[uint32][3]*big.Int // harness-side shadow of live orders (dir, b, s), maintained from the implementation's own outputs
	mon  []MonitorFailure
	hist []string
	restarted bool
	addedSinceRestart map[bool]bool // an order was added on that side since the last restart (it sits in memory, unsorted)
	bookBroken bool // a live order is missing from the book: the rest of this history is not compared with the model
	trades, fills, refunds, partial int
	filled bool
	disk   map[uint32]bool // ids committed to the tree
	lastPartial uint32      // id of the order the last trade filled partially (0: none)
}

// shadowTrade updates the shadow of live orders from the fills/closures the implementation reported.
func (p *pool3) shadowTrade(det *swap.ChangeDetailsWithOrders, expired []*swap.Limit) {
	for _, o := range det.Orders {
		v, ok := p.live[o.ID()]
		if !ok {
			continue
		}
		b := new(big.Int).Sub(v[1], o.WantBuy)
		s := new(big.Int).Sub(v[2], o.WantSell)
		if b.Sign() <= 0 || s.Sign() <= 0 {
			delete(p.live, o.ID())
		} else {
			p.live[o.ID()] = [3]*big.Int{v[0], b, s}
		}
	}
	for _, o := range expired {
		delete(p.live, o.ID())
	}
}

// checkBook: every live order of that side must be offered (C14: nothing is skipped).
func (p *pool3) checkBook(dir bool, m map[uint32][2]*big.Int) {
	for id, v := range p.live {
		if (v[0].Sign() == 1) != dir {
			continue
		}
		if _, ok := m[id]; !ok {
			key := "c14-book-missing"
			if p.restarted {
				key = "c14-book-missing-after-restart"
				if p.addedSinceRestart[dir] {
					// the variant left open by fix c8ee687: an order added after the restart is placed into the still
					// empty in-memory list before the committed orders of that side are loaded
					key = "c14-book-missing-after-restart-and-new-order"
				}
			}
			p.bookBroken = true
			p.mon = append(p.mon, MonitorFailure{What: fmt.Sprintf("C14: live order %d (buy %s sell %s) is not offered by the book of its side", id, v[1], v[2]), Key: key, Replay: joinLines(p.hist)})
		}
	}
}

func newPool3() *pool3 {
	p := &pool3{mem: db.NewMemDB(), live: map[uint32][3]*big.Int{}}
	t, err := tree.NewMutableTree(0, p.mem, 1024, 0)
	if err != nil {
		panic(err)
	}
	p.t = t
	p.b = bus.NewBus()
	checker.NewChecker(p.b)
	p.s = swap.NewV2(p.b, t.GetLastImmutable())
	return p
}

func (p *pool3) commit() {
	if p.disk == nil {
		p.disk = map[uint32]bool{}
	}
	for id := range p.live {
		p.disk[id] = true
	}
	_, v, err := p.t.Commit(p.s)
	if err != nil {
		panic(err)
	}
	p.ver = uint64(v)
}

func (p *pool3) restart() {
	p.restarted = true
	p.addedSinceRestart = map[bool]bool{}
	t, err := tree.NewMutableTree(p.ver, p.mem, 1024, 0)
	if err != nil {
		panic(err)
	}
	p.t = t
	p.s = swap.NewV2(p.b, t.GetLastImmutable())
}

func (p *pool3) pair(dir bool) *swap.PairV2 {
	if dir {
		return p.s.Pair(0, 1)
	}
	return p.s.Pair(1, 0)
}

func encTrade(in, out *big.Int, pr *swap.PairV2, det *swap.ChangeDetailsWithOrders, expired []*swap.Limit) []*big.Int {
	r0, r1 := pr.Reserves()
	v := L(Z(0), cp(in), cp(out), r0, r1, Z(int64(len(det.Orders))))
	for _, o := range det.Orders {
		v = append(v, Z(int64(o.ID())), cp(o.WantBuy), cp(o.WantSell))
	}
	v = append(v, Z(int64(len(expired))))
	for _, o := range expired {
		v = append(v, Z(int64(o.ID())), new(big.Int).SetBytes(o.Owner[:]), cp(o.WantSell))
	}
	return v
}

func ownerAddr(i int64) types.Address {
	var a types.Address
	a[19] = byte(i)
	return a
}

// monitorTrade evaluates C13/C14 directly on what the implementation did.
func monitorTrade(mon *[]MonitorFailure, replay *[]string, r0b, r1b *big.Int, pr *swap.PairV2, det *swap.ChangeDetailsWithOrders, before map[uint32][2]*big.Int) {
	r0a, r1a := pr.Reserves()
	kb := new(big.Int).Mul(r0b, r1b)
	ka := new(big.Int).Mul(r0a, r1a)
	if ka.Cmp(kb) < 0 || r0a.Sign() <= 0 || r1a.Sign() <= 0 {
		*mon = append(*mon, MonitorFailure{What: fmt.Sprintf("C13: reserve product decreased or reserve not positive: (%s,%s) -> (%s,%s)", r0b, r1b, r0a, r1a), Key: "c13-k", Replay: joinLines(*replay)})
	}
	for _, o := range det.Orders {
		bs, ok := before[o.ID()]
		if !ok {
			continue
		}
		B, S := bs[0], bs[1]
		// fill (b, s) of order (B, S): s*B <= b*S + B  and b <= B, s <= S
		// at the order's price up to one unit of rounding in either coin:
		//   (s-1)*B <= b*S  or  s*B <= (b+1)*S
		c1 := new(big.Int).Mul(new(big.Int).Sub(o.WantSell, Z(1)), B).Cmp(new(big.Int).Mul(o.WantBuy, S)) <= 0
		c2 := new(big.Int).Mul(o.WantSell, B).Cmp(new(big.Int).Mul(new(big.Int).Add(o.WantBuy, Z(1)), S)) <= 0
		if !(c1 || c2) || o.WantBuy.Cmp(B) > 0 || o.WantSell.Cmp(S) > 0 {
			*mon = append(*mon, MonitorFailure{What: fmt.Sprintf("C14: order %d (buy %s sell %s) filled worse than its price: gets %s gives %s", o.ID(), B, S, o.WantBuy, o.WantSell), Key: "c14-price", Replay: joinLines(*replay)})
		}
	}
}

func joinLines(l []string) string {
	s := ""
	for _, x := range l {
		s += x + "\n"
	}
	return s
}

// sortKey is the 53-bit price in the sorted-pair orientation (what the code sorts by).
func sortKey(dir bool, b, s *big.Int) *big.Float {
	if dir {
		return new(big.Float).SetPrec(53).SetRat(new(big.Rat).SetFrac(s, b))
	}
	return new(big.Float).SetPrec(53).SetRat(new(big.Rat).SetFrac(b, s))
}

var bookOrderFailures []MonitorFailure

func (p *pool3) book(dir bool) (v []*big.Int, m map[uint32][2]*big.Int) {
	m = map[uint32][2]*big.Int{}
	pr := p.pair(dir)
	n := 0
	var items []*big.Int
	var prev *swap.Limit
	for i := 0; i < 10000; i++ {
		o := pr.OrderSellByIndex(i)
		if o == nil {
			break
		}
		if prev != nil {
			// C14 priority: best price for the taker first, lower id first among equal 53-bit prices
			c := sortKey(dir, prev.WantBuy, prev.WantSell).Cmp(sortKey(dir, o.WantBuy, o.WantSell))
			if !dir {
				c = -c
			}
			if c < 0 || (c == 0 && prev.ID() > o.ID()) {
				bookOrderFailures = append(bookOrderFailures, MonitorFailure{What: fmt.Sprintf("C14: book out of priority order: order %d (buy %s sell %s) is offered before order %d (buy %s sell %s)", prev.ID(), prev.WantBuy, prev.WantSell, o.ID(), o.WantBuy, o.WantSell), Key: "c14-book-order"})
			}
		}
		prev = o
		n++
		items = append(items, Z(int64(o.ID())), cp(o.WantBuy), cp(o.WantSell))
		m[o.ID()] = [2]*big.Int{cp(o.WantBuy), cp(o.WantSell)}
	}
	return append(L(Z(int64(n))), items...), m
}


// exec performs one operation on the real pair and returns the canonical output; it also
// runs the C13/C14 monitors and maintains the shadow of live orders.
func (p *pool3) exec(op []*big.Int) []*big.Int {
	dirOf := func(z *big.Int) bool { return z.Sign() == 1 }
	p.hist = append(p.hist, "> "+ints(op))
	res := p.exec1(op, dirOf)
	p.hist = append(p.hist, "< "+ints(res))
	return res
}

func encCalc(o *big.Int, os []*swap.Limit) []*big.Int {
	if o == nil {
		return L(Z(1))
	}
	w := L(Z(0), o, Z(int64(len(os))))
	for _, x := range os {
		w = append(w, Z(int64(x.ID())), cp(x.WantBuy), cp(x.WantSell))
	}
	return w
}

func (p *pool3) exec1(op []*big.Int, dirOf func(*big.Int) bool) []*big.Int {
	switch op[0].Int64() {
	case 0:
		return guard(func() []*big.Int {
			_, _, l, _ := p.s.PairCreate(0, 1, cp(op[1]), cp(op[2]))
			p.commit()
			return L(Z(0), l)
		})
	case 1:
		return guard(func() []*big.Int {
			var id uint32
			dir := dirOf(op[1])
			if dir {
				id, _ = p.s.PairAddOrder(0, 1, cp(op[2]), cp(op[3]), ownerAddr(op[4].Int64()), op[5].Uint64())
			} else {
				id, _ = p.s.PairAddOrder(1, 0, cp(op[2]), cp(op[3]), ownerAddr(op[4].Int64()), op[5].Uint64())
			}
			p.live[id] = [3]*big.Int{cp(op[1]), cp(op[2]), cp(op[3])}
			if p.restarted {
				if p.addedSinceRestart == nil {
					p.addedSinceRestart = map[bool]bool{}
				}
				p.addedSinceRestart[dir] = true
			}
			return L(Z(int64(id)))
		})
	case 2, 3:
		dir := dirOf(op[1])
		pr := p.pair(dir)
		x0, x1 := pr.Reserves()
		_, before := p.book(dir)
		p.checkBook(dir, before)
		return guard(func() []*big.Int {
			var in, o *big.Int
			var det *swap.ChangeDetailsWithOrders
			var exp []*swap.Limit
			if op[0].Int64() == 2 {
				in = cp(op[2])
				o, _, det, exp = pr.SellWithOrders(cp(op[2]))
			} else {
				o = cp(op[2])
				in, _, det, exp = pr.BuyWithOrders(cp(op[2]))
			}
			p.lastPartial = 0
			monitorTrade(&p.mon, &p.hist, x0, x1, p.pair(dir), det, before)
			p.shadowTrade(det, exp)
			p.trades++
			p.fills += len(det.Orders)
			p.refunds += len(exp)
			if len(det.Orders) > 0 {
				p.filled = true
				last := det.Orders[len(det.Orders)-1]
				if bs, ok := before[last.ID()]; ok && last.WantBuy.Cmp(bs[0]) < 0 {
					p.partial++
					p.lastPartial = last.ID()
				}
			}
			return encTrade(in, o, p.pair(dir), det, exp)
		})
	case 4:
		return guard(func() []*big.Int {
			id := uint32(op[1].Int64())
			_, vol := p.s.PairRemoveLimitOrder(id)
			if v, ok := p.live[id]; ok && !p.disk[id] {
				_ = v // not yet committed: the transaction-level check rejects it (order not found on disk)
				if vol.Sign() != 0 {
					p.mon = append(p.mon, MonitorFailure{What: fmt.Sprintf("C14: cancelling uncommitted order %d returned %s", id, vol), Key: "c14-cancel-amount", Replay: joinLines(p.hist)})
				}
			} else if ok {
				if vol.Cmp(v[2]) != 0 {
					p.mon = append(p.mon, MonitorFailure{What: fmt.Sprintf("C14: cancelling order %d returned %s, unfilled amount is %s", id, vol, v[2]), Key: "c14-cancel-amount", Replay: joinLines(p.hist)})
				}
				delete(p.live, id)
			} else if vol.Sign() != 0 {
				p.mon = append(p.mon, MonitorFailure{What: fmt.Sprintf("C14: cancelling order %d that is not live returned %s", id, vol), Key: "c14-double-cancel", Replay: joinLines(p.hist)})
			}
			return L(cp(vol))
		})
	case 5:
		p.commit()
		return L(Z(0))
	case 6:
		b, m := p.book(dirOf(op[1]))
		p.checkBook(dirOf(op[1]), m)
		return b
	case 7:
		p.restart()
		return L(Z(0))
	case 8:
		return guard(func() []*big.Int {
			return encCalc(p.pair(dirOf(op[1])).CalculateBuyForSellWithOrders(cp(op[2])))
		})
	case 9:
		return guard(func() []*big.Int {
			return encCalc(p.pair(dirOf(op[1])).CalculateSellForBuyWithOrders(cp(op[2])))
		})
	}
	return L(Z(-1))
}

func runPool3(seed uint64, n int, out, stats string, args []string) {
	r := NewRng(seed)
	c := NewCases(out)
	var mon []MonitorFailure
	trades, fills, refunds, partial := 0, 0, 0, 0
	finish := func(p *pool3, nt bool, kind string) {
		for _, bf := range bookOrderFailures {
			bf.Replay = joinLines(p.hist)
			p.mon = append(p.mon, bf)
		}
		bookOrderFailures = nil
		mon = append(mon, p.mon...)
		trades += p.trades
		fills += p.fills
		refunds += p.refunds
		partial += p.partial
		c.End(nt, kind)
	}
	// corpus first: minimised failures kept under /verif/corpus (args: list of .ops files)
	for _, f := range args {
		p := newPool3()
		c.Begin(3)
		for _, op := range readOps(f) {
			v := p.exec(op)
			if p.bookBroken {
				break // reported by the monitor; the model would only repeat it
			}
			c.Op(op, v)
		}
		finish(p, true, "corpus")
	}
	for i := 0; i < n; i++ {
		p := newPool3()
		c.Begin(3)
		do := func(op []*big.Int) []*big.Int {
			if p.bookBroken {
				return nil
			}
			v := p.exec(op)
			if p.bookBroken {
				return v // reported by the monitor; the rest of the history is not compared with the model
			}
			c.Op(op, v)
			return v
		}
		// reserves around 1e12..1e30 so that orders above the minimum volume matter
		var r0, r1 *big.Int
		switch r.Intn(3) {
		case 0:
			r0, r1 = new(big.Int).Add(r.Big(24), ZS("1000000000000")), new(big.Int).Add(r.Big(24), ZS("1000000000000"))
		case 1:
			r0, r1 = new(big.Int).Add(r.Big(30), ZS("1000000000000")), new(big.Int).Add(r.Big(20), ZS("1000000000000"))
		default:
			r0, r1 = ZS("1000000000000000000000"), ZS("1000000000000000000000")
		}
		do(L(Z(0), r0, r1))
		nops := 3 + r.Intn(14)
		for j := 0; j < nops; j++ {
			dir := r.Intn(3) != 0
			dz := Z(0)
			if dir {
				dz = Z(1)
			}
			x0, x1 := p.pair(dir).Reserves()
			if x0.Sign() < 1 || x1.Sign() < 1 {
				p.mon = append(p.mon, MonitorFailure{What: fmt.Sprintf("C13: a pool reserve is not positive: %s / %s", x0, x1), Key: "c13-reserve-not-positive", Replay: joinLines(p.hist)})
				break
			}
			switch k := r.Intn(12); {
			case k < 4: // add an order near the pool price
				b := new(big.Int).Add(r.BigBelow(new(big.Int).Div(x0, Z(int64(2+r.Intn(50))))), ZS("20000000000"))
				s := new(big.Int).Div(new(big.Int).Mul(b, x1), x0)
				if r.Intn(6) != 0 { // otherwise: exactly the pool price (no price-move step before this order is crossed)
					s.Mul(s, Z(int64(500+r.Intn(900))))
					s.Div(s, Z(1000))
				}
				if r.Intn(5) == 0 && len(p.live) > 0 { // same exact price as an existing order (tie at 53 bits)
					for _, v := range p.live {
						if (v[0].Sign() == 1) == dir {
							b, s = cp(v[1]), cp(v[2])
							if r.Bool() {
								b.Mul(b, Z(3))
								s.Mul(s, Z(3))
							}
							break
						}
					}
				}
				if s.Cmp(ZS("10000000000")) < 0 {
					s = ZS("10000000000")
				}
				do(L(Z(1), dz, b, s, Z(int64(1+r.Intn(5))), Z(int64(10+j))))
			case k < 7: // sell
				a := r.BigBelow(new(big.Int).Div(x0, Z(int64(1+r.Intn(20)))))
				if r.Intn(10) == 0 {
					a = Z(int64(r.Intn(3000)))
				}
				do(L(Z(2), dz, a))
				if p.lastPartial != 0 && r.Intn(2) == 0 {
					// cancel the order that was just filled partially, before any commit (the order is dirty in memory)
					do(L(Z(4), Z(int64(p.lastPartial))))
				}
			case k < 9: // buy
				o := r.BigBelow(new(big.Int).Div(x1, Z(int64(1+r.Intn(20)))))
				if r.Intn(10) == 0 {
					o = Z(int64(r.Intn(3000)))
				}
				if r.Intn(5) == 0 {
					// boundary: everything the pool holds plus the first k orders in full, give or take one unit
					// (the tail branch of calculateSellForBuyWithOrders: remaining amount = remaining reserve)
					o = cp(x1)
					pr := p.pair(dir)
					for k, kk := 0, r.Intn(4); k < kk; k++ {
						l := pr.OrderSellByIndex(k)
						if l == nil {
							break
						}
						o.Add(o, l.WantSell)
					}
					o.Add(o, Z(int64(r.Intn(3)-1)))
				}
				do(L(Z(3), dz, o))
				if p.lastPartial != 0 && r.Intn(2) == 0 {
					do(L(Z(4), Z(int64(p.lastPartial))))
				}
			case k < 10: // (mostly commit, then) cancel a random known order id, twice
				if r.Intn(3) != 0 {
					do(L(Z(5)))
					if r.Intn(3) == 0 {
						do(L(Z(7)))
					}
				}
				id := Z(int64(1 + r.Intn(len(p.live)+2)))
				do(L(Z(4), id))
				do(L(Z(4), id))
			case k < 11:
				if r.Bool() {
					do(L(Z(5)))
					if r.Intn(2) == 0 {
						do(L(Z(7)))
					}
				} else {
					do(L(Z(6), dz))
				}
			default: // read-only calculation
				if r.Bool() {
					do(L(Z(8), dz, r.BigBelow(x0)))
				} else {
					do(L(Z(9), dz, r.BigBelow(x1)))
				}
			}
		}
		do(L(Z(6), Z(1)))
		do(L(Z(6), Z(0)))
		finish(p, p.filled, fmt.Sprintf("len%02d", nops/4*4))
	}
	c.Close()
	writeStats(stats, &Stats{Property: "pool3", Seed: seed, Cases: c.NCases, Ops: c.NOps, NonTrivial: c.NonTriv,
		Rule: "history of 3-16 operations (add order / sell / buy with orders / commit[+restart]+cancel twice / commit[+restart] / dump book / read-only calculation) on one real PairV2 with both order sides, corpus histories first; non-trivial = at least one trade filled at least one order; distinct = distinct history text",
		Dist: c.Dist, Samples: c.Samples, Monitor: mon,
		Extra: map[string]interface{}{"trades": trades, "order_fills": fills, "little_refunds": refunds, "partial_last_fills": partial}})
}
