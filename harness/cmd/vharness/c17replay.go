package main

// c17replay.go — node-level replay of the C17 finding "candidates removed at genesis import are
// unbonded into the past": a genesis with 103 candidates (1 validator); state.Import runs
// RecalculateStakesV2(s.height) while s.height is still 0 inside InitChain, so the three candidates
// ranked beyond 100 are deleted with their stakes frozen until 0+UnbondPeriod (531 on the testnet
// chain id) although the chain starts at height 10200001; BeginBlock only releases the funds of
// exactly the current height, so they are never paid back and no export contains them.
//   vharness c17replay        prints the observations and FINDING-REPRODUCED / not-reproduced

import (
	"fmt"
	"math/big"

	"github.com/MinterTeam/minter-go-node/coreV2/types"
)

func init() { commands["c17replay"] = runC17Replay }

func runC17Replay(seed uint64, n int, out, stats string, _ []string) {
	spec := &GenesisSpec{NAccounts: 4, Balance: pip(1000000), NVals: 1, ExtraCands: 102}
	spec.Mutate = func(st *types.AppState) {
		for ci := range st.Candidates {
			v := pip(int64(2000 + ci)) // stake grows with the ID: IDs 2,3,4 rank 101..103 (ID 1 is the validator)
			if ci == 0 {
				v = pip(100000)
			}
			st.Candidates[ci].Stakes[0].Value = v.String()
			st.Candidates[ci].Stakes[0].BipValue = v.String()
			st.Candidates[ci].TotalBipStake = v.String()
		}
		st.Validators[0].TotalBipStake = st.Candidates[0].TotalBipStake
	}
	nd := newNode(spec)
	defer nd.Cleanup()
	nd.Block(nil, nil)
	e := nd.Export()
	fmt.Println("candidates in genesis:", len(nd.Genesis.Candidates), " after InitChain:", len(e.Candidates), " deleted:", len(e.DeletedCandidates))
	fmt.Println("frozen funds in the export:", len(e.FrozenFunds))
	staked := big.NewInt(0)
	for _, c := range nd.Genesis.Candidates[1:4] {
		staked.Add(staked, bi(c.Stakes[0].Value))
	}
	past, due := big.NewInt(0), big.NewInt(0)
	for _, h := range []uint64{types.GetUnbondPeriod(), uint64(InitialHeight-1) + types.GetUnbondPeriod()} {
		ff := nd.App.CurrentState().FrozenFunds().GetFrozenFunds(h)
		if ff == nil {
			fmt.Println("frozen funds due at height", h, ": none")
			continue
		}
		for _, f := range ff.List {
			fmt.Println("frozen funds due at height", h, ":", f.Address.String(), f.Value, "from candidate", f.CandidateID)
			if h == types.GetUnbondPeriod() {
				past.Add(past, f.Value)
			} else {
				due.Add(due, f.Value)
			}
		}
	}
	before := big.NewInt(0)
	for _, a := range nd.Accts {
		before.Add(before, nd.App.CurrentState().Accounts().GetBalance(a.Addr, 0))
	}
	for nd.Height < int64(InitialHeight)+int64(types.GetUnbondPeriod())+5 {
		nd.Block(nil, nil)
	}
	after := big.NewInt(0)
	for _, a := range nd.Accts {
		after.Add(after, nd.App.CurrentState().Accounts().GetBalance(a.Addr, 0))
	}
	fmt.Println("height", nd.Height, ": balances of the stake owners grew by", new(big.Int).Sub(after, before), "; staked by the removed candidates:", staked)
	if past.Sign() > 0 && after.Cmp(before) == 0 {
		fmt.Println("FINDING-REPRODUCED: C17 genesis removal frozen in the past:", past, "pip due at height", types.GetUnbondPeriod(), "never released")
	} else {
		fmt.Println("not reproduced: funds due at the initial height + UnbondPeriod:", due, ", returned:", new(big.Int).Sub(after, before))
	}
}
