package main

// c11.go — C11 "exported state round-trips through genesis", node level.
//
// A generated history (all transaction kinds of workload.go plus commission votes and public-key
// changes, absences, evidence, one block-time jump) runs on a real in-process node A up to a
// chosen height h (right after an update block, right before one, or in the middle of a period).
// The genesis is assembled exactly as cmd/minter/cmd/export.go does it (state export of the
// committed height through a fresh NewCheckStateAtHeightV3 + versions + emission + price record
// of the appdb), AppState.Verify() is evaluated, the document is serialised with amino JSON and
// handed to InitChain of a fresh node B (InitialHeight h+1, same validator keys, same clock).
// B's committed state is exported at once and compared with A's section by section; then the
// SAME continuation (same raw transactions, same block options) runs on A and on B and every
// response, validator update, export, emission and reward pair is compared block by block.
// App hashes are never compared (different tree history by construction).
//
// Monitor keys
//   c11-verify                      Verify() rejects an exported state (or the assembly / InitChain fails)
//   c11-section:<name>              the second export differs from the first in that section
//   c11-hidden:<what>               state that no export shows differs (coins count, reward pair)
//   c11-continuation:<what>         the two chains behave differently afterwards
//   c11-scenario-broken:<name>      a scripted scenario could not be set up any more
// Differences that are consequences of a decided finding carry that finding's key instead:
//   c11-pending-updates-merged          Import recalculates the stakes at once (state.go:370): mid-period export
//   c11-initchain-reselects-validators  InitChain -> updateValidators() re-selects the validators at once (blockchain.go:268)
//   c11-accum-reward-dropped            ... and discards the accumulated reward of a validator that drops out
//   c11-reward-recovery-lost            Import sets reward = safe reward = PrevReward.Reward (state.go:292)
//   c11-halt-votes-lost                 REPAIRED 49ebe8c (regression): Export wrote halt_blocks, Import never read them
//   c11-token-lock-verify               REPAIRED b66d393 (regression): Verify() did not count the frozen funds of a token
//   c11-candidate-maxid-lost            REPAIRED 9497f5f (regression): ids of deleted candidates were issued again after import
//   c11-stake-slots-compacted           Export drops the empty stake slots: a later delegation lands in another slot
//   c11-blocktimes-not-exported         the max-gas controller restarts (block times live in the appdb only)
//   c11-grace-period                    no absence punishment for 120 blocks after InitChain (by design of upgrades)
//   c11-export-cmd-initial-height       cmd export writes InitialHeight = h, so block number h is executed twice
// c11scen.go replays each of them minimally (vharness c11 -n 0 -- -scenario <name>|all); a single random
// history is replayed with   vharness c11 -seed S -n N -- -no-scenarios -only <index> -v
// c11model.go writes the correspondence cases for Model/GenesisRun.v (dispatch model 18).

import (
	"encoding/json"
	"fmt"
	"math/big"
	"os"
	"reflect"
	"sort"
	"strings"
	"time"

	"github.com/MinterTeam/minter-go-node/cmd/utils"
	"github.com/MinterTeam/minter-go-node/config"
	"github.com/MinterTeam/minter-go-node/coreV2/state"
	"github.com/MinterTeam/minter-go-node/coreV2/state/candidates"
	"github.com/MinterTeam/minter-go-node/coreV2/transaction"
	"github.com/MinterTeam/minter-go-node/coreV2/types"
	amino "github.com/tendermint/go-amino"
	abci "github.com/tendermint/tendermint/abci/types"
)

func init() { commands["c11"] = runC11 }

// ---- genesis assembly: cmd/minter/cmd/export.go ------------------------------------------------

type c11Genesis struct {
	State     types.AppState
	Bytes     []byte
	VerifyErr error
	Height    int64
}

func c11Assemble(n *Node) (g *c11Genesis, err error) {
	defer func() {
		if r := recover(); r != nil {
			err = fmt.Errorf("panic while exporting: %v", r)
		}
	}()
	h := uint64(n.Height)
	cs, e := state.NewCheckStateAtHeightV3(h, n.Store.StateDB())
	if e != nil {
		return nil, e
	}
	appState := cs.Export()
	g = &c11Genesis{Height: n.Height}
	g.VerifyErr = appState.Verify()
	db := n.App.VerifAppDB()
	for _, v := range db.GetVersions() {
		appState.Versions = append(appState.Versions, types.Version{Height: v.Height, Name: v.Name})
	}
	appState.Emission = db.Emission().String()
	t, r0, r1, reward, off := db.GetPrice()
	appState.PrevReward = types.RewardPrice{Time: uint64(t.UTC().UnixNano()), AmountBIP: r0.String(), AmountUSDT: r1.String(), Off: off, Reward: reward.String()}
	// patch proposal for c11-reward-recovery-lost: when RewardPrice has a SafeReward field, export.go fills it
	// from the state (absent on the unpatched tree)
	if f := reflect.ValueOf(&appState.PrevReward).Elem().FieldByName("SafeReward"); f.IsValid() {
		_, safe := cs.App().Reward()
		f.SetString(safe.String())
	}
	g.State = appState
	g.Bytes, e = amino.NewCodec().MarshalJSON(appState)
	if e != nil {
		return nil, e
	}
	return g, nil
}

// c11Fork starts a fresh node from the genesis bytes; first block = initialHeight.
func c11Fork(src *Node, gen []byte, initialHeight int64) (n *Node, failure string) {
	n = &Node{Accts: src.Accts, Vals: src.Vals, Hashes: map[int64]string{}}
	home, err := os.MkdirTemp(os.Getenv("VERIF_TMP"), "vnode")
	if err != nil {
		panic(err)
	}
	n.Home = home
	os.MkdirAll(home+"/data", 0755)
	os.MkdirAll(home+"/config", 0755)
	n.Store = utils.NewStorage(home, "")
	n.Cfg = config.GetConfig(home)
	n.Cfg.DBBackend = "goleveldb"
	n.Cfg.KeepLastStates = 100000
	n.start()
	func() {
		defer func() {
			if r := recover(); r != nil {
				failure = fmt.Sprintf("InitChain panics: %v STACK %s", r, stackSummary())
			}
		}()
		n.App.InitChain(abci.RequestInitChain{Time: src.Time, ChainId: "verif", InitialHeight: initialHeight, AppStateBytes: gen})
	}()
	n.Time = src.Time
	n.Height = initialHeight - 1
	return n, failure
}

// ---- canonical sections -------------------------------------------------------------------------

type c11Section struct {
	Name    string
	Entries []string // canonical JSON per entry, in canonical order
}

func c11J(v interface{}) string { b, _ := json.Marshal(v); return string(b) }

func c11Sorted(l []string) []string { sort.Strings(l); return l }

// c11Sections projects an export (or an assembled genesis) to named lists of canonical entries.
// Orders that are artefacts of map iteration or of a derived ranking (candidates by stake, pools
// by a string key, orders by price, per-address waitlists, frozen funds per height) are
// normalised by sorting on the identifying fields; stake slots and pending updates keep their
// order (it is state: the first minimal slot is the one that gets replaced).
func c11Sections(st *types.AppState) []c11Section {
	var out []c11Section
	add := func(name string, e []string) { out = append(out, c11Section{name, e}) }
	var l []string
	for _, v := range st.Validators {
		l = append(l, c11J(v))
	}
	add("validators", c11Sorted(l))
	cands := append([]types.Candidate{}, st.Candidates...)
	sort.Slice(cands, func(i, j int) bool { return cands[i].ID < cands[j].ID })
	l = nil
	for _, c := range cands {
		l = append(l, c11J(c))
	}
	add("candidates", l)
	l = nil
	for _, p := range st.BlockListCandidates {
		l = append(l, c11J(p))
	}
	add("block_list_candidates", c11Sorted(l))
	l = nil
	for _, p := range st.DeletedCandidates {
		l = append(l, c11J(p))
	}
	add("deleted_candidates", c11Sorted(l))
	l = nil
	for _, w := range st.Waitlist {
		l = append(l, fmt.Sprintf("%s cand=%d coin=%d value=%s", w.Owner.String(), w.CandidateID, w.Coin, w.Value))
	}
	add("waitlist", c11Sorted(l))
	pools := append([]types.Pool{}, st.Pools...)
	sort.Slice(pools, func(i, j int) bool {
		if pools[i].Coin0 != pools[j].Coin0 {
			return pools[i].Coin0 < pools[j].Coin0
		}
		return pools[i].Coin1 < pools[j].Coin1
	})
	l = nil
	var lo []string
	for _, p := range pools {
		q := p
		q.Orders = nil
		l = append(l, c11J(q))
		ords := append([]types.Order{}, p.Orders...)
		sort.Slice(ords, func(i, j int) bool { return ords[i].ID < ords[j].ID })
		for _, o := range ords {
			lo = append(lo, fmt.Sprintf("pool %d-%d %s", p.Coin0, p.Coin1, c11J(o)))
		}
	}
	add("pools", l)
	add("orders", lo)
	add("next_order_id", []string{fmt.Sprint(st.NextOrderID)})
	l = nil
	for _, a := range st.Accounts {
		l = append(l, c11J(a))
	}
	add("accounts", c11Sorted(l))
	coins := append([]types.Coin{}, st.Coins...)
	sort.Slice(coins, func(i, j int) bool { return coins[i].ID < coins[j].ID })
	l = nil
	for _, c := range coins {
		l = append(l, c11J(c))
	}
	add("coins", l)
	l = nil
	for _, f := range st.FrozenFunds {
		l = append(l, fmt.Sprintf("%012d %s", f.Height, c11J(f)))
	}
	add("frozen_funds", c11Sorted(l))
	l = nil
	for _, hb := range st.HaltBlocks {
		l = append(l, fmt.Sprintf("%012d %s", hb.Height, hb.CandidateKey.String()))
	}
	add("halt_blocks", c11Sorted(l))
	add("commission", []string{c11J(st.Commission)})
	l = nil
	for _, v := range st.CommissionVotes {
		var ks []string
		for _, k := range v.Votes {
			ks = append(ks, k.String())
		}
		l = append(l, fmt.Sprintf("%012d %s votes=%v", v.Height, c11J(v.Commission), c11Sorted(ks)))
	}
	add("commission_votes", c11Sorted(l))
	l = nil
	for _, v := range st.UpdateVotes {
		var ks []string
		for _, k := range v.Votes {
			ks = append(ks, k.String())
		}
		l = append(l, fmt.Sprintf("%012d %s votes=%v", v.Height, v.Version, c11Sorted(ks)))
	}
	add("update_votes", c11Sorted(l))
	l = nil
	for _, u := range st.UsedChecks {
		l = append(l, string(u))
	}
	add("used_checks", c11Sorted(l))
	add("max_gas", []string{fmt.Sprint(st.MaxGas)})
	add("total_slashed", []string{st.TotalSlashed})
	return out
}

// the part of the genesis document that does not come from the state export
func c11DocSections(st *types.AppState) []c11Section {
	var vs []string
	for _, v := range st.Versions {
		vs = append(vs, fmt.Sprintf("%s@%d", v.Name, v.Height))
	}
	return []c11Section{{"emission", []string{st.Emission}}, {"prev_reward", []string{c11J(st.PrevReward)}}, {"versions", vs}}
}

type c11Diff struct {
	Section string
	Entry   string
}

func c11DiffSections(a, b []c11Section) []c11Diff {
	var out []c11Diff
	for i := range a {
		if i >= len(b) {
			break
		}
		ea, eb := a[i].Entries, b[i].Entries
		if strings.Join(ea, "\n") == strings.Join(eb, "\n") {
			continue
		}
		d := c11Diff{Section: a[i].Name}
		n := len(ea)
		if len(eb) > n {
			n = len(eb)
		}
		for k := 0; k < n; k++ {
			var x, y string
			if k < len(ea) {
				x = ea[k]
			}
			if k < len(eb) {
				y = eb[k]
			}
			if x != y {
				d.Entry = fmt.Sprintf("entry %d: first %q second %q", k, c11Trunc(x), c11Trunc(y))
				break
			}
		}
		out = append(out, d)
	}
	return out
}

var c11TruncAt = 600

func c11Trunc(s string) string {
	if len(s) > c11TruncAt {
		return s[:c11TruncAt] + "..."
	}
	return s
}

// candidates with their stake slots sorted by (owner, coin): equal here but different in c11Sections
// means only the slot order differs
func c11CandsSortedStakes(st *types.AppState) []string {
	cands := append([]types.Candidate{}, st.Candidates...)
	sort.Slice(cands, func(i, j int) bool { return cands[i].ID < cands[j].ID })
	var l []string
	for _, c := range cands {
		c.Stakes = append([]types.Stake{}, c.Stakes...)
		sort.SliceStable(c.Stakes, func(i, j int) bool {
			if c.Stakes[i].Owner != c.Stakes[j].Owner {
				return c.Stakes[i].Owner.String() < c.Stakes[j].Owner.String()
			}
			return c.Stakes[i].Coin < c.Stakes[j].Coin
		})
		l = append(l, c11J(c))
	}
	return l
}

// c11Hidden reads state that no export shows from the committed check state of a node.
func c11Hidden(n *Node) map[string]string {
	cs := n.App.CurrentState()
	r, sr := cs.App().Reward()
	return map[string]string{
		"coins_count": fmt.Sprint(cs.App().GetCoinsCount()),
		"reward":      r.String(),
		"safe_reward": sr.String(),
	}
}

// ---- which recalculation-dependent data does an export carry? -----------------------------------

// c11RecalcSensitive: an export whose candidates section is not a fixpoint of recalculateStakes by
// inspection: pending updates, or a stake whose stored bip value is not what a recalculation would
// store now (base coin: the value; other coins: anything that moved the coin's reserve or the
// delegated total since), or a total that is not the sum of the bip values.
func c11RecalcSensitive(st *types.AppState) (bool, string) {
	for _, c := range st.Candidates {
		if len(c.Updates) > 0 {
			return true, fmt.Sprintf("candidate %d has %d pending updates", c.ID, len(c.Updates))
		}
		sum := big.NewInt(0)
		for _, s := range c.Stakes {
			if s.Coin != 0 {
				return true, fmt.Sprintf("candidate %d holds a stake in coin %d (bip value depends on the reserve at recalculation time)", c.ID, s.Coin)
			}
			if s.Value != s.BipValue {
				return true, fmt.Sprintf("candidate %d: base-coin stake value %s with stored bip value %s", c.ID, s.Value, s.BipValue)
			}
			sum.Add(sum, bi(s.BipValue))
		}
		if sum.String() != c.TotalBipStake {
			return true, fmt.Sprintf("candidate %d: total %s is not the sum of its stakes %s", c.ID, c.TotalBipStake, sum)
		}
	}
	return false, ""
}

// ---- the differential --------------------------------------------------------------------------

type c11Run struct {
	mon     []MonitorFailure
	seen    map[string]bool
	where   string
	dist    map[string]int
	nontriv int
	samples []string
	blocksA int
	txs     int
	okTxs   int
	forks   int
	verbose bool
	cases   *Cases
}

// fail records a monitor failure; one entry per (key, history): the first occurrence, the rest is counted
func (x *c11Run) fail(key, what string) {
	x.dist["monitor:"+key]++
	k := key + "|" + x.where
	if x.seen[k] {
		return
	}
	x.seen[k] = true
	x.mon = append(x.mon, MonitorFailure{What: "C11: " + what, Key: key, Replay: x.where})
}

// failAll records every call (scripted scenarios report several facts under one key)
func (x *c11Run) failAll(key, what string) {
	x.dist["monitor:"+key]++
	x.mon = append(x.mon, MonitorFailure{What: "C11: " + what, Key: key, Replay: x.where})
}

// taint: the decided findings whose precondition holds for this fork; a difference of the kind a
// finding explains is reported under the finding's key, everything else under the generic key.
type c11Taint struct {
	recalc    string // non-empty: the export was not a fixpoint of the stake recalculation
	reselect  string // non-empty: the exported validators are not what updateValidators would select from the exported candidates
	reward    string // non-empty: reward != safe reward at export time
	halts     string // non-empty: the export carries halt votes
	tokenLock string // non-empty: frozen funds in a coin without reserve
	many      bool   // 100 candidates or more: the recalculation also removes candidates
	maxID     string // non-empty: the highest candidate id ever assigned belongs to a deleted candidate
}

// what the import-time recalculation can change in the committed state: stakes, updates and totals of the
// candidates, the waitlist (kicked stakes) and, with 100 candidates or more, the removal of the lowest ranked
// (their stakes become frozen funds, their keys go to the block list and to the deleted candidates)
func c11RecalcSection(name string, manyCandidates bool) bool {
	switch name {
	case "candidates", "waitlist":
		return true
	case "frozen_funds", "deleted_candidates", "block_list_candidates":
		return manyCandidates
	}
	return false
}

// a difference between the first and the second export (the committed result of Import)
func (x *c11Run) classify(prefix string, d c11Diff, t *c11Taint, afterFirstBlock bool) {
	what := fmt.Sprintf("%s section %s differs: %s", prefix, d.Section, d.Entry)
	switch {
	case d.Section == "halt_blocks" && t.halts != "" && (!afterFirstBlock || (t.recalc == "" && t.reselect == "" && t.reward == "")):
		// (regression of the defect repaired by 49ebe8c; in a tainted fork a later vote may simply be accepted on one chain only)
		x.fail("c11-halt-votes-lost", what+" ["+t.halts+"]")
	case afterFirstBlock:
		x.contDiff(t, "c11-continuation:export-"+d.Section, what)
	case t.recalc != "" && c11RecalcSection(d.Section, t.many):
		x.fail("c11-pending-updates-merged", what+" ["+t.recalc+"]")
	default:
		x.fail("c11-section:"+d.Section, what)
	}
}

// a difference observed while both chains execute the same continuation: once the stakes or the
// validator set differ, rewards, balances and with them any later response may differ, so in a fork
// whose export was not a fixpoint of the update-block work every continuation difference is a
// consequence of that finding; the forks taken at a fixpoint keep the generic keys.
func (x *c11Run) contDiff(t *c11Taint, generic, what string) {
	switch {
	case t.recalc != "":
		x.fail("c11-pending-updates-merged", what+" ["+t.recalc+"]")
	case t.reselect != "":
		x.fail("c11-initchain-reselects-validators", what+" ["+t.reselect+"]")
	case t.reward != "":
		x.fail("c11-reward-recovery-lost", what+" ["+t.reward+"]")
	default:
		x.fail(generic, what)
	}
}

// c11Reselect: would updateValidators, run on the exported candidates, produce exactly the exported
// validators (GetNewCandidates: online, total >= 1000 BIP, first 64 by (total desc, id desc); each
// validator's total = its candidate's total)?
func c11Reselect(st *types.AppState) string {
	type ck struct {
		id    uint64
		total *big.Int
		pub   types.Pubkey
	}
	var el []ck
	min := pip(1000)
	totals := map[types.Pubkey]string{}
	for _, c := range st.Candidates {
		totals[c.PubKey] = c.TotalBipStake
		if c.Status == candidates.CandidateStatusOnline && bi(c.TotalBipStake).Cmp(min) >= 0 {
			el = append(el, ck{c.ID, bi(c.TotalBipStake), c.PubKey})
		}
	}
	sort.SliceStable(el, func(i, j int) bool {
		if c := el[i].total.Cmp(el[j].total); c != 0 {
			return c > 0
		}
		return el[i].id > el[j].id
	})
	if len(el) > 64 {
		el = el[:64]
	}
	sel := map[types.Pubkey]bool{}
	for _, e := range el {
		sel[e.pub] = true
	}
	for _, v := range st.Validators {
		if !sel[v.PubKey] {
			return fmt.Sprintf("validator %s would not be selected from the exported candidates", v.PubKey.String())
		}
		if totals[v.PubKey] != v.TotalBipStake {
			return fmt.Sprintf("validator %s carries total %s, its candidate %s", v.PubKey.String(), v.TotalBipStake, totals[v.PubKey])
		}
		delete(sel, v.PubKey)
	}
	for p := range sel {
		return fmt.Sprintf("candidate %s would be selected but is not an exported validator", p.String())
	}
	return ""
}

// roundTrip forks B from A's committed state and compares the immediate exports. Returns B (nil if
// the fork failed) and the taint.
func (x *c11Run) roundTrip(a *Node) (*Node, *c11Taint, *c11Genesis) {
	t := &c11Taint{}
	g, err := c11Assemble(a)
	if err != nil {
		x.fail("c11-verify", fmt.Sprintf("export of height %d cannot be assembled: %v", a.Height, err))
		return nil, t, nil
	}
	x.forks++
	// the live node's own export must be the one a fresh check state produces
	if live := a.Export(); c11J(c11Sections(&live)) != c11J(c11Sections(&g.State)) {
		d := c11DiffSections(c11Sections(&live), c11Sections(&g.State))
		if x.verbose {
			lj, _ := json.Marshal(live.Validators)
			fj, _ := json.Marshal(g.State.Validators)
			fmt.Printf("live validators:  %s\nfresh validators: %s\n", lj, fj)
		}
		x.fail("c11-section:live-vs-fresh", fmt.Sprintf("export of the running node differs from the export of a fresh check state at height %d: %+v", a.Height, d))
	}
	if s, why := c11RecalcSensitive(&g.State); s {
		t.recalc = why
	}
	t.reselect = c11Reselect(&g.State)
	t.many = len(g.State.Candidates) >= 100
	if r, sr := a.App.CurrentState().App().Reward(); r.Cmp(sr) != 0 {
		t.reward = fmt.Sprintf("reward %s, safe reward %s at export", r, sr)
	}
	if len(g.State.HaltBlocks) > 0 {
		t.halts = fmt.Sprintf("%d halt votes exported", len(g.State.HaltBlocks))
	}
	crr := map[uint64]uint64{}
	for _, c := range g.State.Coins {
		crr[c.ID] = c.Crr
	}
	for _, f := range g.State.FrozenFunds {
		if f.Coin != 0 && crr[f.Coin] == 0 {
			t.tokenLock = fmt.Sprintf("frozen fund of %s in token %d due at %d", f.Value, f.Coin, f.Height)
		}
	}
	maxLive, maxDel := uint64(0), uint64(0)
	for _, c := range g.State.Candidates {
		if c.ID > maxLive {
			maxLive = c.ID
		}
	}
	for _, c := range g.State.DeletedCandidates {
		if c.ID > maxDel {
			maxDel = c.ID
		}
	}
	if maxDel > maxLive {
		t.maxID = fmt.Sprintf("deleted candidate id %d above the highest live id %d", maxDel, maxLive)
	}
	if g.VerifyErr != nil {
		if t.tokenLock != "" && strings.Contains(g.VerifyErr.Error(), "wrong token") {
			x.fail("c11-token-lock-verify", fmt.Sprintf("Verify() rejects the export of height %d: %v [%s]", a.Height, g.VerifyErr, t.tokenLock))
		} else {
			x.fail("c11-verify", fmt.Sprintf("Verify() rejects the export of height %d: %v", a.Height, g.VerifyErr))
		}
	}
	b, failure := c11Fork(a, g.Bytes, a.Height+1)
	if failure != "" {
		x.fail("c11-verify", fmt.Sprintf("genesis exported at height %d: %s", a.Height, failure))
		b.Cleanup()
		return nil, t, g
	}
	// second export, assembled the same way
	g2, err := c11Assemble(b)
	if err != nil {
		x.fail("c11-verify", fmt.Sprintf("second export cannot be assembled: %v", err))
		b.Cleanup()
		return nil, t, g
	}
	if g2.VerifyErr != nil && g.VerifyErr == nil {
		x.fail("c11-verify", fmt.Sprintf("Verify() rejects the second export: %v", g2.VerifyErr))
	}
	for _, d := range c11DiffSections(c11Sections(&g.State), c11Sections(&g2.State)) {
		x.classify("round trip at height "+fmt.Sprint(a.Height)+":", d, t, false)
		if x.verbose {
			fmt.Printf("%s\n  round-trip diff %s: %s\n", x.where, d.Section, d.Entry)
		}
	}
	c11Case(x.cases, g, g2, fmt.Sprintf("offset%d", a.Height%stakePeriod))
	c11Mutations(x.cases, &g.State, NewRng(uint64(a.Height)*7919+uint64(len(g.Bytes))))
	for _, d := range c11DiffSections(c11DocSections(&g.State), c11DocSections(&g2.State)) {
		x.fail("c11-section:"+d.Section, fmt.Sprintf("round trip at height %d: %s differs: %s", a.Height, d.Section, d.Entry))
	}
	ha, hb := c11Hidden(a), c11Hidden(b)
	for _, k := range []string{"coins_count", "reward", "safe_reward"} {
		if ha[k] != hb[k] {
			if k == "safe_reward" && t.reward != "" {
				x.fail("c11-reward-recovery-lost", fmt.Sprintf("round trip at height %d: safe reward %s on the original, %s on the new chain [%s]", a.Height, ha[k], hb[k], t.reward))
			} else {
				x.fail("c11-hidden:"+k, fmt.Sprintf("round trip at height %d: %s is %s on the original and %s on the new chain", a.Height, k, ha[k], hb[k]))
			}
		}
	}
	return b, t, g
}

// tags that carry amounts / ids decided by the state
var c11Tags = []string{"tx.return", "tx.sell_amount", "tx.coin_id", "tx.pool_token_id", "tx.order_id", "tx.commission_amount",
	"tx.commission_in_base_coin", "tx.commission_conversion", "tx.fail_fee", "tx.burned_for_symbol", "tx.pools", "tx.liquidity", "tx.volume1", "tx.pair_ids", "tx.fail"}

func c11Resp(r TxResult) string {
	s := fmt.Sprintf("code=%d gas=%d", r.Code, r.Gas)
	for _, k := range c11Tags {
		if v, ok := r.Tags[k]; ok {
			s += " " + k + "=" + v
		}
	}
	return s
}

// stepBoth executes one block on both chains and compares.  Returns false when the comparison
// should stop (a chain crashed).
func (x *c11Run) stepBoth(a, b *Node, txs [][]byte, opts BlockOpts, t *c11Taint, kinds []string) (*BlockResult, bool) {
	oa, ob := opts, opts
	ra := a.Block(txs, &oa)
	rb := b.Block(txs, &ob)
	h := a.Height
	if ra.Panic != "" || rb.Panic != "" {
		if ra.Panic != rb.Panic {
			x.fail("c11-continuation:panic", fmt.Sprintf("block %d: original %q, new chain %q", h+1, ra.Panic, rb.Panic))
		}
		return ra, false
	}
	for i := range ra.Txs {
		if i >= len(rb.Txs) {
			break
		}
		sa, sb := c11Resp(ra.Txs[i]), c11Resp(rb.Txs[i])
		if sa != sb {
			kind := ""
			if i < len(kinds) {
				kind = kinds[i]
			}
			what := fmt.Sprintf("block %d tx %d (%s): original [%s] new chain [%s] raw=%x", h, i, kind, sa, sb, txs[i])
			if t.maxID != "" && kind == "declare" && t.recalc == "" && t.reselect == "" && t.reward == "" {
				// (regression of the defect repaired by 9497f5f)
				x.fail("c11-candidate-maxid-lost", what+" ["+t.maxID+"]")
			} else {
				x.contDiff(t, "c11-continuation:response", "continuation response differs: "+what)
			}
		}
	}
	ua, ub := fmtUpdates(ra), fmtUpdates(rb)
	if ua != ub {
		what := fmt.Sprintf("block %d: validator updates differ: original [%s] new chain [%s]", h, ua, ub)
		x.contDiff(t, "c11-continuation:validator-updates", what)
	}
	ea, eb := a.App.VerifAppDB().Emission().String(), b.App.VerifAppDB().Emission().String()
	if ea != eb {
		what := fmt.Sprintf("block %d: emission %s on the original, %s on the new chain", h, ea, eb)
		x.contDiff(t, "c11-continuation:emission", what)
	}
	ha, hb := c11Hidden(a), c11Hidden(b)
	for _, k := range []string{"coins_count", "reward", "safe_reward"} {
		if ha[k] != hb[k] {
			x.contDiff(t, "c11-continuation:"+k, fmt.Sprintf("block %d: %s is %s on the original and %s on the new chain", h, k, ha[k], hb[k]))
		}
	}
	xa, xb := a.Export(), b.Export()
	var secs []string
	for _, d := range c11DiffSections(c11Sections(&xa), c11Sections(&xb)) {
		secs = append(secs, d.Section)
		if d.Section == "candidates" && strings.Join(c11CandsSortedStakes(&xa), "\n") == strings.Join(c11CandsSortedStakes(&xb), "\n") {
			x.fail("c11-stake-slots-compacted", fmt.Sprintf("continuation, after block %d: the candidates differ only in the order of their stake slots: %s", h, d.Entry))
			continue
		}
		x.classify(fmt.Sprintf("continuation, after block %d:", h), d, t, true)
	}
	if x.verbose && len(secs) > 0 {
		fmt.Printf("  diff after block %d (offset %d): %v\n", h, h%stakePeriod, secs)
	}
	return ra, true
}

// ---- history generation ---------------------------------------------------------------------------

// extra transaction kinds on top of workload.go
func c11VoteCommission(w *World, a Acct, pk types.Pubkey, height uint64, variant int) (transaction.TxType, interface{}) {
	d := transaction.VoteCommissionDataV3{PubKey: pk, Height: height, Coin: 0}
	c := defaultCommission()
	cv := reflect.ValueOf(c)
	dv := reflect.ValueOf(&d).Elem()
	for i := 0; i < dv.NumField(); i++ {
		f := dv.Type().Field(i)
		if f.Type != reflect.TypeOf((*big.Int)(nil)) {
			continue
		}
		name := f.Name
		if name == "CreateTicker7to10" {
			name = "CreateTicker7_10"
		}
		src := cv.FieldByName(name)
		v := bi(src.String())
		if name == "Send" {
			v = new(big.Int).Add(v, Z(int64(variant)))
		}
		dv.Field(i).Set(reflect.ValueOf(v))
	}
	return transaction.TypeVoteCommission, d
}

type c11Block struct {
	Txs   [][]byte
	Kinds []string
	Gens  []*GenTx
	Opts  BlockOpts
}

// genBlock generates the transactions of the next block against node w.N.
func c11GenBlock(w *World, r *Rng, maxTx int, absences, evidence bool) *c11Block {
	w.beginBlock()
	b := &c11Block{}
	nt := r.Intn(maxTx + 1)
	for i := 0; i < nt; i++ {
		var gt *GenTx
		switch r.Intn(30) {
		case 0: // commission vote by a candidate owner for a height in the (near) future
			pk := w.cand()
			a := w.acct()
			if o, ok := w.Owner[pk]; ok {
				a = o
			}
			typ, data := c11VoteCommission(w, a, pk, uint64(w.N.Height+int64(3+r.Intn(40))), r.Intn(2))
			nonce := w.nextNonce(a)
			w.nonce[a.Addr] = nonce + 1
			gt = &GenTx{Kind: "votecomm", Raw: w.N.MkTx(a, typ, data, 0, nonce, 1, nil), Sender: a, Nonce: nonce, Type: typ, Data: data}
			w.TypeDist["votecomm"]++
		case 1: // public key change (the old key goes to the block list)
			if r.Intn(3) != 0 || (w.N.Height+1)%stakePeriod == 0 {
				// (a key change of a validator inside a pay-rewards block crashes EndBlock: C07's business)
				gt = w.Gen()
				break
			}
			pk := w.cand()
			a := w.acct()
			if o, ok := w.Owner[pk]; ok {
				a = o
			}
			nv := mkVal(w.NextVal)
			w.NextVal++
			typ, data := transaction.TypeEditCandidatePublicKey, transaction.EditCandidatePublicKeyData{PubKey: pk, NewPubKey: nv.Pub}
			nonce := w.nextNonce(a)
			w.nonce[a.Addr] = nonce + 1
			gt = &GenTx{Kind: "editpubkey", Raw: w.N.MkTx(a, typ, data, 0, nonce, 1, nil), Sender: a, Nonce: nonce, Type: typ, Data: data}
			w.TypeDist["editpubkey"]++
		default:
			gt = w.Gen()
		}
		if gt == nil {
			continue
		}
		b.Txs = append(b.Txs, gt.Raw)
		b.Kinds = append(b.Kinds, gt.Kind)
		b.Gens = append(b.Gens, gt)
	}
	if absences && r.Intn(3) == 0 {
		b.Opts.Absent = map[int]bool{r.Intn(len(w.N.Vals)): true}
	}
	if evidence && r.Intn(40) == 0 {
		b.Opts.Evidence = []int{r.Intn(len(w.N.Vals))}
	}
	return b
}

// observe: the world learns coin ids, pools, orders from the responses of the original chain
func (x *c11Run) observe(w *World, blk *c11Block, res *BlockResult) {
	for i, tr := range res.Txs {
		x.txs++
		if tr.Code == 0 {
			x.okTxs++
		}
		if i < len(blk.Gens) {
			w.Observe(blk.Gens[i], tr)
		}
	}
}

var c11Weights = map[string]int{"send": 6, "multisend": 2, "createcoin": 2, "createtoken": 3, "sellcoin": 2, "buycoin": 2, "sellallcoin": 1,
	"mint": 2, "burn": 2, "declare": 2, "delegate": 10, "unbond": 5, "move": 3, "lockstake": 1, "lock": 3, "candon": 2, "candoff": 2,
	"createpool": 3, "addliq": 2, "remliq": 2, "sellpool": 3, "buypool": 2, "sellallpool": 1, "addorder": 5, "remorder": 2, "redeem": 3,
	"editcand": 1, "editcomm": 1, "sethalt": 1, "voteupdate": 2, "editowner": 1, "recreate": 1, "multisig": 1}

// history: prefix on A with generated transactions, fork, continuation on both.
func (x *c11Run) history(s uint64, idx int) {
	r := NewRng(s ^ 0xc11c11)
	spec := stdSpec(NewRng(s))
	// every fifth history has a BIP/USDT pool and a price record, so that the block-reward rule runs
	// (a reward update needs a period-start block between 12:00 and 15:00, > 3 h after the last one)
	withPool := idx%5 == 4
	if withPool {
		r0 := pip(int64(500000 + r.Intn(1000000)))
		r1 := new(big.Int).Div(new(big.Int).Mul(r0, Z(int64(5+r.Intn(20)))), Z(1000))
		stored := new(big.Int).Div(new(big.Int).Mul(r1, Z(int64(80+r.Intn(45)))), Z(100)) // stored price -20 .. +25 % off the pool's
		rew := pip(int64(r.Intn(120)))
		spec.PrevReward = types.RewardPrice{Time: 0, AmountBIP: r0.String(), AmountUSDT: stored.String(), Reward: rew.String(), Off: r.Intn(2) == 0}
		spec.Mutate = func(st *types.AppState) {
			owner := st.Accounts[0].Address
			st.Coins = append(st.Coins, types.Coin{ID: uint64(types.USDTID), Name: "Tether", Symbol: types.StrToCoinSymbol("USDTE"),
				Volume: new(big.Int).Add(r1, pip(100000)).String(), MaxSupply: "1000000000000000000000000000000000", OwnerAddress: &owner, Mintable: true, Burnable: true})
			st.Pools = append(st.Pools, types.Pool{Coin0: 0, Coin1: uint64(types.USDTID), Reserve0: r0.String(), Reserve1: r1.String(), ID: 1})
			// the pool's liquidity token (RemoveLiquidity dereferences it): sqrt(r0*r1), 1000 of it at the zero address
			liq := new(big.Int).Sqrt(new(big.Int).Mul(r0, r1))
			st.Coins = append([]types.Coin{{ID: 1, Name: "Liquidity Pool 1", Symbol: types.StrToCoinSymbol("LP-1"), Volume: liq.String(),
				MaxSupply: "1000000000000000000000000000000000", Mintable: true, Burnable: true}}, st.Coins...)
			st.Accounts[0].Balance = append(st.Accounts[0].Balance, types.Balance{Coin: 1, Value: new(big.Int).Sub(liq, Z(1000)).String()},
				types.Balance{Coin: uint64(types.USDTID), Value: pip(100000).String()})
			st.Accounts = append(st.Accounts, types.Account{Address: types.Address{}, Balance: []types.Balance{{Coin: 1, Value: "1000"}}})
		}
	}
	a := newNode(spec)
	defer a.Cleanup()
	w := newWorld(a, r)
	if withPool {
		w.Coins = append(w.Coins, 1, types.USDTID)
		w.Pools = append(w.Pools, [2]types.CoinID{0, types.USDTID})
		x.dist["with-usdt-pool"]++
	}
	w.Weights = c11Weights
	if idx%4 == 3 {
		w.Weights = nil // uniform over every kind
	}
	// cut: 0 right after an update block, 1 mid-period, 2 right before an update block, 3 right after the period start
	cutKind := idx % 4
	periods := 1 + r.Intn(4)
	if withPool {
		periods = 3 + r.Intn(2) // the max-gas controller needs ~26 blocks to recover from the time jump
	}
	cut := int64(InitialHeight-1) + int64(periods*stakePeriod) // height % 12 == 0
	switch cutKind {
	case 1:
		cut += int64(2 + r.Intn(8))
	case 2:
		cut += stakePeriod - 1
	case 3:
		cut += 1
	}
	cont := stakePeriod + 2 + r.Intn(2*stakePeriod)
	evidence := r.Intn(3) == 0
	jumpAt := int64(InitialHeight) + int64(r.Intn(3))
	x.where = fmt.Sprintf("vharness c11 -seed %d (history %d, seed %d, cut at height %d = period offset %d, continuation %d blocks)", s/1000003, idx, s, cut, cut%stakePeriod, cont)
	run := func(n *Node, blk *c11Block) *BlockResult {
		o := blk.Opts
		return n.Block(blk.Txs, &o)
	}
	for a.Height < cut {
		blk := c11GenBlock(w, r, 5, true, evidence)
		if withPool && a.Height+1 == int64(InitialHeight) {
			blk.Opts.Dt = time.Duration(3*3600+1800+r.Intn(3600)) * time.Second // 12:30 .. 13:30: the reward update runs
		} else if a.Height+1 == jumpAt && cut-jumpAt >= 30 {
			blk.Opts.Dt = time.Duration(3*3600+r.Intn(3600)) * time.Second
		}
		// the generator needs Observe with GenTx; regenerate the bookkeeping through World.Observe
		res := run(a, blk)
		x.blocksA++
		if res.Panic != "" {
			x.dist["prefix-panic"]++
			if x.verbose {
				fmt.Println("prefix panic:", x.where, res.Panic, a.Stacks)
			}
			return
		}
		x.observe(w, blk, res)
		if a.EmptyValset {
			x.dist["prefix-ends-with-empty-validator-set"]++
			return
		}
	}
	b, t, g := x.roundTrip(a)
	if b == nil {
		return
	}
	defer b.Cleanup()
	// completeness of the export against the history itself: every accepted Lock that is still pending at the
	// cut must be among the exported frozen funds (a round trip agrees with itself when Export drops something)
	for _, l := range w.Locks {
		if l.Due <= uint64(cut) {
			continue
		}
		found := false
		for _, f := range g.State.FrozenFunds {
			if f.Height == l.Due && f.Address == l.Addr && f.Coin == uint64(l.Coin) && f.Value == l.Value.String() && f.CandidateKey == nil {
				found = true
				break
			}
		}
		if !found {
			x.fail("c11-export-incomplete:frozen_funds", fmt.Sprintf("a Lock of %s of coin %d by %s until block %d was accepted before the cut at %d, but the export has no such frozen fund", l.Value, l.Coin, l.Addr.String(), l.Due, cut))
			break
		}
	}
	kind := []string{"after-update-block", "mid-period", "before-update-block", "after-period-start"}[cutKind]
	x.dist["cut:"+kind]++
	switch {
	case t.recalc != "":
		x.dist["export-with-pending-recalc"]++
	case t.reselect != "":
		x.dist["export-with-pending-reselection"]++
	default:
		x.dist["export-at-fixpoint"]++
	}
	if t.recalc == "" && t.reselect == "" && t.reward == "" {
		x.dist["fork-untainted"]++
	}
	if t.reward != "" {
		x.dist["export-during-reward-recovery"]++
	}
	nt := len(g.State.Candidates) > 0 && (len(g.State.Coins) > 0 || len(g.State.FrozenFunds) > 0 || len(g.State.Waitlist) > 0)
	if nt {
		x.nontriv++
	}
	if len(x.samples) < 3 {
		x.samples = append(x.samples, fmt.Sprintf("%s: accounts=%d coins=%d candidates=%d pools=%d frozen=%d waitlist=%d checks=%d update_votes=%d commission_votes=%d halts=%d tx kinds=%v",
			x.where, len(g.State.Accounts), len(g.State.Coins), len(g.State.Candidates), len(g.State.Pools), len(g.State.FrozenFunds), len(g.State.Waitlist),
			len(g.State.UsedChecks), len(g.State.UpdateVotes), len(g.State.CommissionVotes), len(g.State.HaltBlocks), w.TypeDist))
	}
	for i := 0; i < cont; i++ {
		blk := c11GenBlock(w, r, 4, true, false)
		// absences only of validators both chains have, and never more than a few per validator: the
		// new chain has an upgrade grace period (scenario "grace")
		ra, ok := x.stepBoth(a, b, blk.Txs, blk.Opts, t, blk.Kinds)
		if ra != nil {
			x.observe(w, blk, ra)
		}
		if !ok || a.EmptyValset || b.EmptyValset {
			break
		}
	}
}

func runC11(seed uint64, n int, out, stats string, args []string) {
	x := &c11Run{seen: map[string]bool{}, dist: map[string]int{}, cases: NewCases(out)}
	only, scenOnly, noScen := "", false, false
	onlyIdx := -1
	for i, a := range args {
		switch a {
		case "-v":
			x.verbose = true
			c11TruncAt = 100000
		case "-scenario": // run only the named scripted scenario ("all": every scenario, no random histories)
			scenOnly = true
			if i+1 < len(args) && args[i+1] != "all" {
				only = args[i+1]
			}
		case "-no-scenarios":
			noScen = true
		case "-only": // run only history <idx> of this seed
			if i+1 < len(args) {
				fmt.Sscan(args[i+1], &onlyIdx)
			}
		}
	}
	if !noScen {
		runC11Scenarios(x, only)
	}
	if scenOnly {
		n = 0
	}
	for i := 0; i < n; i++ {
		if onlyIdx >= 0 && i != onlyIdx {
			continue
		}
		s := seed*1000003 + uint64(i)
		x.history(s, i)
	}
	for k, v := range x.cases.Dist {
		x.dist["model:"+k] += v
	}
	writeStats(stats, &Stats{Property: "C11", Seed: seed, Cases: x.cases.NCases, Ops: x.cases.NOps, NonTrivial: x.nontriv,
		Rule: "node-level differential: a seeded history (every transaction kind of workload.go plus commission votes and public-key changes; absences, evidence, one block-time jump; every fifth history with a BIP/USDT pool so that the reward rule runs) is executed on a real node up to a cut (right after an update block / mid-period / right before an update block / right after the period start); the genesis is assembled as cmd/minter/cmd/export.go does (fresh check state at the height + versions + emission + price record), Verify() evaluated, amino JSON handed to InitChain of a fresh node (initial height h+1); second export compared section by section (canonical JSON per entry; orders that come from rankings or map iteration normalised), hidden state (coins count, reward pair) compared; then the same continuation (14-38 blocks, same raw transactions and block options) on both chains with responses, validator updates, emission, reward pair and the full export compared after every block. Differences explained by a decided finding carry the finding's key (taint computed from the first export: pending stake recalculation, pending validator re-selection, reward != safe reward, halt votes, frozen token, deleted top candidate id); forks without taint keep the generic keys. Scripted scenarios replay every finding minimally. Model correspondence (dispatch 18): first export -> model verify + model export(import) against the node's Verify() and second export; corrupted copies of the export -> model verify against Verify(). non-trivial = fork whose export has candidates and at least one of coins / frozen funds / waitlist; distinct by seed",
		Dist: x.dist, Samples: x.samples, Monitor: x.mon,
		Extra: map[string]interface{}{"blocks": x.blocksA, "txs": x.txs, "ok_txs": x.okTxs, "forks": x.forks, "model_cases": x.cases.NCases, "model_ops": x.cases.NOps}})
	x.cases.Close()
	_ = candidates.CandidateStatusOnline
}
