package main

import (
	"fmt"
	"math/big"
	"os"
	"strconv"
	"strings"

	"github.com/MinterTeam/minter-go-node/coreV2/state"
	"github.com/MinterTeam/minter-go-node/coreV2/transaction"
	"github.com/MinterTeam/minter-go-node/coreV2/types"
)

func init() {
	commands["c01"] = func(seed uint64, n int, out, stats string, a []string) { runLedgerMon("C01", seed, n, out, stats) }
	commands["c02"] = func(seed uint64, n int, out, stats string, a []string) { runLedgerMon("C02", seed, n, out, stats) }
	commands["c03node"] = func(seed uint64, n int, out, stats string, a []string) { runLedgerMon("C03", seed, n, out, stats) }
	commands["c04node"] = func(seed uint64, n int, out, stats string, a []string) { runLedgerMon("C04", seed, n, out, stats) }
	commands["c26node"] = func(seed uint64, n int, out, stats string, a []string) { runLedgerMon("C26", seed, n, out, stats) }
	commands["c27node"] = func(seed uint64, n int, out, stats string, a []string) { runLedgerMon("C27", seed, n, out, stats) }
	commands["c05node"] = func(seed uint64, n int, out, stats string, a []string) { runLedgerMon("C05", seed, n, out, stats) }
	commands["c06node"] = func(seed uint64, n int, out, stats string, a []string) { runLedgerMon("C06", seed, n, out, stats) }
}

// withWaitlists: delegators that also sit on the waitlist of the same candidate with the same coin (what a kicked
// stake followed by a new delegation leaves behind)
func withWaitlists(spec *GenesisSpec, r *Rng) {
	spec.Mutate = func(st *types.AppState) {
		for ci := range st.Candidates {
			for _, sk := range st.Candidates[ci].Stakes {
				if r.Intn(2) == 0 {
					st.Waitlist = append(st.Waitlist, types.Waitlist{CandidateID: st.Candidates[ci].ID, Owner: sk.Owner, Coin: sk.Coin, Value: pip(int64(10 + r.Intn(300))).String()})
				}
			}
		}
	}
}

func stdSpec(r *Rng) *GenesisSpec {
	return &GenesisSpec{NAccounts: 6 + r.Intn(5), Balance: pip(100000000), NVals: 3 + r.Intn(3), ExtraCands: r.Intn(3)}
}

// runLedgerMon: generated histories on the real node with the conservation (C01) and
// sign/supply (C02) monitors evaluated on every block's export.
func runLedgerMon(pid string, seed uint64, n int, out, stats string) {
	c := NewCases(out)
	var mon []MonitorFailure
	dist := map[string]int{}
	codes := map[string]int{}
	blocks, txs, okTxs, agree := 0, 0, 0, 0
	var samples []string
	nontriv := 0
	for i := 0; i < n; i++ {
		s := seed*1000003 + uint64(i)
		if only := os.Getenv("VERIF_ONLY"); only != "" && only != strconv.Itoa(i) {
			continue
		}
		r := NewRng(s)
		spec := stdSpec(r)
		g := &genOpts{Blocks: 20 + r.Intn(60), TxPerBlock: 6, Absences: true, Evidence: r.Intn(3) == 0, Malformed: true, Monitors: true, CheckDeliver: pid == "C06", CandAuth: pid == "C05"}
		if (pid == "C01" || pid == "C02") && i%3 == 2 {
			withWaitlists(spec, r)
			g.Weights = map[string]int{}
			for _, k := range kinds {
				g.Weights[k] = 1
			}
			g.Weights["unbond"], g.Weights["move"], g.Weights["delegate"] = 40, 6, 8
		}
		if pid == "C03" {
			g.FailFrame, g.Monitors, g.Absences, g.Evidence = true, false, false, false
			g.Blocks, g.TxPerBlock = 60+r.Intn(120), 1
			// delegators that also sit on the waitlist of the same candidate with the same coin
			withWaitlists(spec, r)
			g.Weights = map[string]int{}
			for _, k := range kinds {
				g.Weights[k] = 1
			}
			for k, v := range map[string]int{"unbond": 8, "move": 5, "delegate": 5, "send": 3, "lock": 2, "sellpool": 2, "buypool": 2, "addorder": 2, "remorder": 2, "redeem": 2} {
				g.Weights[k] = v
			}
		}
		if pid == "C26" || pid == "C04" {
			g.Replay, g.Monitors, g.Malformed = true, false, false
			g.ReplayKey = strings.ToLower(pid)
			if i%2 == 1 {
				// unbonds served from the waitlist (its own branch of the Unbond transaction) among the replayed transactions
				withWaitlists(spec, r)
				g.Weights = map[string]int{}
				for _, k := range kinds {
					g.Weights[k] = 1
				}
				g.Weights["unbond"], g.Weights["move"], g.Weights["delegate"] = 40, 6, 8
			}
		}
		if pid == "C27" {
			g.FeeRoute, g.Monitors, g.Malformed = true, false, false
			g.Weights = map[string]int{"send": 12, "multisend": 4, "createcoin": 5, "createpool": 8, "sellcoin": 3, "buycoin": 3, "sellpool": 4, "buypool": 3, "addliq": 2, "createtoken": 2, "delegate": 2, "lock": 2, "addorder": 3}
		}
		if pid == "C05" {
			g.Weights = map[string]int{"send": 3, "declare": 3, "delegate": 3, "editcand": 10, "editcomm": 6, "candon": 6, "candoff": 6, "unbond": 2, "sethalt": 1, "voteupdate": 1, "createtoken": 1}
		}
		h, res, w := genHistory(s, spec, g)
		blocks += len(h.Blocks)
		ok := 0
		for _, b := range res.Results {
			for _, t := range b {
				txs++
				if t.Code == 0 {
					ok++
				}
			}
		}
		okTxs += ok
		for k, v := range w.TypeDist {
			dist[k] += v
		}
		for k, v := range w.CodeDist {
			codes[k] += v
		}
		fails := res.C01
		if pid == "C02" {
			fails = res.C02
		}
		if pid == "C06" {
			fails = res.C06
			agree += res.C06Agree
		}
		if pid == "C05" {
			fails = res.C05
			agree += res.C05Checked
			if len(res.C05Cases) > 0 {
				c.Begin(21)
				for _, cs := range res.C05Cases {
					c.Op(cs[0], cs[1])
				}
				c.End(true, "candidate-auth")
			}
		}
		if pid == "C03" {
			fails = res.C03
			agree += res.C03Checked
		}
		if pid == "C26" || pid == "C04" {
			fails = res.C26
			agree += res.C26Replays
		}
		if pid == "C27" {
			fails = res.C27
			agree += res.C27Both
			if len(res.C27Cases) > 0 {
				c.Begin(22)
				for _, cs := range res.C27Cases {
					c.Op(cs[0], cs[1])
				}
				c.End(res.C27Both > 0, "fee-route")
			}
			dist["fee-in-custom-coin"] += res.C27Checked
			dist["fee-in-custom-coin-with-reserve-and-pool"] += res.C27Both
		}
		for _, f := range fails {
			f.Replay = fmt.Sprintf("vharness %s -seed %d -n %d (history %d, seed %d)", pid, seed, n, i, s)
			mon = append(mon, f)
		}
		for _, p := range res.Panics {
			key := "c07-panic"
			if pid == "C02" && strings.Contains(p, "negative") {
				key = "c02-negative-panic" // an amount went negative: the node refuses to encode it and stops
			}
			mon = append(mon, MonitorFailure{What: "panic during history: " + p, Key: key, Replay: fmt.Sprintf("history seed %d", s)})
		}
		if ok > 0 {
			nontriv++
		}
		if len(samples) < 2 {
			samples = append(samples, fmt.Sprintf("history seed=%d blocks=%d accepted_txs=%d types=%v", s, len(h.Blocks), ok, w.TypeDist))
		}
		_ = big.NewInt
	}
	// directed order scenarios
	var s01, s02 []MonitorFailure
	var s06 []MonitorFailure
	sb, st := orderScenarios(seed, 1+n/3, &s01, &s02, &s06, pid == "C06")
	blocks += sb
	txs += st
	nontriv += 1 + n/3
	if pid == "C02" {
		mon = append(mon, s02...)
	} else if pid == "C06" {
		mon = append(mon, s06...)
		agree += scenAgree
	} else {
		mon = append(mon, s01...)
	}
	dist["order-scenario"] = 1 + n/3
	// directed supply-cap scenarios
	var k01, k02 []MonitorFailure
	if pid == "C02" {
		capCases = c
	}
	cb, ct := capScenarios(seed, 1+n/4, &k01, &k02)
	capCases = nil
	blocks += cb
	txs += ct
	nontriv += 1 + n/4
	dist["supply-cap-scenario"] = 1 + n/4
	if pid == "C02" {
		mon = append(mon, k02...)
	} else if pid != "C06" {
		mon = append(mon, k01...)
	}
	c.Close()
	writeStats(stats, &Stats{Property: pid, Seed: seed, Cases: n + 2 + n/3 + n/4, Ops: txs, NonTrivial: nontriv,
		Rule: "directed supply-cap scenarios (bancor coins and tokens a few units below their maximum supply: purchases, conversions and mints of headroom-1, headroom, headroom+1 and multiples) + directed order scenarios (committed orders partially filled and then cancelled / filled again / expiring in the same block, restarts) + seeded history of 20-80 blocks (0-6 txs per block of 33 kinds incl. a malformed stream, absences, byzantine evidence, testnet periods, stake period 12) executed on the real node; the monitor recomputes every sum of the property from the node's export after every block; non-trivial = at least one accepted state-changing tx; histories are distinct by seed",
		Dist: dist, Samples: samples, Monitor: mon,
		Extra: map[string]interface{}{"blocks": blocks, "txs": txs, "accepted_txs": okTxs, "codes": codes, "check_deliver_agreements": agree, "scenario_trades_filling_orders": scenFills, "scenario_cancels_in_the_block_of_a_fill": scenCancelsAfterFill}})
}

// conservationStep applies the C01/C02 monitors to one block (prev -> current export).
func conservationStep(n *Node, prev **Holdings, prevEm **big.Int, c01, c02 *[]MonitorFailure, where string) {
	e := n.Export()
	cur := holdings(&e)
	em := new(big.Int).Set(n.App.VerifAppDB().Emission())
	at := fmt.Sprintf("height %d (%s)", n.Height, where)
	for _, neg := range cur.Negative {
		*c02 = append(*c02, MonitorFailure{What: "C02: " + neg + " at " + at, Key: "c02-negative", Replay: where})
	}
	for id, vol := range cur.Volume {
		held := cur.Held[id]
		if held == nil {
			held = big.NewInt(0)
		}
		if id != 0 && held.Cmp(vol) != 0 {
			*c01 = append(*c01, MonitorFailure{What: fmt.Sprintf("C01: coin %d volume %s != sum of holdings %s at %s", id, vol, held, at), Key: "c01-custom", Replay: where})
		}
	}
	if *prev != nil {
		dBase := new(big.Int).Sub(cur.baseTotal(), (*prev).baseTotal())
		dEm := new(big.Int).Sub(em, *prevEm)
		if dBase.Cmp(dEm) != 0 {
			*c01 = append(*c01, MonitorFailure{What: fmt.Sprintf("C01: base coin total changed by %s but emission by %s at %s", dBase, dEm, at), Key: baseDiffKey(*prev, cur, dBase, dEm), Replay: where})
		}
	}
	*prev, *prevEm = cur, em
}

var scenFills, scenCancelsAfterFill, scenAgree int

// orderScenarios: directed histories around limit orders that general random histories rarely produce:
// an order that is already committed gets partially filled and is then cancelled / expires / is filled
// again in the SAME block; fills by the commission swap of another transaction; cancel after restart.
func orderScenarios(seed uint64, count int, c01, c02, c06 *[]MonitorFailure, checkDeliver bool) (blocks, txs int) {
	for i := 0; i < count; i++ {
		s := seed*7777 + uint64(i)
		r := NewRng(s)
		where := fmt.Sprintf("order scenario %d (seed %d)", i, s)
		n := newNode(&GenesisSpec{NAccounts: 5, Balance: pip(10000000), NVals: 2, ValOwnersFrom: 3})
		a, b, c := n.Accts[0], n.Accts[1], n.Accts[2]
		var prev *Holdings
		var prevEm *big.Int
		var recBlocks [][][]byte
		var recHashes []string
		recRestart := map[int]bool{}
		restart := func() { n.Restart(); recRestart[len(recBlocks)] = true }
		step := func(txs_ [][]byte) *BlockResult {
			opts := &BlockOpts{}
			if checkDeliver {
				var chkCode uint32
				hh := uint64(n.Height + 1)
				opts.PreTx = func(i int, raw []byte) {
					n.guard("CheckTx", func() {
						cs := state.NewCheckState(n.App.VerifStateDeliver())
						chkCode = transaction.NewExecutorV3(transaction.GetDataV3).RunTx(cs, raw, nil, checkTxHeight(n), newSyncMap(), 0, false).Code
					})
				}
				opts.PostTx = func(i int, raw []byte, tr TxResult) {
					if (chkCode == 0) != (tr.Code == 0) {
						*c06 = append(*c06, MonitorFailure{What: fmt.Sprintf("C06: transaction at height %d: check mode on the same state returned code %d, DeliverTx %d (%s) raw=%x", hh, chkCode, tr.Code, tr.Log, raw), Key: "c06-check-deliver", Replay: where})
					} else {
						scenAgree++
					}
				}
			}
			br := n.Block(txs_, opts)
			recBlocks = append(recBlocks, txs_)
			recHashes = append(recHashes, br.Hash)
			blocks++
			txs += len(txs_)
			if br.Panic != "" {
				*c01 = append(*c01, MonitorFailure{What: "panic: " + br.Panic, Key: "c07-panic", Replay: where})
				return br
			}
			conservationStep(n, &prev, &prevEm, c01, c02, where)
			return br
		}
		step(nil)
		step([][]byte{n.MkTx(a, transaction.TypeCreateToken, transaction.CreateTokenData{Name: "t", Symbol: types.StrToCoinSymbol("ORDTOKEN"), InitialAmount: pip(5000000), MaxSupply: pip(9000000), Mintable: true, Burnable: true}, 0, 0, 1, nil)})
		tok := types.CoinID(n.App.CurrentState().App().GetCoinsCount())
		step([][]byte{n.MkTx(a, transaction.TypeCreateSwapPool, transaction.CreateSwapPoolData{Coin0: 0, Coin1: tok, Volume0: pip(int64(1000 + r.Intn(20000))), Volume1: pip(int64(1000 + r.Intn(20000)))}, 0, 0, 1, nil),
			n.MkTx(a, transaction.TypeSend, transaction.SendData{Coin: tok, To: b.Addr, Value: pip(1000000)}, 0, n.Nonce(a)+2, 1, nil)})
		// orders on both sides at prices near the pool price
		x0, x1, _ := n.App.CurrentState().Swap().SwapPool(0, tok)
		price := func(sell *big.Int, num, den int64, r0, r1 *big.Int) *big.Int {
			v := new(big.Int).Mul(sell, r1)
			v.Div(v, r0)
			v.Mul(v, Z(num))
			return v.Div(v, Z(den))
		}
		var orderTxs [][]byte
		na, nb := n.Nonce(a)+1, n.Nonce(b)+1
		for k := 0; k < 2+r.Intn(3); k++ {
			sv := pip(int64(5 + r.Intn(200)))
			// a sells base for token slightly above the pool price; b sells token for base
			orderTxs = append(orderTxs, n.MkTx(a, transaction.TypeAddLimitOrder, transaction.AddLimitOrderData{CoinToSell: 0, ValueToSell: sv, CoinToBuy: tok, ValueToBuy: price(sv, int64(1001+r.Intn(12)), 1000, x0, x1)}, 0, na, 1, nil))
			na++
			sv2 := pip(int64(5 + r.Intn(200)))
			orderTxs = append(orderTxs, n.MkTx(b, transaction.TypeAddLimitOrder, transaction.AddLimitOrderData{CoinToSell: tok, ValueToSell: sv2, CoinToBuy: 0, ValueToBuy: price(sv2, int64(1001+r.Intn(12)), 1000, x1, x0)}, 0, nb, 1, nil))
			nb++
		}
		// dust orders right at the pool price on both sides: a commission swap of ~0.1 BIP consumes them completely
		for k := 0; k < 2+r.Intn(3); k++ {
			sv := new(big.Int).Add(ZS("20000000000"), r.BigBelow(ZS("50000000000000000")))
			orderTxs = append(orderTxs, n.MkTx(a, transaction.TypeAddLimitOrder, transaction.AddLimitOrderData{CoinToSell: 0, ValueToSell: sv, CoinToBuy: tok, ValueToBuy: price(sv, int64(10001+r.Intn(20)), 10000, x0, x1)}, 0, na, 1, nil))
			na++
			sv2 := new(big.Int).Add(ZS("20000000000"), r.BigBelow(ZS("50000000000000000")))
			orderTxs = append(orderTxs, n.MkTx(b, transaction.TypeAddLimitOrder, transaction.AddLimitOrderData{CoinToSell: tok, ValueToSell: sv2, CoinToBuy: 0, ValueToBuy: price(sv2, int64(10001+r.Intn(20)), 10000, x1, x0)}, 0, nb, 1, nil))
			nb++
		}
		br := step(orderTxs)
		var ids []uint32
		ownerA := map[uint32]bool{}
		for ti, tr := range br.Txs {
			if tr.Code == 0 {
				if id, err := strconv.Atoi(tr.Tags["tx.order_id"]); err == nil {
					ids = append(ids, uint32(id))
					ownerA[uint32(id)] = ti%2 == 0
				}
			}
		}
		if r.Intn(3) == 0 {
			restart()
		}
		// several rounds: partial fills and removals / further fills in the same block
		for round := 0; round < 3+r.Intn(4); round++ {
			var blk [][]byte
			nc := n.Nonce(c) + 1
			na, nb = n.Nonce(a)+1, n.Nonce(b)+1
			// c trades against the pool in a random direction with an amount that usually crosses the best order partially
			p0, p1, _ := n.App.CurrentState().Swap().SwapPool(0, tok)
			amt := new(big.Int).Div(p0, Z(int64(15+r.Intn(200))))
			dirBase := r.Bool()
			if !dirBase {
				amt = new(big.Int).Div(p1, Z(int64(15+r.Intn(200))))
			}
			if dirBase {
				blk = append(blk, n.MkTx(c, transaction.TypeSellSwapPool, transaction.SellSwapPoolDataV260{Coins: []types.CoinID{0, tok}, ValueToSell: amt, MinimumValueToBuy: Z(0)}, 0, nc, 1, nil))
			} else {
				blk = append(blk, n.MkTx(b, transaction.TypeSellSwapPool, transaction.SellSwapPoolDataV260{Coins: []types.CoinID{tok, 0}, ValueToSell: amt, MinimumValueToBuy: Z(0)}, 0, nb, 1, nil))
				nb++
			}
			// transactions paying their commission in the token (through the same pool, crossing the dust orders)
			if r.Intn(2) == 0 {
				blk = append(blk, n.MkTx(b, transaction.TypeSend, transaction.SendData{Coin: tok, To: c.Addr, Value: pip(int64(1 + r.Intn(5)))}, tok, nb, 1, nil))
				nb++
			}
			if r.Intn(2) == 0 {
				blk = append(blk, n.MkTx(b, transaction.TypeSellSwapPool, transaction.SellSwapPoolDataV260{Coins: []types.CoinID{tok, 0}, ValueToSell: pip(int64(1 + r.Intn(3))), MinimumValueToBuy: Z(0)}, tok, nb, 1, nil))
				nb++
			}
			// then, in the same block, the owners cancel some of their orders (partially filled or not)
			for _, id := range ids {
				if r.Intn(2) == 0 {
					if ownerA[id] == (r.Intn(8) != 0) {
						blk = append(blk, n.MkTx(a, transaction.TypeRemoveLimitOrder, transaction.RemoveLimitOrderData{ID: id}, 0, na, 1, nil))
						na++
					} else {
						blk = append(blk, n.MkTx(b, transaction.TypeRemoveLimitOrder, transaction.RemoveLimitOrderData{ID: id}, 0, nb, 1, nil))
						nb++
					}
				}
			}
			rb := step(blk)
			if os.Getenv("DBG") != "" && len(rb.Txs) > 0 { fmt.Println("TRADE", rb.Txs[0].Code, rb.Txs[0].Tags["tx.pools"], len(ids)); for _, tr := range rb.Txs[1:] { fmt.Println("  CANCEL", tr.Code) } }
			if len(rb.Txs) > 0 && rb.Txs[0].Code == 0 && strings.Contains(rb.Txs[0].Tags["tx.pools"], "\"orders\":[{") {
				scenFills++
				for _, tr := range rb.Txs[1:] {
					if tr.Code == 0 {
						scenCancelsAfterFill++
					}
				}
			}
			if r.Intn(4) == 0 {
				restart()
			}
			if r.Intn(3) == 0 {
				step(nil)
			}
		}
		// let the remaining orders expire (expiry period 5*stakePeriod blocks, checked every stakePeriod/2)
		for k := 0; k < 6*stakePeriod+2; k++ {
			var blk [][]byte
			if k%7 == 3 {
				blk = append(blk, n.MkTx(c, transaction.TypeSellSwapPool, transaction.SellSwapPoolDataV260{Coins: []types.CoinID{0, tok}, ValueToSell: pip(int64(1 + r.Intn(30))), MinimumValueToBuy: Z(0)}, 0, 0, 1, nil))
			}
			step(blk)
		}
		n.Cleanup()
		if checkDeliver {
			// check mode must be read-only: the same blocks executed WITHOUT any check-mode call give the same app hashes
			n2 := newNode(&GenesisSpec{NAccounts: 5, Balance: pip(10000000), NVals: 2, ValOwnersFrom: 3})
			for bi, txs_ := range recBlocks {
				if recRestart[bi] {
					n2.Restart()
				}
				br := n2.Block(txs_, nil)
				if br.Hash != recHashes[bi] {
					*c06 = append(*c06, MonitorFailure{What: fmt.Sprintf("C06: check-mode calls perturb execution: block %d of %s has app hash %s with check-mode calls before each delivery and %s without", bi+1, where, recHashes[bi], br.Hash), Key: "c06-check-perturbs", Replay: where})
					break
				}
			}
			n2.Cleanup()
		}
	}
	return
}


// capScenarios: coins whose volume is just below the maximum supply; purchases (BuyCoin with base coin and
// with another custom coin, SellCoin / SellAllCoin into the coin) and mints of amounts around the remaining
// room.  Every block is checked by the conservation / non-negativity / volume <= max supply monitors.
var capCases *Cases // where the supply-cap scenarios write their model 24 cases (nil: nowhere)

func capScenarios(seed uint64, count int, c01, c02 *[]MonitorFailure) (blocks, txs int) {
	for i := 0; i < count; i++ {
		s := seed*9091 + uint64(i)
		r := NewRng(s)
		where := fmt.Sprintf("supply-cap scenario %d (seed %d)", i, s)
		n := newNode(&GenesisSpec{NAccounts: 5, Balance: pip(10000000), NVals: 2, ValOwnersFrom: 3})
		a, b := n.Accts[0], n.Accts[1]
		var prev *Holdings
		var prevEm *big.Int
		step := func(txs_ ...[]byte) *BlockResult {
			br := n.Block(txs_, nil)
			blocks++
			txs += len(txs_)
			if br.Panic != "" {
				*c01 = append(*c01, MonitorFailure{What: "panic: " + br.Panic, Key: "c07-panic", Replay: where})
				return br
			}
			conservationStep(n, &prev, &prevEm, c01, c02, where)
			return br
		}
		step()
		room := new(big.Int).Add(r.BigBelow(pip(int64(1+r.Intn(300)))), Z(int64(1+r.Intn(1000))))
		amt := pip(int64(100000 + r.Intn(2000000)))
		crr := uint32(10 + r.Intn(91))
		// cheap coin: price = reserve / (amount * crr/100), far below 1 base coin
		step(n.MkTx(a, transaction.TypeCreateCoin, transaction.CreateCoinData{Name: "cap", Symbol: types.StrToCoinSymbol("CAPCOIN"), InitialAmount: amt,
			InitialReserve: pip(int64(10000 + r.Intn(20000))), ConstantReserveRatio: crr, MaxSupply: new(big.Int).Add(amt, room)}, 0, 0, 1, nil))
		capc := types.CoinID(n.App.CurrentState().App().GetCoinsCount())
		step(n.MkTx(a, transaction.TypeCreateCoin, transaction.CreateCoinData{Name: "other", Symbol: types.StrToCoinSymbol("OTHERCOIN"), InitialAmount: pip(1000000),
			InitialReserve: pip(50000), ConstantReserveRatio: uint32(10 + r.Intn(91)), MaxSupply: pip(100000000)}, 0, 0, 1, nil))
		other := types.CoinID(n.App.CurrentState().App().GetCoinsCount())
		step(n.MkTx(a, transaction.TypeSend, transaction.SendData{Coin: other, To: b.Addr, Value: pip(100000)}, 0, 0, 1, nil))
		amounts := func() []*big.Int {
			cn := n.App.CurrentState().Coins().GetCoin(capc)
			left := new(big.Int).Sub(cn.MaxSupply(), cn.Volume())
			return []*big.Int{new(big.Int).Add(left, Z(1)), new(big.Int).Mul(left, Z(2)), new(big.Int).Mul(left, Z(int64(3+r.Intn(100)))), left, new(big.Int).Sub(left, Z(1))}
		}
		// model 24 (coq/Model/CoinSupply.v): the supply-cap decision of a purchase and the new volume
		buy := func(v *big.Int, sell types.CoinID, maxSell *big.Int) {
			cn := n.App.CurrentState().Coins().GetCoin(capc)
			vol, maxs := cn.Volume(), cn.MaxSupply()
			br := step(n.MkTx(b, transaction.TypeBuyCoin, transaction.BuyCoinData{CoinToBuy: capc, ValueToBuy: v, CoinToSell: sell, MaximumValueToSell: maxSell}, 0, 0, 1, nil))
			if capCases != nil && len(br.Txs) == 1 && (br.Txs[0].Code == 0 || br.Txs[0].Code == 112) {
				acc := int64(0)
				if br.Txs[0].Code == 0 {
					acc = 1
				}
				capCases.Begin(24)
				capCases.Op(L(Z(1), vol, maxs, v), L(Z(acc), n.App.CurrentState().Coins().GetCoin(capc).Volume()))
				capCases.End(true, "supply-cap")
			}
		}
		for _, v := range amounts() {
			if v.Sign() < 1 {
				continue
			}
			buy(v, 0, pip(1000000))
		}
		step(n.MkTx(a, transaction.TypeSellCoin, transaction.SellCoinData{CoinToSell: capc, ValueToSell: room, CoinToBuy: 0, MinimumValueToBuy: Z(0)}, 0, 0, 1, nil))
		for _, v := range amounts() {
			if v.Sign() < 1 {
				continue
			}
			buy(v, other, pip(100000))
		}
		step(n.MkTx(a, transaction.TypeSellCoin, transaction.SellCoinData{CoinToSell: capc, ValueToSell: room, CoinToBuy: 0, MinimumValueToBuy: Z(0)}, 0, 0, 1, nil))
		// selling into the coin: the amount bought is computed, it must stop at the cap too
		step(n.MkTx(b, transaction.TypeSellCoin, transaction.SellCoinData{CoinToSell: 0, ValueToSell: pip(int64(1 + r.Intn(50))), CoinToBuy: capc, MinimumValueToBuy: Z(0)}, 0, 0, 1, nil))
		step(n.MkTx(b, transaction.TypeSellCoin, transaction.SellCoinData{CoinToSell: other, ValueToSell: pip(int64(1 + r.Intn(500))), CoinToBuy: capc, MinimumValueToBuy: Z(0)}, 0, 0, 1, nil))
		// a token at its cap
		tamt := pip(int64(1000 + r.Intn(100000)))
		troom := Z(int64(1 + r.Intn(1000)))
		step(n.MkTx(a, transaction.TypeCreateToken, transaction.CreateTokenData{Name: "t", Symbol: types.StrToCoinSymbol("CAPTOKEN"), InitialAmount: tamt, MaxSupply: new(big.Int).Add(tamt, troom), Mintable: true, Burnable: true}, 0, 0, 1, nil))
		tok := types.CoinID(n.App.CurrentState().App().GetCoinsCount())
		for _, v := range []*big.Int{new(big.Int).Add(troom, Z(1)), new(big.Int).Mul(troom, Z(2)), troom, Z(1)} {
			step(n.MkTx(a, transaction.TypeMintToken, transaction.MintTokenData{Coin: tok, Value: v}, 0, 0, 1, nil))
		}
		step()
		n.Cleanup()
	}
	return
}
