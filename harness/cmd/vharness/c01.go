package main

import (
	"fmt"
	"math/big"
)

func init() {
	commands["c01"] = func(seed uint64, n int, out, stats string, a []string) { runLedgerMon("C01", seed, n, out, stats) }
	commands["c02"] = func(seed uint64, n int, out, stats string, a []string) { runLedgerMon("C02", seed, n, out, stats) }
}

func stdSpec(r *Rng) *GenesisSpec {
	return &GenesisSpec{NAccounts: 6 + r.Intn(5), Balance: pip(100000000), NVals: 3 + r.Intn(3), ExtraCands: r.Intn(3)}
}

// runLedgerMon: generated histories on the real node with the conservation (C01) and
// sign/supply (C02) monitors evaluated on every block's export.
func runLedgerMon(pid string, seed uint64, n int, out, stats string) {
	c := NewCases(out)
	var mon []MonitorFailure
	dist := map[string]int{}
	codes := map[string]int{}
	blocks, txs, okTxs := 0, 0, 0
	var samples []string
	nontriv := 0
	for i := 0; i < n; i++ {
		s := seed*1000003 + uint64(i)
		r := NewRng(s)
		spec := stdSpec(r)
		g := &genOpts{Blocks: 20 + r.Intn(60), TxPerBlock: 6, Absences: true, Evidence: r.Intn(3) == 0, Malformed: true, Monitors: true}
		h, res, w := genHistory(s, spec, g)
		blocks += len(h.Blocks)
		ok := 0
		for _, b := range res.Results {
			for _, t := range b {
				txs++
				if t.Code == 0 {
					ok++
				}
			}
		}
		okTxs += ok
		for k, v := range w.TypeDist {
			dist[k] += v
		}
		for k, v := range w.CodeDist {
			codes[k] += v
		}
		fails := res.C01
		if pid == "C02" {
			fails = res.C02
		}
		for _, f := range fails {
			f.Replay = fmt.Sprintf("vharness %s -seed %d -n %d (history %d, seed %d)", pid, seed, n, i, s)
			mon = append(mon, f)
		}
		for _, p := range res.Panics {
			mon = append(mon, MonitorFailure{What: "panic during history: " + p, Key: "c07-panic", Replay: fmt.Sprintf("history seed %d", s)})
		}
		if ok > 0 {
			nontriv++
		}
		if len(samples) < 2 {
			samples = append(samples, fmt.Sprintf("history seed=%d blocks=%d accepted_txs=%d types=%v", s, len(h.Blocks), ok, w.TypeDist))
		}
		_ = big.NewInt
	}
	c.Close()
	writeStats(stats, &Stats{Property: pid, Seed: seed, Cases: n, Ops: txs, NonTrivial: nontriv,
		Rule: "seeded history of 20-80 blocks (0-6 txs per block of 33 kinds incl. a malformed stream, absences, byzantine evidence, testnet periods, stake period 12) executed on the real node; the monitor recomputes every sum of the property from the node's export after every block; non-trivial = at least one accepted state-changing tx; histories are distinct by seed",
		Dist: dist, Samples: samples, Monitor: mon,
		Extra: map[string]interface{}{"blocks": blocks, "txs": txs, "accepted_txs": okTxs, "codes": codes}})
}
