package main

// ledger.go — histories of the transaction types modelled by coq/Model/Ledger.v executed on the
// real in-process node; every transaction is run in check mode (RunTx on a check view of the
// in-flight deliver state) and then delivered; the observables of every step are written as a
// case of model 7.  Monitors of C03/C04/C05/C06/C21/C22/C26/C27 are evaluated on the node's own
// behaviour, independent of the model.

import (
	"crypto/ecdsa"
	"fmt"
	"math/big"
	"regexp"
	"sort"
	"strconv"
	"strings"

	"github.com/MinterTeam/minter-go-node/coreV2/check"
	"github.com/MinterTeam/minter-go-node/coreV2/state"
	"github.com/MinterTeam/minter-go-node/coreV2/state/accounts"
	"github.com/MinterTeam/minter-go-node/coreV2/transaction"
	"github.com/MinterTeam/minter-go-node/coreV2/types"
	"github.com/MinterTeam/minter-go-node/crypto"
	"github.com/MinterTeam/minter-go-node/rlp"
)

func init() {
	for _, p := range []string{"ledger", "c03", "c04", "c05", "c06", "c21", "c22", "c26", "c27"} {
		pid := strings.ToUpper(p)
		commands[p] = func(seed uint64, n int, out, stats string, a []string) { runLedger(pid, seed, n, out, stats) }
	}
}

// response codes that only the transaction's own checks (Run) produce, never the gate of RunTx
var runOnlyCodes = map[uint32]bool{107: true, 111: true, 123: true, 201: true, 203: true, 204: true, 205: true, 206: true, 501: true, 502: true, 503: true, 504: true, 505: true, 506: true, 601: true, 602: true, 605: true, 607: true, 801: true, 802: true}

var symRe = regexp.MustCompile("^[A-Z0-9]{3,10}$")

func symOK(s string) bool {
	if !symRe.MatchString(s) {
		return false
	}
	if _, err := strconv.Atoi(s); err == nil {
		return false
	}
	return true
}

func symZ(s types.CoinSymbol) *big.Int { return new(big.Int).SetBytes(s[:]) }
func b2i(b bool) int64 {
	if b {
		return 1
	}
	return 0
}

type msigInfo struct {
	Addr    types.Address
	OwnerAddrs []types.Address
	Owners  []Acct
	Weights []uint32
	Thr     uint32
}

func changed(a, b map[string]*big.Int) []string {
	var out []string
	for k, v := range b {
		if a[k] == nil || a[k].Cmp(v) != 0 {
			out = append(out, k)
		}
	}
	return out
}

type ltx struct {
	msig    *msigInfo
	signers []Acct
	raw    []byte
	enc    []*big.Int // model encoding (without the leading 10, mode)
	sender types.Address
	gas    types.CoinID
	kind   string
	payer  types.Address // who pays if it fails
	spend  map[string]bool
	check  *checkInfo
	data   interface{}
	gp     uint32
	plen   int
}

type checkInfo struct {
	id      string
	issuer  types.Address
	coin    types.CoinID
	value   *big.Int
	gasCoin types.CoinID
	due     uint64
	chainOK bool
	lock    int // 0 undecodable, 1 wrong, 2 ok
	redeemer types.Address
	paidAt   uint64 // block in which the check paid out (0 = not yet)
}

type pastTx struct {
	t        *ltx
	accepted bool
	charged  bool
}

type lgen struct {
	n      *Node
	r      *Rng
	users  []Acct
	tokens []types.CoinID
	syms   []types.CoinSymbol
	nsym   int
	msigs  []msigInfo
	checks []*ltx // redeem transactions built earlier (for replays of the same check)
	past   []pastTx
	nonces map[types.Address]uint64
	owner  map[types.CoinSymbol]Acct
	poor   []Acct // accounts without any funds (typical check redeemers); some receive dust later
	lastFreshRedeem bool
	paid   map[string]bool
	symOf  map[types.CoinID]types.CoinSymbol
}

// holder returns a user with a positive balance of coin c (or any user).
func (g *lgen) holder(c types.CoinID) Acct {
	st := g.r.Intn(len(g.users))
	for i := range g.users {
		u := g.users[(st+i)%len(g.users)]
		if g.bal(u.Addr, c).Sign() > 0 {
			return u
		}
	}
	return g.acct()
}

func (g *lgen) token() types.CoinID {
	if len(g.tokens) > 0 && g.r.Intn(8) != 0 {
		return g.tokens[g.r.Intn(len(g.tokens))]
	}
	return g.coin()
}

func (g *lgen) acct() Acct { return g.users[g.r.Intn(len(g.users))] }

func (g *lgen) dstate() *state.State { return g.n.App.VerifStateDeliver() }

func (g *lgen) bal(a types.Address, c types.CoinID) *big.Int {
	return g.dstate().Accounts.GetBalance(a, c)
}

func (g *lgen) nonce(a types.Address) uint64 { return g.dstate().Accounts.GetNonce(a) }

func (g *lgen) coin() types.CoinID {
	if len(g.tokens) > 0 && g.r.Intn(3) != 0 {
		return g.tokens[g.r.Intn(len(g.tokens))]
	}
	if g.r.Intn(12) == 0 {
		return types.CoinID(9000 + g.r.Intn(3)) // does not exist
	}
	return 0
}

func (g *lgen) part(a types.Address, c types.CoinID) *big.Int {
	b := g.bal(a, c)
	switch g.r.Intn(12) {
	case 0:
		return Z(int64(g.r.Intn(3)))
	case 1:
		return new(big.Int).Add(b, Z(int64(1+g.r.Intn(3))))
	case 2:
		return new(big.Int).Set(b)
	default:
		d := Z(int64(2 + g.r.Intn(500)))
		x := new(big.Int).Div(b, d)
		return x.Add(x, Z(1))
	}
}

func (g *lgen) newSym() types.CoinSymbol {
	g.nsym++
	var s string
	switch g.r.Intn(10) {
	case 0:
		s = fmt.Sprintf("A%d", g.nsym%100) // 2-3 chars: may be too short
	case 1:
		s = fmt.Sprintf("%03d", g.nsym) // digits only: not allowed
	case 2:
		s = fmt.Sprintf("ab%d", g.nsym) // lower case: not allowed
	case 3:
		s = fmt.Sprintf("T%02d", g.nsym%100) // 3 chars: expensive ticker
	case 4:
		s = fmt.Sprintf("TK%02d", g.nsym%100)
	case 5:
		s = fmt.Sprintf("TKN%02d", g.nsym%100)
	case 6:
		s = fmt.Sprintf("TOKN%02d", g.nsym%100)
	default:
		s = fmt.Sprintf("VRF%05d", g.nsym)
	}
	return types.StrToCoinSymbol(s)
}

func addrZ20(a types.Address) *big.Int { return new(big.Int).SetBytes(a[:]) }

// gen builds the next transaction together with its model encoding.
func (g *lgen) gen(h uint64) *ltx {
	r := g.r
	a := g.acct()
	var typ transaction.TxType
	var data interface{}
	var enc []*big.Int
	var ci *checkInfo
	kind := ""
	// gas coin: mostly base, sometimes a token (no pool in these histories: cannot pay), sometimes unknown
	gas := types.CoinID(0)
	if r.Intn(8) == 0 {
		gas = g.coin()
	}
	gp := uint32(1)
	if r.Intn(8) == 0 {
		gp = uint32(r.Intn(5)) // including 0: DeliverTx has no gas-price floor
	}
	kk := r.Intn(16)
	if len(g.tokens) < 2 && r.Intn(3) == 0 {
		kk = 4
	}
	// right after a fresh redemption in this block: replay a check that was paid out (and committed)
	// in an EARLIER block — the used set then has an in-memory part and a committed part
	var forced *ltx
	if g.lastFreshRedeem && r.Intn(2) == 0 {
		for _, old := range g.checks {
			if old.check != nil && old.check.paidAt != 0 && old.check.paidAt < h && (forced == nil || r.Intn(2) == 0) {
				forced = old
			}
		}
		if forced != nil {
			kk = 10
		}
	}
	switch k := kk; {
	case k <= 2:
		kind = "send"
		c := g.coin()
		if r.Intn(4) != 0 {
			a = g.holder(c)
		}
		to := g.acct().Addr
		if r.Intn(10) == 0 {
			to = a.Addr
		}
		v := g.part(a.Addr, c)
		if r.Intn(12) == 0 {
			to = g.poor[r.Intn(len(g.poor))].Addr // dust for a poor account
			v = Z(int64(1 + r.Intn(9)))
			if r.Intn(3) == 0 {
				v = new(big.Int).Add(bi(g.n.Genesis.Commission.FailedTx), Z(int64(r.Intn(5)-2)))
			}
		}
		typ, data = transaction.TypeSend, transaction.SendData{Coin: c, To: to, Value: v}
		enc = L(Z(1), Z(int64(c)), addrZ20(to), v)
	case k == 3:
		kind = "multisend"
		var l []transaction.MultisendDataItem
		cnt := 1 + r.Intn(4)
		if r.Intn(15) == 0 {
			cnt = 0
		}
		if r.Intn(25) == 0 {
			cnt = 101
		}
		enc = L(Z(2), Z(int64(cnt)))
		for i := 0; i < cnt; i++ {
			c := g.coin()
			to := g.acct().Addr
			v := new(big.Int).Div(g.part(a.Addr, c), Z(int64(1+r.Intn(4))))
			l = append(l, transaction.MultisendDataItem{Coin: c, To: to, Value: v})
			enc = append(enc, Z(int64(c)), addrZ20(to), v)
		}
		typ, data = transaction.TypeMultisend, transaction.MultisendData{List: l}
	case k == 4 || k == 5:
		kind = "createtoken"
		sym := g.newSym()
		if len(g.syms) > 0 && r.Intn(8) == 0 {
			sym = g.syms[r.Intn(len(g.syms))]
		}
		if r.Intn(30) == 0 {
			sym = types.GetBaseCoin()
		}
		amt := new(big.Int).Add(r.BigBelow(pip(1000000)), Z(int64(r.Intn(2))))
		maxs := new(big.Int).Mul(amt, Z(int64(1+r.Intn(4))))
		mintable := r.Intn(3) != 0
		if r.Intn(12) == 0 {
			maxs = new(big.Int).Sub(amt, Z(1))
		}
		if r.Intn(25) == 0 {
			maxs = new(big.Int).Add(new(big.Int).Exp(Z(10), Z(33), nil), Z(int64(r.Intn(2))))
		}
		name := strings.Repeat("n", r.Intn(8))
		if r.Intn(25) == 0 {
			name = strings.Repeat("n", 64+r.Intn(2))
		}
		burnable := r.Intn(3) != 0
		typ, data = transaction.TypeCreateToken, transaction.CreateTokenData{Name: name, Symbol: sym, InitialAmount: amt, MaxSupply: maxs, Mintable: mintable, Burnable: burnable}
		enc = L(Z(3), symZ(sym), Z(int64(len(sym.String()))), Z(b2i(symOK(sym.String()))), Z(int64(len(name))), amt, maxs, Z(b2i(mintable)), Z(b2i(burnable)))
	case k == 6:
		kind = "recreate"
		if len(g.syms) == 0 {
			return nil
		}
		sym := g.syms[r.Intn(len(g.syms))]
		if o, ok := g.owner[sym]; ok && r.Intn(5) != 0 {
			a = o
		}
		if r.Intn(10) == 0 {
			sym = g.newSym()
		}
		amt := new(big.Int).Add(r.BigBelow(pip(1000000)), Z(1))
		maxs := new(big.Int).Mul(amt, Z(int64(1+r.Intn(3))))
		// boundaries of the supply checks (decided by the digits of amt: no further draw): maximum below / equal to the
		// initial amount, maximum at / above the global cap
		switch new(big.Int).Mod(amt, Z(16)).Int64() {
		case 0, 1:
			maxs = new(big.Int).Sub(amt, Z(1))
		case 2:
			maxs = new(big.Int).Set(amt)
		case 3:
			maxs = new(big.Int).Add(new(big.Int).Exp(Z(10), Z(33), nil), Z(int64(amt.Bit(4))))
		}
		mintable := r.Intn(3) != 0
		burnable := r.Bool()
		name := strings.Repeat("r", r.Intn(5))
		typ, data = transaction.TypeRecreateToken, transaction.RecreateTokenData{Name: name, Symbol: sym, InitialAmount: amt, MaxSupply: maxs, Mintable: mintable, Burnable: burnable}
		enc = L(Z(4), symZ(sym), Z(int64(len(name))), amt, maxs, Z(b2i(mintable)), Z(b2i(burnable)))
	case k == 7:
		kind = "mint"
		c := g.token()
		if o, ok := g.owner[g.symOf[c]]; ok && r.Intn(5) != 0 {
			a = o
		}
		v := new(big.Int).Add(r.BigBelow(pip(100000)), Z(0))
		if r.Intn(6) == 0 {
			v = pip(100000000000)
		}
		typ, data = transaction.TypeMintToken, transaction.MintTokenData{Coin: c, Value: v}
		enc = L(Z(5), Z(int64(c)), v)
	case k == 8:
		kind = "burn"
		c := g.token()
		if r.Intn(5) != 0 {
			a = g.holder(c)
		}
		v := g.part(a.Addr, c)
		typ, data = transaction.TypeBurnToken, transaction.BurnTokenDataV260{Coin: c, Value: v}
		enc = L(Z(6), Z(int64(c)), v)
	case k == 9:
		kind = "lock"
		c := g.coin()
		if r.Intn(4) != 0 {
			a = g.holder(c)
		}
		v := g.part(a.Addr, c)
		due := uint32(int64(h) - 1 + int64(r.Intn(12)))
		typ, data = transaction.TypeLock, transaction.LockData{DueBlock: due, Coin: c, Value: v}
		enc = L(Z(7), Z(int64(due)), Z(int64(c)), v)
	case k == 10 || k == 11:
		kind = "redeem"
		if r.Intn(3) == 0 {
			a = g.poor[r.Intn(len(g.poor))] // the redeemer typically owns nothing
		}
		if len(g.checks) > 0 && (forced != nil || r.Intn(4) == 0) {
			// replay of an earlier check by the same redeemer: new transaction, same check
			old := g.checks[r.Intn(len(g.checks))]
			if forced != nil {
				old = forced
			}
			od := old.data.(transaction.RedeemCheckData)
			for _, u := range append(append([]Acct{}, g.users...), g.poor...) {
				if u.Addr == old.check.redeemer {
					a = u
				}
			}
			typ, data, ci = transaction.TypeRedeemCheck, od, old.check
			gas = old.check.gasCoin
			gp = 1
		} else {
			issuer := g.acct()
			c := g.coin()
			cgas := types.CoinID(0)
			if r.Intn(10) == 0 {
				cgas = g.coin()
			}
			gas = cgas
			if r.Intn(12) == 0 {
				gas = g.coin()
			}
			// a redemption must carry gas price exactly 1: both sides of it, otherwise valid
			switch r.Intn(10) {
			case 0:
				gp = 0
			case 1:
				gp = uint32(2 + r.Intn(2))
			default:
				gp = 1
			}
			v := new(big.Int).Div(g.part(issuer.Addr, c), Z(int64(1+r.Intn(5))))
			if r.Intn(6) == 0 {
				v = new(big.Int).Add(g.bal(issuer.Addr, c), Z(int64(1+r.Intn(1000)))) // more than the issuer holds: rejected in Run
			} else if r.Intn(5) == 0 {
				// the issuer can pay the value or the fee, but not both: value in (balance - fee, balance]
				c = cgas
				v = new(big.Int).Sub(g.bal(issuer.Addr, c), r.BigBelow(ZS("30000000000000000")))
				if v.Sign() < 1 {
					v = Z(1)
				}
			}
			due := uint64(int64(h) - 2 + int64(r.Intn(8)))
			pass := mkAcct(7777 + r.Intn(2)).Key
			chain := types.CurrentChainID
			if r.Intn(15) == 0 {
				chain = types.ChainMainnet
			}
			nonceB := []byte(strconv.Itoa(int(r.U64() % 1000000)))
			if r.Intn(20) == 0 {
				nonceB = []byte("12345678901234567")
			}
			chk := check.Check{Nonce: nonceB, ChainID: chain, DueBlock: due, Coin: c, Value: v, GasCoin: cgas}
			lock, _ := crypto.Sign(chk.HashWithoutLock().Bytes(), pass)
			chk.Lock = new(big.Int).SetBytes(lock)
			chk.Sign(issuer.Key)
			raw, _ := rlp.EncodeToBytes(chk)
			proofFor := a.Addr
			lockState := 2
			switch r.Intn(10) {
			case 0:
				proofFor = g.acct().Addr // proof made for (possibly) another address
				if proofFor != a.Addr {
					lockState = 1
				}
			case 1:
				pass = mkAcct(7780).Key // proof made with another password
				lockState = 1
			}
			var h32 types.Hash
			hw := cryptoKeccak()
			rlp.Encode(hw, []interface{}{proofFor})
			hw.Sum(h32[:0])
			sig, _ := crypto.Sign(h32.Bytes(), pass)
			var proof [65]byte
			copy(proof[:], sig)
			if r.Intn(25) == 0 {
				proof[64] = 9 // unrecoverable proof
				lockState = 0
			}
			if r.Intn(30) == 0 {
				raw = raw[:len(raw)-3] // undecodable check
			}
			if r.Intn(40) == 0 {
				raw = nil
			}
			typ, data = transaction.TypeRedeemCheck, transaction.RedeemCheckData{RawCheck: raw, Proof: proof}
			ci = &checkInfo{id: "", issuer: issuer.Addr, coin: c, value: v, gasCoin: cgas, due: due, chainOK: chain == types.CurrentChainID, lock: lockState, redeemer: a.Addr}
		}
		od := data.(transaction.RedeemCheckData)
		// what the node will see when decoding the check (real decoder, real crypto)
		decodable, issuerOK, nlen := false, false, 0
		var issuerA types.Address
		idZ := Z(0)
		dc, err := check.DecodeFromBytes(od.RawCheck)
		if err == nil && len(od.RawCheck) > 0 {
			decodable = true
			nlen = len(dc.Nonce)
			if s, err := dc.Sender(); err == nil {
				issuerOK, issuerA = true, s
			}
			hh := dc.Hash()
			idZ = new(big.Int).SetBytes(hh[:])
			ci.id = hh.String()
			ci.coin, ci.value, ci.gasCoin, ci.due, ci.chainOK = dc.Coin, dc.Value, dc.GasCoin, dc.DueBlock, dc.ChainID == types.CurrentChainID
			ci.issuer = issuerA
		} else {
			ci = &checkInfo{lock: 0, redeemer: a.Addr, value: Z(0)}
		}
		lockState := ci.lock
		if decodable {
			// recompute the lock verdict for this redeemer with the real primitives
			lockState = 0
			if lpk, err := dc.LockPubKey(); err == nil {
				var h32 types.Hash
				hw := cryptoKeccak()
				rlp.Encode(hw, []interface{}{a.Addr})
				hw.Sum(h32[:0])
				if pub, err := crypto.Ecrecover(h32[:], od.Proof[:]); err == nil {
					lockState = 1
					if string(pub) == string(lpk) {
						lockState = 2
					}
				}
			}
		}
		enc = L(Z(8), Z(int64(len(od.RawCheck))), Z(b2i(decodable)), Z(b2i(ci.chainOK)), Z(int64(nlen)), Z(b2i(issuerOK)), addrZ20(issuerA),
			Z(int64(ci.coin)), Z(int64(ci.gasCoin)), ci.value, Z(int64(ci.due)), idZ, Z(int64(lockState)))
		ci.lock = lockState
		ci.redeemer = a.Addr
	case k == 12:
		kind = "multisig"
		cnt := 1 + r.Intn(4)
		if r.Intn(30) == 0 {
			cnt = 33
		}
		var ws []uint32
		var as []types.Address
		var owners []Acct
		for i := 0; i < cnt; i++ {
			w := uint32(1 + r.Intn(5))
			if r.Intn(30) == 0 {
				w = 1024
			}
			ws = append(ws, w)
			o := g.acct()
			if cnt > 8 {
				o = mkAcct(20000 + i)
			}
			as = append(as, o.Addr)
			owners = append(owners, o)
		}
		if r.Intn(20) == 0 && len(ws) > 0 {
			ws = ws[:len(ws)-1]
		}
		thr := uint32(1 + r.Intn(8))
		typ, data = transaction.TypeCreateMultisig, transaction.CreateMultisigData{Threshold: thr, Weights: ws, Addresses: as}
		enc = L(Z(9), Z(int64(thr)), Z(int64(len(ws))))
		for _, w := range ws {
			enc = append(enc, Z(int64(w)))
		}
		enc = append(enc, Z(int64(len(as))))
		for _, x := range as {
			enc = append(enc, addrZ20(x))
		}
		_ = owners
	case k == 13:
		kind = "editowner"
		if len(g.syms) == 0 {
			return nil
		}
		sym := g.syms[r.Intn(len(g.syms))]
		if o, ok := g.owner[sym]; ok && r.Intn(5) != 0 {
			a = o
		}
		if r.Intn(10) == 0 {
			sym = g.newSym()
		}
		no := g.acct().Addr
		typ, data = transaction.TypeEditCoinOwner, transaction.EditCoinOwnerData{Symbol: sym, NewOwner: no}
		enc = L(Z(10), symZ(sym), addrZ20(no))
	default:
		kind = "send"
		to := g.acct().Addr
		v := g.part(a.Addr, 0)
		typ, data = transaction.TypeSend, transaction.SendData{Coin: 0, To: to, Value: v}
		enc = L(Z(1), Z(0), addrZ20(to), v)
	}
	// payload / service data
	var payload, service []byte
	switch r.Intn(12) {
	case 0:
		payload = make([]byte, r.Intn(60))
	case 1:
		service = make([]byte, r.Intn(140))
	case 2:
		if r.Intn(6) == 0 {
			payload = make([]byte, 9990+r.Intn(20))
		}
	}
	// signature: single, or through one of the known multisig accounts
	sender := a.Addr
	var signers []Acct
	var msig *msigInfo
	if len(g.msigs) > 0 && r.Intn(5) == 0 && kind != "redeem" {
		m := g.msigs[r.Intn(len(g.msigs))]
		msig = &m
		sender = m.Addr
		for _, o := range m.Owners {
			if r.Intn(4) != 0 {
				signers = append(signers, o)
			}
		}
		if r.Intn(8) == 0 {
			signers = append(signers, g.acct()) // maybe not an owner, maybe a duplicate
		}
		if r.Intn(10) == 0 && len(signers) > 0 {
			signers = append(signers, signers[0]) // duplicate signer
		}
	}
	if r.Intn(25) == 0 {
		// a multisig address that does not exist
		msig = &msigInfo{Addr: mkAcct(30000 + r.Intn(3)).Addr}
		sender = msig.Addr
		signers = []Acct{a}
	}
	if r.Intn(20) == 0 && kind != "redeem" {
		// a multi-signature naming an ORDINARY (active) account, with no / foreign signatures
		victim := g.acct()
		msig = &msigInfo{Addr: victim.Addr}
		sender = victim.Addr
		signers = nil
		if r.Intn(3) == 0 {
			signers = []Acct{a}
		}
	}
	// nonce
	nonce := g.nonces[sender]
	if nonce == 0 {
		nonce = g.nonce(sender) + 1
	}
	switch r.Intn(14) {
	case 0:
		if nonce > 1 {
			nonce-- // stale
		}
	case 1:
		nonce += uint64(1 + r.Intn(2)) // future
	}
	chainID := types.CurrentChainID
	if r.Intn(30) == 0 {
		chainID = types.ChainMainnet
	}
	if kind == "multisig" {
		ma := accounts.CreateMultisigAddress(sender, nonce)
		enc = append(enc, addrZ20(ma))
	}
	encData, err := rlp.EncodeToBytes(data)
	if err != nil {
		// a value the generator made negative (e.g. a balance-relative amount of an empty account) has no encoding:
		// such a transaction cannot exist on the wire; draw another one
		return g.gen(h)
	}
	tx := transaction.Transaction{Nonce: nonce, ChainID: chainID, GasPrice: gp, GasCoin: gas, Type: typ, Data: encData, Payload: payload, ServiceData: service, SignatureType: transaction.SigTypeSingle}
	var sigEnc []*big.Int
	if msig == nil {
		if err := tx.Sign(a.Key); err != nil {
			panic(err)
		}
		sigEnc = L(Z(1), addrZ20(sender))
	} else {
		tx.SignatureType = transaction.SigTypeMulti
		tx.SetMultisigAddress(msig.Addr)
		sigEnc = L(Z(2), addrZ20(msig.Addr), Z(int64(len(signers))))
		for _, s := range signers {
			if err := tx.Sign(s.Key); err != nil {
				panic(err)
			}
			sigEnc = append(sigEnc, Z(1), addrZ20(s.Addr))
		}
		if len(signers) == 0 {
			tx.SetMultisigAddress(msig.Addr)
		}
	}
	raw, err := rlp.EncodeToBytes(tx)
	if err != nil {
		panic(err)
	}
	head := L(Z(int64(nonce)), Z(b2i(chainID == types.CurrentChainID)), Z(int64(gp)), Z(int64(gas)), Z(int64(len(payload))), Z(int64(len(service))))
	full := append(append(head, sigEnc...), enc...)
	t := &ltx{msig: msig, signers: signers, raw: raw, enc: full, sender: sender, gas: gas, kind: kind, payer: sender, check: ci, data: data, gp: gp, plen: len(payload) + len(service)}
	if kind == "redeem" && ci != nil {
		t.payer = ci.issuer
	}
	if kind == "multisig" {
		d := data.(transaction.CreateMultisigData)
		mi := msigInfo{Addr: accounts.CreateMultisigAddress(sender, nonce), Weights: d.Weights, Thr: d.Threshold, OwnerAddrs: d.Addresses}
		for _, x := range d.Addresses {
			for _, u := range g.users {
				if u.Addr == x {
					mi.Owners = append(mi.Owners, u)
				}
			}
		}
		t.check = nil
		t.data = mi
	}
	_ = ecdsa.PrivateKey{}
	return t
}

// balances of all tracked (address, coin) pairs as the model op 30 and its observed output
func (g *lgen) dumpBalances(tracked []types.Address) ([]*big.Int, []*big.Int) {
	in, out := L(Z(30)), []*big.Int{}
	coins := append([]types.CoinID{0}, g.tokens...)
	for _, a := range tracked {
		for _, c := range coins {
			in = append(in, addrZ20(a), Z(int64(c)))
			out = append(out, g.bal(a, c))
		}
	}
	return in, out
}

func priceVector(c types.Commission, rc, rb *big.Int) []*big.Int {
	return append(priceVector0(c), Z(int64(c.Coin)), rc, rb)
}

func priceVector0(c types.Commission) []*big.Int {
	return L(bi(c.PayloadByte), bi(c.Send), bi(c.MultisendBase), bi(c.MultisendDelta), bi(c.CreateTicker3), bi(c.CreateTicker4), bi(c.CreateTicker5),
		bi(c.CreateTicker6), bi(c.CreateTicker7_10), bi(c.CreateToken), bi(c.RecreateToken), bi(c.MintToken), bi(c.BurnToken), bi(c.Lock),
		bi(c.RedeemCheck), bi(c.CreateMultisig), bi(c.EditTickerOwner), bi(c.FailedTx))
}

func runLedger(pid string, seed uint64, n int, out, stats string) {
	c := NewCases(out)
	var mon []MonitorFailure
	dist := map[string]int{}
	codes := map[string]int{}
	checkAgree, txs, okTxs, failedCharged, redeliveries := 0, 0, 0, 0, 0
	if pid == "C22" {
		c22WrapScenario(&mon)
		c22PoolTokenScenario(&mon)
	}
	for i := 0; i < n; i++ {
		s := seed*1000003 + uint64(i)
		r := NewRng(s)
		nUsers := 4 + r.Intn(4)
		nVals := 2 + r.Intn(2)
		spec := &GenesisSpec{NAccounts: nUsers + nVals, Balance: pip(int64(50000 + r.Intn(5000000))), NVals: nVals, ValOwnersFrom: nUsers}
		if r.Intn(4) == 0 {
			spec.Balance = new(big.Int).Add(pip(2000), r.Big(20)) // poor accounts: ticker fees unaffordable
		}
		// a third of the histories: the price table is denominated in a custom coin (id 1) with a pool to the base coin
		customPrice := r.Intn(3) == 0
		prc, prb := Z(0), Z(0)
		if customPrice {
			prc = new(big.Int).Add(pip(int64(1000+r.Intn(100000))), r.Big(18))
			prb = new(big.Int).Add(pip(int64(1000+r.Intn(100000))), r.Big(18))
			if r.Intn(4) == 0 {
				prb = new(big.Int).Add(r.Big(19), Z(100000)) // tiny base reserve: fees convert to (almost) nothing / cannot be priced
			}
			spec.Mutate = func(st *types.AppState) {
				owner := st.Accounts[len(st.Accounts)-1].Address
				extra := pip(5)
				st.Coins = append(st.Coins, types.Coin{ID: 1, Name: "price", Symbol: types.StrToCoinSymbol("PRICECOIN"),
					Volume: new(big.Int).Add(prc, extra).String(), MaxSupply: "1000000000000000000000000000000000", OwnerAddress: &owner, Mintable: true, Burnable: true})
				st.Pools = append(st.Pools, types.Pool{Coin0: 0, Coin1: 1, Reserve0: prb.String(), Reserve1: prc.String(), ID: 1})
				st.Accounts[len(st.Accounts)-1].Balance = append(st.Accounts[len(st.Accounts)-1].Balance, types.Balance{Coin: 1, Value: extra.String()})
				st.Commission.Coin = 1
				// prices in the custom coin: scaled so that fees are affordable
				if r.Intn(2) == 0 {
					st.Commission.FailedTx = "1"
				}
			}
		}
		nd := newNode(spec)
		where := fmt.Sprintf("vharness %s -seed %d -n %d (history %d, seed %d)", strings.ToLower(pid), seed, n, i, s)
		var poor []Acct
		for pi := 0; pi < 3; pi++ {
			poor = append(poor, mkAcct(40000+int(s%1000)*10+pi))
		}
		g := &lgen{n: nd, r: r, poor: poor, paid: map[string]bool{}, users: nd.Accts[:nUsers], nonces: map[types.Address]uint64{}, owner: map[types.CoinSymbol]Acct{}, symOf: map[types.CoinID]types.CoinSymbol{}}
		c.Begin(7)
		com := nd.Genesis.Commission
		c.Op(append(L(Z(0), symZ(types.GetBaseCoin()), Z(0), Z(InitialHeight)), priceVector(com, prc, prb)...), L(Z(0)))
		if customPrice {
			ownerA := nd.Accts[len(nd.Accts)-1].Addr
			c.Op(L(Z(2), Z(1), symZ(types.StrToCoinSymbol("PRICECOIN")), Z(0), new(big.Int).Add(prc, pip(5)), ZS("1000000000000000000000000000000000"), Z(1), Z(1), Z(1), addrZ20(ownerA)), L(Z(0)))
		}
		for _, a := range nd.Accts {
			c.Op(L(Z(1), addrZ20(a.Addr), Z(0), spec.Balance), L(Z(0)))
		}
		tracked := []types.Address{{}}
		for _, u := range g.users {
			tracked = append(tracked, u.Addr)
		}
		for _, u := range g.poor {
			tracked = append(tracked, u.Addr)
		}
		nontriv := false
		nb := 6 + r.Intn(30)
		for b := 0; b < nb; b++ {
			h := uint64(nd.Height + 1)
			g.nonces = map[types.Address]uint64{}
			// transactions are generated lazily, each against the in-flight state right before its delivery
			ntx := r.Intn(6)
			var cur *ltx
			var preBal map[string]*big.Int
			var preNonce uint64
			snapshot := func(addrs []types.Address) map[string]*big.Int {
				m := map[string]*big.Int{}
				coins := append([]types.CoinID{0}, g.tokens...)
				for _, a := range addrs {
					for _, cc := range coins {
						m[fmt.Sprintf("%s/%d", a.String(), cc)] = g.bal(a, cc)
					}
				}
				return m
			}
			var preRpool *big.Int
			// the block is driven step by step: every transaction is generated against the in-flight state
			nd.BeginOnly(h)
			c.Op(L(Z(20), Z(int64(h))), L(Z(0)))
			for j := 0; j < ntx; j++ {
				cur = g.gen(h)
				if cur == nil {
					continue
				}
				replayOf := -1
				if r.Intn(7) == 0 && len(g.past) > 0 {
					// re-delivery of bytes delivered earlier (accepted or failed)
					replayOf = r.Intn(len(g.past))
					cur = g.past[replayOf].t
				}
				allAddrs := append([]types.Address{}, tracked...)
				for _, m := range g.msigs {
					allAddrs = append(allAddrs, m.Addr)
				}
				preBal = snapshot(allAddrs)
				preNonce = g.nonce(cur.sender)
				preRpool = new(big.Int).Set(nd.App.VerifRewardsPool())
				// check mode on a check view of the in-flight deliver state
				cs := state.NewCheckState(g.dstate())
				var chk transaction.Response
				okc := nd.guard("CheckTx", func() {
					chk = transaction.NewExecutorV3(transaction.GetDataV3).RunTx(cs, cur.raw, nil, checkTxHeight(nd), newSyncMap(), 0, false)
				})
				if !okc {
					mon = append(mon, MonitorFailure{What: "C07: check-mode RunTx panicked: " + nd.Panics[len(nd.Panics)-1], Key: "c07-panic", Replay: where})
					break
				}
				c.Op(append(L(Z(10), Z(1)), cur.enc...), L(Z(int64(chk.Code))))
				tr, okd := nd.DeliverOnly(cur.raw)
				if !okd {
					mon = append(mon, MonitorFailure{What: "C07: DeliverTx panicked: " + nd.Panics[len(nd.Panics)-1], Key: "c07-panic", Replay: where})
					break
				}
				txs++
				dist[cur.kind]++
				codes[fmt.Sprintf("%s:%d", cur.kind, tr.Code)]++
				postNonce := g.nonce(cur.sender)
				rp := nd.App.VerifRewardsPool()
				c.Op(append(L(Z(10), Z(0)), cur.enc...), L(Z(int64(tr.Code)), g.bal(cur.sender, cur.gas), Z(int64(postNonce)), cp(rp)))
				// ---- monitors (independent of the model) ----
				if (chk.Code == 0) != (tr.Code == 0) {
					mon = append(mon, MonitorFailure{What: fmt.Sprintf("C06: %s transaction: check mode returned code %d, delivery right after on the same state %d", cur.kind, chk.Code, tr.Code), Key: "c06-check-deliver", Replay: where})
				} else {
					checkAgree++
				}
				postBal := snapshot(allAddrs)
				if tr.Code == 0 {
					okTxs++
					nontriv = true
					if postNonce != preNonce+1 {
						mon = append(mon, MonitorFailure{What: fmt.Sprintf("C03/C04: accepted %s transaction moved the sender's nonce from %d to %d", cur.kind, preNonce, postNonce), Key: strings.ToLower(pid) + "-nonce-step", Replay: where})
					}
				} else {
					if postNonce != preNonce {
						mon = append(mon, MonitorFailure{What: fmt.Sprintf("C03: rejected %s transaction (code %d) changed the sender's nonce %d -> %d", cur.kind, tr.Code, preNonce, postNonce), Key: "c03-nonce-changed", Replay: where})
					}
					// only the payer's balance of the gas coin may change, downwards, by at most the failure fee
					for k, v := range postBal {
						d := new(big.Int).Sub(v, preBal[k])
						if d.Sign() == 0 {
							continue
						}
						payerKey := fmt.Sprintf("%s/%d", cur.payer.String(), cur.gas)
						fee := toBase(nd, com, new(big.Int).Mul(Z(int64(cur.gp)), new(big.Int).Add(bi(com.FailedTx), new(big.Int).Mul(Z(int64(cur.plen)), bi(com.PayloadByte)))))
						if fee == nil {
							fee = big.NewInt(0)
						}
						if k != payerKey || d.Sign() > 0 || new(big.Int).Neg(d).Cmp(fee) > 0 {
							mon = append(mon, MonitorFailure{What: fmt.Sprintf("C03: rejected %s transaction (code %d) changed balance %s by %s (payer %s, failure fee %s)", cur.kind, tr.Code, k, d, payerKey, fee), Key: "c03-frame", Replay: where})
						} else {
							failedCharged++
							want := new(big.Int).Set(fee)
							if preBal[k].Cmp(want) < 0 {
								want = new(big.Int).Set(preBal[k])
							}
							if new(big.Int).Neg(d).Cmp(want) != 0 {
								mon = append(mon, MonitorFailure{What: fmt.Sprintf("C03: rejected %s transaction (code %d) charged %s to %s; the failure fee capped at the payer's balance is %s (fee %s, balance %s)", cur.kind, tr.Code, new(big.Int).Neg(d), k, want, fee, preBal[k]), Key: "c03-fee-cap", Replay: where})
							}
						}
					}
				}
				// C03: a rejection that can only come from the transaction's own checks (after the gate) charges the
				// failure fee, capped at the payer's balance
				if runOnlyCodes[tr.Code] && cur.gas == 0 {
					pk := fmt.Sprintf("%s/%d", cur.payer.String(), cur.gas)
					fee := toBase(nd, com, new(big.Int).Mul(Z(int64(cur.gp)), new(big.Int).Add(bi(com.FailedTx), new(big.Int).Mul(Z(int64(cur.plen)), bi(com.PayloadByte)))))
					if fee != nil && fee.Sign() > 0 && preBal[pk] != nil && preBal[pk].Sign() > 0 {
						want := new(big.Int).Set(fee)
						if preBal[pk].Cmp(want) < 0 {
							want = new(big.Int).Set(preBal[pk])
						}
						if got := new(big.Int).Sub(preBal[pk], postBal[pk]); got.Cmp(want) != 0 {
							mon = append(mon, MonitorFailure{What: fmt.Sprintf("C03: %s transaction rejected with code %d: payer %s was charged %s, the failure fee capped at its balance is %s", cur.kind, tr.Code, pk, got, want), Key: "c03-fee-cap", Replay: where})
						}
					}
				}
				// C05: a balance only decreases for the sender / multisig sender / check issuer
				for k, v := range postBal {
					if v.Cmp(preBal[k]) < 0 {
						if !strings.HasPrefix(k, cur.sender.String()+"/") && !strings.HasPrefix(k, cur.payer.String()+"/") {
							mon = append(mon, MonitorFailure{What: fmt.Sprintf("C05: %s transaction from %s decreased balance %s", cur.kind, cur.sender.String(), k), Key: "c05-unauthorized-debit", Replay: where})
						}
					}
				}
				// C05: a transaction signed "as multisig" that is accepted or charged must name a real multisig account
				// whose distinct listed owners among the signers reach the threshold
				if cur.msig != nil && (tr.Code == 0 || len(changed(preBal, postBal)) > 0) {
					var mi *msigInfo
					for i := range g.msigs {
						if g.msigs[i].Addr == cur.msig.Addr {
							mi = &g.msigs[i]
						}
					}
					ok := mi != nil
					if ok {
						seen := map[types.Address]bool{}
						total := uint32(0)
						for _, sg := range cur.signers {
							if seen[sg.Addr] {
								ok = false
							}
							seen[sg.Addr] = true
							for i, o := range mi.OwnerAddrs {
								if o == sg.Addr && i < len(mi.Weights) {
									total += mi.Weights[i]
								}
							}
						}
						if total < mi.Thr {
							ok = false
						}
					}
					if !ok {
						mon = append(mon, MonitorFailure{What: fmt.Sprintf("C05: %s transaction with a multi-signature naming %s (code %d) took effect although the multisig gate cannot pass (account is a multisig: %v, signers %d)", cur.kind, cur.msig.Addr.String(), tr.Code, mi != nil, len(cur.signers)), Key: "c05-multisig-gate", Replay: where})
					}
				}
				// C27: accepted, base gas coin: the reward pool grows by gasPrice*(type price + bytes*byte price), less the ticker burn
				if tr.Code == 0 && cur.gas == 0 {
					want := c27Price(com, cur)
					if want != nil {
						want = toBase(nd, com, want)
					}
					got := new(big.Int).Sub(rp, preRpool)
					if cur.kind == "createtoken" {
						got.Add(got, bi(tr.Tags["tx.burned_for_symbol"]))
					}
					if want != nil && got.Cmp(want) != 0 {
						mon = append(mon, MonitorFailure{What: fmt.Sprintf("C27: accepted %s transaction: reward pool grew by %s, price table says %s", cur.kind, got, want), Key: "c27-fee", Replay: where})
					}
				}
				// C21: a check pays at most once
				if cur.kind == "redeem" && tr.Code == 0 && cur.check != nil {
					if g.paid[cur.check.id] {
						mon = append(mon, MonitorFailure{What: "C21: check " + cur.check.id + " paid out a second time (value " + cur.check.value.String() + ")", Key: "c21-double-redeem", Replay: where})
					}
					g.paid[cur.check.id] = true
					cur.check.lock = 99 // marks "paid"
					cur.check.paidAt = h
				}
				if cur.kind == "redeem" && cur.check != nil && cur.check.id != "" {
					g.checks = append(g.checks, cur)
				}
				// C26 / C04: re-delivery of the same bytes
				if replayOf >= 0 {
					redeliveries++
					pk := fmt.Sprintf("%s/%d", cur.payer.String(), cur.gas)
					charged := postBal[pk] != nil && preBal[pk] != nil && postBal[pk].Cmp(preBal[pk]) < 0
					if g.past[replayOf].accepted {
						if tr.Code == 0 {
							mon = append(mon, MonitorFailure{What: fmt.Sprintf("C04: bytes of an accepted %s transaction were accepted again", cur.kind), Key: "c04-replay-accepted", Replay: where})
						}
						if charged {
							mon = append(mon, MonitorFailure{What: fmt.Sprintf("C26: re-delivery of an accepted %s transaction charged its payer again", cur.kind), Key: "c26-charged-after-success", Replay: where})
						}
					} else if charged && g.past[replayOf].charged {
						mon = append(mon, MonitorFailure{What: fmt.Sprintf("C26: re-delivery of a %s transaction whose first delivery failed (fee charged) charged the failure fee again", cur.kind), Key: "c26-failed-redelivery", Replay: where})
					}
				}
				{
					pk := fmt.Sprintf("%s/%d", cur.payer.String(), cur.gas)
					charged := postBal[pk] != nil && preBal[pk] != nil && postBal[pk].Cmp(preBal[pk]) < 0
					if replayOf < 0 {
						g.past = append(g.past, pastTx{t: cur, accepted: tr.Code == 0, charged: charged})
					} else if tr.Code == 0 {
						g.past[replayOf].accepted = true
					}
				}
				g.lastFreshRedeem = cur.kind == "redeem" && tr.Code == 0 && replayOf < 0
				// bookkeeping of the generator
				if tr.Code == 0 {
					g.nonces[cur.sender] = postNonce + 1
					switch d := cur.data.(type) {
					case transaction.CreateTokenData:
						id, _ := strconv.Atoi(tr.Tags["tx.coin_id"])
						g.tokens = append(g.tokens, types.CoinID(id))
						g.syms = append(g.syms, d.Symbol)
						g.symOf[types.CoinID(id)] = d.Symbol
						for _, u := range g.users {
							if u.Addr == cur.sender {
								g.owner[d.Symbol] = u
							}
						}
					case transaction.RecreateTokenData:
						id, _ := strconv.Atoi(tr.Tags["tx.coin_id"])
						g.tokens = append(g.tokens, types.CoinID(id))
						g.symOf[types.CoinID(id)] = d.Symbol
						if cn := nd.App.CurrentState().Coins().GetCoin(types.CoinID(id)); cn != nil && cn.Volume().Cmp(cn.MaxSupply()) > 0 {
							mon = append(mon, MonitorFailure{What: fmt.Sprintf("C02: RecreateToken accepted with initial amount %s and maximum supply %s: coin %d now has volume %s above its maximum supply %s", d.InitialAmount, d.MaxSupply, id, cn.Volume(), cn.MaxSupply()), Key: "c02-volume-above-max", Replay: where})
						}
					case transaction.EditCoinOwnerData:
						delete(g.owner, d.Symbol)
						for _, u := range g.users {
							if u.Addr == d.NewOwner {
								g.owner[d.Symbol] = u
							}
						}
					case msigInfo:
						g.msigs = append(g.msigs, d)
					}
				}
			}
			// state dump before the block ends: balances, nonces, coins, registry
			allAddrs := append([]types.Address{}, tracked...)
			for _, m := range g.msigs {
				allAddrs = append(allAddrs, m.Addr)
			}
			in, outv := g.dumpBalances(allAddrs)
			c.Op(in, outv)
			inN, outN := L(Z(31)), []*big.Int{}
			for _, a := range allAddrs {
				inN = append(inN, addrZ20(a))
				outN = append(outN, Z(int64(g.nonce(a))))
			}
			c.Op(inN, outN)
			inC, outC := L(Z(32)), []*big.Int{}
			ids := append([]types.CoinID{}, g.tokens...)
			sort.Slice(ids, func(x, y int) bool { return ids[x] < ids[y] })
			for _, id := range ids {
				inC = append(inC, Z(int64(id)))
				cm := g.dstate().Coins.GetCoin(id)
				owner := Z(-1)
				if si := g.dstate().Coins.GetSymbolInfo(cm.Symbol()); si != nil && si.OwnerAddress() != nil {
					owner = addrZ20(*si.OwnerAddress())
				}
				outC = append(outC, Z(1), symZ(cm.Symbol()), Z(int64(cm.Version())), cm.Volume(), cm.MaxSupply(), owner)
			}
			c.Op(inC, outC)
			rpEnd := new(big.Int).Set(nd.App.VerifRewardsPool())
			if !nd.EndAndCommit(h) {
				mon = append(mon, MonitorFailure{What: "C07: EndBlock/Commit panicked: " + nd.Panics[len(nd.Panics)-1], Key: "c07-panic", Replay: where})
				break
			}
			c.Op(L(Z(21)), L(rpEnd))
			// C22: registry invariants on the committed state
			c22Monitor(nd, &mon, where)
		}
		nd.Cleanup()
		c.End(nontriv, fmt.Sprintf("users%d", nUsers))
	}
	c.Close()
	var myMon []MonitorFailure
	for _, m := range mon {
		myMon = append(myMon, m)
	}
	writeStats(stats, &Stats{Property: pid, Seed: seed, Cases: c.NCases, Ops: c.NOps, NonTrivial: c.NonTriv,
		Rule: "seeded history of 6-35 blocks (0-5 transactions each) of the ten transaction types of Model/Ledger.v (send, multisend, create/recreate/mint/burn token, lock, redeem check, create multisig, edit coin owner) with single and multi signatures, stale/future nonces, wrong chain ids, unknown coins and gas coins, over-spends, invalid symbols/supplies, forged/foreign/expired/replayed checks, duplicate / non-owner / under-weight multisig signers, payload and service data up to the limits; each transaction is run in check mode on the in-flight state and then delivered on the real node; outputs compared with the model: code, payer balance, nonce, reward pool per transaction and all balances/nonces/coins per block; non-trivial = at least one accepted transaction; distinct = distinct case text",
		Dist: dist, Samples: c.Samples, Monitor: myMon,
		Extra: map[string]interface{}{"txs": txs, "accepted_txs": okTxs, "check_deliver_agreements": checkAgree, "failed_tx_fees_charged": failedCharged, "redeliveries_of_earlier_bytes": redeliveries, "codes": codes}})
}

// toBase converts an amount of the price coin into base coin with the real pool code (what the property
// calls "converted through the pool"): nil when it cannot be converted.
func toBase(nd *Node, com types.Commission, x *big.Int) *big.Int {
	if com.Coin == 0 {
		return x
	}
	if x.Sign() == 0 {
		return big.NewInt(0)
	}
	sw := nd.App.CurrentState().Swap().GetSwapper(types.CoinID(com.Coin), 0)
	v, _ := sw.CalculateBuyForSellWithOrders(x)
	return v
}

// c27Price: gasPrice * (type price + bytes * byte price) from the price table, for the modelled types.
func c27Price(com types.Commission, t *ltx) *big.Int {
	var tp *big.Int
	switch d := t.data.(type) {
	case transaction.SendData:
		tp = bi(com.Send)
	case transaction.MultisendData:
		tp = new(big.Int).Add(bi(com.MultisendBase), new(big.Int).Mul(Z(int64(len(d.List)-1)), bi(com.MultisendDelta)))
	case transaction.CreateTokenData:
		tk := bi(com.CreateTicker7_10)
		switch len(d.Symbol.String()) {
		case 3:
			tk = bi(com.CreateTicker3)
		case 4:
			tk = bi(com.CreateTicker4)
		case 5:
			tk = bi(com.CreateTicker5)
		case 6:
			tk = bi(com.CreateTicker6)
		}
		tp = new(big.Int).Add(tk, bi(com.CreateToken))
	case transaction.RecreateTokenData:
		tp = bi(com.RecreateToken)
	case transaction.MintTokenData:
		tp = bi(com.MintToken)
	case transaction.BurnTokenDataV260:
		tp = bi(com.BurnToken)
	case transaction.LockData:
		tp = bi(com.Lock)
	case transaction.RedeemCheckData:
		tp = bi(com.RedeemCheck)
	case msigInfo:
		tp = bi(com.CreateMultisig)
	case transaction.EditCoinOwnerData:
		tp = bi(com.EditTickerOwner)
	default:
		return nil
	}
	p := new(big.Int).Add(tp, new(big.Int).Mul(Z(int64(t.plen)), bi(com.PayloadByte)))
	return p.Mul(p, Z(int64(t.gp)))
}

// c22WrapScenario: the corner left open by theorem C22_active_tickers_unique (Coq witness
// C22_unique_refuted_at_version_wrap): a ticker whose archived versions reach 65535 (types.CoinVersion is uint16)
// is recreated once more.  The archived state is given by the genesis (it is what 65535 recreations produce).
func c22WrapScenario(mon *[]MonitorFailure) {
	sym := types.StrToCoinSymbol("WRAPTICKER")
	spec := &GenesisSpec{NAccounts: 4, Balance: pip(100000000), NVals: 2, ValOwnersFrom: 2}
	spec.Mutate = func(st *types.AppState) {
		owner := st.Accounts[0].Address
		st.Coins = append(st.Coins,
			types.Coin{ID: 1, Name: "old", Symbol: sym, Volume: pip(10).String(), MaxSupply: pip(10).String(), Version: 65535, OwnerAddress: nil, Mintable: false, Burnable: false},
			types.Coin{ID: 2, Name: "cur", Symbol: sym, Volume: pip(10).String(), MaxSupply: pip(10).String(), Version: 0, OwnerAddress: &owner, Mintable: false, Burnable: false})
		st.Accounts[0].Balance = append(st.Accounts[0].Balance, types.Balance{Coin: 1, Value: pip(10).String()}, types.Balance{Coin: 2, Value: pip(10).String()})
	}
	nd := newNode(spec)
	defer nd.Cleanup()
	r := nd.Block([][]byte{nd.MkTx(nd.Accts[0], transaction.TypeRecreateToken, transaction.RecreateTokenData{Name: "new", Symbol: sym, InitialAmount: pip(10), MaxSupply: pip(10), Mintable: false, Burnable: false}, 0, 0, 1, nil)}, nil)
	if r.Panic != "" || len(r.Txs) != 1 {
		*mon = append(*mon, MonitorFailure{What: "C22: version-wrap scenario could not be run: " + r.Panic, Key: "c22-scenario-broken"})
		return
	}
	if r.Txs[0].Code != 0 {
		return // refused: nothing to report
	}
	e := nd.Export()
	var act []uint64
	for _, cn := range e.Coins {
		if cn.Symbol == sym && cn.Version == 0 {
			act = append(act, cn.ID)
		}
	}
	if len(act) != 1 {
		*mon = append(*mon, MonitorFailure{What: fmt.Sprintf("C22: RecreateToken of a ticker whose archived versions reach 65535 was accepted (code 0) and the archived coin got version 65535+1 = 0 (uint16): ticker %s is now active for coins %v", sym.String(), act),
			Key: "c22-version-wrap", Replay: "vharness c22 -n 0 (scenario version-wrap: genesis coins 1 (version 65535) and 2 (version 0) with one ticker, RecreateToken by the owner)"})
	}
}

// c22PoolTokenScenario: pool tokens (LP-n: mintable, burnable, no ticker owner) are minted only by adding liquidity:
// a MintToken on them is refused whoever sends it.
func c22PoolTokenScenario(mon *[]MonitorFailure) {
	nd := newNode(&GenesisSpec{NAccounts: 4, Balance: pip(100000000), NVals: 2, ValOwnersFrom: 2})
	defer nd.Cleanup()
	a, b := nd.Accts[0], nd.Accts[1]
	nd.Block([][]byte{nd.MkTx(a, transaction.TypeCreateToken, transaction.CreateTokenData{Name: "t", Symbol: types.StrToCoinSymbol("POOLSIDE"), InitialAmount: pip(1000000), MaxSupply: pip(2000000), Mintable: true, Burnable: true}, 0, 0, 1, nil)}, nil)
	tok := types.CoinID(nd.App.CurrentState().App().GetCoinsCount())
	r := nd.Block([][]byte{nd.MkTx(a, transaction.TypeCreateSwapPool, transaction.CreateSwapPoolData{Coin0: 0, Coin1: tok, Volume0: pip(1000), Volume1: pip(1000)}, 0, 0, 1, nil)}, nil)
	if r.Panic != "" || len(r.Txs) != 1 || r.Txs[0].Code != 0 {
		*mon = append(*mon, MonitorFailure{What: "C22: pool-token scenario could not be set up", Key: "c22-scenario-broken"})
		return
	}
	lp := types.CoinID(nd.App.CurrentState().App().GetCoinsCount())
	vol := func() string {
		if c := nd.App.CurrentState().Coins().GetCoin(lp); c != nil {
			return c.Volume().String()
		}
		return "?"
	}
	before := vol()
	r = nd.Block([][]byte{nd.MkTx(b, transaction.TypeMintToken, transaction.MintTokenData{Coin: lp, Value: pip(1)}, 0, 0, 1, nil),
		nd.MkTx(a, transaction.TypeMintToken, transaction.MintTokenData{Coin: lp, Value: pip(1)}, 0, 0, 1, nil)}, nil)
	for i, tr := range r.Txs {
		if tr.Code == 0 {
			*mon = append(*mon, MonitorFailure{What: fmt.Sprintf("C22: MintToken of the pool token %d (no ticker owner) by account %d was accepted: volume %s -> %s without liquidity being added", lp, i, before, vol()),
				Key: "c22-pool-token-minted", Replay: "vharness c22 -n 0 (scenario pool-token: CreateToken, CreateSwapPool, MintToken of LP-1 by a stranger and by the pool creator)"})
		}
	}
}

// c22Monitor: active tickers unique, ids dense and fresh, on the node's export.
func c22Monitor(nd *Node, mon *[]MonitorFailure, where string) {
	e := nd.Export()
	// the registry as the running node sees it must be the registry that was committed: a state opened from the
	// database at this height (what a restarted node, an export or a state-synced node reads) lists the same
	// coins with the same owners, versions and supplies
	if cs, err := state.NewCheckStateAtHeightV3(uint64(nd.Height), nd.Store.StateDB()); err == nil {
		f := cs.Export()
		key := func(c types.Coin) string {
			o := "-"
			if c.OwnerAddress != nil {
				o = c.OwnerAddress.String()
			}
			return fmt.Sprintf("id=%d sym=%s v=%d vol=%s max=%s res=%s owner=%s mint=%v burn=%v", c.ID, c.Symbol.String(), c.Version, c.Volume, c.MaxSupply, c.Reserve, o, c.Mintable, c.Burnable)
		}
		live := map[uint64]string{}
		for _, c := range e.Coins {
			live[c.ID] = key(c)
		}
		for _, c := range f.Coins {
			if live[c.ID] != key(c) {
				*mon = append(*mon, MonitorFailure{What: fmt.Sprintf("C22: at height %d the running node holds coin {%s}, the committed state holds {%s}", nd.Height, live[c.ID], key(c)), Key: "c22-registry-not-committed", Replay: where})
			}
			delete(live, c.ID)
		}
		for id, k := range live {
			*mon = append(*mon, MonitorFailure{What: fmt.Sprintf("C22: at height %d coin %d {%s} of the running node is not in the committed state", nd.Height, id, k), Key: "c22-registry-not-committed", Replay: where})
		}
	}
	active := map[string]uint64{}
	versions := map[string]uint64{}
	seen := map[uint64]bool{}
	maxID := uint64(0)
	for _, cn := range e.Coins {
		if seen[cn.ID] {
			*mon = append(*mon, MonitorFailure{What: fmt.Sprintf("C22: coin id %d used twice", cn.ID), Key: "c22-id-reused", Replay: where})
		}
		seen[cn.ID] = true
		if cn.ID > maxID {
			maxID = cn.ID
		}
		if cn.Version == 0 {
			if other, ok := active[cn.Symbol.String()]; ok {
				*mon = append(*mon, MonitorFailure{What: fmt.Sprintf("C22: ticker %s is active for coins %d and %d", cn.Symbol.String(), other, cn.ID), Key: "c22-ticker-dup", Replay: where})
			}
			active[cn.Symbol.String()] = cn.ID
		}
		sv := fmt.Sprintf("%s-%d", cn.Symbol.String(), cn.Version)
		if other, ok := versions[sv]; ok {
			*mon = append(*mon, MonitorFailure{What: fmt.Sprintf("C22: coins %d and %d both carry ticker %s version %d: the recreated coin was not kept under a new version number", other, cn.ID, cn.Symbol.String(), cn.Version), Key: "c22-version-dup", Replay: where})
		}
		versions[sv] = cn.ID
		if bi(cn.Volume).Cmp(bi(cn.MaxSupply)) > 0 {
			*mon = append(*mon, MonitorFailure{What: fmt.Sprintf("C22: coin %d volume %s above max supply %s", cn.ID, cn.Volume, cn.MaxSupply), Key: "c22-max-supply", Replay: where})
		}
	}
	if cc := uint64(nd.App.CurrentState().App().GetCoinsCount()); maxID > cc {
		*mon = append(*mon, MonitorFailure{What: fmt.Sprintf("C22: coin id %d above the coins counter %d", maxID, cc), Key: "c22-counter", Replay: where})
	}
}
