// vharness — runs the real minter-go-node code on generated inputs and prints the
// projected observables in the canonical integer-line format that the extracted Coq
// model (ocaml/modelrun) and the vm_compute path (cases.v) consume.
package main

import (
	"bufio"
	"encoding/json"
	"flag"
	"fmt"
	"io"
	"log"
	"math/big"
	"os"
	"sort"
	"strings"
)

// ---- PRNG: splitmix64, every random choice derives from it -----------------
type Rng struct{ s uint64 }

// NewRng hashes the seed first: consecutive seeds must not give the same stream shifted by one draw.
func NewRng(seed uint64) *Rng {
	z := seed ^ 0xD6E8FEB86659FD93
	z = (z ^ (z >> 32)) * 0xD6E8FEB86659FD93
	z = (z ^ (z >> 32)) * 0xD6E8FEB86659FD93
	z ^= z >> 32
	return &Rng{s: z*0x9E3779B97F4A7C15 + 0x1234567}
}
func (r *Rng) U64() uint64 {
	r.s += 0x9E3779B97F4A7C15
	z := r.s
	z = (z ^ (z >> 30)) * 0xBF58476D1CE4E5B9
	z = (z ^ (z >> 27)) * 0x94D049BB133111EB
	return z ^ (z >> 31)
}
func (r *Rng) Intn(n int) int { return int(r.U64() % uint64(n)) }
func (r *Rng) Bool() bool     { return r.U64()&1 == 1 }

// Big returns a log-uniform non-negative integer below 10^maxDigits.
func (r *Rng) Big(maxDigits int) *big.Int {
	d := 1 + r.Intn(maxDigits)
	b := new(big.Int)
	for i := 0; i < d; i++ {
		b.Mul(b, big.NewInt(10))
		b.Add(b, big.NewInt(int64(r.Intn(10))))
	}
	return b
}

// BigRange returns a uniform integer in [0, n).
func (r *Rng) BigBelow(n *big.Int) *big.Int {
	if n.Sign() <= 0 {
		return big.NewInt(0)
	}
	bits := n.BitLen() + 64
	b := new(big.Int)
	for b.BitLen() < bits {
		b.Lsh(b, 64)
		b.Or(b, new(big.Int).SetUint64(r.U64()))
	}
	return b.Mod(b, n)
}

// ---- cases file writer -------------------------------------------------------
type Cases struct {
	w        *bufio.Writer
	f        io.Closer
	NCases   int
	NOps     int
	distinct map[string]struct{}
	NonTriv  int
	Dist     map[string]int // distribution counters
	Samples  []string
	inCase   bool
	caseBuf  strings.Builder
	caseNT   bool
}

func NewCases(path string) *Cases {
	f, err := os.Create(path)
	if err != nil {
		log.Fatal(err)
	}
	return &Cases{w: bufio.NewWriterSize(f, 1<<20), f: f, distinct: map[string]struct{}{}, Dist: map[string]int{}}
}
func (c *Cases) Begin(model int) {
	c.inCase = true
	c.caseBuf.Reset()
	c.caseNT = false
	fmt.Fprintf(&c.caseBuf, "case %d\n", model)
}
func ints(v []*big.Int) string {
	s := make([]string, len(v))
	for i, x := range v {
		s[i] = x.String()
	}
	return strings.Join(s, " ")
}

// Op records one operation with the implementation's observed output.
func (c *Cases) Op(in []*big.Int, out []*big.Int) {
	fmt.Fprintf(&c.caseBuf, "> %s\n< %s\n", ints(in), ints(out))
	c.NOps++
}

// End closes the case; nontrivial says whether it counts as non-trivial by the rule
// of the property; kind feeds the distribution.
func (c *Cases) End(nontrivial bool, kind string) {
	c.caseBuf.WriteString("end\n")
	s := c.caseBuf.String()
	c.w.WriteString(s)
	c.NCases++
	c.Dist[kind]++
	if nontrivial {
		if _, ok := c.distinct[s]; !ok {
			c.distinct[s] = struct{}{}
			c.NonTriv++
			if len(c.Samples) < 3 && len(s) < 700 {
				c.Samples = append(c.Samples, s)
			}
		}
	}
	c.inCase = false
}
func (c *Cases) Close() { c.w.Flush(); c.f.Close() }

func Z(i int64) *big.Int  { return big.NewInt(i) }
func ZS(s string) *big.Int { b, _ := new(big.Int).SetString(s, 10); return b }
func L(v ...*big.Int) []*big.Int { return v }
func cp(b *big.Int) *big.Int {
	if b == nil {
		return nil
	}
	return new(big.Int).Set(b)
}

// ---- stats sidecar -------------------------------------------------------------
type Stats struct {
	Property   string            `json:"property"`
	Seed       uint64            `json:"seed"`
	Cases      int               `json:"cases"`
	Ops        int               `json:"ops"`
	NonTrivial int               `json:"distinct_nontrivial"`
	Rule       string            `json:"rule"`
	Dist       map[string]int    `json:"distribution"`
	Samples    []string          `json:"samples"`
	Monitor    []MonitorFailure  `json:"monitor_failures"`
	Extra      map[string]interface{} `json:"extra,omitempty"`
}
type MonitorFailure struct {
	What   string `json:"what"`
	Key    string `json:"key"`
	Replay string `json:"replay"`
}

func writeStats(path string, st *Stats) {
	b, _ := json.MarshalIndent(st, "", " ")
	if err := os.WriteFile(path, b, 0644); err != nil {
		log.Fatal(err)
	}
}

func sortedKeys(m map[string]int) []string {
	k := make([]string, 0, len(m))
	for s := range m {
		k = append(k, s)
	}
	sort.Strings(k)
	return k
}

type cmdFn func(seed uint64, n int, out string, stats string, args []string)

var commands = map[string]cmdFn{}

func main() {
	log.SetFlags(0)
	if len(os.Args) < 2 {
		fmt.Println("usage: vharness <cmd> -seed S -n N -out cases.txt -stats stats.json")
		for k := range commands {
			fmt.Println(" ", k)
		}
		os.Exit(2)
	}
	cmd := os.Args[1]
	fs := flag.NewFlagSet(cmd, flag.ExitOnError)
	seed := fs.Uint64("seed", 1, "seed")
	n := fs.Int("n", 100, "number of cases")
	out := fs.String("out", "cases.txt", "cases file")
	stats := fs.String("stats", "stats.json", "stats file")
	fs.Parse(os.Args[2:])
	f, ok := commands[cmd]
	if !ok {
		log.Fatalf("unknown command %s", cmd)
	}
	f(*seed, *n, *out, *stats, fs.Args())
}
