package main

// c08.go — C08: execution is deterministic across node instances.
//
//   vharness c08 -seed S -n N        generates N histories (four scenario kinds, see c08Scenarios), saves each
//                                    to a file and re-executes it in SEPARATE PROCESSES of this binary
//                                    (`vharness c08-replay <file>`) under different runtime settings
//                                    (GOMAXPROCS, GOGC; every process start reseeds Go's map iteration), plus once
//                                    in-process; all executions are compared block by block.
//   vharness c08-replay <file>       executes a saved history and prints one JSON line per block.
//
// Compared per block: the app hash, a SHA-256 over the canonical rendering of every ResponseDeliverTx (code,
// codespace, data, gas wanted/used, every event with ALL attributes in order), a SHA-256 over
// ResponseBeginBlock.Events + ResponseEndBlock (ValidatorUpdates IN THE ORDER RETURNED, ConsensusParamUpdates,
// events), and the events stored for the height.  Logs/Info are hashed too but only counted, never a failure.
// On a divergence the first differing block / transaction is named, and the first differing state module from
// the per-module digests of the state export every replay computes after every block.

import (
	"bufio"
	"bytes"
	"crypto/sha256"
	"encoding/hex"
	"encoding/json"
	"fmt"
	"math/big"
	"os"
	"os/exec"
	"path/filepath"
	"sort"
	"strings"
	"time"

	"github.com/MinterTeam/minter-go-node/coreV2/state/candidates"
	"github.com/MinterTeam/minter-go-node/coreV2/transaction"
	"github.com/MinterTeam/minter-go-node/coreV2/types"
	"github.com/cosmos/cosmos-sdk/snapshots"
	abci "github.com/tendermint/tendermint/abci/types"
	tmjson "github.com/tendermint/tendermint/libs/json"
	tmproto "github.com/tendermint/tendermint/proto/tendermint/types"
)

func init() {
	commands["c08"] = runC08
	commands["c08-replay"] = runC08Replay
}

// ---- saved histories ---------------------------------------------------------------------------------

type c08Blk struct {
	Txs      []string `json:"txs"` // raw transactions, hex
	Absent   []int    `json:"absent,omitempty"`
	Evidence []int    `json:"evidence,omitempty"`
	DtNs     int64    `json:"dt_ns,omitempty"`
}

// the genesis is rebuilt from (scenario, seed) by c08Spec in every process
type c08Rec struct {
	Scenario string   `json:"scenario"`
	Seed     uint64   `json:"seed"`
	Blocks   []c08Blk `json:"blocks"`
}

func c08FromHistory(scenario string, seed uint64, h *History) *c08Rec {
	rec := &c08Rec{Scenario: scenario, Seed: seed}
	for _, b := range h.Blocks {
		cb := c08Blk{DtNs: int64(b.Opts.Dt), Evidence: b.Opts.Evidence}
		for _, t := range b.Txs {
			cb.Txs = append(cb.Txs, hex.EncodeToString(t))
		}
		for i := range b.Opts.Absent {
			cb.Absent = append(cb.Absent, i)
		}
		sort.Ints(cb.Absent)
		rec.Blocks = append(rec.Blocks, cb)
	}
	return rec
}

func (rec *c08Rec) history() *History {
	h := &History{Spec: c08Spec(rec.Scenario, rec.Seed)}
	for _, cb := range rec.Blocks {
		b := RecBlock{Opts: BlockOpts{Dt: time.Duration(cb.DtNs), Evidence: cb.Evidence}}
		for _, t := range cb.Txs {
			raw, _ := hex.DecodeString(t)
			b.Txs = append(b.Txs, raw)
		}
		if len(cb.Absent) > 0 {
			b.Opts.Absent = map[int]bool{}
			for _, i := range cb.Absent {
				b.Opts.Absent[i] = true
			}
		}
		h.Blocks = append(h.Blocks, b)
	}
	return h
}

// ---- scenarios ---------------------------------------------------------------------------------------

var c08Scenarios = []string{"std", "crowd", "ties", "expiry"}

const c08FullCand = 5 // index of the candidate whose 1000 delegation slots are full in scenario "ties"

// c08Spec: the genesis of a scenario, a function of (scenario, seed) only.
func c08Spec(scenario string, seed uint64) *GenesisSpec {
	r := NewRng(seed ^ 0xC08C08)
	switch scenario {
	case "crowd":
		// many accounts: many dirty accounts / coins / stakes per block
		return &GenesisSpec{NAccounts: 40, Balance: pip(100000000), NVals: 4, ExtraCands: 6}
	case "ties":
		// 104 candidates, ALL with the same stake (ranking ties everywhere, four of them beyond rank 100 are
		// deleted by the first recalculation - several candidates deleted in one update); candidate
		// c08FullCand has its 1000 slots full of equal stakes of 100 BIP (every later delegation of the same
		// value ties with all of them: kicks among equals).  Owners are accounts 30.. that never transact.
		spec := &GenesisSpec{NAccounts: 30 + 104, Balance: pip(100000000), NVals: 4, ExtraCands: 100, ValOwnersFrom: 30}
		spec.Mutate = func(st *types.AppState) {
			cd := &st.Candidates[c08FullCand]
			cd.Stakes = nil
			total := big.NewInt(0)
			for k := 0; k < candidates.MaxDelegatorsPerCandidate; k++ {
				v := pip(100)
				cd.Stakes = append(cd.Stakes, types.Stake{Owner: synthAddr(k + 1), Coin: 0, Value: v.String(), BipValue: v.String()})
				total.Add(total, v)
			}
			cd.TotalBipStake = total.String()
			// a second candidate with a handful of equal delegators (reward events with many receivers)
			c2 := &st.Candidates[1]
			t2 := bi(c2.TotalBipStake)
			for k := 0; k < 40; k++ {
				v := pip(250)
				c2.Stakes = append(c2.Stakes, types.Stake{Owner: synthAddr(3000 + k), Coin: 0, Value: v.String(), BipValue: v.String()})
				t2.Add(t2, v)
			}
			c2.TotalBipStake = t2.String()
			for vi := range st.Validators {
				for ci := range st.Candidates {
					if st.Candidates[ci].PubKey == st.Validators[vi].PubKey {
						st.Validators[vi].TotalBipStake = st.Candidates[ci].TotalBipStake
					}
				}
			}
		}
		return spec
	case "expiry":
		return &GenesisSpec{NAccounts: 24, Balance: pip(100000000), NVals: 4, ExtraCands: 2}
	}
	return stdSpec(r)
}

// scripted generation: transactions are built against a live node, nonces tracked per block
type c08Script struct {
	n     *Node
	h     *History
	nonce map[types.Address]uint64
	cur   [][]byte
	res   *HistResult
	kinds map[string]int
	codes map[string]int
	curK  []string
}

func newC08Script(spec *GenesisSpec) *c08Script {
	n := newNode(spec)
	return &c08Script{n: n, h: &History{Spec: spec}, nonce: map[types.Address]uint64{}, res: &HistResult{}, kinds: map[string]int{}, codes: map[string]int{}}
}

func (s *c08Script) tx(kind string, a Acct, typ transaction.TxType, data interface{}) {
	nn, ok := s.nonce[a.Addr]
	if !ok {
		nn = s.n.Nonce(a) + 1
	}
	s.nonce[a.Addr] = nn + 1
	s.cur = append(s.cur, s.n.MkTx(a, typ, data, 0, nn, 1, nil))
	s.curK = append(s.curK, kind)
	s.kinds[kind]++
}

func (s *c08Script) endBlock(opts BlockOpts) *BlockResult {
	s.h.Blocks = append(s.h.Blocks, RecBlock{Txs: s.cur, Opts: opts})
	o := opts
	br := s.n.Block(s.cur, &o)
	for i, t := range br.Txs {
		s.codes[fmt.Sprintf("%s:%d", s.curK[i], t.Code)]++
	}
	s.res.Hashes = append(s.res.Hashes, br.Hash)
	s.res.Results = append(s.res.Results, br.Txs)
	if br.Panic != "" {
		s.res.Panics = append(s.res.Panics, br.Panic)
	}
	s.cur, s.curK = nil, nil
	s.nonce = map[types.Address]uint64{}
	return br
}

// c08GenTies: equal values everywhere (scenario "ties").
func c08GenTies(seed uint64) (*History, *HistResult, map[string]int, map[string]int) {
	r := NewRng(seed)
	spec := c08Spec("ties", seed)
	s := newC08Script(spec)
	defer s.n.Cleanup()
	full := s.n.Vals[c08FullCand].Pub
	blocks := 26 + r.Intn(12)
	declared := 0
	for b := 0; b < blocks; b++ {
		// several accounts delegate THE SAME value to the full candidate (== its smallest stake, or 1 BIP
		// more): pending updates that tie with each other and with every slot
		k := 2 + r.Intn(6)
		for i := 0; i < k; i++ {
			a := s.n.Accts[r.Intn(30)]
			v := pip(100)
			if r.Intn(3) == 0 {
				v = pip(101)
			}
			s.tx("delegate-equal", a, transaction.TypeDelegate, transaction.DelegateDataV260{PubKey: full, Coin: 0, Value: v})
		}
		// equal delegations to several other candidates (ranking ties move together)
		for i := 0; i < r.Intn(4); i++ {
			a := s.n.Accts[r.Intn(30)]
			s.tx("delegate-equal", a, transaction.TypeDelegate, transaction.DelegateDataV260{PubKey: s.n.Vals[6+r.Intn(90)].Pub, Coin: 0, Value: pip(500)})
		}
		// new candidates with the same stake as everybody else: the count stays above 100, so every
		// recalculation deletes several candidates out of a group of equals
		if r.Intn(2) == 0 {
			for i := 0; i < 1+r.Intn(3); i++ {
				a := s.n.Accts[r.Intn(30)]
				v := mkVal(len(s.n.Vals) + declared)
				declared++
				s.tx("declare-equal", a, transaction.TypeDeclareCandidacy, transaction.DeclareCandidacyData{Address: a.Addr, PubKey: v.Pub, Commission: 10, Coin: 0, Stake: pip(10001)})
				s.tx("candon", a, transaction.TypeSetCandidateOnline, transaction.SetCandidateOnData{PubKey: v.Pub})
			}
		}
		// multisend to many recipients
		if r.Intn(3) == 0 {
			var l []transaction.MultisendDataItem
			for i := 0; i < 20+r.Intn(60); i++ {
				l = append(l, transaction.MultisendDataItem{Coin: 0, To: synthAddr(7000 + r.Intn(500)), Value: pip(1)})
			}
			s.tx("multisend-many", s.n.Accts[r.Intn(30)], transaction.TypeMultisend, transaction.MultisendData{List: l})
		}
		opts := BlockOpts{}
		if r.Intn(4) == 0 {
			opts.Absent = map[int]bool{r.Intn(4): true}
		}
		if br := s.endBlock(opts); br.Panic != "" {
			break
		}
	}
	return s.h, s.res, s.kinds, s.codes
}

// c08GenExpiry: pools, many limit orders of different owners placed within one expiry window, many locks of
// different owners due at the same height; then enough blocks for everything to expire / mature together.
func c08GenExpiry(seed uint64) (*History, *HistResult, map[string]int, map[string]int) {
	r := NewRng(seed)
	spec := c08Spec("expiry", seed)
	s := newC08Script(spec)
	defer s.n.Cleanup()
	acc := s.n.Accts
	creator := acc[0]
	var sym1, sym2 types.CoinSymbol
	copy(sym1[:], "EXPA")
	copy(sym2[:], "EXPB")
	s.tx("createtoken", creator, transaction.TypeCreateToken, transaction.CreateTokenData{Name: "a", Symbol: sym1, InitialAmount: pip(10000000), MaxSupply: pip(100000000), Mintable: true, Burnable: true})
	s.tx("createtoken", creator, transaction.TypeCreateToken, transaction.CreateTokenData{Name: "b", Symbol: sym2, InitialAmount: pip(10000000), MaxSupply: pip(100000000), Mintable: true, Burnable: true})
	br := s.endBlock(BlockOpts{})
	var ids []types.CoinID
	for _, t := range br.Txs {
		var id int
		fmt.Sscan(t.Tags["tx.coin_id"], &id)
		ids = append(ids, types.CoinID(id))
	}
	if len(ids) != 2 || ids[0] == 0 || ids[1] == 0 {
		return s.h, s.res, s.kinds, s.codes
	}
	// hand both tokens to everybody, create the pools
	var l []transaction.MultisendDataItem
	for _, a := range acc[1:] {
		l = append(l, transaction.MultisendDataItem{Coin: ids[0], To: a.Addr, Value: pip(100000)}, transaction.MultisendDataItem{Coin: ids[1], To: a.Addr, Value: pip(100000)})
	}
	s.tx("multisend-many", creator, transaction.TypeMultisend, transaction.MultisendData{List: l})
	s.tx("createpool", creator, transaction.TypeCreateSwapPool, transaction.CreateSwapPoolData{Coin0: ids[0], Coin1: ids[1], Volume0: pip(100000), Volume1: pip(200000)})
	s.tx("createpool", creator, transaction.TypeCreateSwapPool, transaction.CreateSwapPoolData{Coin0: 0, Coin1: ids[0], Volume0: pip(100000), Volume1: pip(100000)})
	s.endBlock(BlockOpts{})
	due := uint32(s.n.Height + 30 + int64(r.Intn(10)))
	total := 75 + r.Intn(8)
	for b := 0; b < total; b++ {
		if b < 10 {
			// orders of many owners on both sides of both pools, same prices (ties in the order book)
			for i := 0; i < 4+r.Intn(6); i++ {
				a := acc[1+r.Intn(len(acc)-1)]
				sell, buy := ids[0], ids[1]
				vs, vb := pip(int64(10+r.Intn(3))), pip(int64(30+r.Intn(3)))
				if r.Bool() {
					sell, buy = buy, sell
					vs, vb = pip(int64(30+r.Intn(3))), pip(int64(20+r.Intn(3)))
				}
				s.tx("addorder", a, transaction.TypeAddLimitOrder, transaction.AddLimitOrderData{CoinToSell: sell, ValueToSell: vs, CoinToBuy: buy, ValueToBuy: vb})
			}
			// locks of many owners, all due at the same height
			for i := 0; i < 3+r.Intn(5); i++ {
				a := acc[1+r.Intn(len(acc)-1)]
				s.tx("lock-same-due", a, transaction.TypeLock, transaction.LockData{DueBlock: due, Coin: []types.CoinID{0, ids[0], ids[1]}[r.Intn(3)], Value: pip(int64(1 + r.Intn(50)))})
			}
		} else if r.Intn(3) == 0 {
			// trades through the book while the orders live
			a := acc[1+r.Intn(len(acc)-1)]
			route := []types.CoinID{ids[0], ids[1]}
			if r.Bool() {
				route = []types.CoinID{ids[1], ids[0]}
			}
			s.tx("sellpool", a, transaction.TypeSellSwapPool, transaction.SellSwapPoolDataV260{Coins: route, ValueToSell: pip(int64(1 + r.Intn(40))), MinimumValueToBuy: Z(0)})
		}
		if br := s.endBlock(BlockOpts{}); br.Panic != "" {
			break
		}
	}
	return s.h, s.res, s.kinds, s.codes
}

var c08CrowdWeights = map[string]int{"send": 10, "multisend": 8, "createcoin": 3, "createtoken": 3, "sellcoin": 3, "buycoin": 3, "mint": 2, "burn": 2,
	"declare": 2, "delegate": 12, "unbond": 4, "move": 2, "lock": 6, "candon": 2, "candoff": 2, "createpool": 3, "addliq": 2, "remliq": 1,
	"sellpool": 4, "buypool": 3, "addorder": 8, "remorder": 2, "redeem": 2, "editcand": 1, "editcomm": 1, "voteupdate": 1, "sethalt": 1, "multisig": 1}

// c08Generate produces history number i of a run.
func c08Generate(i int, s uint64) (scenario string, h *History, res *HistResult, kinds, codes map[string]int) {
	scenario = c08Scenarios[i%len(c08Scenarios)]
	r := NewRng(s)
	switch scenario {
	case "ties":
		h, res, kinds, codes = c08GenTies(s)
	case "expiry":
		h, res, kinds, codes = c08GenExpiry(s)
	case "crowd":
		g := &genOpts{Blocks: 30 + r.Intn(20), TxPerBlock: 18, Weights: c08CrowdWeights, Absences: true, Evidence: r.Intn(3) == 0, Malformed: true, TimeWalk: r.Bool()}
		var w *World
		h, res, w = genHistory(s, c08Spec(scenario, s), g)
		kinds, codes = w.TypeDist, w.CodeDist
	default:
		g := &genOpts{Blocks: 30 + r.Intn(51), TxPerBlock: 8, Absences: true, Evidence: r.Intn(2) == 0, Malformed: true, TimeWalk: r.Bool()}
		var w *World
		h, res, w = genHistory(s, c08Spec(scenario, s), g)
		kinds, codes = w.TypeDist, w.CodeDist
	}
	return
}

// ---- execution with full responses -----------------------------------------------------------------

type c08Line struct {
	H       int64             `json:"h"`
	App     string            `json:"app"`
	Txs     []string          `json:"txs"` // digest of every ResponseDeliverTx
	End     string            `json:"end"` // BeginBlock events + EndBlock response
	Events  string            `json:"ev"`  // events stored for the height
	Logs    string            `json:"log"` // Log + Info of the responses (never a failure)
	Modules map[string]string `json:"mod,omitempty"`
	Panic   string            `json:"panic,omitempty"`
	NUpd    int               `json:"nupd"`
	NEv     int               `json:"nev"`
	EvTypes map[string]int    `json:"-"` // events of the height by type (in-process statistics only)
}

func c08Sha8(s string) string {
	h := sha256.Sum256([]byte(s))
	return hex.EncodeToString(h[:8])
}

func c08RenderEvents(sb *strings.Builder, evs []abci.Event) {
	for _, e := range evs {
		fmt.Fprintf(sb, "ev %q{", e.Type)
		for _, a := range e.Attributes {
			fmt.Fprintf(sb, "%q=%q,%v;", a.Key, a.Value, a.Index)
		}
		sb.WriteString("}")
	}
}

func c08RenderDeliver(r *abci.ResponseDeliverTx) string {
	var sb strings.Builder
	fmt.Fprintf(&sb, "code=%d space=%q data=%x gw=%d gu=%d|", r.Code, r.Codespace, r.Data, r.GasWanted, r.GasUsed)
	c08RenderEvents(&sb, r.Events)
	return sb.String()
}

func c08RenderEnd(bb *abci.ResponseBeginBlock, eb *abci.ResponseEndBlock) (string, int) {
	var sb strings.Builder
	c08RenderEvents(&sb, bb.Events)
	sb.WriteString("|updates:")
	for _, u := range eb.ValidatorUpdates { // in the order returned: the order matters to Tendermint
		b, _ := u.PubKey.Marshal()
		fmt.Fprintf(&sb, "%x:%d;", b, u.Power)
	}
	sb.WriteString("|params:")
	if eb.ConsensusParamUpdates != nil {
		b, _ := eb.ConsensusParamUpdates.Marshal()
		fmt.Fprintf(&sb, "%x", b)
	}
	sb.WriteString("|")
	c08RenderEvents(&sb, eb.Events)
	return sb.String(), len(eb.ValidatorUpdates)
}

// c08Modules: digest of every top-level field of the state export
func c08Modules(st types.AppState) map[string]string {
	b, err := tmjson.Marshal(st)
	if err != nil {
		return map[string]string{"export": "marshal error " + err.Error()}
	}
	var m map[string]json.RawMessage
	if err := json.Unmarshal(b, &m); err != nil {
		return map[string]string{"export": c08Sha8(string(b))}
	}
	out := map[string]string{}
	for k, v := range m {
		out[k] = c08Sha8(string(v))
	}
	return out
}

type c08ExecOpts struct {
	Modules  bool
	Snapshot int // > 0: take a state-sync snapshot (background goroutine) every Snapshot blocks
}

// c08Exec executes a history and returns one line per block.
func c08Exec(h *History, o c08ExecOpts, emit func(*c08Line)) {
	n := newNode(h.Spec)
	defer n.Cleanup()
	if o.Snapshot > 0 {
		store, err := snapshots.NewStore(n.Store.SnapshotDB(), n.Home+"/data/snapshots")
		if err != nil {
			panic(err)
		}
		n.App.SetSnapshotStore(store, o.Snapshot, 2)
		// before the stores are closed: Commit did appDB.WG.Add(1) synchronously, the snapshot goroutine calls
		// WG.Done() only after it has registered itself in wgSnapshot
		defer func() {
			n.App.VerifAppDB().WG.Wait()
			n.App.VerifWaitSnapshot()
		}()
	}
	for _, b := range h.Blocks {
		ln := c08Block(n, b.Txs, &b.Opts, o)
		emit(ln)
		if ln.Panic != "" {
			break
		}
	}
}

// c08Block: Node.Block, keeping the complete ABCI responses.
func c08Block(n *Node, txs [][]byte, o *BlockOpts, eo c08ExecOpts) *c08Line {
	h := n.Height + 1
	dt := o.Dt
	if dt == 0 {
		dt = 5 * time.Second
	}
	n.Time = n.Time.Add(dt)
	ln := &c08Line{H: h}
	var votes []abci.VoteInfo
	for _, v := range n.curValidators() {
		addr := make([]byte, len(v.tm))
		copy(addr, v.tm[:])
		votes = append(votes, abci.VoteInfo{Validator: abci.Validator{Address: addr, Power: 1}, SignedLastBlock: !o.Absent[v.idx]})
	}
	var ev []abci.Evidence
	for _, i := range o.Evidence {
		addr := make([]byte, 20)
		copy(addr, n.Vals[i].TmAdr[:])
		ev = append(ev, abci.Evidence{Type: abci.EvidenceType_DUPLICATE_VOTE, Validator: abci.Validator{Address: addr, Power: 1}, Height: h - 1, Time: n.Time})
	}
	fail := func() *c08Line {
		// only the fact and the phase of a panic are compared, never its message
		p := n.Panics[len(n.Panics)-1]
		if i := strings.Index(p, ":"); i > 0 {
			p = p[:i]
		}
		ln.Panic = p
		return ln
	}
	var bb abci.ResponseBeginBlock
	if !n.guard("BeginBlock", func() {
		bb = n.App.BeginBlock(abci.RequestBeginBlock{Header: tmproto.Header{Height: h, Time: n.Time, ChainID: "verif"},
			LastCommitInfo: abci.LastCommitInfo{Votes: votes}, ByzantineValidators: ev})
	}) {
		return fail()
	}
	var logs strings.Builder
	for _, tx := range txs {
		var r abci.ResponseDeliverTx
		if !n.guard("DeliverTx", func() { r = n.App.DeliverTx(abci.RequestDeliverTx{Tx: tx}) }) {
			return fail()
		}
		ln.Txs = append(ln.Txs, c08Sha8(c08RenderDeliver(&r)))
		fmt.Fprintf(&logs, "%q %q;", r.Log, r.Info)
	}
	ln.Logs = c08Sha8(logs.String())
	var eb abci.ResponseEndBlock
	if !n.guard("EndBlock", func() { eb = n.App.EndBlock(abci.RequestEndBlock{Height: h}) }) {
		return fail()
	}
	end, nupd := c08RenderEnd(&bb, &eb)
	ln.End, ln.NUpd = c08Sha8(end), nupd
	if !n.guard("Commit", func() { ln.App = fmt.Sprintf("%x", n.App.Commit().Data) }) {
		return fail()
	}
	n.Height = h
	n.Hashes[h] = ln.App
	n.curValidators()
	// events stored for the height, in stored order
	n.guard("LoadEvents", func() {
		evs := n.App.VerifEventsDB().LoadEvents(uint32(h))
		ln.NEv = len(evs)
		ln.EvTypes = map[string]int{}
		for _, e := range evs {
			ln.EvTypes[strings.TrimPrefix(e.Type(), "minter/")]++
		}
		b, err := tmjson.Marshal(evs)
		if err != nil {
			b = []byte(fmt.Sprintf("%+v", evs))
		}
		ln.Events = c08Sha8(string(b))
	})
	if eo.Modules {
		n.guard("Export", func() { ln.Modules = c08Modules(n.Export()) })
	}
	return ln
}

// ---- replay process ----------------------------------------------------------------------------------

func runC08Replay(_ uint64, _ int, _, _ string, args []string) {
	if len(args) < 1 {
		fmt.Println("usage: vharness c08-replay <history.json>   (env C08_NOEXPORT=1: no per-module digests; C08_SNAPSHOT=k: snapshot every k blocks)")
		os.Exit(2)
	}
	b, err := os.ReadFile(args[0])
	if err != nil {
		fmt.Println(err)
		os.Exit(2)
	}
	var rec c08Rec
	if err := json.Unmarshal(b, &rec); err != nil {
		fmt.Println(err)
		os.Exit(2)
	}
	o := c08ExecOpts{Modules: os.Getenv("C08_NOEXPORT") == ""}
	fmt.Sscan(os.Getenv("C08_SNAPSHOT"), &o.Snapshot)
	w := bufio.NewWriter(os.Stdout)
	defer w.Flush()
	c08Exec(rec.history(), o, func(ln *c08Line) {
		j, _ := json.Marshal(ln)
		w.Write(j)
		w.WriteByte('\n')
	})
}

// ---- the differential ----------------------------------------------------------------------------------

type c08Variant struct {
	Name string
	Env  []string
}

// runtime settings of the replay processes; every process start also reseeds the map iteration order
var c08Variants = []c08Variant{
	{"GOMAXPROCS=1,GOGC=off", []string{"GOMAXPROCS=1", "GOGC=off"}},
	{"GOMAXPROCS=4,GOGC=10,snapshot/3", []string{"GOMAXPROCS=4", "GOGC=10", "C08_SNAPSHOT=3"}},
	{"GOMAXPROCS=16,GOGC=100,noexport", []string{"GOMAXPROCS=16", "GOGC=100", "C08_NOEXPORT=1"}},
	{"GOMAXPROCS=4,GOGC=100", []string{"GOMAXPROCS=4", "GOGC=100"}},
	{"GOMAXPROCS=16,GOGC=10", []string{"GOMAXPROCS=16", "GOGC=10"}},
	{"GOMAXPROCS=1,GOGC=100,snapshot/2", []string{"GOMAXPROCS=1", "GOGC=100", "C08_SNAPSHOT=2"}},
	{"GOMAXPROCS=16,GOGC=off,noexport", []string{"GOMAXPROCS=16", "GOGC=off", "C08_NOEXPORT=1"}},
	{"GOMAXPROCS=4,GOGC=off", []string{"GOMAXPROCS=4", "GOGC=off"}},
	{"GOMAXPROCS=1,GOGC=10", []string{"GOMAXPROCS=1", "GOGC=10"}},
}

func c08RunProcess(file string, v c08Variant) ([]*c08Line, error) {
	cmd := exec.Command(os.Args[0], "c08-replay", file)
	env := []string{}
	for _, e := range os.Environ() {
		if strings.HasPrefix(e, "GOMAXPROCS=") || strings.HasPrefix(e, "GOGC=") || strings.HasPrefix(e, "C08_") {
			continue
		}
		env = append(env, e)
	}
	cmd.Env = append(env, v.Env...)
	var stderr bytes.Buffer
	cmd.Stderr = &stderr
	out, err := cmd.Output()
	if err != nil {
		return nil, fmt.Errorf("%v: %s", err, c08Tail(stderr.String(), 600))
	}
	var lines []*c08Line
	sc := bufio.NewScanner(bytes.NewReader(out))
	sc.Buffer(make([]byte, 1<<20), 1<<26)
	for sc.Scan() {
		if len(sc.Bytes()) == 0 || sc.Bytes()[0] != '{' {
			continue
		}
		var ln c08Line
		if err := json.Unmarshal(sc.Bytes(), &ln); err != nil {
			return nil, fmt.Errorf("bad replay output: %v", err)
		}
		lines = append(lines, &ln)
	}
	return lines, nil
}

func c08Tail(s string, n int) string {
	if len(s) > n {
		return s[len(s)-n:]
	}
	return s
}

// c08Compare compares execution b with the reference a; returns the monitor failures (at most one per key)
// and the number of log-only differences.
func c08Compare(nameA, nameB string, a, b []*c08Line, replay string) (fails []MonitorFailure, logDiffs int) {
	seen := map[string]bool{}
	add := func(key, what string) {
		if !seen[key] {
			seen[key] = true
			fails = append(fails, MonitorFailure{Key: key, What: what, Replay: replay})
		}
	}
	if len(a) != len(b) {
		add("c08-apphash", fmt.Sprintf("C08: %s executed %d blocks, %s executed %d blocks of the same history", nameA, len(a), nameB, len(b)))
	}
	for i := 0; i < len(a) && i < len(b); i++ {
		x, y := a[i], b[i]
		where := fmt.Sprintf("block %d (height %d)", i, x.H)
		mods := func() string {
			if x.Modules == nil || y.Modules == nil {
				return "state modules: (one side ran without export digests)"
			}
			var d []string
			for k, v := range x.Modules {
				if y.Modules[k] != v {
					d = append(d, k)
				}
			}
			sort.Strings(d)
			if len(d) == 0 {
				return "state modules: exports identical"
			}
			return "first differing state modules (export): " + strings.Join(d, ",")
		}
		if x.Panic != y.Panic {
			add("c08-deliver-response", fmt.Sprintf("C08: %s: %s panicked in %q, %s in %q", where, nameA, x.Panic, nameB, y.Panic))
			return
		}
		for t := 0; t < len(x.Txs) || t < len(y.Txs); t++ {
			if t >= len(x.Txs) || t >= len(y.Txs) || x.Txs[t] != y.Txs[t] {
				add("c08-deliver-response", fmt.Sprintf("C08: ResponseDeliverTx differs between %s and %s first at %s, transaction %d; %s", nameA, nameB, where, t, mods()))
				break
			}
		}
		if x.End != y.End {
			add("c08-endblock", fmt.Sprintf("C08: BeginBlock events / ResponseEndBlock (validator updates in order, %d vs %d updates) differ between %s and %s first at %s; %s", x.NUpd, y.NUpd, nameA, nameB, where, mods()))
		}
		if x.App != y.App {
			add("c08-apphash", fmt.Sprintf("C08: app hash differs between %s (%s) and %s (%s) first at %s; %s", nameA, x.App, nameB, y.App, where, mods()))
		}
		if x.Events != y.Events {
			add("c08-events", fmt.Sprintf("C08: events stored for the height (%d vs %d events, order included) differ between %s and %s first at %s", x.NEv, y.NEv, nameA, nameB, where))
		}
		if x.Logs != y.Logs {
			logDiffs++
		}
		if len(fails) > 0 {
			return // everything after the first divergence is a consequence
		}
	}
	return
}

func runC08(seed uint64, n int, out, stats string, args []string) {
	c := NewCases(out)
	c.Close()
	procs := 4
	keep := false
	for _, a := range args {
		fmt.Sscanf(a, "procs=%d", &procs)
		if a == "keep" {
			keep = true
		}
	}
	dir, err := os.MkdirTemp(os.Getenv("VERIF_TMP"), "c08hist")
	if err != nil {
		panic(err)
	}
	if !keep {
		defer os.RemoveAll(dir)
	}
	var mon []MonitorFailure
	dist, codes, scen := map[string]int{}, map[string]int{}, map[string]int{}
	var samples []string
	blocks, txs, okTxs, nontriv, replays, logDiffs, updBlocks, evCount := 0, 0, 0, 0, 0, 0, 0, 0
	evTypes, evMaxPerBlock := map[string]int{}, map[string]int{} // how hard the order-sensitive spots were hit
	var tGen, tRep time.Duration
	for i := 0; i < n; i++ {
		s := seed*1000003 + uint64(i)
		t0 := time.Now()
		scenario, h, res, kinds, cds := c08Generate(i, s)
		tGen += time.Since(t0)
		scen[scenario]++
		for k, v := range kinds {
			dist[k] += v
		}
		for k, v := range cds {
			codes[k] += v
		}
		ok := 0
		for _, b := range res.Results {
			for _, t := range b {
				txs++
				if t.Code == 0 {
					ok++
				}
			}
		}
		okTxs += ok
		blocks += len(h.Blocks)
		if ok > 0 {
			nontriv++
		}
		for _, p := range res.Panics {
			mon = append(mon, MonitorFailure{What: "panic during history: " + p, Key: "c07-panic", Replay: fmt.Sprintf("vharness c08 -seed %d -n %d (history %d)", seed, n, i)})
		}
		rec := c08FromHistory(scenario, s, h)
		file := filepath.Join(dir, fmt.Sprintf("c08-%d-%d.json", seed, i))
		j, _ := json.Marshal(rec)
		if err := os.WriteFile(file, j, 0644); err != nil {
			panic(err)
		}
		replay := fmt.Sprintf("vharness c08 -seed %d -n %d keep   (history %d: scenario %s, seed %d, file %s; re-run: vharness c08-replay <file> under different GOMAXPROCS/GOGC)", seed, n, i, scenario, s, filepath.Base(file))
		// reference: the same history executed in this process from the saved file
		t1 := time.Now()
		var ref []*c08Line
		{
			var rec2 c08Rec
			json.Unmarshal(j, &rec2)
			c08Exec(rec2.history(), c08ExecOpts{Modules: true}, func(ln *c08Line) { ref = append(ref, ln) })
		}
		// the generator's own execution must agree with the reference on the app hashes
		for b := 0; b < len(ref) && b < len(res.Hashes); b++ {
			if ref[b].App != res.Hashes[b] && ref[b].Panic == "" {
				mon = append(mon, MonitorFailure{Key: "c08-apphash", Replay: replay,
					What: fmt.Sprintf("C08: app hash of the generating execution (%s) and of the in-process re-execution (%s) differ at block %d", res.Hashes[b], ref[b].App, b)})
				break
			}
		}
		for _, ln := range ref {
			if ln.NUpd > 0 {
				updBlocks++
			}
			evCount += ln.NEv
			for k, v := range ln.EvTypes {
				evTypes[k] += v
				if v > evMaxPerBlock[k] {
					evMaxPerBlock[k] = v
				}
			}
			if len(ln.Txs) > evMaxPerBlock["(transactions)"] {
				evMaxPerBlock["(transactions)"] = len(ln.Txs)
			}
			if ln.NUpd > evMaxPerBlock["(validator updates)"] {
				evMaxPerBlock["(validator updates)"] = ln.NUpd
			}
		}
		type result struct {
			v     c08Variant
			lines []*c08Line
			err   error
		}
		ch := make(chan result, procs)
		for p := 0; p < procs; p++ {
			v := c08Variants[(i*procs+p)%len(c08Variants)]
			go func() {
				lines, err := c08RunProcess(file, v)
				ch <- result{v, lines, err}
			}()
		}
		for p := 0; p < procs; p++ {
			rr := <-ch
			replays++
			if rr.err != nil {
				mon = append(mon, MonitorFailure{Key: "c08-apphash", What: "C08: replay process [" + rr.v.Name + "] failed: " + rr.err.Error(), Replay: replay})
				continue
			}
			f, ld := c08Compare("in-process", "process["+rr.v.Name+"]", ref, rr.lines, replay)
			mon = append(mon, f...)
			logDiffs += ld
		}
		tRep += time.Since(t1)
		if len(samples) < 4 {
			last := ""
			if len(ref) > 0 {
				last = ref[len(ref)-1].App
			}
			samples = append(samples, fmt.Sprintf("history %d scenario=%s seed=%d blocks=%d accepted_txs=%d final_app_hash=%s", i, scenario, s, len(h.Blocks), ok, last))
		}
		if keep && len(mon) > 0 {
			fmt.Println("kept", file)
		}
	}
	extra := map[string]interface{}{"blocks": blocks, "txs": txs, "accepted_txs": okTxs, "codes": codes, "scenarios": scen, "replay_processes": replays,
		"processes_per_history": procs, "log_only_differences": logDiffs, "blocks_with_validator_updates": updBlocks, "stored_events": evCount, "stored_events_by_type": evTypes, "max_in_one_block": evMaxPerBlock,
		"gen_s": tGen.Seconds(), "replay_s": tRep.Seconds(), "variants": func() []string {
			var v []string
			for _, x := range c08Variants {
				v = append(v, x.Name)
			}
			return v
		}()}
	// the translator's golden self-test on the tree the harness was built against
	xl := filepath.Join(filepath.Dir(os.Args[0]), "xlate")
	repoDir := os.Getenv("VERIF_REPO")
	if repoDir == "" {
		repoDir = "/repo"
	}
	if _, err := os.Stat(xl); err == nil {
		cmd := exec.Command(xl, "-selftest", repoDir)
		cmd.Env = append(os.Environ(), "GOFLAGS=-mod=mod", "GOPROXY=off", "GOSUMDB=off", "GOTOOLCHAIN=local")
		o, err := cmd.CombinedOutput()
		extra["translator_selftest"] = strings.Split(strings.TrimSpace(string(o)), "\n")
		if err != nil {
			mon = append(mon, MonitorFailure{Key: "c08-translator-selftest", What: "C08: map-range translator self-test failed on " + repoDir + ": " + c08Tail(string(o), 1500), Replay: "harness/bin/xlate -selftest " + repoDir})
		}
	} else {
		extra["translator_selftest"] = "xlate binary not found next to vharness"
	}
	writeStats(stats, &Stats{Property: "C08", Seed: seed, Cases: n, Ops: txs, NonTrivial: nontriv,
		Rule: "seeded histories of four kinds - std (30-80 blocks, 0-8 txs of 33 kinds, malformed stream, absences, evidence, time walk), crowd (40 accounts, up to 18 txs per block), ties (104 equal-stake candidates, a candidate with 1000 equal delegation slots, equal delegations/declarations, multisend to 20-80 recipients), expiry (two pools, tens of limit orders and locks of different owners expiring/maturing in the same block) - are saved to a file and re-executed once in-process and in separate OS processes of the same binary with GOMAXPROCS in {1,4,16}, GOGC in {off,10,100}, with/without background snapshots and state exports (every process start reseeds map iteration); compared block by block: app hash, SHA-256 of every ResponseDeliverTx (code, data, gas, all event attributes in order), of BeginBlock events + ResponseEndBlock (validator updates in returned order, consensus params, events), of the events stored for the height; non-trivial = at least one accepted transaction; histories are distinct by seed",
		Dist: dist, Samples: samples, Monitor: mon, Extra: extra})
}
