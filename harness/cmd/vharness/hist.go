package main

// hist.go — executing generated histories on the real node; the conservation /
// non-negativity monitors (C01, C02) computed from the node's own exports.

import (
	"unsafe"
	"reflect"
	"sync"
	"strconv"
	"regexp"
	"path/filepath"
	"os"
	"fmt"

	"github.com/MinterTeam/minter-go-node/coreV2/state"
	"github.com/MinterTeam/minter-go-node/coreV2/state/swap"
	"github.com/MinterTeam/minter-go-node/coreV2/transaction"
	"math/big"
	"sort"
	"strings"
	"time"

	"github.com/MinterTeam/minter-go-node/coreV2/types"
	"github.com/MinterTeam/minter-go-node/formula"
)

type RecBlock struct {
	Txs  [][]byte
	Opts BlockOpts
}

type History struct {
	Spec   *GenesisSpec
	Blocks []RecBlock
}

type Holdings struct {
	Held     map[uint64]*big.Int // per coin: balances+stakes+updates+waitlist+frozen+pool reserves+order escrow
	Volume   map[uint64]*big.Int
	Reserve  map[uint64]*big.Int
	MaxSup   map[uint64]*big.Int
	BaseSide *big.Int // bancor reserves + accumulated rewards + total slashed
	Negative []string
	ValAccum map[types.Pubkey]*big.Int // accumulated reward per validator
	ValStake map[types.Pubkey]*big.Int // total bip stake per validator
	CandOn   map[types.Pubkey]bool     // candidates that are online
}

func bi(s string) *big.Int {
	b, ok := new(big.Int).SetString(s, 10)
	if !ok {
		return big.NewInt(0)
	}
	return b
}

// holdings recomputes every sum of C01/C02 directly from an export.
func holdings(st *types.AppState) *Holdings {
	h := &Holdings{Held: map[uint64]*big.Int{}, Volume: map[uint64]*big.Int{}, Reserve: map[uint64]*big.Int{}, MaxSup: map[uint64]*big.Int{}, BaseSide: big.NewInt(0)}
	add := func(what string, coin uint64, v *big.Int) {
		if v.Sign() < 0 {
			h.Negative = append(h.Negative, fmt.Sprintf("%s coin %d = %s", what, coin, v))
		}
		if h.Held[coin] == nil {
			h.Held[coin] = big.NewInt(0)
		}
		h.Held[coin].Add(h.Held[coin], v)
	}
	for _, a := range st.Accounts {
		for _, b := range a.Balance {
			add("balance "+a.Address.String(), b.Coin, bi(b.Value))
		}
	}
	for _, c := range st.Candidates {
		for _, s := range c.Stakes {
			add("stake", s.Coin, bi(s.Value))
		}
		for _, s := range c.Updates {
			add("update", s.Coin, bi(s.Value))
		}
	}
	for _, w := range st.Waitlist {
		add("waitlist", w.Coin, bi(w.Value))
	}
	for _, f := range st.FrozenFunds {
		add("frozen", f.Coin, bi(f.Value))
	}
	for _, p := range st.Pools {
		r0, r1 := bi(p.Reserve0), bi(p.Reserve1)
		if r0.Sign() <= 0 || r1.Sign() <= 0 {
			h.Negative = append(h.Negative, fmt.Sprintf("pool %d reserves %s %s not strictly positive", p.ID, r0, r1))
		}
		add("pool", p.Coin0, r0)
		add("pool", p.Coin1, r1)
		for _, o := range p.Orders {
			v0, v1 := bi(o.Volume0), bi(o.Volume1)
			if v0.Sign() < 0 || v1.Sign() < 0 {
				h.Negative = append(h.Negative, fmt.Sprintf("order %d volumes %s %s", o.ID, v0, v1))
			}
			if o.IsSale {
				add("order", p.Coin1, v1)
			} else {
				add("order", p.Coin0, v0)
			}
		}
	}
	for _, c := range st.Coins {
		h.Volume[c.ID] = bi(c.Volume)
		h.MaxSup[c.ID] = bi(c.MaxSupply)
		if c.Reserve != "" {
			r := bi(c.Reserve)
			h.Reserve[c.ID] = r
			if r.Sign() < 0 {
				h.Negative = append(h.Negative, fmt.Sprintf("reserve coin %d = %s", c.ID, r))
			}
			h.BaseSide.Add(h.BaseSide, r)
		}
		if h.Volume[c.ID].Sign() < 0 {
			h.Negative = append(h.Negative, fmt.Sprintf("volume coin %d = %s", c.ID, c.Volume))
		}
		if h.Volume[c.ID].Cmp(h.MaxSup[c.ID]) > 0 {
			h.Negative = append(h.Negative, fmt.Sprintf("volume coin %d = %s exceeds max supply %s", c.ID, c.Volume, c.MaxSupply))
		}
	}
	h.ValAccum, h.CandOn, h.ValStake = map[types.Pubkey]*big.Int{}, map[types.Pubkey]bool{}, map[types.Pubkey]*big.Int{}
	for _, v := range st.Validators {
		h.BaseSide.Add(h.BaseSide, bi(v.AccumReward))
		h.ValAccum[v.PubKey] = bi(v.AccumReward)
		h.ValStake[v.PubKey] = bi(v.TotalBipStake)
	}
	for _, c := range st.Candidates {
		h.CandOn[c.PubKey] = c.Status == 2
	}
	h.BaseSide.Add(h.BaseSide, bi(st.TotalSlashed))
	return h
}

// baseTotal = everything the property counts for the base coin.
func (h *Holdings) baseTotal() *big.Int {
	t := new(big.Int).Set(h.BaseSide)
	if h.Held[0] != nil {
		t.Add(t, h.Held[0])
	}
	return t
}

type HistResult struct {
	Hashes    []string
	Results   [][]TxResult
	Updates   []string
	Panics    []string
	Emissions []string
	C01       []MonitorFailure
	C02       []MonitorFailure
	C06       []MonitorFailure
	C06Agree  int
	Derived   []string // per block: state the node derives in memory from what it persisted (grace periods, executor)
	C05       []MonitorFailure
	C03       []MonitorFailure
	C27       []MonitorFailure
	C26       []MonitorFailure
	C26Replays int
	C27Checked int
	C27Both   int
	C27Cases  [][2][]*big.Int // model 22 cases
	C03Checked int
	C05Checked int
	C05Cases   [][2][]*big.Int // model 21 cases: (input, observed)
	Exports   []*types.AppState // only when keepExports
}

func fmtUpdates(r *BlockResult) string {
	var s []string
	for _, u := range r.Updates {
		s = append(s, fmt.Sprintf("%x:%d", u.PubKey.GetEd25519(), u.Power))
	}
	sort.Strings(s)
	return strings.Join(s, ",")
}

// execOpts controls how a recorded history is (re-)executed.
type execOpts struct {
	RestartAfter map[int64]int // height -> number of consecutive restarts after that block
	Monitors     bool
	KeepExports  bool
}

func runRecorded(h *History, o *execOpts) (*HistResult, *Node) {
	n := newNode(h.Spec)
	res := &HistResult{}
	var prev *Holdings
	var prevEm *big.Int
	if o.Monitors {
		e := n.Export()
		prev = holdings(&e)
		prevEm = new(big.Int).Set(n.App.VerifAppDB().Emission())
	}
	for _, b := range h.Blocks {
		opts := b.Opts
		r := n.Block(b.Txs, &opts)
		res.Hashes = append(res.Hashes, r.Hash)
		res.Results = append(res.Results, r.Txs)
		res.Updates = append(res.Updates, fmtUpdates(r))
		if r.Panic != "" {
			res.Panics = append(res.Panics, r.Panic)
			break
		}
		em := n.App.VerifAppDB().Emission()
		res.Emissions = append(res.Emissions, em.String())
		res.Derived = append(res.Derived, derivedState(n))
		if o.Monitors || o.KeepExports {
			e := n.Export()
			if o.KeepExports {
				ec := e
				res.Exports = append(res.Exports, &ec)
			}
			if o.Monitors {
				cur := holdings(&e)
				where := fmt.Sprintf("height %d", n.Height)
				for _, neg := range cur.Negative {
					res.C02 = append(res.C02, MonitorFailure{What: "C02: " + neg + " at " + where, Key: "c02-negative"})
				}
				for id, vol := range cur.Volume {
					held := cur.Held[id]
					if held == nil {
						held = big.NewInt(0)
					}
					if id != 0 && held.Cmp(vol) != 0 {
						res.C01 = append(res.C01, MonitorFailure{What: fmt.Sprintf("C01: coin %d volume %s != sum of holdings %s at %s", id, vol, held, where), Key: "c01-custom"})
					}
				}
				dBase := new(big.Int).Sub(cur.baseTotal(), prev.baseTotal())
				dEm := new(big.Int).Sub(em, prevEm)
				if dBase.Cmp(dEm) != 0 {
					res.C01 = append(res.C01, MonitorFailure{What: fmt.Sprintf("C01: base coin total changed by %s but emission by %s at %s", dBase, dEm, where), Key: baseDiffKey(prev, cur, dBase, dEm)})
				}
				prev, prevEm = cur, new(big.Int).Set(em)
			}
		}
		if k := o.RestartAfter[n.Height]; k > 0 {
			for i := 0; i < k; i++ {
				n.Restart()
			}
		}
	}
	return res, n
}

// genHistory generates a history by executing it on a node (the generator reads nonces
// and known objects from the node); returns the recorded history and the result of that
// first execution.
type genOpts struct {
	Blocks      int
	TxPerBlock  int
	Weights     map[string]int
	Absences    bool
	Evidence    bool
	Malformed   bool
	OddChecks   bool
	Monitors    bool
	KeepExports bool
	TimeWalk    bool
	CheckDeliver bool // run every transaction in check mode on the in-flight state right before delivering it (C06)
	NetworkUpdate bool // all validators vote a network version that is adopted a few blocks into the history (needs spec.Versions without it)
	FailFrame    bool // C03: a rejected transaction changes nothing but one account's balance (the fee payer's)
	ReplayKey    string // key prefix of the replay monitors (c26 / c04)
	Replay       bool // C26: accepted transactions are delivered again (same block and later blocks): never accepted twice
	FeeRoute     bool // C27: a commission paid in a coin with a reserve AND a pool takes the cheaper route
	CandAuth     bool // C05: candidate settings change only by the owner (on/off also by the control address)
}

func genHistory(seed uint64, spec *GenesisSpec, g *genOpts) (*History, *HistResult, *World) {
	r := NewRng(seed)
	n := newNode(spec)
	defer n.Cleanup()
	w := newWorld(n, r)
	w.Weights = g.Weights
	w.GasFromHeld = g.FeeRoute
	w.OddChecks = g.OddChecks
	h := &History{Spec: spec}
	res := &HistResult{}
	var prev *Holdings
	var prevEm *big.Int
	if g.Monitors {
		e := n.Export()
		prev = holdings(&e)
		prevEm = new(big.Int).Set(n.App.VerifAppDB().Emission())
	}
	var replayPool []*GenTx // accepted transactions of earlier blocks
	var frameSections []c11Section
	frameFrozen := map[uint64]bool{}
	for b := 0; b < g.Blocks; b++ {
		w.beginBlock()
		var txs [][]byte
		var gens []*GenTx
		nt := 0
		if g.TxPerBlock > 0 {
			nt = r.Intn(g.TxPerBlock + 1)
		}
		// transactions are generated one by one against the committed state; the world's
		// nonce map keeps several transactions of one sender in a block consistent only
		// when they succeed, so failures after the first are part of the malformed stream
		for i := 0; i < nt; i++ {
			gt := w.Gen()
			if gt == nil {
				continue
			}
			raw := gt.Raw
			if g.Malformed && r.Intn(12) == 0 {
				raw = w.Malformed(raw)
				gt = &GenTx{Kind: "malformed", Raw: raw, Sender: gt.Sender, Nonce: gt.Nonce}
			}
			txs = append(txs, raw)
			gens = append(gens, gt)
		}
		if g.Replay {
			// the same signed bytes again: right after their first delivery in this block, and from earlier blocks
			var extra [][]byte
			var extraG []*GenTx
			for i, gt := range gens {
				if gt != nil && r.Intn(5) == 0 {
					extra = append(extra, txs[i])
					extraG = append(extraG, &GenTx{Kind: "replay-same-block:" + gt.Kind, Raw: txs[i], Sender: gt.Sender, Gas: gt.Gas})
				}
			}
			if len(replayPool) > 0 && r.Intn(2) == 0 {
				k := r.Intn(len(replayPool))
				extra = append(extra, replayPool[k].Raw)
				extraG = append(extraG, &GenTx{Kind: "replay-later:" + replayPool[k].Kind, Raw: replayPool[k].Raw, Sender: replayPool[k].Sender, Gas: replayPool[k].Gas})
			}
			txs = append(txs, extra...)
			gens = append(gens, extraG...)
		}
		if g.NetworkUpdate && b == 1 {
			for vi := 0; vi < spec.NVals; vi++ {
				owner := n.Accts[vi%len(n.Accts)]
				raw := n.MkTx(owner, transaction.TypeVoteUpdate, transaction.VoteUpdateDataV230{Version: "v330", PubKey: n.Vals[vi].Pub,
					Height: uint64(InitialHeight + 3 + int(seed%3))}, 0, w.nextNonce(owner), 1, nil)
				w.nonce[owner.Addr]++
				txs = append(txs, raw)
				gens = append(gens, &GenTx{Kind: "voteupdate-all", Raw: raw, Sender: owner})
			}
		}
		opts := BlockOpts{}
		if g.Absences && r.Intn(3) == 0 {
			opts.Absent = map[int]bool{r.Intn(len(n.Vals)): true}
		}
		if g.Evidence && r.Intn(40) == 0 {
			opts.Evidence = []int{r.Intn(len(n.Vals))}
		}
		if g.TimeWalk {
			opts.Dt = time.Duration(1+r.Intn(7200)) * time.Second
		}
		h.Blocks = append(h.Blocks, RecBlock{Txs: txs, Opts: opts})
		if g.CheckDeliver {
			var chkCode uint32
			var chkOK bool
			hh := uint64(n.Height + 1)
			opts.PreTx = func(i int, raw []byte) {
				chkOK = n.guard("CheckTx", func() {
					cs := state.NewCheckState(n.App.VerifStateDeliver())
					chkCode = transaction.NewExecutorV3(transaction.GetDataV3).RunTx(cs, raw, nil, checkTxHeight(n), newSyncMap(), 0, false).Code
				})
			}
			opts.PostTx = func(i int, raw []byte, tr TxResult) {
				kind := "?"
				if i < len(gens) {
					kind = gens[i].Kind
				}
				if !chkOK {
					res.Panics = append(res.Panics, "check-mode RunTx panicked: "+n.Panics[len(n.Panics)-1])
					return
				}
				if (chkCode == 0) != (tr.Code == 0) {
					res.C06 = append(res.C06, MonitorFailure{What: fmt.Sprintf("C06: %s transaction at height %d: check mode on the same state returned code %d, DeliverTx %d (%s) raw=%x", kind, hh, chkCode, tr.Code, tr.Log, raw), Key: "c06-check-deliver"})
				} else {
					res.C06Agree++
				}
			}
		}
		if g.FeeRoute {
			var vol, rsv *big.Int
			var crr uint32
			var hasRes bool
			var poolSnap swap.EditableChecker
			var ready bool
			opts.PreTx = func(i int, raw []byte) {
				ready, poolSnap = false, nil
				if i >= len(gens) || gens[i].Gas == 0 {
					return
				}
				gas := gens[i].Gas
				n.guard("snapshot", func() {
					cs := state.NewCheckState(n.App.VerifStateDeliver())
					cn := cs.Coins().GetCoin(gas)
					if cn == nil {
						return
					}
					vol, rsv, crr, hasRes = cn.Volume(), cn.Reserve(), cn.Crr(), cn.BaseOrHasReserve()
					if sw := cs.Swap().GetSwapper(gas, types.GetBaseCoinID()); sw.Exists() {
						// a private copy of the pool with its order book, as the check phase of the transactions makes it
						poolSnap = sw.AddLastSwapStepWithOrders(big.NewInt(0), big.NewInt(0), false)
					}
					ready = true
				})
			}
			opts.PostTx = func(i int, raw []byte, tr TxResult) {
				if !ready || tr.Code != 0 || i >= len(gens) {
					return
				}
				base := bi(tr.Tags["tx.commission_in_base_coin"])
				if base.Sign() < 1 {
					return
				}
				res.C27Checked++
				var resQ, poolQ *big.Int
				if hasRes && new(big.Int).Sub(rsv, base).Cmp(pip(10000)) >= 0 {
					resQ = formula.CalculateSaleAmount(vol, rsv, crr, base)
				}
				if poolSnap != nil {
					n.guard("quote", func() {
						if q, _ := poolSnap.CalculateSellForBuyWithOrders(base); q != nil && q.Sign() == 1 {
							poolQ = q
						}
					})
				}
				{
					// model 22 (coq/Model/FeeRoute.v): the two quotes -> amount and route
					in := L(Z(0), Z(0), Z(0), Z(0))
					if resQ != nil {
						in[0], in[1] = Z(1), resQ
					}
					if poolQ != nil {
						in[2], in[3] = Z(1), poolQ
					}
					rt := int64(0)
					if tr.Tags["tx.commission_conversion"] == "pool" {
						rt = 1
					}
					// the quotes are recomputed here on a copy of the pre-state; the node's own computation can differ from
					// them by a unit or two of rounding (and more for transactions that trade through the same pool themselves:
					// C15), so the model is asked for the ROUTE, and only when the two quotes are clearly apart
					clear := resQ == nil || poolQ == nil || new(big.Int).Abs(new(big.Int).Sub(resQ, poolQ)).Cmp(Z(10)) > 0
					if clear {
						res.C27Cases = append(res.C27Cases, [2][]*big.Int{in, L(Z(-999), Z(rt))})
					}
				}
				if resQ == nil || poolQ == nil {
					return
				}
				res.C27Both++
				want, route := poolQ, "pool"
				if resQ.Cmp(poolQ) < 0 {
					want, route = resQ, "bancor"
				}
				charged := bi(tr.Tags["tx.commission_amount"])
				apart := new(big.Int).Abs(new(big.Int).Sub(resQ, poolQ)).Cmp(Z(10)) > 0
				selfTrade := strings.Contains(gens[i].Kind, "pool") || strings.Contains(gens[i].Kind, "coin") || strings.Contains(gens[i].Kind, "order") || strings.Contains(gens[i].Kind, "liq")
				near := new(big.Int).Abs(new(big.Int).Sub(charged, want)).Cmp(Z(10)) <= 0
				if apart && (tr.Tags["tx.commission_conversion"] != route || (!near && !selfTrade)) {
					res.C27 = append(res.C27, MonitorFailure{What: fmt.Sprintf("C27: %s transaction at height %d pays %s base coin in coin %d, which has a reserve (cost %s) and a pool (cost %s): charged %s by route %q, the cheaper route is %q with %s raw=%x",
						gens[i].Kind, n.Height+1, base, gens[i].Gas, resQ, poolQ, tr.Tags["tx.commission_amount"], tr.Tags["tx.commission_conversion"], route, want, raw), Key: "c27-route-not-cheaper"})
				}
			}
		}
		if g.Replay {
			// an accepted transaction leaves its sender's nonce at the transaction's nonce (so the next one, and only it, is in order)
			opts.PostTx = func(i int, raw []byte, tr TxResult) {
				if tr.Code != 0 || i >= len(gens) || gens[i] == nil || strings.HasPrefix(gens[i].Kind, "replay-") || gens[i].Kind == "voteupdate-all" {
					return
				}
				if got := n.App.VerifStateDeliver().Accounts.GetNonce(gens[i].Sender.Addr); got != gens[i].Nonce {
					res.C26 = append(res.C26, MonitorFailure{What: fmt.Sprintf("C04: accepted %s transaction with nonce %d at height %d left the sender's nonce at %d raw=%x", gens[i].Kind, gens[i].Nonce, n.Height+1, got, raw), Key: g.ReplayKey + "-nonce-not-advanced"})
				}
			}
		}
		if g.CandAuth {
			var owner, control types.Address
			var known bool
			var pk types.Pubkey
			opts.PreTx = func(i int, raw []byte) {
				known = false
				if i >= len(gens) {
					return
				}
				switch d := gens[i].Data.(type) {
				case transaction.EditCandidateData:
					pk = d.PubKey
				case transaction.EditCandidateCommission:
					pk = d.PubKey
				case transaction.SetCandidateOnData:
					pk = d.PubKey
				case transaction.SetCandidateOffData:
					pk = d.PubKey
				default:
					return
				}
				if c := n.App.VerifStateDeliver().Candidates.GetCandidate(pk); c != nil {
					owner, control, known = c.OwnerAddress, c.ControlAddress, true
				}
			}
			opts.PostTx = func(i int, raw []byte, tr TxResult) {
				if known && i < len(gens) && (tr.Code == 0 || tr.Code == 406) {
					// model 21 (coq/Model/CandAuth.v): accepted => authorized, code 406 => not authorized
					kind := int64(4)
					switch gens[i].Data.(type) {
					case transaction.EditCandidateData:
						kind = 1
					case transaction.EditCandidateCommission:
						kind = 2
					case transaction.SetCandidateOnData:
						kind = 3
					}
					obs := int64(1)
					if tr.Code == 406 {
						obs = 0
					}
					res.C05Cases = append(res.C05Cases, [2][]*big.Int{L(Z(kind), addrZ20(gens[i].Sender.Addr), addrZ20(owner), addrZ20(control)), L(Z(obs))})
				}
				if !known || tr.Code != 0 || i >= len(gens) {
					return
				}
				res.C05Checked++
				sender := gens[i].Sender.Addr
				switch gens[i].Data.(type) {
				case transaction.EditCandidateData, transaction.EditCandidateCommission:
					if sender != owner {
						res.C05 = append(res.C05, MonitorFailure{What: fmt.Sprintf("C05: %s of candidate %s at height %d was accepted from %s, the owner is %s (control address %s) raw=%x", gens[i].Kind, pk.String(), n.Height+1, sender.String(), owner.String(), control.String(), raw), Key: "c05-candidate-settings-not-by-owner"})
					}
				default:
					if sender != owner && sender != control {
						res.C05 = append(res.C05, MonitorFailure{What: fmt.Sprintf("C05: %s of candidate %s at height %d was accepted from %s, owner %s, control address %s raw=%x", gens[i].Kind, pk.String(), n.Height+1, sender.String(), owner.String(), control.String(), raw), Key: "c05-candidate-switch-unauthorized"})
					}
				}
			}
		}
		br := n.Block(txs, &opts)
		opts.PreTx, opts.PostTx = nil, nil
		res.Hashes = append(res.Hashes, br.Hash)
		res.Results = append(res.Results, br.Txs)
		res.Updates = append(res.Updates, fmtUpdates(br))
		if os.Getenv("VERIF_DEBUG") == "2" {
			e := n.Export()
			line := fmt.Sprintf("DBG h=%d", n.Height)
			for _, v := range e.Validators {
				line += fmt.Sprintf(" %s=%s", v.PubKey.String()[:8], v.TotalBipStake)
			}
			for _, c := range e.Candidates {
				line += fmt.Sprintf(" | c%d st=%d tot=%s", c.ID, c.Status, c.TotalBipStake)
			}
			kinds := ""
			for i, gt := range gens {
				code := -1
				if i < len(br.Txs) {
					code = int(br.Txs[i].Code)
				}
				kinds += fmt.Sprintf(" %s:%d", gt.Kind, code)
			}
			fmt.Println(line, "txs:", kinds, "absent", opts.Absent, "ev", opts.Evidence)
			{
				comp := map[string]*big.Int{}
				addc := func(k string, c uint64, v string) {
					if c != 0 {
						return
					}
					if comp[k] == nil {
						comp[k] = big.NewInt(0)
					}
					comp[k].Add(comp[k], bi(v))
				}
				for _, a := range e.Accounts {
					for _, b := range a.Balance {
						addc("bal", b.Coin, b.Value)
					}
				}
				for _, c := range e.Candidates {
					for _, sk := range c.Stakes {
						addc("stake", sk.Coin, sk.Value)
					}
					for _, sk := range c.Updates {
						addc("upd", sk.Coin, sk.Value)
					}
				}
				for _, wl := range e.Waitlist {
					addc("wait", wl.Coin, wl.Value)
				}
				for _, f := range e.FrozenFunds {
					addc("frozen", f.Coin, f.Value)
				}
				for _, v := range e.Validators {
					addc("accum", 0, v.AccumReward)
				}
				addc("slashed", 0, e.TotalSlashed)
				fmt.Printf("DBGC h=%d %v\n", n.Height, comp)
			}
		}
		if br.Panic != "" && os.Getenv("VERIF_DEBUG") != "" {
			e := n.Export()
			fmt.Printf("DEBUG panic %s\nopts absent=%v evidence=%v\n", br.Panic, opts.Absent, opts.Evidence)
			for _, v := range e.Validators {
				fmt.Printf("  validator %s total=%s accum=%s\n", v.PubKey.String()[:12], v.TotalBipStake, v.AccumReward)
			}
			for _, c := range e.Candidates {
				fmt.Printf("  candidate %d %s status=%d total=%s stakes=%d updates=%d\n", c.ID, c.PubKey.String()[:12], c.Status, c.TotalBipStake, len(c.Stakes), len(c.Updates))
				for _, sk := range c.Stakes {
					fmt.Printf("      stake %s coin %d value %s bip %s\n", sk.Owner.String()[:10], sk.Coin, sk.Value, sk.BipValue)
				}
			}
			for _, v := range n.App.VerifStateDeliver().Validators.GetValidators() {
				fmt.Printf("  LIVE validator %s total=%s todrop=%v\n", v.PubKey.String()[:12], v.GetTotalBipStake(), v.IsToDrop())
				for _, sk := range n.App.VerifStateDeliver().Candidates.GetStakes(v.PubKey) {
					fmt.Printf("      LIVE stake %s coin %d value %s bip %s\n", sk.Owner.String()[:10], sk.Coin, sk.Value, sk.BipValue)
				}
			}
			sd := n.App.VerifStateDeliver()
			for _, c := range sd.Candidates.GetCandidates() {
				fmt.Printf("  LIVE candidate %d %s status=%d total=%s tm=%x\n", c.ID, c.PubKey.String()[:12], c.Status, c.GetTotalBipStake(), c.GetTmAddress())
			}
			for i, gt := range gens {
				code := -1
				if i < len(br.Txs) {
					code = int(br.Txs[i].Code)
				}
				fmt.Printf("  TX %s code=%d sender=%s data=%+v\n", gt.Kind, code, gt.Sender.Addr.String()[:10], gt.Data)
			}
			for i, v := range n.Vals {
				fmt.Printf("  harness val %d %s tm=%x\n", i, v.Pub.String()[:12], v.TmAdr)
			}
			for bi_, b := range h.Blocks {
				fmt.Printf("  block %d: absent=%v evidence=%v txs=%d\n", bi_, b.Opts.Absent, b.Opts.Evidence, len(b.Txs))
			}
		}
		if br.Panic != "" {
			// identify the transaction that crashed the node
			k := len(br.Txs)
			stack := ""
			if len(n.Stacks) > 0 {
				stack = " STACK " + n.Stacks[len(n.Stacks)-1]
			}
			if k < len(gens) {
				res.Panics = append(res.Panics, fmt.Sprintf("%s :: tx kind=%s data=%+v raw=%x%s", br.Panic, gens[k].Kind, gens[k].Data, gens[k].Raw, stack))
			} else {
				res.Panics = append(res.Panics, br.Panic+stack)
			}
			break
		}
		if g.FailFrame && br.Panic == "" {
			// (Export reloads candidates and stakes from the committed tree: it is only safe between blocks, so the
			// frame of a rejected transaction is observed on blocks that carry that single transaction)
			cur := n.Export()
			curS := c11Sections(&cur)
			hh := uint64(n.Height)
			if frameSections != nil && len(br.Txs) == 1 && br.Txs[0].Code != 0 && hh%stakePeriod != 0 && hh%stakePeriod != stakePeriod/2 && !frameFrozen[hh] && len(opts.Evidence) == 0 && len(opts.Absent) == 0 {
				kind, gasBase := "malformed", true
				if len(gens) == 1 {
					kind = gens[0].Kind
					gasBase = gens[0].Gas == 0 && kind != "sellallcoin" && kind != "sellallpool"
				}
				res.C03Checked++
				for k := range frameSections {
					if k >= len(curS) || frameSections[k].Name != curS[k].Name {
						break
					}
					name := frameSections[k].Name
					if name == "validators" || name == "max_gas" || name == "total_slashed" {
						continue // block-level bookkeeping (accrued rewards, gas limit, reward remainders)
					}
					a, b := frameSections[k].Entries, curS[k].Entries
					if strings.Join(a, "\n") == strings.Join(b, "\n") {
						continue
					}
					if name == "accounts" {
						in := map[string]bool{}
						for _, x := range a {
							in[x] = true
						}
						changed := 0
						for _, x := range b {
							if !in[x] {
								changed++
							}
						}
						if changed <= 1 && len(a) == len(b) {
							continue
						}
					}
					if !gasBase {
						continue // fee paid in a custom coin: its reserve / pool / order owners move too (the ledger model covers the modelled types)
					}
					d := c11DiffSections([]c11Section{frameSections[k]}, []c11Section{curS[k]})
					res.C03 = append(res.C03, MonitorFailure{What: fmt.Sprintf("C03: the only transaction of block %d (%s) was rejected with code %d, yet the state changed outside the payer's balance: section %s: %+v raw=%x", hh, kind, br.Txs[0].Code, name, d, txs[0]), Key: "c03-node-frame:" + name})
				}
			}
			frameSections = curS
			frameFrozen = map[uint64]bool{}
			for _, f := range cur.FrozenFunds {
				frameFrozen[f.Height] = true
			}
		}
		if n.EmptyValset {
			// this block removed the last validator: Tendermint would have refused the update and stopped the
			// chain; the history ends before it (states after it are not reachable by a deployed node)
			h.Blocks = h.Blocks[:len(h.Blocks)-1]
			res.Hashes, res.Results, res.Updates = res.Hashes[:len(res.Hashes)-1], res.Results[:len(res.Results)-1], res.Updates[:len(res.Updates)-1]
			break
		}
		if g.Replay {
			firstCode := map[string]uint32{}
			for i, tr := range br.Txs {
				if i >= len(gens) || gens[i] == nil {
					continue
				}
				key := string(gens[i].Raw)
				if strings.HasPrefix(gens[i].Kind, "replay-") {
					res.C26Replays++
					fc, seenHere := firstCode[key]
					if tr.Code == 0 && (!seenHere || fc == 0) {
						res.C26 = append(res.C26, MonitorFailure{What: fmt.Sprintf("C26: the signed bytes of an accepted %s transaction were accepted (code 0) again at height %d raw=%x", gens[i].Kind, n.Height, gens[i].Raw), Key: g.ReplayKey + "-replay-accepted"})
					}
					continue
				}
				firstCode[key] = tr.Code
				if tr.Code == 0 && len(replayPool) < 200 {
					replayPool = append(replayPool, gens[i])
				}
			}
		}
		for i, tr := range br.Txs {
			if i < len(gens) && gens[i] != nil && !strings.HasPrefix(gens[i].Kind, "replay-") {
				// the nonce bookkeeping of the generator assumed success
				w.Observe(gens[i], tr)
			}
		}
		em := n.App.VerifAppDB().Emission()
		res.Emissions = append(res.Emissions, em.String())
		if g.Monitors || g.KeepExports {
			e := n.Export()
			if g.KeepExports {
				ec := e
				res.Exports = append(res.Exports, &ec)
			}
			if g.Monitors {
				cur := holdings(&e)
				where := fmt.Sprintf("height %d", n.Height)
				for _, neg := range cur.Negative {
					res.C02 = append(res.C02, MonitorFailure{What: "C02: " + neg + " at " + where, Key: "c02-negative"})
				}
				for id, vol := range cur.Volume {
					held := cur.Held[id]
					if held == nil {
						held = big.NewInt(0)
					}
					if id != 0 && held.Cmp(vol) != 0 {
						res.C01 = append(res.C01, MonitorFailure{What: fmt.Sprintf("C01: coin %d volume %s != sum of holdings %s at %s", id, vol, held, where), Key: "c01-custom"})
					}
				}
				dBase := new(big.Int).Sub(cur.baseTotal(), prev.baseTotal())
				dEm := new(big.Int).Sub(em, prevEm)
				if dBase.Cmp(dEm) != 0 {
					res.C01 = append(res.C01, MonitorFailure{What: fmt.Sprintf("C01: base coin total changed by %s but emission by %s at %s", dBase, dEm, where), Key: baseDiffKey(prev, cur, dBase, dEm)})
				}
				prev, prevEm = cur, new(big.Int).Set(em)
			}
		}
	}
	return h, res, w
}


// checkTxHeight: the block height Blockchain.CheckTx hands to the executor for a node at height n.Height,
// read off the source of the tree the harness was built against (blockchain.Height()+k in the RunTx call of
// CheckTx; DeliverTx is the real one).  The real CheckTx needs a Tendermint node for MinGasPrice, so the
// check-mode runs call RunTx themselves; this keeps their height argument tied to the code.
var checkTxOffsetOnce sync.Once
var checkTxOffsetVal int64 = 1

func checkTxHeight(n *Node) uint64 {
	checkTxOffsetOnce.Do(func() {
		src, err := os.ReadFile(filepath.Join(repoDir(), "coreV2/minter/blockchain.go"))
		if err != nil {
			return
		}
		m := regexp.MustCompile(`func \(blockchain \*Blockchain\) CheckTx[^{]*\{[\s\S]*?RunTx\([^,]+,[^,]+,[^,]+,\s*blockchain\.Height\(\)\s*(([+-])\s*(\d+))?\s*,`).FindSubmatch(src)
		if m == nil {
			return // the translator (xlate entry.go) fails closed on an unknown shape: the proof gate reports it
		}
		checkTxOffsetVal = 0
		if len(m[3]) > 0 {
			v, _ := strconv.ParseInt(string(m[3]), 10, 64)
			if string(m[2]) == "-" {
				v = -v
			}
			checkTxOffsetVal = v
		}
	})
	return uint64(n.Height + checkTxOffsetVal)
}


// derivedState: what the application keeps in memory but derives from persisted data (rebuilt by initState after
// a restart): the grace periods and the transaction executor in force.  Read through reflection (unexported
// fields of minter.Blockchain; read-only).
func derivedState(n *Node) string {
	defer func() { recover() }()
	bv := reflect.ValueOf(n.App).Elem()
	out := fmt.Sprintf("executor=%v", reflect.Indirect(reflect.NewAt(bv.FieldByName("executor").Type(), unsafe.Pointer(bv.FieldByName("executor").UnsafeAddr()))).Elem().Type())
	gf := bv.FieldByName("grace")
	if gf.IsValid() && !gf.IsNil() {
		gp := gf.Elem().FieldByName("gracePeriods")
		var l []string
		for i := 0; i < gp.Len(); i++ {
			p := gp.Index(i).Elem()
			l = append(l, fmt.Sprintf("[%d,%d,%v]", p.FieldByName("from").Uint(), p.FieldByName("to").Uint(), p.FieldByName("upgrade").Bool()))
		}
		sort.Strings(l)
		// duplicates carry no meaning (a period is a set of heights)
		var u []string
		for i, x := range l {
			if i == 0 || x != l[i-1] {
				u = append(u, x)
			}
		}
		out += " grace=" + strings.Join(u, "")
	}
	return out
}


// baseDiffKey names the finding a base-coin discrepancy of a block belongs to.  A validator that leaves the set at a
// refresh in the middle of a period WITHOUT being dropped (its candidate stays online: it was simply not re-selected,
// e.g. its stake was unbonded) loses its accumulated reward: SetNewValidators forgets it, although the emission
// counter already counts it (known finding).  The loss is that validator's accumulated reward before the block plus
// at most its share of this block's pool.
func baseDiffKey(prev, cur *Holdings, dBase, dEm *big.Int) string {
	loss := new(big.Int).Sub(dEm, dBase)
	if loss.Sign() <= 0 || prev.ValAccum == nil {
		return "c01-base"
	}
	lost, leavers := big.NewInt(0), big.NewInt(0)
	n := 0
	for k, a := range prev.ValAccum {
		if _, stays := cur.ValAccum[k]; !stays {
			leavers.Add(leavers, a)
			if cur.CandOn[k] {
				lost.Add(lost, a)
				n++
			}
		}
	}
	// upper bound: the deselected validators' own rewards plus their share of this block's pool (reward, fees, rewards
	// returned by the validators dropped in this block).  The pool is not observable, but every validator that stays and
	// gained g with stake s tells it: a validator with stake s' got g*s'/s (floors aside).
	upper := new(big.Int).Add(leavers, new(big.Int).Mul(dEm, big.NewInt(2)))
	upper.Add(upper, pip(1000))
	lostStake := big.NewInt(0)
	for k := range prev.ValAccum {
		if _, stays := cur.ValAccum[k]; !stays && cur.CandOn[k] && prev.ValStake[k] != nil {
			lostStake.Add(lostStake, prev.ValStake[k])
		}
	}
	for k, a := range cur.ValAccum {
		pa, was := prev.ValAccum[k]
		st := prev.ValStake[k]
		if !was || st == nil || st.Sign() <= 0 {
			continue
		}
		if g := new(big.Int).Sub(a, pa); g.Sign() > 0 {
			share := new(big.Int).Div(new(big.Int).Mul(g, lostStake), st)
			share.Add(share, new(big.Int).Add(leavers, pip(1)))
			if share.Cmp(upper) > 0 {
				upper = share
			}
		}
	}
	if n > 0 && loss.Cmp(lost) >= 0 && loss.Cmp(upper) <= 0 {
		return "c01-deselected-validator-reward-lost"
	}
	return "c01-base"
}
