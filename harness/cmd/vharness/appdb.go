package main

import (
	"fmt"
	"math/big"
	"os"
	"time"

	"github.com/MinterTeam/minter-go-node/config"
	"github.com/MinterTeam/minter-go-node/coreV2/appdb"
	abci "github.com/tendermint/tendermint/abci/types"
	"github.com/tendermint/tendermint/crypto/ed25519"
	cryptoenc "github.com/tendermint/tendermint/crypto/encoding"
)

func init() { commands["appdb"] = runAppDB }

func valUpdates(l []*big.Int) abci.ValidatorUpdates {
	var v abci.ValidatorUpdates
	for _, z := range l {
		priv := ed25519.GenPrivKeyFromSecret([]byte{7})
		pk, _ := cryptoenc.PubKeyToProto(priv.PubKey())
		v = append(v, abci.ValidatorUpdate{PubKey: pk, Power: z.Int64()})
	}
	if v == nil {
		v = abci.ValidatorUpdates{}
	}
	return v
}

type realAppDB struct {
	home string
	cfg  *config.Config
	db   *appdb.AppDB
}

func (a *realAppDB) open() { a.db = appdb.NewAppDB(a.home, a.cfg) }

func (a *realAppDB) view() []*big.Int {
	d := a.db
	out := L(new(big.Int).SetUint64(d.GetLastHeight()), new(big.Int).SetUint64(d.GetStartHeight()))
	vals := d.GetValidators()
	out = append(out, Z(int64(len(vals))))
	for _, v := range vals {
		out = append(out, Z(v.Power))
	}
	// block times: GetLastBlockTimeDelta loads the cache; sum and count determine nothing about
	// the raw list, so use AddBlocksTime-free access through the delta of the stored list
	times := appdbTimes(d)
	out = append(out, Z(int64(len(times))))
	for _, t := range times {
		out = append(out, new(big.Int).SetUint64(t))
	}
	vers := d.GetVersions()
	out = append(out, Z(int64(len(vers))))
	for _, v := range vers {
		var n int64
		fmt.Sscanf(v.Name, "v%d", &n)
		out = append(out, Z(n), new(big.Int).SetUint64(v.Height))
	}
	if e := d.Emission(); e != nil {
		out = append(out, Z(1), cp(e))
	} else {
		out = append(out, Z(0))
	}
	t, r0, r1, last, off := d.GetPrice()
	if r0 != nil {
		o := int64(0)
		if off {
			o = 1
		}
		out = append(out, Z(1), Z(t.UnixNano()), cp(r0), cp(r1), cp(last), Z(o))
	} else {
		out = append(out, Z(0))
	}
	return out
}

// runAppDB: random programs over the real AppDB API (setters, the Commit write sequence,
// restarts = close and reopen on the same directory, observations of every getter),
// compared with Model/Persist.v.
func runAppDB(seed uint64, n int, out, stats string, _ []string) {
	r := NewRng(seed)
	c := NewCases(out)
	restarts := 0
	for i := 0; i < n; i++ {
		home, _ := os.MkdirTemp(os.Getenv("VERIF_TMP"), "vappdb")
		os.MkdirAll(home+"/data", 0755)
		cfg := config.GetConfig(home)
		cfg.DBBackend = "goleveldb"
		a := &realAppDB{home: home, cfg: cfg}
		a.open()
		c.Begin(5)
		do := func(op []*big.Int, f func()) {
			f()
			c.Op(op, L(Z(0)))
		}
		// InitChain part
		start := int64(1 + r.Intn(1000))
		do(L(Z(9), Z(start)), func() { a.db.SetStartHeight(uint64(start)); a.db.SaveStartHeight() })
		do(L(Z(3), Z(300), Z(start)), func() { a.db.AddVersion("v300", uint64(start)) })
		do(L(Z(4), Z(1000)), func() { a.db.SetEmission(Z(1000)) })
		do(L(Z(5), Z(0), Z(350), Z(1), Z(74), Z(0)), func() { a.db.SetPrice(time.Unix(0, 0).UTC(), Z(350), Z(1), Z(74), false) })
		do(L(Z(1), Z(5), Z(6)), func() { a.db.SetValidators(valUpdates(L(Z(5), Z(6)))) })
		// InitChain: SetLastHeight + Save* + FlushValidators (no hash, no block times)
		h := start
		emission := int64(1000)
		commit := func() {
			hash := int64(1 + r.Intn(1000000))
			do(L(Z(6), Z(h), Z(hash)), func() {
				hb := make([]byte, 32)
				big.NewInt(hash).FillBytes(hb)
				a.db.SetLastBlockHash(hb)
				a.db.SetLastHeight(uint64(h))
				a.db.FlushValidators()
				a.db.SaveBlocksTime()
				a.db.SaveVersions()
				a.db.SaveEmission()
				a.db.SavePrice()
			})
		}
		do(L(Z(2), Z(1000)), func() { a.db.AddBlocksTime(time.Unix(1000, 0)) })
		commit()
		nb := 3 + r.Intn(12)
		nres := 0
		for b := 0; b < nb; b++ {
			h++
			tm := int64(1000 + 5*(b+1) + r.Intn(4))
			do(L(Z(2), Z(tm)), func() { a.db.AddBlocksTime(time.Unix(tm, 0)) })
			for k := r.Intn(4); k > 0; k-- {
				switch r.Intn(5) {
				case 0:
					vs := L(Z(int64(1+r.Intn(100))), Z(int64(1+r.Intn(100))))
					do(append(L(Z(1)), vs...), func() { a.db.SetValidators(valUpdates(vs)) })
				case 1:
					vn := int64(301 + r.Intn(30))
					do(L(Z(3), Z(vn), Z(h)), func() { a.db.AddVersion(fmt.Sprintf("v%d", vn), uint64(h)) })
				case 2, 3:
					emission += int64(1 + r.Intn(100))
					e := emission
					do(L(Z(4), Z(e)), func() { a.db.SetEmission(Z(e)) })
				case 4:
					p := L(Z(tm*1000000000), Z(int64(1+r.Intn(1000))), Z(int64(1+r.Intn(1000))), Z(int64(r.Intn(100))), Z(int64(r.Intn(2))))
					do(append(L(Z(5)), p...), func() { a.db.SetPrice(time.Unix(0, p[0].Int64()).UTC(), p[1], p[2], p[3], p[4].Sign() == 1) })
				}
			}
			if r.Intn(3) == 0 {
				c.Op(L(Z(8)), a.view())
			}
			commit()
			for k := 0; r.Intn(3) == 0 && k < 3; k++ {
				do(L(Z(7)), func() { a.db.Close(); a.open() })
				nres++
			}
			if r.Intn(2) == 0 {
				c.Op(L(Z(8)), a.view())
			}
		}
		c.Op(L(Z(8)), a.view())
		a.db.Close()
		os.RemoveAll(home)
		restarts += nres
		c.End(nres > 0, fmt.Sprintf("blocks%02d", nb/4*4))
	}
	c.Close()
	writeStats(stats, &Stats{Property: "appdb", Seed: seed, Cases: c.NCases, Ops: c.NOps, NonTrivial: c.NonTriv,
		Rule: "program of 3-14 blocks over the real AppDB (AddBlocksTime, SetValidators / AddVersion / SetEmission / SetPrice, the write sequence of Blockchain.Commit, 0-3 close-and-reopen restarts after a block, observation of every getter); non-trivial = at least one restart; distinct = distinct program text",
		Dist: c.Dist, Samples: c.Samples, Extra: map[string]interface{}{"restarts": restarts}})
}

func appdbTimes(d *appdb.AppDB) []uint64 { return d.VerifBlockTimes() }
