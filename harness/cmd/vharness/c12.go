package main

import (
	"fmt"
	"math"
	"math/big"
	"strconv"
	"strings"

	"github.com/MinterTeam/minter-go-node/formula"
)

func init() { commands["c12"] = runC12 }

// C12 — bancor conversions follow the bonding-curve formulas.
//
// Every case is ONE call of one of the four real functions of /repo/formula:
//   case model 12, op: [k; supply; reserve; crr; amount; f]   ->  [branch; ok]
//   k = 1 CalculatePurchaseReturn, 2 CalculatePurchaseAmount, 3 CalculateSaleReturn, 4 CalculateSaleAmount,
//   f = the value the Go function returned (absent when the call panicked: the model then answers ok = 0
//   while the harness prints ok = 1, i.e. a panic is always a mismatch),
//   branch = 0 integer branch (amount = 0, crr = 100, sell = supply) / 1 float branch -- derived from the inputs,
//   ok = 1 iff f is acceptable: integer branch: equal to the exact curve value (= the transliterated integer
//   code, Coq theorem C12_integer_branches_exact); float branch: |f - ideal| <= 2^-33*ideal + 1 against the exact
//   integer specification of the curve.
// The expected ok printed here is the literal 1 wherever the property must hold (inputs the callers allow, supply
// and reserve below 2^96); elsewhere it is the verdict of the harness's OWN exact evaluation (big.Int search for the
// ideal value around f on the polynomial inequality).  The extracted Coq checker decides the same question through
// check_within (2 inequality evaluations, proved equivalent to the tolerance, C12_check_decides).  A disagreement is a
// mismatch; a verdict 0 is also reported by the monitor "c12-tolerance...".
//
// Monitors (direct evaluation of the property on the Go results, independent of Coq), keys:
//   c12-panic, c12-negative, c12-above-reserve, c12-sell-all, c12-tolerance, c12-monotone, c12-roundtrip
//   with the suffix "" (inputs the callers allow, supply and reserve below 2^96: must hold),
//   "-above-2^96" (inputs the callers allow, supply or reserve above 2^96: the 100-bit mantissa is exhausted,
//   KNOWN to violate the tolerance, see c12big); for inputs the callers never pass the key gets the PREFIX
//   "outside-" instead (information only: the check flow reports keys starting with "c12").
//
// eps: observed maximum relative error (after the one unit of truncation) for supply, reserve < 2^96 is 2^-43.9
// (purchase amount at the ratio want/supply = 10^33, crr 11: the exponent 100/float64(crr) is a rounded float64 and
// its error is multiplied by ln(ratio)*100/crr); 2^-45.6 inside the sampled domain.  eps = 2^-33 leaves 2^10.
// "eps=NN" as extra argument overrides (experiments only; the Coq side is fixed at 2^-33).

const c12DefaultEpsLog2 = 33

var (
	c12Ten22 = ZS("10000000000000000000000")            // minimal coin reserve: 10000 BIP
	c12Ten33 = ZS("1000000000000000000000000000000000") // maximal coin supply: 10^15 BIP
	c12Ten18 = ZS("1000000000000000000")
	c12Ten29 = ZS("100000000000000000000000000000")
)

func c12pow(x *big.Int, k int64) *big.Int { return new(big.Int).Exp(x, big.NewInt(k), nil) }
func c12add(a, b *big.Int) *big.Int       { return new(big.Int).Add(a, b) }
func c12sub(a, b *big.Int) *big.Int       { return new(big.Int).Sub(a, b) }
func c12mul(a, b *big.Int) *big.Int       { return new(big.Int).Mul(a, b) }

// the defining inequalities (the same as coq/Model/Bancor.v), y >= 0
func c12pred(k int, s, r *big.Int, c int64, a, y *big.Int) bool {
	switch k {
	case 1: // (y+s)^100 r^c <= (r+a)^c s^100
		return c12mul(c12pow(c12add(y, s), 100), c12pow(r, c)).Cmp(c12mul(c12pow(c12add(r, a), c), c12pow(s, 100))) <= 0
	case 2: // (y+r)^c s^100 <= r^c (a+s)^100
		return c12mul(c12pow(c12add(y, r), c), c12pow(s, 100)).Cmp(c12mul(c12pow(r, c), c12pow(c12add(a, s), 100))) <= 0
	case 3: // y <= r and r^c (s-a)^100 <= (r-y)^c s^100
		if y.Cmp(r) > 0 {
			return false
		}
		return c12mul(c12pow(r, c), c12pow(c12sub(s, a), 100)).Cmp(c12mul(c12pow(c12sub(r, y), c), c12pow(s, 100))) <= 0
	default: // y <= s and s^100 (r-a)^c <= (s-y)^100 r^c
		if y.Cmp(s) > 0 {
			return false
		}
		return c12mul(c12pow(s, 100), c12pow(c12sub(r, a), c)).Cmp(c12mul(c12pow(c12sub(s, y), 100), c12pow(r, c))) <= 0
	}
}

// c12ideal: the largest y >= 0 satisfying the inequality, found by galloping from the hint and bisection
func c12ideal(k int, s, r *big.Int, c int64, a, hint *big.Int) *big.Int {
	P := func(y *big.Int) bool { return c12pred(k, s, r, c, a, y) }
	lo := new(big.Int).Set(hint)
	if lo.Sign() < 0 {
		lo.SetInt64(0)
	}
	var hi *big.Int
	step := big.NewInt(1)
	if P(lo) {
		for {
			hi = c12add(lo, step)
			if !P(hi) {
				break
			}
			lo = hi
			step = c12mul(step, Z(2))
		}
	} else {
		for {
			hi = lo
			lo = c12sub(hi, step)
			if lo.Sign() <= 0 {
				lo = big.NewInt(0)
				break
			}
			if P(lo) {
				break
			}
			step = c12mul(step, Z(2))
		}
	}
	// P(lo) holds (P(0) always holds), P(hi) fails
	for c12sub(hi, lo).Cmp(Z(1)) > 0 {
		mid := new(big.Int).Rsh(c12add(lo, hi), 1)
		if P(mid) {
			lo = mid
		} else {
			hi = mid
		}
	}
	return lo
}

// c12call calls the real function under recover
func c12call(k int, s, r *big.Int, c uint32, a *big.Int) (res *big.Int, pan string) {
	defer func() {
		if e := recover(); e != nil {
			res, pan = nil, fmt.Sprint(e)
		}
	}()
	switch k {
	case 1:
		res = formula.CalculatePurchaseReturn(cp(s), cp(r), c, cp(a))
	case 2:
		res = formula.CalculatePurchaseAmount(cp(s), cp(r), c, cp(a))
	case 3:
		res = formula.CalculateSaleReturn(cp(s), cp(r), c, cp(a))
	default:
		res = formula.CalculateSaleAmount(cp(s), cp(r), c, cp(a))
	}
	if res == nil {
		pan = "nil result"
	}
	return
}

func c12branch(k int, s *big.Int, c uint32, a *big.Int) int64 {
	if a.Sign() == 0 || c == 100 || (k == 3 && a.Cmp(s) == 0) {
		return 0
	}
	return 1
}

// does the input satisfy what the callers in coreV2/transaction guarantee before the call
// (reserve >= 10000 BIP, supply <= 10^15 BIP, sale: amount <= supply, sale amount: want <= reserve,
// purchase amount: supply + want <= max supply) and what the economy allows: no reserve can hold more than
// ten times rewards.TotalEmission (10^28 pip)
func c12reachable(k int, s, r *big.Int, a *big.Int) bool {
	if r.Cmp(c12Ten22) < 0 || r.Cmp(c12Ten29) > 0 || s.Cmp(c12Ten33) > 0 || s.Sign() <= 0 || a.Cmp(c12Ten33) > 0 {
		return false
	}
	switch k {
	case 2:
		return c12add(s, a).Cmp(c12Ten33) <= 0
	case 3:
		return a.Cmp(s) <= 0
	case 4:
		return a.Cmp(r) <= 0
	}
	return true
}

// c12big: supply or reserve has more than 96 bits.  formula.go computes in 100-bit big.Float: the value
// 1 +- x carries an absolute error of about 2^-100, which is multiplied by the supply (purchase return, sale
// amount) or by up to 10 times the reserve (purchase amount, sale return); beyond 2^100 SetInt itself rounds.
// Below 2^96 that absolute error stays under one unit (covered by the "+1" of the tolerance); above it does not.
func c12big(s, r *big.Int) bool { return s.BitLen() > 96 || r.BitLen() > 96 }

// log-uniform integer in [1, 10^digits)
func c12log(r *Rng, digits int) *big.Int { return c12add(r.Big(digits), Z(1)) }

func c12nearPow2(r *Rng, maxBits int) *big.Int {
	b := new(big.Int).Lsh(Z(1), uint(1+r.Intn(maxBits)))
	return b.Add(b, Z(int64(r.Intn(3)-1)))
}

// scale: x * 10^e (e may be negative: floor division)
func c12scale(x *big.Int, e int) *big.Int {
	p := c12pow(Z(10), int64(absInt(e)))
	if e >= 0 {
		return c12mul(x, p)
	}
	return new(big.Int).Div(x, p)
}
func absInt(i int) int {
	if i < 0 {
		return -i
	}
	return i
}
func c12min(a, b *big.Int) *big.Int {
	if a.Cmp(b) < 0 {
		return a
	}
	return b
}

type c12sample struct {
	k    int
	s, r *big.Int
	c    uint32
	a    *big.Int
	mode string
}

func c12crr(r *Rng) uint32 {
	switch r.Intn(8) {
	case 0:
		return []uint32{10, 11, 50, 99, 100, 25, 75, 33}[r.Intn(8)]
	default:
		return uint32(10 + r.Intn(91))
	}
}

// amount generator: ref is the natural scale of the amount (reserve for deposits / wanted bips, supply for coins),
// capAt (may be nil) the largest allowed value
func c12amount(r *Rng, ref, capAt *big.Int) *big.Int {
	var a *big.Int
	switch r.Intn(12) {
	case 0:
		a = Z(0)
	case 1:
		a = Z(1)
	case 2:
		a = c12sub(ref, Z(1))
	case 3:
		a = cp(ref)
	case 4:
		a = c12nearPow2(r, 110)
	case 5: // tiny ratio
		a = c12add(c12scale(ref, -(1+r.Intn(30))), Z(int64(r.Intn(3))))
	case 6: // huge ratio
		a = c12scale(ref, 1+r.Intn(12))
	case 7:
		a = c12log(r, 33)
	case 8: // just below the reference
		a = c12sub(ref, c12log(r, 12))
	default:
		a = r.BigBelow(c12add(ref, Z(1)))
	}
	if a.Sign() < 0 {
		a = Z(0)
	}
	if capAt != nil && a.Cmp(capAt) > 0 {
		switch r.Intn(3) {
		case 0:
			a = cp(capAt)
		case 1:
			a = c12sub(capAt, Z(int64(1+r.Intn(2))))
			if a.Sign() < 0 {
				a = Z(0)
			}
		default:
			a = r.BigBelow(c12add(capAt, Z(1)))
		}
	}
	return a
}

func c12gen(r *Rng, small bool) c12sample {
	var sm c12sample
	sm.k = 1 + r.Intn(4)
	sm.c = c12crr(r)
	switch {
	case small:
		sm.mode = "small"
		sm.s = c12log(r, 5)
		sm.r = c12log(r, 5)
	case r.Intn(10) < 7:
		sm.mode = "reach"
		// reserve 10^22 .. 10^29, supply mostly 10^18 .. 10^33
		sm.r = c12add(c12Ten22, c12scale(c12log(r, 7), 21))
		if r.Intn(4) == 0 {
			sm.r = c12add(c12Ten22, r.Big(24))
		}
		if r.Intn(5) == 0 {
			sm.s = c12log(r, 33)
		} else {
			sm.s = c12mul(c12Ten18, c12log(r, 15))
			if r.Intn(3) == 0 {
				sm.s = c12add(sm.s, r.Big(18))
			}
		}
		if r.Intn(12) == 0 {
			sm.s = cp(c12Ten33)
		}
	default:
		sm.mode = "wild"
		sm.s = c12log(r, 33)
		sm.r = c12log(r, 33)
		if r.Intn(6) == 0 {
			sm.s = c12nearPow2(r, 109)
		}
		if r.Intn(6) == 0 {
			sm.r = c12nearPow2(r, 109)
		}
		if sm.s.Sign() <= 0 {
			sm.s = Z(1)
		}
		if sm.r.Sign() <= 0 {
			sm.r = Z(1)
		}
	}
	switch sm.k {
	case 1:
		var capAt *big.Int
		if !small {
			capAt = c12Ten33
		}
		sm.a = c12amount(r, sm.r, capAt)
	case 2:
		var capAt *big.Int
		if sm.mode == "reach" {
			capAt = c12sub(c12Ten33, sm.s)
		} else if !small {
			capAt = c12Ten33
		}
		sm.a = c12amount(r, sm.s, capAt)
	case 3:
		sm.a = c12amount(r, sm.s, sm.s)
	default:
		sm.a = c12amount(r, sm.r, sm.r)
	}
	return sm
}

// monitor key suffix: "" = inside the callers' domain and supply, reserve below 2^96 (the property must hold:
// a failure is a violation); "-above-2^96" = inside the callers' domain with a supply or reserve above 2^96
// (100-bit mantissa exhausted, see c12big); "-outside" = inputs the callers never pass
func c12sfx(sm c12sample) string {
	if !c12reachable(sm.k, sm.s, sm.r, sm.a) {
		return "-outside"
	}
	if c12big(sm.s, sm.r) {
		return "-above-2^96"
	}
	return ""
}

type c12stat struct {
	maxLog2 float64 // log2 of the largest relative error (|f-ideal|-1)/ideal seen; -inf when none
	where   string
	n       int
	over    int // cases above eps
}

func runC12(seed uint64, n int, out, stats string, args []string) {
	epsLog2 := c12DefaultEpsLog2
	for _, a := range args {
		if strings.HasPrefix(a, "eps=") {
			epsLog2, _ = strconv.Atoi(a[4:])
		}
	}
	epsDen := new(big.Int).Lsh(Z(1), uint(epsLog2))
	r := NewRng(seed)
	r = &Rng{s: r.U64()} // NewRng(seed) and NewRng(seed+1) are the same stream shifted by one draw: decorrelate
	c := NewCases(out)
	var mon []MonitorFailure
	addMon := func(key, what, replay string) {
		if strings.HasSuffix(key, "-outside") {
			// inputs the callers never pass: recorded for information under a key the check flow does not
			// attribute to C12 (it only reports keys starting with the property id)
			key = "outside-" + strings.TrimSuffix(key, "-outside")
		}
		if len(mon) < 200 {
			mon = append(mon, MonitorFailure{What: what, Key: key, Replay: replay})
		}
	}
	st := map[string]*c12stat{}
	getst := func(key string) *c12stat {
		if st[key] == nil {
			st[key] = &c12stat{maxLog2: math.Inf(-1)}
		}
		return st[key]
	}
	panicsReach, panicsWild, skippedOutside, aboveSupply := 0, 0, 0, 0
	overList := []string{}

	// slack(v) = v/2^epsLog2 + 1   (eps*v + 1, rounded down: the monitor is never looser than the property)
	slack := func(v *big.Int, mult int64) *big.Int {
		x := c12mul(v, Z(mult))
		x.Rsh(x, uint(epsLog2))
		return x.Add(x, Z(mult))
	}

	// eval: one real call = one case
	eval := func(sm c12sample) *big.Int {
		if sm.s.Sign() <= 0 || sm.r.Sign() <= 0 || sm.a.Sign() < 0 || (sm.k == 3 && sm.a.Cmp(sm.s) > 0) || (sm.k == 4 && sm.a.Cmp(sm.r) > 0) {
			// outside the domain of the specification (callers never do this): only make sure what happens is recorded
			_, pan := c12call(sm.k, sm.s, sm.r, sm.c, sm.a)
			skippedOutside++
			if pan != "" {
				panicsWild++
			}
			return nil
		}
		f, pan := c12call(sm.k, sm.s, sm.r, sm.c, sm.a)
		br := c12branch(sm.k, sm.s, sm.c, sm.a)
		reach := c12reachable(sm.k, sm.s, sm.r, sm.a)
		bigm := c12big(sm.s, sm.r)
		in := L(Z(int64(sm.k)), cp(sm.s), cp(sm.r), Z(int64(sm.c)), cp(sm.a))
		kind := fmt.Sprintf("k%d-%s-%s", sm.k, map[int64]string{0: "int", 1: "float"}[br], sm.mode)
		if bigm && br == 1 {
			kind += "-above2^96"
		}
		replay := fmt.Sprintf("k=%d supply=%s reserve=%s crr=%d amount=%s", sm.k, sm.s, sm.r, sm.c, sm.a)
		if pan != "" {
			c.Begin(12)
			c.Op(in, L(Z(br), Z(1)))
			c.End(false, kind+"-panic")
			if reach {
				panicsReach++
				addMon("c12-panic", fmt.Sprintf("C12: formula function %d panics (%s) on an input the callers allow: %s", sm.k, pan, replay), replay)
			} else {
				panicsWild++
				addMon("c12-panic-outside", fmt.Sprintf("C12: formula function %d panics (%s): %s", sm.k, pan, replay), replay)
			}
			return nil
		}
		// ---- exact ideal and the observed error (Go side, independent of Coq) ------------------------------
		ideal := c12ideal(sm.k, sm.s, sm.r, int64(sm.c), sm.a, f)
		diff := c12sub(f, ideal)
		diff.Abs(diff)
		excess := c12sub(diff, Z(1)) // truncation allowance
		okGo := int64(1)
		if br == 0 {
			if diff.Sign() != 0 {
				okGo = 0
			}
		} else if c12mul(diff, epsDen).Cmp(c12add(ideal, epsDen)) > 0 { // within eps: |f - ideal| * 2^e <= ideal + 2^e
			okGo = 0
		}
		// expected observable: where the property must hold (inputs the callers allow, supply and reserve below
		// 2^96) the literal 1 -- the Coq-extracted checker is the authority, a violation is a mismatch AND a monitor
		// failure; elsewhere (known violations above 2^96, inputs outside the callers' domain) the verdict of the
		// harness's own exact evaluation, so that there a mismatch means the two exact checkers disagree
		expOK := okGo
		if c12sfx(sm) == "" {
			expOK = 1
		}
		c.Begin(12)
		c.Op(append(in, cp(f)), L(Z(br), Z(expOK)))
		c.End(br == 1 && f.Sign() > 0, kind)
		regime := map[bool]string{false: "upto2^96", true: "above2^96"}[bigm]
		keys := []string{"all", fmt.Sprintf("k%d-%s", sm.k, regime), regime, map[bool]string{true: "reachable-", false: "unreachable-"}[reach] + regime}
		for _, key := range keys {
			s := getst(key)
			s.n++
			if okGo == 0 {
				s.over++
			}
			if br == 1 && excess.Sign() > 0 {
				l := math.Inf(1)
				if ideal.Sign() > 0 {
					q, _ := new(big.Float).Quo(new(big.Float).SetInt(excess), new(big.Float).SetInt(ideal)).Float64()
					l = math.Log2(q)
				}
				if l > s.maxLog2 {
					s.maxLog2 = l
					s.where = fmt.Sprintf("%s go=%s ideal=%s", replay, f, ideal)
				}
			}
		}
		// ---- monitors on the Go result itself -------------------------------------------------------
		sfx := c12sfx(sm)
		if f.Sign() < 0 {
			addMon("c12-negative"+sfx, fmt.Sprintf("C12: negative result %s: %s", f, replay), replay)
		}
		if sm.k == 3 {
			if f.Cmp(sm.r) > 0 {
				addMon("c12-above-reserve"+sfx, fmt.Sprintf("C12: sale return %s exceeds the reserve: %s", f, replay), replay)
			}
			if sm.a.Cmp(sm.s) == 0 && f.Cmp(sm.r) != 0 {
				// an integer branch: exact for every input the property quantifies over (up to 10^33 pip), whatever the callers pass
				addMon("c12-sell-all", fmt.Sprintf("C12: selling the entire supply returns %s, not the reserve: %s", f, replay), replay)
			}
		}
		if sm.k == 4 && f.Cmp(sm.s) > 0 {
			aboveSupply++
		}
		if okGo == 0 {
			what := fmt.Sprintf("C12: result outside the tolerance 2^-%d*ideal+1: %s go=%s ideal=%s", epsLog2, replay, f, ideal)
			if br == 0 {
				what = fmt.Sprintf("C12: integer branch differs from the exact curve value: %s go=%s ideal=%s", replay, f, ideal)
			}
			if len(overList) < 12 {
				overList = append(overList, what)
			}
			addMon("c12-tolerance"+sfx, what, replay)
		}
		return f
	}

	for c.NCases < n {
		sm := c12gen(r, c.NCases < 40)
		f := eval(sm)
		if f == nil {
			continue
		}
		replay := fmt.Sprintf("k=%d supply=%s reserve=%s crr=%d amount=%s", sm.k, sm.s, sm.r, sm.c, sm.a)
		// neighbours: a+1 and a+delta (kept inside the domain): the result must not decrease (up to eps*value+1)
		for j := 0; j < 2 && c.NCases < n; j++ {
			if r.Intn(3) == 0 {
				continue
			}
			d := Z(1)
			if j == 1 {
				d = c12log(r, 1+r.Intn(30))
			}
			nb := sm
			nb.a = c12add(sm.a, d)
			if (sm.k == 3 && nb.a.Cmp(sm.s) > 0) || (sm.k == 4 && nb.a.Cmp(sm.r) > 0) {
				continue
			}
			if sm.mode == "reach" && !c12reachable(nb.k, nb.s, nb.r, nb.a) {
				continue
			}
			g := eval(nb)
			if g == nil {
				continue
			}
			if f.Cmp(c12add(g, slack(g, 1))) > 0 {
				addMon("c12-monotone"+c12sfx(nb), fmt.Sprintf("C12: result decreases when the amount grows: %s -> %s, amount+%s -> %s", replay, f, d, g), replay+" delta="+d.String())
			}
		}
		// round trip: buy with d, then sell exactly what was bought
		if sm.k == 1 && f.Sign() > 0 && c.NCases < n && r.Intn(2) == 0 {
			rt := c12sample{k: 3, s: c12add(sm.s, f), r: c12add(sm.r, sm.a), c: sm.c, a: cp(f), mode: sm.mode}
			if rt.s.Cmp(c12Ten33) > 0 && sm.mode == "reach" {
				rt.mode = "wild"
			}
			g := eval(rt)
			if g != nil && g.Cmp(c12add(sm.a, slack(sm.a, 2))) > 0 {
				key := "c12-roundtrip" + c12sfx(rt)
				if c12sfx(sm) == "-outside" {
					key = "c12-roundtrip-outside"
				}
				addMon(key, fmt.Sprintf("C12: buying for %s gives %s coins, selling them returns %s > paid: %s", sm.a, f, g, replay), replay)
			}
		}
		// a sale with amount > supply / want > reserve is outside the specification: exercised without a case
		if r.Intn(40) == 0 && (sm.k == 3 || sm.k == 4) {
			o := sm
			if sm.k == 3 {
				o.a = c12add(sm.s, c12log(r, 10))
			} else {
				o.a = c12add(sm.r, c12log(r, 10))
			}
			eval(o)
		}
	}
	c.Close()
	extra := map[string]interface{}{"eps_log2": -epsLog2, "panics_reachable": panicsReach, "panics_outside": panicsWild,
		"calls_outside_specified_domain": skippedOutside, "sale_amount_above_supply_within_tolerance": aboveSupply, "outside_tolerance": overList}
	for k, s := range st {
		extra["err_"+k] = map[string]interface{}{"calls": s.n, "max_rel_err_log2": fmt.Sprintf("%.2f", s.maxLog2), "at": s.where, "outside_tolerance": s.over}
	}
	writeStats(stats, &Stats{Property: "C12", Seed: seed, Cases: c.NCases, Ops: c.NOps, NonTrivial: c.NonTriv,
		Rule: "one call of formula.CalculatePurchaseReturn/PurchaseAmount/SaleReturn/SaleAmount per case: supply and reserve log-uniform (70% inside the callers' domain: reserve 10^22..10^28, supply 1..10^33; 30% anywhere in 1..10^33; the first 40 cases below 10^5 for the vm_compute cross-check), every crr 10..100, amounts 0, 1, ref-1, ref, 2^j+-1, tiny and huge ratios, uniform, plus neighbours amount+1/amount+delta and the sale of what a purchase returned; expected verdict = 1 (|f-ideal| <= 2^-33 ideal + 1, integer branches exact) for inputs the callers allow with supply, reserve < 2^96, elsewhere the harness's own exact big.Int evaluation of the same predicate; non-trivial = float branch with a positive result; distinct = distinct case text",
		Dist: c.Dist, Samples: c.Samples, Monitor: mon, Extra: extra})
}
