package main

// c25.go — C25: concurrent read-only API queries never crash or perturb block execution.
//
// Parent (`vharness c25 ... [Locks.unguarded.txt]`): for every generated history starts a CHILD
// process (this binary, sub-command `c25 ... child`) with GORACE="halt_on_error=0 exitcode=0
// log_path=...", so that data-race reports of a `-race` build can be parsed, and a Go runtime
// throw ("fatal error: concurrent map iteration and map write") kills the child only.
// Child: generates the history on a node (that run is "alone"), replays it on a second node
// while a pool of goroutines calls the REAL gRPC handlers of api/v2/service (Service built with
// a nil Tendermint client: the state-reading handlers never touch it) on the live state, and
// compares app hashes, DeliverTx responses, validator updates and emission of the two runs.
//
// Keys: c25-unguarded:<file>:<func>:<field> (static table, from xlate), c25-race:<frameA>|<frameB>,
// c25-fatal-map:<frame>, c25-fatal:<first line>, c25-query-panic:<frame>, c25-exec-panic,
// c25-perturbed, c25-lost-update (targeted first-touch scenario).

import (
	"context"
	"encoding/json"
	"fmt"
	"math/big"
	"os"
	"os/exec"
	"path/filepath"
	"regexp"
	"runtime"
	"runtime/debug"
	"sort"
	"strings"
	"sync"
	"sync/atomic"
	"time"

	"github.com/MinterTeam/minter-go-node/api/v2/service"
	"github.com/MinterTeam/minter-go-node/coreV2/transaction"
	"github.com/MinterTeam/minter-go-node/coreV2/types"
	"github.com/MinterTeam/minter-go-node/rlp"
	pb "github.com/MinterTeam/node-grpc-gateway/api_pb"
	abci "github.com/tendermint/tendermint/abci/types"
	"google.golang.org/protobuf/types/known/wrapperspb"
)

func init() { commands["c25"] = runC25 }

var abciInfo = abci.RequestInfo{}

// c25RepoMarker: the directory prefix of the node's source files in stack traces and race reports
// (/repo/, or the tree the harness was built against: VERIF_REPO)
var c25RepoMarker = func() string {
	if r := strings.TrimRight(os.Getenv("VERIF_REPO"), "/"); r != "" {
		return r + "/"
	}
	return "/repo/"
}()

// c25ResMu guards the child's result record: the watchdog goroutine serialises it while the main goroutine fills it
var c25ResMu sync.Mutex

// ---- what a child reports ---------------------------------------------------------------

type c25QueryPanic struct {
	Key   string `json:"key"`
	What  string `json:"what"`
	Stack string `json:"stack"`
}

type c25Result struct {
	Seed        uint64          `json:"seed"`
	Mode        string          `json:"mode"`
	Race        bool            `json:"race_build"`
	Blocks      int             `json:"blocks"`
	Txs         int             `json:"txs"`
	Accepted    int             `json:"accepted"`
	Types       map[string]int  `json:"types"`
	Pools       int             `json:"pools"`
	Orders      int             `json:"orders"`
	Candidates  int             `json:"candidates"`
	Queries     map[string]int  `json:"queries"`
	QueryErrors map[string]int  `json:"query_errors"`
	Diff        string          `json:"diff"`        // loaded run vs alone run ("" = identical)
	ReplayDiff  string          `json:"replay_diff"` // unloaded replay vs alone run (only computed when Diff != "")
	ExecPanics  []string        `json:"exec_panics"` // panics of BeginBlock/DeliverTx/EndBlock/Commit under load
	AlonePanics []string        `json:"alone_panics"`
	QueryPanics []c25QueryPanic `json:"query_panics"`
	LostUpdates []string        `json:"lost_updates"`
	FirstTouch  int             `json:"first_touch_cases"`
	Hang        string          `json:"hang"`        // first /repo frame of the stuck executor goroutine
	HangDetail  string          `json:"hang_detail"` // the blocked goroutines
	Perturbed   []c25Perturbed  `json:"perturbed"`   // sequential interleaving: runs that differ from the query-free run
	LockLeaks   []string        `json:"lock_leaks"`
	SeqRuns     int             `json:"seq_runs"`
	PanicsSoFar []c25QueryPanic `json:"panics_so_far"` // handler panics recorded while the run was going on
	SeqCalls    map[string]int  `json:"seq_calls"`
	Done        bool            `json:"done"`
}

// pollCtx: a context whose Done() channel closes at the k-th time somebody asks for it: the handlers and the
// state methods poll ctx.Done() in selects (checkTimeout, swapPools, getFromTo), so the cancellation lands at a
// chosen poll, e.g. inside the loop over the pool registry.
type pollCtx struct {
	context.Context
	left int32
	ch   chan struct{}
	once sync.Once
}

func (c *pollCtx) Done() <-chan struct{} {
	if atomic.AddInt32(&c.left, -1) <= 0 {
		c.once.Do(func() { close(c.ch) })
	}
	return c.ch
}

func (c *pollCtx) Err() error {
	select {
	case <-c.ch:
		return context.Canceled
	default:
		return nil
	}
}

// c25Ctx: the context of one request: usually alive for the whole call; sometimes cancelled before the call,
// after a few microseconds, or at its k-th poll (a client that goes away, a request timeout).  Whatever the
// handler does with it, it must leave the state usable: block execution goes on (watchdog).
func c25Ctx(r *Rng) (context.Context, context.CancelFunc) {
	switch x := r.Intn(20); {
	case x < 12:
		return context.WithTimeout(context.Background(), 5*time.Second)
	case x < 14:
		ctx, cancel := context.WithCancel(context.Background())
		cancel()
		return ctx, cancel
	case x < 17:
		return context.WithTimeout(context.Background(), time.Duration(r.Intn(300))*time.Microsecond)
	}
	return &pollCtx{Context: context.Background(), left: int32(1 + r.Intn(12)), ch: make(chan struct{})}, func() {}
}

type c25Perturbed struct {
	Handler  string `json:"handler"`
	Variant  string `json:"variant"`  // "fresh" or "restarted before block index k"
	Position string `json:"position"` // where the handler was first called
	Diff     string `json:"diff"`
}

func c25Spec(r *Rng) *GenesisSpec {
	return &GenesisSpec{NAccounts: 6 + r.Intn(4), Balance: pip(100000000), NVals: 3 + r.Intn(2), ExtraCands: 1 + r.Intn(2)}
}

func c25GenOpts(r *Rng) *genOpts {
	return &genOpts{Blocks: 18 + r.Intn(8), TxPerBlock: 6, Absences: true,
		Weights: map[string]int{"send": 5, "multisend": 1, "createcoin": 3, "createtoken": 4, "sellcoin": 2, "buycoin": 2, "mint": 1, "burn": 1,
			"declare": 2, "delegate": 5, "unbond": 3, "move": 1, "lock": 1, "candon": 1, "candoff": 1, "createpool": 7, "addliq": 3, "remliq": 2,
			"sellpool": 7, "buypool": 5, "sellallpool": 2, "addorder": 9, "remorder": 4, "redeem": 1, "editcand": 1, "multisig": 1}}
}

// ---- the query pool ------------------------------------------------------------------------

type c25Targets struct {
	Addrs  []string
	Coins  []uint64
	Syms   []string
	Pools  [][2]uint64
	Orders []uint64
	Cands  []string
	H0     uint64
}

type c25Pool struct {
	svc     *service.Service
	node    *Node
	tg      *c25Targets
	stop    int32
	wg      sync.WaitGroup
	mu      sync.Mutex
	queries map[string]int
	errs    map[string]int
	panics  map[string]c25QueryPanic
	height  int64 // last committed height, published by the executor thread
	res     *c25Result
}

// firstRepoFrame returns the first frame below /repo of a stack dump (file:line, relative).
func firstRepoFrame(stack string) string {
	for _, l := range strings.Split(stack, "\n") {
		if i := strings.Index(l, c25RepoMarker); i >= 0 {
			f := strings.TrimSpace(l[i+len(c25RepoMarker):])
			if j := strings.Index(f, " +0x"); j > 0 {
				f = f[:j]
			}
			return f
		}
	}
	return "?"
}

func (p *c25Pool) call(kind string, f func() error) {
	defer func() {
		if r := recover(); r != nil {
			st := string(debug.Stack())
			fr := firstRepoFrame(st)
			k := "c25-query-panic:" + fr
			p.mu.Lock()
			_, seen := p.panics[k]
			if !seen {
				p.panics[k] = c25QueryPanic{Key: k, What: fmt.Sprintf("query %s panicked: %v", kind, r), Stack: stackRepoFrames(st, 10)}
			}
			rec := p.panics[k]
			p.mu.Unlock()
			if !seen && p.res != nil {
				// recorded at once: if the run hangs later (a mutex left locked by this panic), the dump shows it
				c25ResMu.Lock()
				p.res.PanicsSoFar = append(p.res.PanicsSoFar, rec)
				c25ResMu.Unlock()
			}
		}
	}()
	err := f()
	c25ResMu.Lock() // the counters are part of the result record
	p.queries[kind]++
	if err != nil {
		p.errs[kind]++
	}
	c25ResMu.Unlock()
}

func stackRepoFrames(stack string, max int) string {
	var out []string
	for _, l := range strings.Split(stack, "\n") {
		if i := strings.Index(l, c25RepoMarker); i >= 0 {
			f := strings.TrimSpace(l[i+len(c25RepoMarker):])
			if j := strings.Index(f, " +0x"); j > 0 {
				f = f[:j]
			}
			out = append(out, f)
			if len(out) >= max {
				break
			}
		}
	}
	return strings.Join(out, " <- ")
}

func pick(r *Rng, n int) int {
	if n <= 0 {
		return 0
	}
	return r.Intn(n)
}

// one query, chosen by the goroutine's own generator; every request is for the CURRENT state
// (Height 0), except the "historical" kind, which asks for the last committed height.
func (p *c25Pool) one(r *Rng) {
	tg := p.tg
	ctx, cancel := c25Ctx(r)
	defer cancel()
	addr := tg.Addrs[pick(r, len(tg.Addrs))]
	coin := tg.Coins[pick(r, len(tg.Coins))]
	coin2 := tg.Coins[pick(r, len(tg.Coins))]
	amount := new(big.Int).Add(r.BigBelow(pip(1000)), Z(1000000)).String()
	switch r.Intn(24) {
	case 0:
		p.call("address", func() error {
			_, e := p.svc.Address(ctx, &pb.AddressRequest{Address: addr, Delegated: r.Bool()})
			return e
		})
	case 1:
		p.call("addresses", func() error {
			_, e := p.svc.Addresses(ctx, &pb.AddressesRequest{Addresses: tg.Addrs, Delegated: r.Intn(3) == 0})
			return e
		})
	case 2:
		p.call("candidates", func() error {
			_, e := p.svc.Candidates(ctx, &pb.CandidatesRequest{IncludeStakes: r.Bool(), NotShowStakes: r.Intn(4) == 0})
			return e
		})
	case 3:
		p.call("candidate", func() error {
			_, e := p.svc.Candidate(ctx, &pb.CandidateRequest{PublicKey: tg.Cands[pick(r, len(tg.Cands))]})
			return e
		})
	case 4:
		p.call("coin_info", func() error {
			if len(tg.Syms) > 0 && r.Bool() {
				_, e := p.svc.CoinInfo(ctx, &pb.CoinInfoRequest{Symbol: tg.Syms[pick(r, len(tg.Syms))]})
				return e
			}
			_, e := p.svc.CoinInfoById(ctx, &pb.CoinIdRequest{Id: coin})
			return e
		})
	case 5, 6:
		p.call("swap_pool", func() error {
			if len(tg.Pools) > 0 && r.Intn(4) != 0 {
				pl := tg.Pools[pick(r, len(tg.Pools))]
				_, e := p.svc.SwapPool(ctx, &pb.SwapPoolRequest{Coin0: pl[0], Coin1: pl[1]})
				return e
			}
			// a pair that may not exist (yet): Pair() caches the negative answer in the registry
			_, e := p.svc.SwapPool(ctx, &pb.SwapPoolRequest{Coin0: coin, Coin1: coin2})
			return e
		})
	case 7:
		p.call("swap_pools", func() error {
			_, e := p.svc.SwapPools(ctx, &pb.SwapPoolsRequest{Orders: r.Bool()})
			return e
		})
	case 8:
		p.call("swap_pool_provider", func() error {
			if len(tg.Pools) == 0 {
				return nil
			}
			pl := tg.Pools[pick(r, len(tg.Pools))]
			_, e := p.svc.SwapPoolProvider(ctx, &pb.SwapPoolProviderRequest{Coin0: pl[0], Coin1: pl[1], Provider: addr})
			return e
		})
	case 9, 10, 11:
		p.call("best_trade", func() error {
			typ := pb.BestTradeRequest_input
			if r.Bool() {
				typ = pb.BestTradeRequest_output
			}
			_, e := p.svc.BestTrade(ctx, &pb.BestTradeRequest{SellCoin: coin, BuyCoin: coin2, Amount: amount, Type: typ, MaxDepth: int32(1 + r.Intn(4))})
			return e
		})
	case 12, 13:
		p.call("estimate_coin_sell", func() error {
			_, e := p.svc.EstimateCoinSell(ctx, &pb.EstimateCoinSellRequest{Buy: &pb.EstimateCoinSellRequest_CoinIdToBuy{CoinIdToBuy: coin2},
				Sell: &pb.EstimateCoinSellRequest_CoinIdToSell{CoinIdToSell: coin}, ValueToSell: amount, SwapFrom: pb.SwapFrom(r.Intn(3)),
				Commission: &pb.EstimateCoinSellRequest_CoinIdCommission{CoinIdCommission: tg.Coins[pick(r, len(tg.Coins))]}})
			return e
		})
	case 14:
		p.call("estimate_coin_buy", func() error {
			_, e := p.svc.EstimateCoinBuy(ctx, &pb.EstimateCoinBuyRequest{Buy: &pb.EstimateCoinBuyRequest_CoinIdToBuy{CoinIdToBuy: coin2},
				Sell: &pb.EstimateCoinBuyRequest_CoinIdToSell{CoinIdToSell: coin}, ValueToBuy: amount, SwapFrom: pb.SwapFrom(r.Intn(3)),
				Commission: &pb.EstimateCoinBuyRequest_CoinIdCommission{CoinIdCommission: tg.Coins[pick(r, len(tg.Coins))]}})
			return e
		})
	case 15:
		p.call("estimate_coin_sell_all", func() error {
			_, e := p.svc.EstimateCoinSellAll(ctx, &pb.EstimateCoinSellAllRequest{Buy: &pb.EstimateCoinSellAllRequest_CoinIdToBuy{CoinIdToBuy: coin2},
				Sell: &pb.EstimateCoinSellAllRequest_CoinIdToSell{CoinIdToSell: coin}, ValueToSell: amount, GasPrice: 1, SwapFrom: pb.SwapFrom(r.Intn(3))})
			return e
		})
	case 16:
		p.call("limit_orders", func() error {
			if len(tg.Pools) > 0 && r.Bool() {
				pl := tg.Pools[pick(r, len(tg.Pools))]
				a, b := pl[0], pl[1]
				if r.Bool() {
					a, b = b, a
				}
				_, e := p.svc.LimitOrdersOfPool(ctx, &pb.LimitOrdersOfPoolRequest{SellCoin: a, BuyCoin: b, Limit: int32(1 + r.Intn(20))})
				return e
			}
			ids := []uint64{uint64(1 + r.Intn(40)), uint64(1 + r.Intn(40)), uint64(1 + r.Intn(40))}
			_, e := p.svc.LimitOrders(ctx, &pb.LimitOrdersRequest{Ids: ids})
			return e
		})
	case 17:
		p.call("limit_order", func() error {
			_, e := p.svc.LimitOrder(ctx, &pb.LimitOrderRequest{OrderId: uint64(1 + r.Intn(40))})
			return e
		})
	case 18:
		p.call("frozen", func() error {
			if r.Bool() {
				_, e := p.svc.Frozen(ctx, &pb.FrozenRequest{Address: addr, CoinId: wrapperspb.UInt64(coin)})
				return e
			}
			h := uint64(atomic.LoadInt64(&p.height))
			_, e := p.svc.FrozenAll(ctx, &pb.FrozenAllRequest{StartHeight: h, EndHeight: h + 40})
			return e
		})
	case 19:
		p.call("waitlist", func() error {
			_, e := p.svc.WaitList(ctx, &pb.WaitListRequest{Address: addr})
			return e
		})
	case 20:
		p.call("misc", func() error {
			p.svc.PriceCommission(ctx, &pb.PriceCommissionRequest{})
			p.svc.CommissionVotes(ctx, &pb.CommissionVotesRequest{TargetVersion: 1})
			p.svc.UpdateVotes(ctx, &pb.UpdateVotesRequest{TargetVersion: 1})
			p.svc.MaxGasPrice(ctx, &pb.MaxGasPriceRequest{})
			_, e := p.svc.MissedBlocks(ctx, &pb.MissedBlocksRequest{PublicKey: tg.Cands[pick(r, len(tg.Cands))]})
			// what Status / the CLI dashboard read from the application
			app := p.node.App
			app.GetEmission()
			app.Height()
			app.UpdateVersions()
			app.GetVersionHeight("v330")
			app.InitialHeight()
			app.CurrentState().App().GetTotalSlashed()
			app.Info(abciInfo)
			return e
		})
	case 21:
		// the production form of a state export: a private CheckState at the committed height
		// (State.Export / `minter export`), here concurrent with block execution
		p.call("export", func() error {
			p.node.App.VerifStateDeliver().Export()
			return nil
		})
	case 22:
		// a historical request (Height != 0): a private state, with the Load* calls of the handlers
		p.call("historical", func() error {
			h := uint64(atomic.LoadInt64(&p.height))
			if h == 0 {
				return nil
			}
			_, e := p.svc.Address(ctx, &pb.AddressRequest{Address: addr, Height: h, Delegated: true})
			if r.Bool() {
				_, e = p.svc.Candidates(ctx, &pb.CandidatesRequest{Height: h, IncludeStakes: true})
			}
			return e
		})
	default:
		p.call("estimate_tx_commission", func() error {
			// a Send of 1 pip from the first account, any gas coin
			raw := p.node.MkTx(p.node.Accts[0], transaction.TypeSend, transaction.SendData{Coin: 0, To: p.node.Accts[1].Addr, Value: Z(1)}, types.CoinID(coin), 1, 1, nil)
			_, e := p.svc.EstimateTxCommission(ctx, &pb.EstimateTxCommissionRequest{Tx: fmt.Sprintf("%x", raw)})
			return e
		})
	}
}

func (p *c25Pool) start(k int, seed uint64) {
	for g := 0; g < k; g++ {
		p.wg.Add(1)
		go func(g int) {
			defer p.wg.Done()
			r := NewRng(seed ^ uint64(0x9e3779b9*(g+1)))
			for atomic.LoadInt32(&p.stop) == 0 {
				p.one(r)
			}
		}(g)
	}
}

func (p *c25Pool) halt() {
	atomic.StoreInt32(&p.stop, 1)
	p.wg.Wait()
}

func c25TargetsOf(n *Node, w *World) *c25Targets {
	tg := &c25Targets{H0: uint64(InitialHeight)}
	for _, a := range n.Accts {
		tg.Addrs = append(tg.Addrs, a.Addr.String())
	}
	// an address nobody funds and the zero address (rewards surplus)
	tg.Addrs = append(tg.Addrs, mkAcct(4242).Addr.String(), types.Address{}.String())
	seen := map[uint64]bool{}
	for _, c := range w.Coins {
		if !seen[uint64(c)] {
			seen[uint64(c)] = true
			tg.Coins = append(tg.Coins, uint64(c))
		}
	}
	// ids that do not exist yet when the replay starts
	for i := uint64(1); i <= uint64(len(w.Coins))+3; i++ {
		if !seen[i] {
			seen[i] = true
			tg.Coins = append(tg.Coins, i)
		}
	}
	for i := 1; i <= w.Symbols; i++ {
		tg.Syms = append(tg.Syms, fmt.Sprintf("VRF%05d", i))
	}
	tg.Syms = append(tg.Syms, "BIP", "NOSUCHCOIN")
	for _, pl := range w.Pools {
		tg.Pools = append(tg.Pools, [2]uint64{uint64(pl[0]), uint64(pl[1])})
	}
	for _, c := range w.Cands {
		tg.Cands = append(tg.Cands, c.String())
	}
	return tg
}

// ---- child ---------------------------------------------------------------------------------------

// c25Watchdog: block execution that makes no progress for `limit` is a deadlock between the executor
// and a query; the goroutine dump names the two lock sites.  Returns a stop function.
func c25Watchdog(progress *int64, limit time.Duration, res *c25Result, save func()) func() {
	done := make(chan struct{})
	go func() {
		last, since := atomic.LoadInt64(progress), time.Now()
		for {
			select {
			case <-done:
				return
			case <-time.After(200 * time.Millisecond):
			}
			cur := atomic.LoadInt64(progress)
			if cur != last {
				last, since = cur, time.Now()
				continue
			}
			if time.Since(since) < limit {
				continue
			}
			buf := make([]byte, 1<<22)
			buf = buf[:runtime.Stack(buf, true)]
			exec, firstBlocked, detail := "", "", []string{}
			for _, g := range strings.Split(string(buf), "\n\n") {
				hdr := g
				if i := strings.Index(g, "\n"); i > 0 {
					hdr = g[:i]
				}
				blocked := strings.Contains(hdr, "Lock]") || strings.Contains(hdr, "semacquire")
				if strings.Contains(g, "main.(*Node).Block") {
					exec = firstRepoFrame(g)
					detail = append([]string{"EXECUTOR " + hdr + " " + stackRepoFrames(g, 6)}, detail...)
				} else if blocked && strings.Contains(g, c25RepoMarker) {
					if firstBlocked == "" {
						firstBlocked = firstRepoFrame(g)
					}
					detail = append(detail, "BLOCKED "+hdr+" "+stackRepoFrames(g, 6))
				}
			}
			c25ResMu.Lock()
			res.Hang = exec
			if res.Hang == "" {
				res.Hang = firstBlocked // the executor is not stuck in a block: goroutines block each other
			}
			if res.Hang == "" {
				res.Hang = "?"
			}
			res.HangDetail = strings.Join(detail, "\n")
			c25ResMu.Unlock()
			save()
			os.Exit(3)
		}
	}()
	return func() { close(done) }
}

func c25CountTxs(res *HistResult) (txs, ok int) {
	for _, b := range res.Results {
		for _, t := range b {
			txs++
			if t.Code == 0 {
				ok++
			}
		}
	}
	return
}

func runC25Child(seed uint64, stats string, mode string) {
	os.Setenv("C25_RESULT_FILE", stats)
	res := &c25Result{Seed: seed, Mode: mode, Race: raceEnabled, Queries: map[string]int{}, QueryErrors: map[string]int{}}
	save := func() {
		c25ResMu.Lock()
		b, _ := json.MarshalIndent(res, "", " ")
		c25ResMu.Unlock()
		os.WriteFile(stats, b, 0644)
	}
	save()
	if mode == "lockleak" {
		c25LockLeak(seed, res)
		res.Done = true
		save()
		return
	}
	if mode == "seq" {
		c25Sequential(seed, res, save)
		res.Done = true
		save()
		return
	}
	if mode == "firsttouch-restart" {
		// all the caches that are cold only after a restart, a few rounds each
		for _, kind := range c25RestartKinds {
			c25FirstTouchRestart(seed, res, kind, 6)
			save()
		}
		res.Done = true
		save()
		return
	}
	if strings.HasPrefix(mode, "firsttouch-") {
		c25FirstTouchRestart(seed, res, strings.TrimPrefix(mode, "firsttouch-"), 14)
		res.Done = true
		save()
		return
	}
	if mode == "firsttouch" {
		c25FirstTouch(seed, res)
		res.Done = true
		save()
		return
	}
	r := NewRng(seed)
	spec := c25Spec(r)
	g := c25GenOpts(r)
	h, alone, w := genHistory(seed, spec, g)
	res.Blocks = len(h.Blocks)
	res.Txs, res.Accepted = c25CountTxs(alone)
	res.Types = w.TypeDist
	res.Pools, res.Orders, res.Candidates = len(w.Pools), len(w.Orders), len(w.Cands)
	res.AlonePanics = alone.Panics
	save()

	// the loaded replay
	n := newNode(h.Spec)
	pool := &c25Pool{node: n, tg: c25TargetsOf(n, w), queries: res.Queries, errs: res.QueryErrors, panics: map[string]c25QueryPanic{}, res: res}
	pool.svc = service.NewService(n.App, nil, nil, n.Cfg, "verif", n.App.RewardCounter())
	atomic.StoreInt64(&pool.height, n.Height)
	var progress int64
	limit := 5 * time.Second
	if raceEnabled {
		limit = 10 * time.Second
	}
	stopWatch := c25Watchdog(&progress, limit, res, save)
	pool.start(4, seed)
	loaded := &HistResult{}
	for _, b := range h.Blocks {
		opts := b.Opts
		opts.PreTx = func(int, []byte) { atomic.AddInt64(&progress, 1) }
		atomic.AddInt64(&progress, 1)
		br := n.Block(b.Txs, &opts)
		loaded.Hashes = append(loaded.Hashes, br.Hash)
		loaded.Results = append(loaded.Results, br.Txs)
		loaded.Updates = append(loaded.Updates, fmtUpdates(br))
		if br.Panic != "" {
			st := ""
			if len(n.Stacks) > 0 {
				st = " STACK " + n.Stacks[len(n.Stacks)-1]
			}
			loaded.Panics = append(loaded.Panics, br.Panic+st)
			break
		}
		loaded.Emissions = append(loaded.Emissions, n.App.VerifAppDB().Emission().String())
		atomic.StoreInt64(&pool.height, n.Height)
	}
	// the queries still running must finish too (the watchdog stays armed: no progress = they block each other)
	atomic.AddInt64(&progress, 1)
	pool.halt()
	stopWatch()
	n.Cleanup()
	res.ExecPanics = loaded.Panics
	for _, k := range sortedPanicKeys(pool.panics) {
		res.QueryPanics = append(res.QueryPanics, pool.panics[k])
	}
	alone.Emissions = alone.Emissions[:minInt(len(alone.Emissions), len(loaded.Emissions))]
	res.Diff = diffRuns(alone, loaded)
	if res.Diff != "" {
		// is the replay itself faithful?  (without load)
		pure, n2 := runRecorded(h, &execOpts{})
		n2.Cleanup()
		res.ReplayDiff = diffRuns(alone, pure)
	}
	res.Done = true
	save()
}

func sortedPanicKeys(m map[string]c25QueryPanic) []string {
	var k []string
	for s := range m {
		k = append(k, s)
	}
	sort.Strings(k)
	return k
}

// c25FirstTouch: the targeted scenario for the non-atomic cache fill (Coq: C25_memo_nonatomic_refuted).
// Every transaction sends coins to an address no cache has seen; right before its delivery the query
// goroutines are told the recipient and ask for its balance (the Address handler) after a random short
// delay, so that some of them miss in the cache while the executor creates and credits the account.
// Afterwards the recipient's balance must be what was sent.
func c25FirstTouch(seed uint64, res *c25Result) {
	r := NewRng(seed)
	spec := &GenesisSpec{NAccounts: 8, Balance: pip(100000000), NVals: 3}
	n := newNode(spec)
	defer n.Cleanup()
	svc := service.NewService(n.App, nil, nil, n.Cfg, "verif", n.App.RewardCounter())
	var target atomic.Value
	target.Store("")
	var gen int64
	var stop int32
	var wg sync.WaitGroup
	spinMax := 400 // microseconds
	if raceEnabled {
		spinMax = 4000
	}
	for g := 0; g < 6; g++ {
		wg.Add(1)
		go func(g int) {
			defer wg.Done()
			rr := NewRng(seed ^ uint64(7777*(g+1)))
			last := int64(0)
			for atomic.LoadInt32(&stop) == 0 {
				cur := atomic.LoadInt64(&gen)
				if cur == last {
					runtime.Gosched()
					continue
				}
				last = cur
				a := target.Load().(string)
				d := time.Duration(rr.Intn(spinMax)) * time.Microsecond
				for t0 := time.Now(); time.Since(t0) < d; {
				}
				func() {
					defer func() { recover() }()
					svc.Address(context.Background(), &pb.AddressRequest{Address: a})
				}()
			}
		}(g)
	}
	blocks, perBlock := 15, 8
	k := 0
	var progress int64
	limit := 5 * time.Second
	if raceEnabled {
		limit = 10 * time.Second
	}
	stopWatch := c25Watchdog(&progress, limit, res, func() {
		c25ResMu.Lock()
		b, _ := json.MarshalIndent(res, "", " ")
		c25ResMu.Unlock()
		os.WriteFile(os.Getenv("C25_RESULT_FILE"), b, 0644)
	})
	defer stopWatch()
	for b := 0; b < blocks; b++ {
		atomic.AddInt64(&progress, 1)
		var txs [][]byte
		var to []types.Address
		var amt []*big.Int
		for i := 0; i < perBlock; i++ {
			k++
			rcpt := mkAcct(100000 + int(seed%1000)*1000 + k).Addr
			v := new(big.Int).Add(r.BigBelow(pip(10)), Z(1))
			snd := n.Accts[i%len(n.Accts)]
			txs = append(txs, n.MkTx(snd, transaction.TypeSend, transaction.SendData{Coin: 0, To: rcpt, Value: v}, 0, 0, 1, nil))
			to = append(to, rcpt)
			amt = append(amt, v)
		}
		br := n.Block(txs, &BlockOpts{PreTx: func(i int, raw []byte) {
			atomic.AddInt64(&progress, 1)
			target.Store(to[i].String())
			atomic.AddInt64(&gen, 1)
		}})
		if br.Panic != "" {
			c25ResMu.Lock()
			res.ExecPanics = append(res.ExecPanics, br.Panic)
			c25ResMu.Unlock()
			break
		}
		for i := range to {
			c25ResMu.Lock()
			res.FirstTouch++
			c25ResMu.Unlock()
			if i < len(br.Txs) && br.Txs[i].Code == 0 {
				got := n.App.CurrentState().Accounts().GetBalance(to[i], 0)
				if got.Cmp(amt[i]) != 0 {
					c25ResMu.Lock()
					res.LostUpdates = append(res.LostUpdates, fmt.Sprintf("height %d: Send of %s pip to fresh address %s accepted (code 0), balance after the block is %s", n.Height, amt[i], to[i].String(), got))
					c25ResMu.Unlock()
				}
			}
		}
	}
	atomic.StoreInt32(&stop, 1)
	wg.Wait()
}

// c25FirstTouchRestart: the same race for the caches that are only cold after a restart (their keys exist
// in the committed tree): every round restarts the node, then delivers transactions whose FIRST access to
// a cached object is a mutation, while a query for that object is served.
//
//		frozen: Lock transactions to a due block that already holds committed funds (FrozenFunds.AddFund ->
//		        GetOrNew(height).addFund) against the Frozen handler (GetFrozenFunds(height) for every height of
//		        the unbond window); afterwards the funds at that height must be all the accepted locks.
//		coins:  MintToken against CoinInfoById; afterwards the token volume must be the sum of the accepted mints.
//		waitlist: Unbond of a part of a waitlisted stake (genesis waitlist) against the WaitList handler; afterwards
//		        the waitlisted value must be what is left.
//
//	  balances: Send to an account that already holds a committed balance of the coin and never sends itself
//	          (accounts 8..15) against the Address handler (GetBalances -> GetBalance per coin: the per-coin balance
//	          cache of the account is cold after the restart); afterwards the balance must be the genesis balance
//	          plus the accepted sends.
//	  symbolinfo: EditCoinOwner against CoinInfoById (GetSymbolInfo); afterwards the ticker owner must be the new one.
//	  symbols: RecreateToken against CoinInfo by symbol (GetCoinBySymbol); afterwards the ticker must resolve to the new coin.
//
// Every mismatch is confirmed on a private state opened at the committed height (what the tree holds).
var c25RestartKinds = []string{"frozen", "coins", "waitlist", "symbolinfo", "symbols", "balances"}

// c25LostKey: the finding key of a lost update found by the restart scenario of the given kind
var c25LostKey = map[string]string{"frozen": "c25-lost-update:frozenfunds", "coins": "c25-lost-update:coins", "waitlist": "c25-lost-update:waitlist",
	"symbolinfo": "c25-lost-update:coins.symbolinfo", "symbols": "c25-lost-update:coins.symbols", "balances": "c25-lost-update:accounts.balance"}

func c25FirstTouchRestart(seed uint64, res *c25Result, kind string, rounds int) {
	r := NewRng(seed)
	spec := &GenesisSpec{NAccounts: 8, Balance: pip(100000000), NVals: 3}
	if kind == "balances" {
		spec.NAccounts = 16
	}
	if kind == "waitlist" {
		spec.Mutate = func(st *types.AppState) {
			for _, a := range st.Accounts {
				st.Waitlist = append(st.Waitlist, types.Waitlist{CandidateID: 1, Owner: a.Address, Coin: 0, Value: pip(1000).String()})
			}
		}
	}
	n := newNode(spec)
	defer n.Cleanup()
	var progress int64
	limit := 5 * time.Second
	if raceEnabled {
		limit = 10 * time.Second
	}
	stopWatch := c25Watchdog(&progress, limit, res, func() {
		c25ResMu.Lock()
		b, _ := json.MarshalIndent(res, "", " ")
		c25ResMu.Unlock()
		os.WriteFile(os.Getenv("C25_RESULT_FILE"), b, 0644)
	})
	defer stopWatch()
	spinMax := 300 // microseconds
	if raceEnabled {
		spinMax = 3000
	}
	K := 8
	// setup
	due := make([]uint32, K)        // frozen: the due block of account k
	expected := make([]*big.Int, K) // frozen: sum locked at due[k]; coins: volume of token k
	count := make([]int, K)         // frozen: number of funds at due[k]
	tokens := make([]types.CoinID, K)
	syms := make([]types.CoinSymbol, K)
	owner := make([]int, K) // symbolinfo/symbols: index of the account owning ticker k
	{
		var txs [][]byte
		for k := 0; k < K; k++ {
			expected[k] = big.NewInt(0)
			if kind == "frozen" {
				due[k] = uint32(n.Height) + 150 + uint32(k)
				v := pip(int64(1 + r.Intn(5)))
				txs = append(txs, n.MkTx(n.Accts[k], transaction.TypeLock, transaction.LockData{DueBlock: due[k], Coin: 0, Value: v}, 0, 0, 1, nil))
				expected[k].Add(expected[k], v)
				count[k]++
			} else if kind == "balances" {
				expected[k] = new(big.Int).Set(spec.Balance)
				txs = append(txs, n.MkTx(n.Accts[k], transaction.TypeSend, transaction.SendData{Coin: 0, To: n.Accts[(k+1)%K].Addr, Value: Z(1)}, 0, 0, 1, nil))
			} else if kind == "waitlist" {
				expected[k] = pip(1000)
				// (a transaction per account, so that the setup block is the same for every kind)
				txs = append(txs, n.MkTx(n.Accts[k], transaction.TypeSend, transaction.SendData{Coin: 0, To: n.Accts[(k+1)%K].Addr, Value: Z(1)}, 0, 0, 1, nil))
			} else {
				var sym types.CoinSymbol
				copy(sym[:], []byte(fmt.Sprintf("FTC%05d", k)))
				syms[k], owner[k] = sym, k
				amt := pip(1000)
				txs = append(txs, n.MkTx(n.Accts[k], transaction.TypeCreateToken, transaction.CreateTokenData{Name: "t", Symbol: sym, InitialAmount: amt,
					MaxSupply: new(big.Int).Mul(amt, Z(1000000)), Mintable: true, Burnable: true}, 0, 0, 1, nil))
				expected[k].Add(expected[k], amt)
			}
		}
		br := n.Block(txs, nil)
		for k, t := range br.Txs {
			if t.Code != 0 {
				c25ResMu.Lock()
				res.ExecPanics = append(res.ExecPanics, fmt.Sprintf("first-touch setup transaction %d rejected: code %d %s", k, t.Code, t.Log))
				c25ResMu.Unlock()
				return
			}
			if kind == "coins" || kind == "symbolinfo" || kind == "symbols" {
				var id int
				fmt.Sscan(t.Tags["tx.coin_id"], &id)
				tokens[k] = types.CoinID(id)
			}
		}
	}
	for round := 0; round < rounds; round++ {
		atomic.AddInt64(&progress, 1)
		n.Restart() // every cache is cold again
		svc := service.NewService(n.App, nil, nil, n.Cfg, "verif", n.App.RewardCounter())
		var target, gen int64
		var stop int32
		var wg sync.WaitGroup
		nq := 3
		if os.Getenv("C25_NOQUERY") != "" {
			nq = 0 // calibration: the same scenario without any query must report nothing
		}
		for g := 0; g < nq; g++ {
			wg.Add(1)
			go func(g int) {
				defer wg.Done()
				rr := NewRng(seed ^ uint64(977*(round+1)+g))
				last := int64(0)
				for atomic.LoadInt32(&stop) == 0 {
					cur := atomic.LoadInt64(&gen)
					if cur == last {
						runtime.Gosched()
						continue
					}
					last = cur
					k := int(atomic.LoadInt64(&target))
					d := time.Duration(rr.Intn(spinMax)) * time.Microsecond
					for t0 := time.Now(); time.Since(t0) < d; {
					}
					func() {
						defer func() { recover() }()
						if kind == "frozen" {
							svc.Frozen(context.Background(), &pb.FrozenRequest{Address: n.Accts[k].Addr.String()})
						} else if kind == "balances" {
							svc.Address(context.Background(), &pb.AddressRequest{Address: n.Accts[K+k].Addr.String()})
						} else if kind == "waitlist" {
							svc.WaitList(context.Background(), &pb.WaitListRequest{Address: n.Accts[k].Addr.String()})
						} else if kind == "symbols" {
							svc.CoinInfo(context.Background(), &pb.CoinInfoRequest{Symbol: syms[k].String()})
						} else {
							svc.CoinInfoById(context.Background(), &pb.CoinIdRequest{Id: uint64(tokens[k])})
						}
					}()
				}
			}(g)
		}
		var txs [][]byte
		vals := make([]*big.Int, K)
		for k := 0; k < K; k++ {
			vals[k] = new(big.Int).Add(r.BigBelow(pip(3)), Z(1))
			if kind == "frozen" {
				txs = append(txs, n.MkTx(n.Accts[k], transaction.TypeLock, transaction.LockData{DueBlock: due[k], Coin: 0, Value: vals[k]}, 0, 0, 1, nil))
			} else if kind == "balances" {
				txs = append(txs, n.MkTx(n.Accts[k], transaction.TypeSend, transaction.SendData{Coin: 0, To: n.Accts[K+k].Addr, Value: vals[k]}, 0, 0, 1, nil))
			} else if kind == "waitlist" {
				txs = append(txs, n.MkTx(n.Accts[k], transaction.TypeUnbond, transaction.UnbondDataV3{PubKey: n.Vals[0].Pub, Coin: 0, Value: vals[k]}, 0, 0, 1, nil))
			} else if kind == "symbolinfo" {
				// the ticker goes to the next account; the sender of transaction k is account k only in round 0,
				// so every account signs exactly one transaction per block
				txs = append(txs, n.MkTx(n.Accts[owner[k]], transaction.TypeEditCoinOwner, transaction.EditCoinOwnerData{Symbol: syms[k], NewOwner: n.Accts[(owner[k]+1)%K].Addr}, 0, 0, 1, nil))
			} else if kind == "symbols" {
				txs = append(txs, n.MkTx(n.Accts[k], transaction.TypeRecreateToken, transaction.RecreateTokenData{Name: "r", Symbol: syms[k], InitialAmount: pip(1000),
					MaxSupply: pip(1000000), Mintable: true, Burnable: true}, 0, 0, 1, nil))
			} else {
				txs = append(txs, n.MkTx(n.Accts[k], transaction.TypeMintToken, transaction.MintTokenData{Coin: tokens[k], Value: vals[k]}, 0, 0, 1, nil))
			}
		}
		br := n.Block(txs, &BlockOpts{PreTx: func(i int, raw []byte) {
			atomic.AddInt64(&progress, 1)
			atomic.StoreInt64(&target, int64(i))
			atomic.AddInt64(&gen, 1)
		}})
		atomic.StoreInt32(&stop, 1)
		wg.Wait()
		if br.Panic != "" {
			c25ResMu.Lock()
			res.ExecPanics = append(res.ExecPanics, br.Panic)
			c25ResMu.Unlock()
			return
		}
		for k := 0; k < K && k < len(br.Txs); k++ {
			c25ResMu.Lock()
			res.FirstTouch++
			c25ResMu.Unlock()
			if br.Txs[k].Code != 0 {
				continue
			}
			if kind == "symbolinfo" || kind == "symbols" {
				live := n.App.CurrentState()
				cs, err := n.App.GetStateForHeight(uint64(n.Height))
				if kind == "symbolinfo" {
					want := n.Accts[(owner[k]+1)%K].Addr
					owner[k] = (owner[k] + 1) % K
					got := live.Coins().GetSymbolInfo(syms[k]).OwnerAddress()
					committed := "?"
					if err == nil {
						committed = cs.Coins().GetSymbolInfo(syms[k]).OwnerAddress().String()
					}
					if got == nil || *got != want || committed != want.String() {
						c25ResMu.Lock()
						res.LostUpdates = append(res.LostUpdates, kind+"|"+fmt.Sprintf("height %d (round %d after a restart): EditCoinOwner of %s to %s accepted (code 0); the owner is %v (committed tree: %s)", n.Height, round, syms[k].String(), want.String(), got, committed))
						c25ResMu.Unlock()
						// continue with whoever owns the ticker now
						for i := range n.Accts {
							if got != nil && n.Accts[i].Addr == *got {
								owner[k] = i
							}
						}
					}
				} else {
					var id int
					fmt.Sscan(br.Txs[k].Tags["tx.coin_id"], &id)
					got := live.Coins().GetCoinBySymbol(syms[k], 0)
					committed := "?"
					if err == nil {
						if c := cs.Coins().GetCoinBySymbol(syms[k], 0); c != nil {
							committed = c.ID().String()
						} else {
							committed = "none"
						}
					}
					if got == nil || int(got.ID()) != id || committed != fmt.Sprint(id) {
						gotID := "none"
						if got != nil {
							gotID = got.ID().String()
						}
						c25ResMu.Lock()
						res.LostUpdates = append(res.LostUpdates, kind+"|"+fmt.Sprintf("height %d (round %d after a restart): RecreateToken of %s accepted (code 0) as coin %d; the ticker resolves to coin %s (committed tree: %s)", n.Height, round, syms[k].String(), id, gotID, committed))
						c25ResMu.Unlock()
					}
				}
				continue
			}
			if kind == "waitlist" {
				expected[k].Sub(expected[k], vals[k])
			} else {
				expected[k].Add(expected[k], vals[k])
			}
			count[k]++
			// read the object from the live state and from a private state opened at the committed height
			read := func(frozenOf func(uint64) []*big.Int, volumeOf func(types.CoinID) *big.Int, waitOf func(types.Address) *big.Int) *big.Int {
				switch kind {
				case "frozen":
					t := big.NewInt(0)
					for _, v := range frozenOf(uint64(due[k])) {
						t.Add(t, v)
					}
					return t
				case "waitlist":
					return waitOf(n.Accts[k].Addr)
				case "balances":
					return nil
				}
				return volumeOf(tokens[k])
			}
			live := n.App.CurrentState()
			if kind == "balances" {
				to := n.Accts[K+k].Addr
				got := live.Accounts().GetBalance(to, 0)
				committed := "?"
				if cs, err := n.App.GetStateForHeight(uint64(n.Height)); err == nil {
					committed = cs.Accounts().GetBalance(to, 0).String()
				}
				if got.Cmp(expected[k]) != 0 || committed != expected[k].String() {
					c25ResMu.Lock()
					res.LostUpdates = append(res.LostUpdates, kind+"|"+fmt.Sprintf("height %d (round %d after a restart): Send of %s pip to %s (which held %s) accepted (code 0); its balance is %s (committed tree: %s), expected %s", n.Height, round, vals[k], to.String(), new(big.Int).Sub(expected[k], vals[k]), got, committed, expected[k]))
					c25ResMu.Unlock()
					expected[k] = new(big.Int).Set(got)
				}
				continue
			}
			got := read(func(h uint64) (vs []*big.Int) {
				if ff := live.FrozenFunds().GetFrozenFunds(h); ff != nil {
					for _, f := range ff.List {
						vs = append(vs, f.Value)
					}
				}
				return
			}, func(c types.CoinID) *big.Int { return live.Coins().GetCoin(c).Volume() }, func(a types.Address) *big.Int {
				if it := live.WaitList().Get(a, n.Vals[0].Pub, 0); it != nil {
					return it.Value
				}
				return big.NewInt(0)
			})
			committed := "?"
			if cs, err := n.App.GetStateForHeight(uint64(n.Height)); err == nil {
				cs.Candidates().LoadCandidates()
				committed = read(func(h uint64) (vs []*big.Int) {
					if ff := cs.FrozenFunds().GetFrozenFunds(h); ff != nil {
						for _, f := range ff.List {
							vs = append(vs, f.Value)
						}
					}
					return
				}, func(c types.CoinID) *big.Int { return cs.Coins().GetCoin(c).Volume() }, func(a types.Address) *big.Int {
					if it := cs.WaitList().Get(a, n.Vals[0].Pub, 0); it != nil {
						return it.Value
					}
					return big.NewInt(0)
				}).String()
			}
			var what string
			switch kind {
			case "frozen":
				what = fmt.Sprintf("height %d (round %d after a restart): Lock of %s pip until block %d accepted (code 0); the frozen funds at block %d are worth %s (committed tree: %s), expected %s", n.Height, round, vals[k], due[k], due[k], got, committed, expected[k])
			case "waitlist":
				what = fmt.Sprintf("height %d (round %d after a restart): Unbond of %s pip from the waitlist of %s accepted (code 0); the waitlisted value is %s (committed tree: %s), expected %s", n.Height, round, vals[k], n.Accts[k].Addr.String(), got, committed, expected[k])
			default:
				what = fmt.Sprintf("height %d (round %d after a restart): MintToken of %s of coin %d accepted (code 0); volume is %s (committed tree: %s), expected %s", n.Height, round, vals[k], tokens[k], got, committed, expected[k])
			}
			if got.Cmp(expected[k]) != 0 {
				c25ResMu.Lock()
				res.LostUpdates = append(res.LostUpdates, kind+"|"+what)
				c25ResMu.Unlock()
				// continue from what the node has, so that one loss is reported once
				expected[k] = new(big.Int).Set(got)
			}
		}
	}
}

// ---- deterministic sequential interleaving ---------------------------------------------------------
//
// The concurrent load fires every handler for the first time before any transaction has touched the
// objects it reads, so a handler whose FIRST call since process start does a one-time initialisation (a
// lazy "load everything" that registers objects freshly read from the committed tree) is never seen doing
// it in the middle of a block.  Here the handlers are called synchronously BETWEEN the DeliverTx calls of a
// block (BlockOpts.PreTx / PostTx: after BeginBlock, between transactions, after the last transaction
// before EndBlock), one handler kind per run, such that its first call comes right after an accepted
// transaction that changed the objects it reads; once on a fresh node and once on a node restarted at a
// random height (every lazy cache and one-time flag cold again), then all kinds mixed.  DeliverTx
// responses, validator updates, emission and app hashes must be those of the query-free run.

// c25SeqProgress: bumped by every transaction and every handler call of the sequential mode (watchdog)
var c25SeqProgress int64

var c25SeqHandlers = []string{"swap_pools", "swap_pool", "swap_pool_provider", "limit_orders", "best_trade", "estimate_coin_sell", "estimate_coin_buy",
	"estimate_coin_sell_all", "estimate_tx_commission", "candidates", "candidate", "coin_info", "address", "addresses", "frozen", "waitlist", "misc"}

// the transaction types that change what a handler kind reads
func c25Relevant(kind string, t transaction.TxType) bool {
	pool := t == transaction.TypeCreateSwapPool || t == transaction.TypeAddLiquidity || t == transaction.TypeRemoveLiquidity || t == transaction.TypeSellSwapPool ||
		t == transaction.TypeBuySwapPool || t == transaction.TypeSellAllSwapPool || t == transaction.TypeAddLimitOrder || t == transaction.TypeRemoveLimitOrder
	coin := t == transaction.TypeCreateCoin || t == transaction.TypeCreateToken || t == transaction.TypeSellCoin || t == transaction.TypeBuyCoin || t == transaction.TypeSellAllCoin ||
		t == transaction.TypeMintToken || t == transaction.TypeBurnToken || t == transaction.TypeRecreateCoin || t == transaction.TypeRecreateToken || t == transaction.TypeEditCoinOwner
	stake := t == transaction.TypeDeclareCandidacy || t == transaction.TypeDelegate || t == transaction.TypeUnbond || t == transaction.TypeMoveStake || t == transaction.TypeSetCandidateOnline ||
		t == transaction.TypeSetCandidateOffline || t == transaction.TypeEditCandidate || t == transaction.TypeEditCandidateCommission || t == transaction.TypeEditCandidatePublicKey || t == transaction.TypeLockStake
	switch kind {
	case "swap_pools", "swap_pool", "swap_pool_provider", "limit_orders", "best_trade":
		return pool
	case "estimate_coin_sell", "estimate_coin_buy", "estimate_coin_sell_all", "estimate_tx_commission":
		return pool || coin
	case "candidates", "candidate":
		return stake
	case "coin_info":
		return coin || t == transaction.TypeCreateSwapPool
	case "frozen":
		return t == transaction.TypeUnbond || t == transaction.TypeLock || t == transaction.TypeMoveStake
	case "waitlist":
		return stake
	}
	return true // address(es), misc: any accepted transaction changes a balance
}

func c25TxType(raw []byte) transaction.TxType {
	var tx transaction.Transaction
	if err := rlp.DecodeBytes(raw, &tx); err != nil {
		return 0
	}
	return tx.Type
}

// c25SeqCall issues the requests of one handler kind (for the current state, Height 0), chosen by r.
func c25SeqCall(svc *service.Service, n *Node, tg *c25Targets, kind string, r *Rng, calls map[string]int, first bool) {
	ctx := context.Background()
	if !first {
		// later calls also come with contexts that are cancelled before or in the middle of the call
		var cancel context.CancelFunc
		ctx, cancel = c25Ctx(r)
		defer cancel()
	}
	atomic.AddInt64(&c25SeqProgress, 1)
	do := func(f func()) {
		defer func() { recover() }() // a panicking handler is caught by the gRPC recovery interceptor
		f()
	}
	calls[kind]++
	addr := tg.Addrs[pick(r, len(tg.Addrs))]
	coin := tg.Coins[pick(r, len(tg.Coins))]
	coin2 := tg.Coins[pick(r, len(tg.Coins))]
	amount := new(big.Int).Add(r.BigBelow(pip(1000)), Z(1000000)).String()
	switch kind {
	case "swap_pools":
		do(func() { svc.SwapPools(ctx, &pb.SwapPoolsRequest{Orders: r.Bool()}) })
	case "swap_pool":
		for _, pl := range tg.Pools {
			pl := pl
			do(func() { svc.SwapPool(ctx, &pb.SwapPoolRequest{Coin0: pl[0], Coin1: pl[1]}) })
		}
		do(func() { svc.SwapPool(ctx, &pb.SwapPoolRequest{Coin0: coin, Coin1: coin2}) })
	case "swap_pool_provider":
		for _, pl := range tg.Pools {
			pl := pl
			do(func() {
				svc.SwapPoolProvider(ctx, &pb.SwapPoolProviderRequest{Coin0: pl[0], Coin1: pl[1], Provider: addr})
			})
		}
	case "limit_orders":
		for _, pl := range tg.Pools {
			pl := pl
			do(func() {
				svc.LimitOrdersOfPool(ctx, &pb.LimitOrdersOfPoolRequest{SellCoin: pl[0], BuyCoin: pl[1], Limit: 20})
			})
			do(func() {
				svc.LimitOrdersOfPool(ctx, &pb.LimitOrdersOfPoolRequest{SellCoin: pl[1], BuyCoin: pl[0], Limit: 20})
			})
		}
		do(func() {
			svc.LimitOrders(ctx, &pb.LimitOrdersRequest{Ids: []uint64{1, 2, 3, 4, 5, 6, 7, 8, 9, 10, 11, 12}})
		})
		do(func() { svc.LimitOrder(ctx, &pb.LimitOrderRequest{OrderId: uint64(1 + r.Intn(20))}) })
	case "best_trade":
		do(func() {
			svc.BestTrade(ctx, &pb.BestTradeRequest{SellCoin: coin, BuyCoin: coin2, Amount: amount, Type: pb.BestTradeRequest_input, MaxDepth: int32(1 + r.Intn(4))})
		})
		do(func() {
			svc.BestTrade(ctx, &pb.BestTradeRequest{SellCoin: coin2, BuyCoin: coin, Amount: amount, Type: pb.BestTradeRequest_output, MaxDepth: int32(1 + r.Intn(4))})
		})
		for _, pl := range tg.Pools {
			pl := pl
			do(func() {
				svc.BestTrade(ctx, &pb.BestTradeRequest{SellCoin: pl[0], BuyCoin: pl[1], Amount: amount, Type: pb.BestTradeRequest_input, MaxDepth: 3})
			})
		}
	case "estimate_coin_sell":
		pairs := append([][2]uint64{{coin, coin2}}, tg.Pools...)
		for _, pl := range pairs {
			pl := pl
			do(func() {
				svc.EstimateCoinSell(ctx, &pb.EstimateCoinSellRequest{Buy: &pb.EstimateCoinSellRequest_CoinIdToBuy{CoinIdToBuy: pl[1]},
					Sell: &pb.EstimateCoinSellRequest_CoinIdToSell{CoinIdToSell: pl[0]}, ValueToSell: amount, SwapFrom: pb.SwapFrom(r.Intn(3)),
					Commission: &pb.EstimateCoinSellRequest_CoinIdCommission{CoinIdCommission: tg.Coins[pick(r, len(tg.Coins))]}})
			})
		}
	case "estimate_coin_buy":
		pairs := append([][2]uint64{{coin, coin2}}, tg.Pools...)
		for _, pl := range pairs {
			pl := pl
			do(func() {
				svc.EstimateCoinBuy(ctx, &pb.EstimateCoinBuyRequest{Buy: &pb.EstimateCoinBuyRequest_CoinIdToBuy{CoinIdToBuy: pl[1]},
					Sell: &pb.EstimateCoinBuyRequest_CoinIdToSell{CoinIdToSell: pl[0]}, ValueToBuy: amount, SwapFrom: pb.SwapFrom(r.Intn(3)),
					Commission: &pb.EstimateCoinBuyRequest_CoinIdCommission{CoinIdCommission: tg.Coins[pick(r, len(tg.Coins))]}})
			})
		}
	case "estimate_coin_sell_all":
		pairs := append([][2]uint64{{coin, coin2}}, tg.Pools...)
		for _, pl := range pairs {
			pl := pl
			do(func() {
				svc.EstimateCoinSellAll(ctx, &pb.EstimateCoinSellAllRequest{Buy: &pb.EstimateCoinSellAllRequest_CoinIdToBuy{CoinIdToBuy: pl[1]},
					Sell: &pb.EstimateCoinSellAllRequest_CoinIdToSell{CoinIdToSell: pl[0]}, ValueToSell: amount, GasPrice: 1, SwapFrom: pb.SwapFrom(r.Intn(3))})
			})
		}
	case "estimate_tx_commission":
		do(func() {
			raw := n.MkTx(n.Accts[0], transaction.TypeSend, transaction.SendData{Coin: 0, To: n.Accts[1].Addr, Value: Z(1)}, types.CoinID(coin), 1, 1, nil)
			svc.EstimateTxCommission(ctx, &pb.EstimateTxCommissionRequest{Tx: fmt.Sprintf("%x", raw)})
		})
	case "candidates":
		do(func() { svc.Candidates(ctx, &pb.CandidatesRequest{IncludeStakes: true}) })
		do(func() { svc.Candidates(ctx, &pb.CandidatesRequest{NotShowStakes: true}) })
	case "candidate":
		for _, c := range tg.Cands {
			c := c
			do(func() { svc.Candidate(ctx, &pb.CandidateRequest{PublicKey: c}) })
		}
		do(func() { svc.MissedBlocks(ctx, &pb.MissedBlocksRequest{PublicKey: tg.Cands[pick(r, len(tg.Cands))]}) })
	case "coin_info":
		for _, c := range tg.Coins {
			c := c
			do(func() { svc.CoinInfoById(ctx, &pb.CoinIdRequest{Id: c}) })
		}
		for _, sy := range tg.Syms {
			sy := sy
			do(func() { svc.CoinInfo(ctx, &pb.CoinInfoRequest{Symbol: sy}) })
		}
	case "address":
		for _, a := range tg.Addrs {
			a := a
			do(func() { svc.Address(ctx, &pb.AddressRequest{Address: a, Delegated: true}) })
		}
	case "addresses":
		do(func() { svc.Addresses(ctx, &pb.AddressesRequest{Addresses: tg.Addrs, Delegated: true}) })
	case "frozen":
		do(func() { svc.Frozen(ctx, &pb.FrozenRequest{Address: addr}) })
		do(func() {
			h := uint64(n.Height)
			svc.FrozenAll(ctx, &pb.FrozenAllRequest{StartHeight: h, EndHeight: h + 600})
		})
	case "waitlist":
		for _, a := range tg.Addrs {
			a := a
			do(func() { svc.WaitList(ctx, &pb.WaitListRequest{Address: a}) })
		}
	default: // misc
		do(func() { svc.PriceCommission(ctx, &pb.PriceCommissionRequest{}) })
		do(func() { svc.CommissionVotes(ctx, &pb.CommissionVotesRequest{TargetVersion: 1}) })
		do(func() { svc.UpdateVotes(ctx, &pb.UpdateVotesRequest{TargetVersion: 1}) })
		do(func() { svc.MaxGasPrice(ctx, &pb.MaxGasPriceRequest{}) })
		do(func() {
			app := n.App
			app.GetEmission()
			app.UpdateVersions()
			app.CurrentState().App().GetTotalSlashed()
			app.Info(abciInfo)
		})
	}
}

// c25SeqRun replays h; from the first accepted relevant transaction at or after block index `from` (any
// accepted transaction three blocks later, if none is relevant) the handler kind is called: right after that
// transaction, then after one transaction in three and before the first transaction of every other block.  kinds == nil: only `kind`; otherwise the
// kinds rotate, starting with `kind`.  restartAt > 0: the node is restarted before that block index.
func c25SeqRun(h *History, tg *c25Targets, kind string, kinds []string, restartAt, from int, r *Rng, calls map[string]int) (*HistResult, string) {
	n := newNode(h.Spec)
	defer n.Cleanup()
	svc := service.NewService(n.App, nil, nil, n.Cfg, "verif", n.App.RewardCounter())
	res := &HistResult{}
	started, first, position, turn := false, false, "never", 0
	call := func() {
		wasFirst := first
		first = false
		k := kind
		if kinds != nil {
			k = kinds[turn%len(kinds)]
			turn++
		}
		c25SeqCall(svc, n, tg, k, r, calls, wasFirst)
	}
	for bi, b := range h.Blocks {
		if restartAt > 0 && bi == restartAt {
			n.Restart()
			svc = service.NewService(n.App, nil, nil, n.Cfg, "verif", n.App.RewardCounter())
		}
		opts := b.Opts
		bi := bi
		opts.PreTx = func(i int, raw []byte) {
			atomic.AddInt64(&c25SeqProgress, 1)
			if started && i == 0 && r.Intn(2) == 0 {
				call() // between BeginBlock and the first transaction
			}
		}
		opts.PostTx = func(i int, raw []byte, tr TxResult) {
			if !started && bi >= from && tr.Code == 0 {
				t := c25TxType(raw)
				if c25Relevant(kind, t) || bi >= from+3 {
					started, first = true, true
					position = fmt.Sprintf("first call after transaction %d (type 0x%02x) of block index %d (height %d)", i, byte(t), bi, n.Height+1)
				}
			}
			if started && (first || r.Intn(3) == 0) {
				call() // between two DeliverTx, or between the last one and EndBlock
			}
		}
		br := n.Block(b.Txs, &opts)
		res.Hashes = append(res.Hashes, br.Hash)
		res.Results = append(res.Results, br.Txs)
		res.Updates = append(res.Updates, fmtUpdates(br))
		if br.Panic != "" {
			st := ""
			if len(n.Stacks) > 0 {
				st = " STACK " + n.Stacks[len(n.Stacks)-1]
			}
			res.Panics = append(res.Panics, br.Panic+st)
			break
		}
		res.Emissions = append(res.Emissions, n.App.VerifAppDB().Emission().String())
	}
	return res, position
}

// c25OrderHistory: a short recorded history in which a committed limit order is PARTIALLY filled by two small sales in
// one block and again in the next one, and its rest is then taken back by its owner: between those transactions the
// order lives only in the pool's in-memory cache (changed volumes), which is exactly what a limit-order query reads.
func c25OrderHistory(seed uint64) (*History, *c25Targets, string) {
	r := NewRng(seed ^ 0x0bde8)
	spec := &GenesisSpec{NAccounts: 6, Balance: pip(100000000), NVals: 3}
	n := newNode(spec)
	defer n.Cleanup()
	h := &History{Spec: spec}
	a := n.Accts
	step := func(txs ...[]byte) *BlockResult {
		br := n.Block(txs, nil)
		h.Blocks = append(h.Blocks, RecBlock{Txs: txs})
		return br
	}
	var sym types.CoinSymbol
	copy(sym[:], []byte("ORDERTOKEN"))
	br := step(n.MkTx(a[0], transaction.TypeCreateToken, transaction.CreateTokenData{Name: "t", Symbol: sym, InitialAmount: pip(5000000), MaxSupply: pip(9000000), Mintable: true, Burnable: true}, 0, 0, 1, nil))
	if len(br.Txs) != 1 || br.Txs[0].Code != 0 {
		return nil, nil, "CreateToken rejected"
	}
	var id int
	fmt.Sscan(br.Txs[0].Tags["tx.coin_id"], &id)
	tok := types.CoinID(id)
	br = step(n.MkTx(a[0], transaction.TypeCreateSwapPool, transaction.CreateSwapPoolData{Coin0: tok, Coin1: 0, Volume0: pip(int64(8000 + r.Intn(4000))), Volume1: pip(int64(8000 + r.Intn(4000)))}, 0, 0, 1, nil),
		n.MkTx(a[1], transaction.TypeSend, transaction.SendData{Coin: 0, To: a[2].Addr, Value: pip(1)}, 0, 0, 1, nil))
	if br.Txs[0].Code != 0 {
		return nil, nil, "CreateSwapPool rejected"
	}
	step(n.MkTx(a[0], transaction.TypeSend, transaction.SendData{Coin: tok, To: a[1].Addr, Value: pip(100000)}, 0, 0, 1, nil))
	// the order: a1 sells the token just above the pool price, in an amount the sales below cannot exhaust
	x0, x1, _ := n.App.CurrentState().Swap().SwapPool(tok, 0)
	vs := pip(int64(3000 + r.Intn(3000)))
	vb := new(big.Int).Div(new(big.Int).Mul(vs, x1), x0)
	vb.Mul(vb, Z(int64(1001+r.Intn(5)))).Div(vb, Z(1000)) // 0.1-0.5 % dearer than the pool: the first sale below reaches it
	br = step(n.MkTx(a[1], transaction.TypeAddLimitOrder, transaction.AddLimitOrderData{CoinToSell: tok, ValueToSell: vs, CoinToBuy: 0, ValueToBuy: vb}, 0, 0, 1, nil))
	if br.Txs[0].Code != 0 {
		return nil, nil, fmt.Sprintf("AddLimitOrder rejected: %d %s", br.Txs[0].Code, br.Txs[0].Log)
	}
	sell := func(who Acct) []byte {
		return n.MkTx(who, transaction.TypeSellSwapPool, transaction.SellSwapPoolDataV260{Coins: []types.CoinID{0, tok}, ValueToSell: pip(int64(20 + r.Intn(200))), MinimumValueToBuy: Z(1)}, 0, 0, 1, nil)
	}
	step(sell(a[2]), sell(a[3]), n.MkTx(a[4], transaction.TypeSend, transaction.SendData{Coin: 0, To: a[5].Addr, Value: pip(1)}, 0, 0, 1, nil))
	step(sell(a[4]), sell(a[2]))
	step(n.MkTx(a[1], transaction.TypeRemoveLimitOrder, transaction.RemoveLimitOrderData{ID: 1}, 0, 0, 1, nil), sell(a[3]))
	step(sell(a[5]))
	step()
	tg := &c25Targets{H0: uint64(InitialHeight), Coins: []uint64{0, uint64(tok), uint64(tok) + 1}, Syms: []string{"BIP", "ORDERTOKEN"}, Pools: [][2]uint64{{uint64(tok), 0}}, Orders: []uint64{1, 2}}
	for _, ac := range a {
		tg.Addrs = append(tg.Addrs, ac.Addr.String())
	}
	for _, v := range n.Vals {
		tg.Cands = append(tg.Cands, v.Pub.String())
	}
	return h, tg, ""
}

func c25Sequential(seed uint64, res *c25Result, save func()) {
	r := NewRng(seed)
	spec := c25Spec(r)
	g := c25GenOpts(r)
	h, alone, w := genHistory(seed, spec, g)
	res.Blocks = len(h.Blocks)
	res.Txs, res.Accepted = c25CountTxs(alone)
	res.Types = w.TypeDist
	res.Pools, res.Orders, res.Candidates = len(w.Pools), len(w.Orders), len(w.Cands)
	res.AlonePanics = alone.Panics
	res.SeqCalls = map[string]int{}
	tgNode := newNode(h.Spec)
	tg := c25TargetsOf(tgNode, w)
	tgNode.Cleanup()
	nb := len(h.Blocks)
	if nb < 6 {
		return
	}
	restartAt := 2 + r.Intn(nb-4)
	// the query-free runs
	refFresh, n1 := runRecorded(h, &execOpts{})
	n1.Cleanup()
	refRestart, n2 := runRecorded(h, &execOpts{RestartAfter: map[int64]int{int64(InitialHeight) + int64(restartAt) - 1: 1}})
	n2.Cleanup()
	alone.Emissions = alone.Emissions[:minInt(len(alone.Emissions), len(refFresh.Emissions))]
	if d := diffRuns(alone, refFresh); d != "" {
		res.ReplayDiff = d
		res.Diff = d
		return
	}
	if d := diffRuns(refFresh, refRestart); d != "" {
		// a restart alone changes the run: not this property's business (C09), and no reference to compare with
		res.ReplayDiff = "restart: " + d
		return
	}
	// a handler that leaves a mutex locked (a return path without the unlock, taken when its context is cancelled)
	// makes the next transaction block for ever: the watchdog turns that into a report
	stopWatch := c25Watchdog(&c25SeqProgress, 8*time.Second, res, save)
	defer stopWatch()
	t0 := time.Now()
	check := func(kind, variant string, got *HistResult, pos string, ref *HistResult) {
		atomic.AddInt64(&c25SeqProgress, 1)
		res.SeqRuns++
		if os.Getenv("C25_TIMING") != "" {
			fmt.Fprintf(os.Stderr, "%-24s %-12.12s %6.0f ms\n", kind, variant, float64(time.Since(t0).Microseconds())/1000)
			t0 = time.Now()
		}
		if d := diffRuns(ref, got); d != "" {
			c25ResMu.Lock()
			res.Perturbed = append(res.Perturbed, c25Perturbed{Handler: kind, Variant: variant, Position: pos, Diff: d})
			c25ResMu.Unlock()
			save()
		}
	}
	full := os.Getenv("C25_SEQ_FULL") != ""
	for hi, kind := range c25SeqHandlers {
		// each history gives a handler kind one of the two variants (both with C25_SEQ_FULL); consecutive
		// history seeds alternate, so that two histories cover both variants of every kind
		if full || (uint64(hi)+seed)%2 == 0 {
			// fresh node: the first call somewhere in the first half of the history
			got, pos := c25SeqRun(h, tg, kind, nil, 0, r.Intn(nb/2+1), NewRng(seed^0x5e9), res.SeqCalls)
			check(kind, "fresh node", got, pos, refFresh)
		}
		if full || (uint64(hi)+seed)%2 == 1 {
			// restarted node: the first call after the restart
			got, pos := c25SeqRun(h, tg, kind, nil, restartAt, restartAt, NewRng(seed^0x5ea), res.SeqCalls)
			check(kind, fmt.Sprintf("node restarted before block index %d", restartAt), got, pos, refRestart)
		}
	}
	// all kinds mixed, starting with a different kind each time
	for k := 0; k < 1; k++ {
		first := c25SeqHandlers[r.Intn(len(c25SeqHandlers))]
		rot := append([]string{first}, c25SeqHandlers...)
		got, pos := c25SeqRun(h, tg, first, rot, 0, r.Intn(nb/2+1), NewRng(seed^uint64(0x5eb+k)), res.SeqCalls)
		check("mixed:"+first, "fresh node", got, pos, refFresh)
		first = c25SeqHandlers[r.Intn(len(c25SeqHandlers))]
		rot = append([]string{first}, c25SeqHandlers...)
		got, pos = c25SeqRun(h, tg, first, rot, restartAt, restartAt, NewRng(seed^uint64(0x5ed+k)), res.SeqCalls)
		check("mixed:"+first, fmt.Sprintf("node restarted before block index %d", restartAt), got, pos, refRestart)
	}
	// the scripted history with a partially filled committed order: the order and pool handlers, first call right after
	// the first partial fill
	if oh, otg, why := c25OrderHistory(seed); oh == nil {
		res.ExecPanics = append(res.ExecPanics, "order history setup: "+why)
	} else {
		oref, on := runRecorded(oh, &execOpts{})
		on.Cleanup()
		orefR, on2 := runRecorded(oh, &execOpts{RestartAfter: map[int64]int{int64(InitialHeight) + 3: 1}})
		on2.Cleanup()
		if d := diffRuns(oref, orefR); d == "" {
			for _, kind := range []string{"limit_orders", "swap_pools", "swap_pool", "best_trade", "estimate_coin_sell", "estimate_coin_buy"} {
				got, pos := c25SeqRun(oh, otg, kind, nil, 0, 4, NewRng(seed^0x5f1), res.SeqCalls)
				check(kind, "partially filled order, fresh node", got, pos, oref)
				got, pos = c25SeqRun(oh, otg, kind, nil, 4, 4, NewRng(seed^0x5f2), res.SeqCalls)
				check(kind, "partially filled order, node restarted before block index 4", got, pos, orefR)
			}
		}
	}
}

// c25LockLeak: a query that panics while it holds a mutex of the live state must not keep it (the gRPC recovery
// interceptor turns the panic into an error response and the node goes on: with the mutex still locked every
// later transaction on the object blocks for ever).  Deterministic form of a hang seen under load (about 1 of
// 100 histories): PairV2.AddLastSwapStepWithOrders, as called by the estimate handlers on the live pair, asked for
// more than the pool holds (which happens when block execution shrinks the pool between the handler's
// CalculateCommission and this call): calculateSellForBuyWithOrders returns nil, amount0InCalc.Cmp(...) panics
// between lockOrders.Lock() and the non-deferred Unlock().
func c25LockLeak(seed uint64, res *c25Result) {
	spec := &GenesisSpec{NAccounts: 4, Balance: pip(100000000), NVals: 3}
	n := newNode(spec)
	defer n.Cleanup()
	a := n.Accts[0]
	var sym types.CoinSymbol
	copy(sym[:], []byte("LEAKTOKEN"))
	br := n.Block([][]byte{n.MkTx(a, transaction.TypeCreateToken, transaction.CreateTokenData{Name: "t", Symbol: sym, InitialAmount: pip(100000),
		MaxSupply: pip(1000000), Mintable: true, Burnable: true}, 0, 0, 1, nil)}, nil)
	if len(br.Txs) != 1 || br.Txs[0].Code != 0 {
		res.ExecPanics = append(res.ExecPanics, "lock-leak setup: CreateToken rejected")
		return
	}
	var id int
	fmt.Sscan(br.Txs[0].Tags["tx.coin_id"], &id)
	tok := types.CoinID(id)
	br = n.Block([][]byte{n.MkTx(a, transaction.TypeCreateSwapPool, transaction.CreateSwapPoolData{Coin0: tok, Coin1: 0, Volume0: pip(1000), Volume1: pip(1000)}, 0, 0, 1, nil)}, nil)
	if len(br.Txs) != 1 || br.Txs[0].Code != 0 {
		res.ExecPanics = append(res.ExecPanics, "lock-leak setup: CreateSwapPool rejected")
		return
	}
	swapper := n.App.CurrentState().Swap().GetSwapper(tok, 0)
	_, r1 := swapper.Reserves()
	panicked := ""
	func() {
		defer func() {
			if r := recover(); r != nil {
				panicked = fmt.Sprint(r) + " at " + firstRepoFrame(string(debug.Stack()))
			}
		}()
		// the call of estimate_coin_sell_all.go:153 / estimate_coin_sell.go / estimate_coin_buy.go, with a commission in
		// base coin that the pool cannot pay
		swapper.AddLastSwapStepWithOrders(pip(1), new(big.Int).Add(r1, Z(1)), true)
	}()
	if panicked == "" {
		return // no panic, nothing can leak
	}
	done := make(chan struct{})
	go func() {
		swapper.OrdersSell(1) // takes lockOrders, like every trade through the pool
		close(done)
	}()
	select {
	case <-done:
	case <-time.After(3 * time.Second):
		res.LockLeaks = append(res.LockLeaks, "PairV2.AddLastSwapStepWithOrders panicked ("+panicked+") while holding PairV2.lockOrders and left it locked: OrdersSell on the same pool does not return (every later trade through the pool, i.e. block execution, blocks for ever)")
	}
}

// c25PanicNote: a handler that panics between Lock and Unlock (no defer) leaves the mutex locked for ever
func c25PanicNote(ps []c25QueryPanic) string {
	if len(ps) == 0 {
		return ""
	}
	s := "\nhandler panics before the hang (a panic between Lock and a non-deferred Unlock leaves the mutex locked):"
	for _, p := range ps {
		s += "\n  " + p.What + " :: " + p.Stack
	}
	return s
}

// ---- parent ----------------------------------------------------------------------------------------

var raceFrameRe = regexp.MustCompile(`^\s+(/\S+\.go):(\d+)`)
var raceMethodRe = regexp.MustCompile(`^(\w+)\.\(\*?(\w+)\)\.`)
var raceFuncRe = regexp.MustCompile(`^(\w+)\.(\w+)`)

// raceOwner: the coarse identity of an access for the finding key: package.Type of the method that
// performs it ("swap.SwapV2"), the package for the API handlers ("service"), package.func otherwise.
// (Line numbers and even the methods involved vary from schedule to schedule; the type pair does not.)
func raceOwner(fn string) string {
	if i := strings.LastIndex(fn, "/"); i >= 0 {
		fn = fn[i+1:]
	}
	if m := raceMethodRe.FindStringSubmatch(fn); m != nil {
		if m[1] == "service" {
			return "service"
		}
		return m[1] + "." + m[2]
	}
	if m := raceFuncRe.FindStringSubmatch(fn); m != nil {
		if m[1] == "service" {
			return "service"
		}
		return m[1] + "." + m[2]
	}
	return "?"
}

// parseRaceLog splits a race-detector log into reports and returns, per report, the owners of the two
// conflicting accesses (first frame below /repo of each), their function:line, and the report text.
func parseRaceLog(text string) [][5]string {
	var out [][5]string
	for _, rep := range strings.Split(text, "WARNING: DATA RACE")[1:] {
		if i := strings.Index(rep, "=================="); i >= 0 {
			rep = rep[:i]
		}
		type acc struct {
			owner, site string
			hazard      string // why this access can crash the node or perturb block execution ("" = it cannot)
			topSeen     bool
			harness     bool
		}
		var accs []acc
		var cur acc
		inAccess, prev := false, ""
		flush := func() {
			if inAccess {
				accs = append(accs, cur)
			}
		}
		for _, l := range strings.Split(rep, "\n") {
			t := strings.TrimSpace(l)
			low := strings.ToLower(t)
			if strings.HasSuffix(t, ":") && (strings.HasPrefix(low, "read at") || strings.HasPrefix(low, "write at") || strings.HasPrefix(low, "previous read at") ||
				strings.HasPrefix(low, "previous write at") || strings.HasPrefix(low, "atomic") || strings.HasPrefix(low, "previous atomic")) {
				flush()
				inAccess, cur = true, acc{}
				if strings.Contains(low, "write at") && !strings.Contains(low, "by main goroutine") {
					cur.hazard = "a query goroutine writes shared state"
				}
				continue
			}
			if strings.HasSuffix(t, ":") && strings.HasPrefix(low, "goroutine ") {
				flush()
				inAccess = false
				continue
			}
			if inAccess && cur.site == "" && !cur.topSeen {
				if m := raceFrameRe.FindStringSubmatch(l); m != nil && !strings.Contains(m[1], "/src/runtime/") {
					cur.topSeen = true
					if strings.Contains(m[1], "/verif/harness/") {
						cur.harness = true // the access is an instruction of the harness itself, not of the node
					}
				}
			}
			if inAccess && cur.site == "" && (strings.HasPrefix(t, "runtime.map") || strings.HasPrefix(t, "runtime.growslice")) {
				cur.hazard = "the access is a map operation (the runtime aborts the process on concurrent map access)"
			}
			if inAccess && cur.site == "" {
				if m := raceFrameRe.FindStringSubmatch(l); m != nil {
					if i := strings.Index(m[1], c25RepoMarker); i >= 0 {
						cur.site = strings.TrimSuffix(prev, "()") + " " + m[1][i+len(c25RepoMarker):] + ":" + m[2]
						cur.owner = raceOwner(prev)
					}
				}
			}
			prev = t
		}
		flush()
		if len(accs) >= 2 {
			a, b := accs[0], accs[1]
			if a.harness || b.harness {
				a.owner, a.site, b.owner, b.site = "?", "?", "?", "?" // a race inside the harness: not a finding about the node
			}
			if a.owner == "" {
				a.owner, a.site = "?", "?"
			}
			if b.owner == "" {
				b.owner, b.site = "?", "?"
			}
			if a.owner > b.owner {
				a, b = b, a
			}
			hz := a.hazard
			if hz == "" {
				hz = b.hazard
			}
			out = append(out, [5]string{a.owner, b.owner, a.site + " / " + b.site, strings.TrimSpace(rep), hz})
		}
	}
	return out
}

func runC25(seed uint64, n int, out, stats string, args []string) {
	mode := ""
	unguardedFile := ""
	for i := 0; i < len(args); i++ {
		switch {
		case args[i] == "child":
			if i+1 < len(args) {
				mode = args[i+1]
			} else {
				mode = "load"
			}
			runC25Child(seed, stats, mode)
			return
		case strings.HasSuffix(args[i], ".txt"):
			unguardedFile = args[i]
		}
	}
	c := NewCases(out)
	c.Close()
	var mon []MonitorFailure
	seenKey := map[string]bool{}
	add := func(key, what, replay string) {
		if seenKey[key] {
			return
		}
		seenKey[key] = true
		mon = append(mon, MonitorFailure{What: what, Key: key, Replay: replay})
	}
	// 1. the static table
	nStatic := 0
	if unguardedFile != "" {
		b, err := os.ReadFile(unguardedFile)
		if err != nil {
			add("c25-unguarded:TABLE-MISSING", "the translator's list of unguarded sites cannot be read: "+err.Error(), unguardedFile)
		}
		for _, l := range strings.Split(string(b), "\n") {
			l = strings.TrimSpace(l)
			if l == "" {
				continue
			}
			nStatic++
			parts := strings.SplitN(strings.TrimPrefix(l, "c25-unguarded:"), ":", 3)
			what := "C25: access outside the lock discipline: " + l
			if strings.HasPrefix(l, "c25-lock-not-released:") {
				what = "C25: a function returns on some path with a mutex it acquired still locked (no unlock, no deferred unlock on that path): the next goroutine that asks for it - block execution - blocks for ever: " + strings.TrimPrefix(l, "c25-lock-not-released:")
			} else if strings.HasPrefix(l, "c25-lock-released-twice:") {
				what = "C25: a function releases a mutex for which a deferred release is pending, or twice in a row (sync: unlock of unlocked mutex is a fatal error): " + strings.TrimPrefix(l, "c25-lock-released-twice:")
			} else if strings.HasPrefix(l, "c25-nonatomic-fill:") {
				what = "C25: a cache fill checks for absence and stores in two separate critical sections: a query that loads the object concurrently with the executor's first touch replaces the object the executor has already modified (lost update, demonstrated for Accounts by c25-lost-update; Coq: C25_memo_nonatomic_refuted): " + strings.TrimPrefix(l, "c25-nonatomic-fill:")
			} else if strings.HasPrefix(l, "c25-relock:") {
				what = "C25: a mutex is acquired while the same goroutine already holds it (sync mutexes are not reentrant: a recursive RLock deadlocks as soon as a writer arrives in between): " + strings.TrimPrefix(l, "c25-relock:")
			} else if strings.HasPrefix(l, "c25-lock-order:") {
				what = "C25: two mutexes are acquired in opposite orders on different paths (deadlock candidate): " + strings.TrimPrefix(l, "c25-lock-order:") + "; witnesses: lock_order in coq/Generated/Locks.v"
			} else if len(parts) == 3 {
				what = fmt.Sprintf("C25: %s accesses the shared field %s without its guard mutex held in the required mode (%s); see coq/Generated/Locks.v", parts[1], parts[2], parts[0])
			}
			add(l, what, "xlate locks table: coq/Generated/Locks.v, Properties/C25.v C25_unguarded_sites")
		}
	}
	// 2. the loaded executions, one child per history
	tmp, err := os.MkdirTemp(os.Getenv("VERIF_TMP"), "c25")
	if err != nil {
		panic(err)
	}
	defer os.RemoveAll(tmp)
	self, _ := os.Executable()
	dist := map[string]int{}
	queries := map[string]int{}
	qerrs := map[string]int{}
	raceCount := map[string]int{}
	benignRaces := map[string]int{}
	queryPanics := map[string]string{}
	seqRuns, seqCalls := 0, map[string]int{}
	racesIgnored := 0
	nontriv, blocks, txs, accepted := 0, 0, 0, 0
	var samples []string
	runChild := func(s uint64, mode string, idx int) *c25Result {
		rf := filepath.Join(tmp, fmt.Sprintf("res_%s_%d.json", mode, idx))
		logp := filepath.Join(tmp, fmt.Sprintf("race_%s_%d", mode, idx))
		ctx, cancel := context.WithTimeout(context.Background(), 150*time.Second)
		defer cancel()
		bin := self
		if mode == "seq" && strings.HasSuffix(self, "-race") {
			// nothing runs concurrently in this mode: the plain binary (built by bin/setup) is several times faster
			if _, err := os.Stat(strings.TrimSuffix(self, "-race")); err == nil {
				bin = strings.TrimSuffix(self, "-race")
			}
		}
		cmd := exec.CommandContext(ctx, bin, "c25", "-seed", fmt.Sprint(s), "-n", "1", "-out", os.DevNull, "-stats", rf, "child", mode)
		// the child's node directories live below tmp: a child that is killed (runtime throw, watchdog) cannot clean up
		cmd.Env = append(os.Environ(), "GORACE=halt_on_error=0 exitcode=0 history_size=3 log_path="+logp, "VERIF_TMP="+tmp)
		errFile := filepath.Join(tmp, fmt.Sprintf("stderr_%s_%d", mode, idx))
		ef, _ := os.Create(errFile)
		cmd.Stderr = ef
		cmd.Stdout = ef
		runErr := cmd.Run()
		ef.Close()
		replay := fmt.Sprintf("vharness c25 -seed %d -n 1 -out /dev/null -stats res.json child %s", s, mode)
		var res c25Result
		if b, err := os.ReadFile(rf); err == nil {
			json.Unmarshal(b, &res)
		}
		// race reports
		logs, _ := filepath.Glob(logp + ".*")
		for _, lp := range logs {
			b, _ := os.ReadFile(lp)
			for _, rp := range parseRaceLog(string(b)) {
				if rp[0] == "?" || rp[1] == "?" {
					// an access without any frame in the node's code: not a finding about the node
					racesIgnored++
					continue
				}
				key := "c25-race:" + rp[0] + "|" + rp[1]
				if rp[4] == "" {
					// block execution writes a plain field, a query reads it: the query may answer with a torn or stale
					// value, but it can neither stop the process (no map operation) nor change what the executor computes.
					// C25 speaks of crashes and of perturbed execution only: recorded, not counted.
					benignRaces[key+" ("+rp[2]+")"]++
					continue
				}
				raceCount[key+" ("+rp[2]+")"]++
				rep := rp[3]
				if len(rep) > 2500 {
					rep = rep[:2500] + " ..."
				}
				add(key, "C25: data race between a query and block execution (or two queries) on the live state: "+rp[2]+"\n"+rep, replay)
			}
		}
		if !res.Done && res.Hang != "" {
			hk := res.Hang
			if i := strings.LastIndex(hk, "/"); i > 0 {
				hk = hk[:i] // the package: the file and line where the executor happens to wait vary with the schedule
			}
			add("c25-deadlock:"+hk, "C25: goroutines block each other for ever under query load (block execution stops); first stuck at "+res.Hang+"\n"+res.HangDetail+c25PanicNote(res.PanicsSoFar), replay)
			return &res
		}
		if !res.Done {
			eb, _ := os.ReadFile(errFile)
			es := string(eb)
			switch {
			case strings.Contains(es, "fatal error: concurrent map"):
				i := strings.Index(es, "fatal error: concurrent map")
				line := es[i:]
				if j := strings.Index(line, "\n"); j > 0 {
					line = line[:j]
				}
				fr := firstRepoFrame(es[i:])
				tail := es[i:]
				if len(tail) > 3000 {
					tail = tail[:3000]
				}
				add("c25-fatal-map:"+fr, "C25: the Go runtime killed the node: "+line+" at "+fr+"\n"+tail, replay)
			case strings.Contains(es, "fatal error:"):
				i := strings.Index(es, "fatal error:")
				line := es[i:]
				if j := strings.Index(line, "\n"); j > 0 {
					line = line[:j]
				}
				tail := es[i:]
				if len(tail) > 3000 {
					tail = tail[:3000]
				}
				add("c25-fatal:"+line, "C25: the Go runtime killed the node under query load: "+tail, replay)
			default:
				if len(es) > 2000 {
					es = es[len(es)-2000:]
				}
				add("c25-child-died", fmt.Sprintf("C25: the loaded execution did not finish (%v): %s", runErr, es), replay)
			}
			return &res
		}
		for _, p := range res.ExecPanics {
			add("c25-exec-panic", "C25: block execution panicked under query load (it did not alone): "+p, replay)
		}
		for _, qp := range res.QueryPanics {
			// a panicking handler is caught by the gRPC recovery interceptor (api/v2/v2.go): the request fails,
			// the node goes on; recorded in the evidence, not a violation of C25
			queryPanics[qp.Key] = qp.What + " :: " + qp.Stack
		}
		if res.Diff != "" {
			if res.ReplayDiff == "" {
				add("c25-perturbed", "C25: block execution under query load differs from the same history executed alone: "+res.Diff, replay)
			} else {
				add("c25-replay-differs", "C25: the recorded history does not replay identically even without load: "+res.ReplayDiff, replay)
			}
		}
		for _, l := range res.LockLeaks {
			add("c25-lock-leak:swap.PairV2.lockOrders", "C25: a query that panics keeps a mutex of the live state locked (the gRPC recovery interceptor lets the node go on): "+l, replay)
		}
		for _, pt := range res.Perturbed {
			hk := pt.Handler
			if strings.HasPrefix(hk, "mixed:") {
				hk = "mixed"
			}
			add("c25-perturbed:"+hk, fmt.Sprintf("C25: calling the %s handler(s) between the transactions of a block changes block execution (%s; %s): %s", pt.Handler, pt.Variant, pt.Position, pt.Diff),
				replay+fmt.Sprintf(" (history seed %d, handler %s, %s, %s)", s, pt.Handler, pt.Variant, pt.Position))
		}
		for _, l := range res.LostUpdates {
			if i := strings.Index(l, "|"); i > 0 && c25LostKey[l[:i]] != "" {
				add(c25LostKey[l[:i]], "C25: a query served while the first transaction after a restart touched the same cached object made the transaction's effect disappear from the committed state (non-atomic cache fill: the query's freshly loaded copy replaced the object block execution had modified): "+l[i+1:], replay)
				continue
			}
			add("c25-lost-update", "C25: a balance query concurrent with the first credit of an address made the credit disappear (non-atomic cache fill in Accounts.get): "+l, replay)
		}
		return &res
	}
	for i := 0; i < n; i++ {
		s := seed*1000003 + uint64(i)
		res := runChild(s, "load", i)
		blocks += res.Blocks
		txs += res.Txs
		accepted += res.Accepted
		for k, v := range res.Types {
			dist[k] += v
		}
		for k, v := range res.Queries {
			queries[k] += v
		}
		for k, v := range res.QueryErrors {
			qerrs[k] += v
		}
		nq := 0
		for _, v := range res.Queries {
			nq += v
		}
		if res.Done && res.Accepted > 0 && nq > 0 {
			nontriv++
		}
		// the same history with the handlers called synchronously between its transactions
		sq := runChild(s, "seq", i)
		seqRuns += sq.SeqRuns
		for k, v := range sq.SeqCalls {
			seqCalls[k] += v
		}
		if len(samples) < 3 {
			samples = append(samples, fmt.Sprintf("history seed=%d blocks=%d txs=%d accepted=%d pools=%d orders=%d candidates=%d queries=%d diff=%q", s, res.Blocks, res.Txs, res.Accepted, res.Pools, res.Orders, res.Candidates, nq, res.Diff))
		}
	}
	// 3. the targeted first-touch scenario (one child per 4 histories, at least one)
	ft := 0
	for i := 0; i < 1+n/4; i++ {
		res := runChild(seed*7919+uint64(i), "firsttouch", i)
		ft += res.FirstTouch
		// 4. the same race on the caches that are cold only after a restart (coins, ticker lists and owners,
		// waitlist, frozen funds): restart, then a query against the first transaction touching the object
		res = runChild(seed*7927+uint64(i), "firsttouch-restart", i)
		ft += res.FirstTouch
	}
	// 5. a panicking query must not keep a mutex of the live state
	runChild(seed, "lockleak", 0)
	rk := []string{}
	for k, v := range raceCount {
		rk = append(rk, fmt.Sprintf("%s x%d", k, v))
	}
	sort.Strings(rk)
	bk := []string{}
	for k, v := range benignRaces {
		bk = append(bk, fmt.Sprintf("%s x%d", k, v))
	}
	sort.Strings(bk)
	writeStats(stats, &Stats{Property: "C25", Seed: seed, Cases: n, Ops: txs, NonTrivial: nontriv,
		Rule: "each case: a seeded history (18-25 blocks, 0-6 txs per block weighted towards pools, limit orders, trades, candidates, delegations; absences) generated on the real node (run alone) and replayed on a second node while 4 goroutines call the real api/v2/service handlers (address(es), candidate(s), coin info, swap pool(s)/provider, limit orders, best trade, estimates, frozen, waitlist, commission/votes, status values, private-state export, historical requests) on the live state; compared: app hashes, DeliverTx responses, validator updates, emission; in a -race build a data-race report is a failure when a query goroutine writes or when either access is a map operation (reports in which block execution writes a plain field that a query reads are recorded as unsynchronised_query_reads: they can neither stop the process nor change what the executor computes); plus targeted first-touch scenarios (balance queries racing the first credit of fresh addresses; after a restart, coin / ticker / waitlist / frozen-funds queries racing the first transaction that touches the object) ; plus a deterministic sequential interleaving of every history (one handler kind per run, called between the DeliverTx calls of a block, its first call right after an accepted transaction that changed what it reads; on a fresh node and on a node restarted at a random height; then all kinds mixed; same comparison) and the static lock-discipline table; non-trivial = accepted transactions and served queries; histories distinct by seed",
		Dist: dist, Samples: samples, Monitor: mon,
		Extra: map[string]interface{}{"race_build": raceEnabled, "blocks": blocks, "txs": txs, "accepted_txs": accepted, "queries": queries, "query_errors": qerrs,
			"race_reports": rk, "unsynchronised_query_reads": bk, "static_unguarded_sites": nStatic, "first_touch_cases": ft, "query_panics_recovered": queryPanics, "race_reports_without_node_frames": racesIgnored,
			"sequential_interleaving_runs": seqRuns, "sequential_interleaving_calls": seqCalls}})
}
