package main

// node.go — an in-process minter-go-node driven exactly as Tendermint would drive it
// (InitChain, then BeginBlock / DeliverTx* / EndBlock / Commit per block), on in-memory
// state/events stores plus an on-disk appdb so that the node can be "restarted".

import (
	"crypto/ecdsa"
	"crypto/sha256"
	"encoding/json"
	"fmt"
	"math/big"
	"os"
	"runtime/debug"
	"sort"
	"strings"
	"sync"
	"time"

	"github.com/MinterTeam/minter-go-node/cmd/utils"
	"github.com/MinterTeam/minter-go-node/config"
	"github.com/MinterTeam/minter-go-node/coreV2/minter"
	"github.com/MinterTeam/minter-go-node/coreV2/state/candidates"
	"github.com/MinterTeam/minter-go-node/coreV2/transaction"
	"github.com/MinterTeam/minter-go-node/coreV2/types"
	"github.com/MinterTeam/minter-go-node/crypto"
	"github.com/MinterTeam/minter-go-node/rlp"
	abci "github.com/tendermint/tendermint/abci/types"
	"github.com/tendermint/tendermint/crypto/ed25519"
	tmjson "github.com/tendermint/tendermint/libs/json"
	tmlog "github.com/tendermint/tendermint/libs/log"
	tmproto "github.com/tendermint/tendermint/proto/tendermint/types"
)

const stakePeriod = 12 // update-stakes / pay-rewards period used by the harness

// InitialHeight of the harness chains: above 10197360 so that LockStake is available, and
// > 1 as every exported genesis is.
const InitialHeight = 10200001

type Acct struct {
	Key  *ecdsa.PrivateKey
	Addr types.Address
}

func mkAcct(i int) Acct {
	h := sha256.Sum256([]byte(fmt.Sprintf("verif-account-%d", i)))
	k, err := crypto.ToECDSA(h[:])
	if err != nil {
		panic(err)
	}
	return Acct{Key: k, Addr: crypto.PubkeyToAddress(k.PublicKey)}
}

type Val struct {
	Pub   types.Pubkey
	TmAdr types.TmAddress
}

func mkVal(i int) Val {
	h := sha256.Sum256([]byte(fmt.Sprintf("verif-validator-%d", i)))
	priv := ed25519.GenPrivKeyFromSecret(h[:])
	var v Val
	copy(v.Pub[:], priv.PubKey().Bytes())
	copy(v.TmAdr[:], priv.PubKey().Address())
	return v
}

func pip(bip int64) *big.Int {
	return new(big.Int).Mul(big.NewInt(bip), ZS("1000000000000000000"))
}

func defaultCommission() types.Commission {
	return types.Commission{
		Coin: 0, PayloadByte: "2000000000000000", Send: "10000000000000000", BuyBancor: "100000000000000000",
		SellBancor: "100000000000000000", SellAllBancor: "100000000000000000", BuyPoolBase: "100000000000000000",
		BuyPoolDelta: "50000000000000000", SellPoolBase: "100000000000000000", SellPoolDelta: "50000000000000000",
		SellAllPoolBase: "100000000000000000", SellAllPoolDelta: "50000000000000000",
		CreateTicker3: "1000000000000000000000000", CreateTicker4: "100000000000000000000000",
		CreateTicker5: "10000000000000000000000", CreateTicker6: "1000000000000000000000",
		CreateTicker7_10: "100000000000000000000", CreateCoin: "0", CreateToken: "0",
		RecreateCoin: "10000000000000000000000", RecreateToken: "10000000000000000000000",
		DeclareCandidacy: "10000000000000000000", Delegate: "200000000000000000", Unbond: "200000000000000000",
		RedeemCheck: "30000000000000000", SetCandidateOn: "100000000000000000", SetCandidateOff: "100000000000000000",
		CreateMultisig: "100000000000000000", MultisendBase: "10000000000000000", MultisendDelta: "5000000000000000",
		EditCandidate: "10000000000000000000", SetHaltBlock: "1000000000000000000", EditTickerOwner: "10000000000000000000000",
		EditMultisig: "1000000000000000000", EditCandidatePublicKey: "100000000000000000000000",
		CreateSwapPool: "1000000000000000000", AddLiquidity: "100000000000000000", RemoveLiquidity: "100000000000000000",
		EditCandidateCommission: "10000000000000000000", BurnToken: "100000000000000000", MintToken: "100000000000000000",
		VoteCommission: "1000000000000000000", VoteUpdate: "1000000000000000000",
		FailedTx: "1000000000000000", AddLimitOrder: "100000000000000000", RemoveLimitOrder: "100000000000000000",
		MoveStake: "200000000000000000", LockStake: "100000000000000000", Lock: "100000000000000000",
	}
}

// GenesisSpec is the harness-level description of a genesis.
type GenesisSpec struct {
	NAccounts  int
	Balance    *big.Int   // base-coin balance of every account
	NVals      int        // validators (= candidates 1..NVals, online)
	Stakes     []*big.Int // stake of validator i (owner: account i % NAccounts); default 10000 BIP
	ExtraCands int        // additional online candidates that are not validators
	Versions   []types.Version
	Emission   string
	PrevReward types.RewardPrice
	Mutate     func(*types.AppState)
	ValOwnersFrom int // if > 0: candidate i is owned by account ValOwnersFrom+i (accounts that never transact)
}

type Node struct {
	EmptyValset bool // the validator set became empty: Tendermint would have stopped the chain

	Home    string
	Store   *utils.Storage
	Cfg     *config.Config
	App     *minter.Blockchain
	Accts   []Acct
	Vals    []Val
	Height  int64
	Time    time.Time
	Panics  []string
	Genesis types.AppState
	Hashes  map[int64]string
	// run once after the next BeginBlock of execReq (C10)
	afterBeginOnce func()
	lastVals []curVal
	Stacks   []string
}

// stackSummary returns the repo frames of the current (panicking) goroutine.
func stackSummary() string {
	var out []string
	for _, l := range strings.Split(string(debug.Stack()), "\n") {
		if strings.Contains(l, "/repo/") {
			f := strings.TrimSpace(l)
			if i := strings.Index(f, " +0x"); i > 0 {
				f = f[:i]
			}
			out = append(out, strings.TrimPrefix(f, "/repo/"))
		}
	}
	if len(out) > 8 {
		out = out[:8]
	}
	return strings.Join(out, " <- ")
}

func defaultVersions() []types.Version {
	return []types.Version{{Name: "v300", Height: 0}, {Name: "v310", Height: 0}, {Name: "v320", Height: 0}, {Name: "v330", Height: 0}}
}

func buildGenesis(spec *GenesisSpec) (types.AppState, []Acct, []Val) {
	accts := make([]Acct, spec.NAccounts)
	for i := range accts {
		accts[i] = mkAcct(i)
	}
	nc := spec.NVals + spec.ExtraCands
	vals := make([]Val, nc)
	for i := range vals {
		vals[i] = mkVal(i)
	}
	st := types.AppState{
		Version: "v300", TotalSlashed: "0", Commission: defaultCommission(), MaxGas: 100000,
		Emission: spec.Emission, PrevReward: spec.PrevReward, Versions: spec.Versions,
	}
	if st.Emission == "" {
		st.Emission = "1000000000000000000000000000" // 10^9 BIP already emitted
	}
	if st.PrevReward.Reward == "" {
		st.PrevReward = types.RewardPrice{Time: 0, AmountBIP: "350000000000000000000", AmountUSDT: "1000000000000000000", Reward: "74000000000000000000", Off: false}
	}
	if st.Versions == nil {
		st.Versions = defaultVersions()
	}
	for i, a := range accts {
		st.Accounts = append(st.Accounts, types.Account{Address: a.Addr, Balance: []types.Balance{{Coin: 0, Value: spec.Balance.String()}}, Nonce: 0})
		_ = i
	}
	for i := 0; i < nc; i++ {
		stake := pip(10000)
		if i < len(spec.Stakes) && spec.Stakes[i] != nil {
			stake = spec.Stakes[i]
		}
		owner := accts[i%len(accts)].Addr
		if spec.ValOwnersFrom > 0 {
			owner = accts[(spec.ValOwnersFrom+i)%len(accts)].Addr
		}
		st.Candidates = append(st.Candidates, types.Candidate{
			ID: uint64(i + 1), RewardAddress: owner, OwnerAddress: owner, ControlAddress: owner,
			TotalBipStake: stake.String(), PubKey: vals[i].Pub, Commission: 10,
			Stakes: []types.Stake{{Owner: owner, Coin: 0, Value: stake.String(), BipValue: stake.String()}},
			Status: candidates.CandidateStatusOnline,
		})
		if i < spec.NVals {
			st.Validators = append(st.Validators, types.Validator{TotalBipStake: stake.String(), PubKey: vals[i].Pub, AccumReward: "0", AbsentTimes: types.NewBitArray(24)})
		}
	}
	if spec.Mutate != nil {
		spec.Mutate(&st)
	}
	return st, accts, vals
}

func newNode(spec *GenesisSpec) *Node {
	types.CurrentChainID = types.ChainTestnet
	st, accts, vals := buildGenesis(spec)
	n := &Node{Accts: accts, Vals: vals, Genesis: st, Hashes: map[int64]string{}}
	home, err := os.MkdirTemp(os.Getenv("VERIF_TMP"), "vnode")
	if err != nil {
		panic(err)
	}
	n.Home = home
	os.MkdirAll(home+"/data", 0755)
	os.MkdirAll(home+"/config", 0755)
	n.Store = utils.NewStorage(home, "")
	n.Cfg = config.GetConfig(home)
	n.Cfg.DBBackend = "goleveldb"
	n.Cfg.KeepLastStates = 100000
	n.start()
	n.initChain(st, InitialHeight)
	return n
}

func (n *Node) start() {
	n.App = minter.NewMinterBlockchain(n.Store, n.Cfg, nil, stakePeriod, 5*stakePeriod, tmlog.NewNopLogger())
}

func (n *Node) initChain(st types.AppState, initialHeight int64) {
	b, err := tmjson.Marshal(st)
	if err != nil {
		panic(err)
	}
	n.Time = time.Date(2030, 1, 1, 9, 0, 0, 0, time.UTC)
	n.App.InitChain(abci.RequestInitChain{Time: n.Time, ChainId: "verif", InitialHeight: initialHeight, AppStateBytes: b})
	n.Height = initialHeight - 1
}

// Restart0 re-creates the app and forces state initialisation through Info-like access.
func (n *Node) Restart0() {}

// Restart closes the application and re-creates it on the same stores, like a process restart.
func (n *Node) Restart() {
	n.App.Close()
	n.start()
}

func (n *Node) Cleanup() {
	func() {
		defer func() { recover() }()
		n.App.Close()
	}()
	os.RemoveAll(n.Home)
}

type TxResult struct {
	Code uint32
	Gas  int64
	Tags map[string]string
	Log  string
}

type BlockResult struct {
	Txs     []TxResult
	Updates []abci.ValidatorUpdate
	Hash    string
	Panic   string
}

type BlockOpts struct {
	Absent   map[int]bool // validator indexes that did not sign the last block
	Omit     map[int]bool // validator indexes missing from the commit info altogether (Tendermint's set lags the application's by two blocks)
	AfterBegin func()     // called right after BeginBlock
	Evidence []int        // validator indexes with byzantine evidence
	Dt       time.Duration
	PreTx    func(i int, raw []byte)            // called right before DeliverTx of transaction i
	PostTx   func(i int, raw []byte, r TxResult) // called right after it
}

func (n *Node) guard(where string, f func()) (ok bool) {
	defer func() {
		if r := recover(); r != nil {
			n.Panics = append(n.Panics, fmt.Sprintf("%s@%d: %v", where, n.Height+1, r))
			n.Stacks = append(n.Stacks, stackSummary())
			ok = false
		}
	}()
	f()
	return true
}

// Block executes one block with the given raw transactions.
func (n *Node) Block(txs [][]byte, o *BlockOpts) *BlockResult {
	if o == nil {
		o = &BlockOpts{}
	}
	h := n.Height + 1
	dt := o.Dt
	if dt == 0 {
		dt = 5 * time.Second
	}
	n.Time = n.Time.Add(dt)
	res := &BlockResult{}
	var votes []abci.VoteInfo
	// the validator set in force is what the application last reported through updates;
	// the harness keeps it simple: every genesis validator that is still a validator votes
	for _, v := range n.curValidators() {
		addr := make([]byte, len(v.tm))
		copy(addr, v.tm[:]) // (go 1.17 loop-variable semantics: never slice the loop variable)
		if o.Omit[v.idx] {
			continue
		}
		votes = append(votes, abci.VoteInfo{Validator: abci.Validator{Address: addr, Power: 1}, SignedLastBlock: !o.Absent[v.idx]})
	}
	var ev []abci.Evidence
	for _, i := range o.Evidence {
		addr := make([]byte, 20)
		copy(addr, n.Vals[i].TmAdr[:])
		ev = append(ev, abci.Evidence{Type: abci.EvidenceType_DUPLICATE_VOTE, Validator: abci.Validator{Address: addr, Power: 1}, Height: h - 1, Time: n.Time})
	}
	ok := n.guard("BeginBlock", func() {
		n.App.BeginBlock(abci.RequestBeginBlock{Header: tmproto.Header{Height: h, Time: n.Time, ChainID: "verif"},
			LastCommitInfo: abci.LastCommitInfo{Votes: votes}, ByzantineValidators: ev})
	})
	if !ok {
		res.Panic = n.Panics[len(n.Panics)-1]
		return res
	}
	if o.AfterBegin != nil {
		o.AfterBegin()
	}
	for txi, tx := range txs {
		if o.PreTx != nil {
			o.PreTx(txi, tx)
		}
		var r abci.ResponseDeliverTx
		if !n.guard("DeliverTx", func() { r = n.App.DeliverTx(abci.RequestDeliverTx{Tx: tx}) }) {
			res.Panic = n.Panics[len(n.Panics)-1]
			return res
		}
		tr := TxResult{Code: r.Code, Gas: r.GasUsed, Tags: map[string]string{}, Log: r.Log}
		for _, e := range r.Events {
			for _, a := range e.Attributes {
				tr.Tags[string(a.Key)] = string(a.Value)
			}
		}
		res.Txs = append(res.Txs, tr)
		if o.PostTx != nil {
			o.PostTx(txi, tx, tr)
		}
	}
	if !n.guard("EndBlock", func() { res.Updates = n.App.EndBlock(abci.RequestEndBlock{Height: h}).ValidatorUpdates }) {
		res.Panic = n.Panics[len(n.Panics)-1]
		return res
	}
	if !n.guard("Commit", func() { res.Hash = fmt.Sprintf("%x", n.App.Commit().Data) }) {
		res.Panic = n.Panics[len(n.Panics)-1]
		return res
	}
	n.Height = h
	n.Hashes[h] = res.Hash
	n.curValidators()
	if st := n.App.CurrentState(); st != nil && len(st.Validators().GetValidators()) == 0 {
		// Tendermint refuses a validator update that leaves no validator (the chain stops at this block):
		// states after it are not reachable by a deployed node, harnesses end the history here
		n.EmptyValset = true
	}
	return res
}

type curVal struct {
	idx int
	tm  types.TmAddress
}

// curValidators lists the state's current validators (by index into n.Vals).
func (n *Node) curValidators() []curVal {
	var out []curVal
	st := n.App.CurrentState()
	if st == nil { // right after a restart the state is initialised lazily by BeginBlock
		return n.lastVals
	}
	defer func() { n.lastVals = out }()
	for _, v := range st.Validators().GetValidators() {
		for i, x := range n.Vals {
			if x.Pub == v.PubKey {
				out = append(out, curVal{i, x.TmAdr})
			}
		}
	}
	return out
}

// ---- transactions ---------------------------------------------------------------------

func (n *Node) Nonce(a Acct) uint64 { return n.App.CurrentState().Accounts().GetNonce(a.Addr) }

// Export of a freshly restarted node needs the state, which BeginBlock would initialise.
func (n *Node) ensureState() {
	if n.App.CurrentState() == nil {
		n.Restart0()
	}
}

// MkTx builds and signs a transaction; nonce 0 means "next nonce".
func (n *Node) MkTx(a Acct, typ transaction.TxType, data interface{}, gasCoin types.CoinID, nonce uint64, gasPrice uint32, payload []byte) []byte {
	enc, err := rlp.EncodeToBytes(data)
	if err != nil {
		panic(err)
	}
	if nonce == 0 {
		nonce = n.Nonce(a) + 1
	}
	tx := transaction.Transaction{Nonce: nonce, ChainID: types.CurrentChainID, GasPrice: gasPrice, GasCoin: gasCoin, Type: typ,
		Data: enc, Payload: payload, SignatureType: transaction.SigTypeSingle}
	if err := tx.Sign(a.Key); err != nil {
		panic(err)
	}
	b, err := rlp.EncodeToBytes(tx)
	if err != nil {
		panic(err)
	}
	return b
}

// Export returns the state export of the last committed height as generic JSON.
func (n *Node) Export() types.AppState {
	return n.App.CurrentState().Export()
}

func exportJSON(st types.AppState) map[string]interface{} {
	b, _ := json.Marshal(st)
	var m map[string]interface{}
	json.Unmarshal(b, &m)
	return m
}

func sortedStrs(m map[string]bool) []string {
	var s []string
	for k := range m {
		s = append(s, k)
	}
	sort.Strings(s)
	return s
}

func abciDeliver(raw []byte) abci.RequestDeliverTx { return abci.RequestDeliverTx{Tx: raw} }

func newSyncMap() *sync.Map { return &sync.Map{} }

// ---- a block driven step by step (transactions generated against the in-flight state) ----

func (n *Node) BeginOnly(h uint64) bool {
	n.Time = n.Time.Add(5 * time.Second)
	var votes []abci.VoteInfo
	for _, v := range n.curValidators() {
		addr := make([]byte, len(v.tm))
		copy(addr, v.tm[:])
		votes = append(votes, abci.VoteInfo{Validator: abci.Validator{Address: addr, Power: 1}, SignedLastBlock: true})
	}
	return n.guard("BeginBlock", func() {
		n.App.BeginBlock(abci.RequestBeginBlock{Header: tmproto.Header{Height: int64(h), Time: n.Time, ChainID: "verif"},
			LastCommitInfo: abci.LastCommitInfo{Votes: votes}})
	})
}

func (n *Node) DeliverOnly(raw []byte) (TxResult, bool) {
	var r abci.ResponseDeliverTx
	if !n.guard("DeliverTx", func() { r = n.App.DeliverTx(abci.RequestDeliverTx{Tx: raw}) }) {
		return TxResult{}, false
	}
	tr := TxResult{Code: r.Code, Gas: r.GasUsed, Tags: map[string]string{}, Log: r.Log}
	for _, e := range r.Events {
		for _, a := range e.Attributes {
			tr.Tags[string(a.Key)] = string(a.Value)
		}
	}
	return tr, true
}

func (n *Node) EndAndCommit(h uint64) bool {
	if !n.guard("EndBlock", func() { n.App.EndBlock(abci.RequestEndBlock{Height: int64(h)}) }) {
		return false
	}
	var hash string
	if !n.guard("Commit", func() { hash = fmt.Sprintf("%x", n.App.Commit().Data) }) {
		return false
	}
	n.Height = int64(h)
	n.Hashes[int64(h)] = hash
	n.curValidators()
	return true
}
