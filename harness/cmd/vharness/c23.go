package main

import (
	"bytes"
	"crypto/sha256"
	"encoding/hex"
	"fmt"
	"math/big"

	"github.com/MinterTeam/minter-go-node/coreV2/check"
	"github.com/MinterTeam/minter-go-node/coreV2/transaction"
	"github.com/MinterTeam/minter-go-node/coreV2/types"
	"github.com/MinterTeam/minter-go-node/crypto"
	"github.com/MinterTeam/minter-go-node/rlp"
)

func init() { commands["c23"] = runC23 }

// C23 — differential fuzz of the real RLP decoder / typed transaction, signature and check
// decoders / signature-value validation against the Coq model (model 10), plus monitors.
//
// ops (model 10):
//   [1; bytes..]  generic decode (rlp.DecodeBytes into interface{}: canonical checks at every level)
//                 -> [1; re-encoded bytes..] | [0]
//   [2; bytes..]  rlp.DecodeBytes(b, &transaction.Transaction{})
//                 -> [1; nonce; chainid; gasprice; gascoin; type; sigtype; len data; len payload; len servicedata] | [0]
//   [3; v; r; s]  transaction.RecoverPlain does not answer ErrInvalidSig -> [1] | [0]
//   [4; bytes..]  check.DecodeFromBytes -> [1; len nonce; chain; due; coin; value; gascoin; lock; v; r; s] | [0]
//   [5; bytes..]  rlp.DecodeBytes(b, &transaction.Signature{}) -> [1; v; r; s] | [0]

// ---- a tiny RLP tree with a deliberately defective encoder ------------------------------

type rnode struct {
	list  bool
	b     []byte
	kids  []*rnode
	width int // for integer fields: maximal byte width (0 = not known to be an integer, -1 = big.Int)
}

// parseTree reads one canonical value (only used on output of the real encoder).
func parseTree(b []byte) (*rnode, []byte) {
	if len(b) == 0 {
		panic("parseTree: empty")
	}
	h := b[0]
	rd := func(k int) int {
		n := 0
		for i := 0; i < k; i++ {
			n = n<<8 | int(b[1+i])
		}
		return n
	}
	switch {
	case h < 0x80:
		return &rnode{b: []byte{h}}, b[1:]
	case h < 0xb8:
		n := int(h - 0x80)
		return &rnode{b: append([]byte{}, b[1:1+n]...)}, b[1+n:]
	case h < 0xc0:
		k := int(h - 0xb7)
		n := rd(k)
		return &rnode{b: append([]byte{}, b[1+k:1+k+n]...)}, b[1+k+n:]
	default:
		var pl []byte
		var rest []byte
		if h < 0xf8 {
			n := int(h - 0xc0)
			pl, rest = b[1:1+n], b[1+n:]
		} else {
			k := int(h - 0xf7)
			n := rd(k)
			pl, rest = b[1+k:1+k+n], b[1+k+n:]
		}
		nd := &rnode{list: true}
		for len(pl) > 0 {
			var kid *rnode
			kid, pl = parseTree(pl)
			nd.kids = append(nd.kids, kid)
		}
		return nd, rest
	}
}

func mustTree(b []byte) *rnode {
	n, rest := parseTree(b)
	if len(rest) != 0 {
		panic("mustTree: trailing bytes")
	}
	return n
}

func (n *rnode) all(acc []*rnode) []*rnode {
	acc = append(acc, n)
	for _, k := range n.kids {
		acc = k.all(acc)
	}
	return acc
}

func beBytes(n int) []byte {
	var out []byte
	for n > 0 {
		out = append([]byte{byte(n)}, out...)
		n >>= 8
	}
	return out
}

func rlpHead(off byte, n int) []byte {
	if n < 56 {
		return []byte{off + byte(n)}
	}
	lb := beBytes(n)
	return append([]byte{off + 55 + byte(len(lb))}, lb...)
}

const (
	dNone = iota
	dLongForm      // long-form length where the short form is required
	dLenLeadZero   // leading zero byte in the length-of-length bytes
	dWrapSingle    // single byte < 0x80 written as 0x81 xx
	dLeadZeroInt   // leading zero byte in front of a (integer) string
	dOversize      // integer wider than its field
	dExtraElem     // one list element too many
	dFewerElem     // last list element missing
	dListForString // a list where a string is expected
	dStringForList // a string header on a list payload
	dLenPlus       // header announces one byte more than there is
	dLenMinus      // header announces one byte less than there is
	dZeroByte      // integer zero written as the single byte 0x00
	dTrailing      // bytes after the value
	nDefects
)

var defectName = []string{"none", "longform", "lenleadzero", "wrapsingle", "leadzeroint", "oversize", "extraelem", "fewerelem",
	"listforstring", "stringforlist", "lenplus", "lenminus", "zerobyte", "trailing"}

type badEnc struct {
	target *rnode
	d      int
	r      *Rng
}

func (e *badEnc) enc(n *rnode) []byte {
	isT := n == e.target
	d := dNone
	if isT {
		d = e.d
	}
	var payload []byte
	list := n.list
	if n.list {
		kids := n.kids
		if d == dExtraElem {
			kids = append(append([]*rnode{}, kids...), &rnode{b: []byte{byte(e.r.Intn(3))}[:e.r.Intn(2)]})
		}
		if d == dFewerElem && len(kids) > 0 {
			kids = kids[:len(kids)-1]
		}
		for _, k := range kids {
			payload = append(payload, e.enc(k)...)
		}
	} else {
		payload = n.b
		switch d {
		case dLeadZeroInt:
			payload = append([]byte{0}, n.b...)
		case dOversize:
			w := n.width
			if w <= 0 {
				w = 32
			}
			payload = make([]byte, w+1)
			payload[0] = byte(1 + e.r.Intn(255))
			copy(payload[w+1-min(len(n.b), w):], n.b)
		case dZeroByte:
			payload = []byte{0}
		}
	}
	if d == dListForString {
		payload = (&badEnc{}).encStr(payload)
		list = true
	}
	if d == dStringForList {
		list = false
	}
	off := byte(0x80)
	if list {
		off = 0xc0
	}
	switch d {
	case dLongForm: // precondition len(payload) < 56
		return append([]byte{off + 56, byte(len(payload))}, payload...)
	case dLenLeadZero:
		lb := beBytes(len(payload))
		if len(lb) == 0 {
			lb = []byte{0}
		}
		out := append([]byte{off + 55 + byte(len(lb)+1), 0}, lb...)
		return append(out, payload...)
	case dWrapSingle: // precondition: string of one byte < 0x80
		return []byte{0x81, payload[0]}
	case dLenPlus:
		return append(rlpHead(off, len(payload)+1), payload...)
	case dLenMinus: // precondition len(payload) >= 1
		return append(rlpHead(off, len(payload)-1), payload...)
	}
	if list {
		return append(rlpHead(0xc0, len(payload)), payload...)
	}
	return e.encStr(payload)
}

func (e *badEnc) encStr(p []byte) []byte {
	if len(p) == 1 && p[0] < 0x80 {
		return []byte{p[0]}
	}
	return append(rlpHead(0x80, len(p)), p...)
}

func min(a, b int) int {
	if a < b {
		return a
	}
	return b
}

// pickDefect chooses a defect and then a node of the tree it applies to.
func pickDefect(root *rnode, r *Rng) (int, *rnode) {
	nodes := root.all(nil)
	canon := &badEnc{}
	applies := func(d int, n *rnode) bool {
		switch d {
		case dLongForm: // payload shorter than 56 bytes and not a single byte < 0x80
			if n.list {
				pl := 0
				for _, k := range n.kids {
					pl += len(canon.enc(k))
				}
				return pl < 56
			}
			return len(n.b) < 56 && !(len(n.b) == 1 && n.b[0] < 0x80)
		case dLenLeadZero, dLenPlus:
			return true
		case dWrapSingle:
			return !n.list && len(n.b) == 1 && n.b[0] < 0x80
		case dLeadZeroInt:
			return !n.list && (n.width != 0 || r.Intn(4) == 0)
		case dOversize:
			return !n.list && n.width > 0
		case dZeroByte:
			return !n.list && n.width != 0 && len(n.b) == 0
		case dExtraElem, dStringForList:
			return n.list
		case dFewerElem:
			return n.list && len(n.kids) > 0
		case dListForString:
			return !n.list
		case dLenMinus:
			return (n.list && len(n.kids) > 0) || (!n.list && len(n.b) > 1)
		}
		return false
	}
	for try := 0; try < 20; try++ {
		d := 1 + r.Intn(nDefects-1)
		if d == dTrailing {
			return d, root
		}
		var cand []*rnode
		for _, n := range nodes {
			if applies(d, n) {
				cand = append(cand, n)
			}
		}
		if len(cand) > 0 {
			if d == dLongForm || d == dLenPlus || d == dLenMinus || d == dLenLeadZero {
				// the edge of the short/long form rule: prefer nodes whose payload is 54..56 bytes long
				var edge []*rnode
				for _, n := range cand {
					pl := len(n.b)
					if n.list {
						pl = 0
						for _, k := range n.kids {
							pl += len(canon.enc(k))
						}
					}
					if pl >= 54 && pl <= 56 {
						edge = append(edge, n)
					}
				}
				if len(edge) > 0 && r.Intn(3) != 0 {
					return d, edge[r.Intn(len(edge))]
				}
			}
			return d, cand[r.Intn(len(cand))]
		}
	}
	return dTrailing, root
}

func encodeBad(root *rnode, d int, target *rnode, r *Rng) []byte {
	if d == dTrailing {
		out := (&badEnc{}).enc(root)
		k := 1 + r.Intn(3)
		for i := 0; i < k; i++ {
			out = append(out, byte(r.U64()))
		}
		return out
	}
	return (&badEnc{target: target, d: d, r: r}).enc(root)
}

// ---- the real decoders ---------------------------------------------------------------------

func c23Guard(f func()) (panicked interface{}) {
	defer func() {
		if e := recover(); e != nil {
			panicked = e
		}
	}()
	f()
	return nil
}

func bytesOp(op int64, b []byte) []*big.Int {
	in := make([]*big.Int, 0, len(b)+1)
	in = append(in, Z(op))
	for _, x := range b {
		in = append(in, Z(int64(x)))
	}
	return in
}

// realGeneric: decode into interface{} ([]byte / []interface{} recursively) and re-encode.
func realGeneric(b []byte) (ok bool, re []byte) {
	var v interface{}
	if err := rlp.DecodeBytes(b, &v); err != nil {
		return false, nil
	}
	re, err := rlp.EncodeToBytes(v)
	if err != nil {
		panic(err)
	}
	return true, re
}

func u(x uint64) *big.Int { return new(big.Int).SetUint64(x) }

func txKey(tx *transaction.Transaction) string {
	return fmt.Sprintf("%d/%d/%d/%d/%d/%x/%x/%x/%d/%x", tx.Nonce, tx.ChainID, tx.GasPrice, tx.GasCoin, tx.Type, []byte(tx.Data), tx.Payload,
		tx.ServiceData, tx.SignatureType, tx.SignatureData)
}
func checkKey(c *check.Check) string {
	return fmt.Sprintf("%x/%d/%d/%d/%s/%d/%s/%s/%s/%s", c.Nonce, c.ChainID, c.DueBlock, c.Coin, c.Value, c.GasCoin, c.Lock, c.V, c.R, c.S)
}

var secpN, _ = new(big.Int).SetString("fffffffffffffffffffffffffffffffebaaedce6af48a03bbfd25e8cd0364141", 16)

type c23run struct {
	r       *Rng
	c       *Cases
	mon     []MonitorFailure
	ex      transaction.ExecutorTx
	seenTx  map[string]string
	seenChk map[string]string
	acc     map[string]int // accepted / rejected counters per op
	defects map[string]int
	nt      bool
}

func (g *c23run) fail(key, what string, b []byte) {
	if len(g.mon) < 40 {
		g.mon = append(g.mon, MonitorFailure{What: what, Key: key, Replay: "bytes " + hex.EncodeToString(b)})
	}
}

func (g *c23run) count(op string, ok bool) {
	if ok {
		g.acc[op+":accept"]++
	} else {
		g.acc[op+":reject"]++
	}
}

// opGeneric emits op 1 and runs the generic monitors.
func (g *c23run) opGeneric(b []byte) bool {
	var ok bool
	var re []byte
	if p := c23Guard(func() { ok, re = realGeneric(b) }); p != nil {
		g.fail("c23-panic", fmt.Sprintf("generic decode panics: %v", p), b)
		g.c.Op(bytesOp(1, b), L(Z(2)))
		return false
	}
	g.count("generic", ok)
	if ok {
		if !bytes.Equal(re, b) {
			g.fail("c23-generic-reencode", "generic value accepted but its re-encoding differs from the input: "+hex.EncodeToString(re), b)
		}
		g.c.Op(bytesOp(1, b), bytesOp(1, re))
	} else {
		g.c.Op(bytesOp(1, b), L(Z(0)))
	}
	return ok
}

// opTx emits op 2 (struct-level decode) and runs the executor's full decode path with the monitors.
// orig (may be nil) is the valid encoding b was derived from.
func (g *c23run) opTx(b []byte) (*transaction.Transaction, bool) {
	var tx transaction.Transaction
	var err error
	if p := c23Guard(func() { err = rlp.DecodeBytes(b, &tx) }); p != nil {
		g.fail("c23-panic", fmt.Sprintf("transaction decode panics: %v", p), b)
		g.c.Op(bytesOp(2, b), L(Z(2)))
		return nil, false
	}
	g.count("tx-struct", err == nil)
	if err != nil {
		g.c.Op(bytesOp(2, b), L(Z(0)))
	} else {
		g.c.Op(bytesOp(2, b), L(Z(1), u(tx.Nonce), Z(int64(tx.ChainID)), Z(int64(tx.GasPrice)), Z(int64(tx.GasCoin)), Z(int64(tx.Type)),
			Z(int64(tx.SignatureType)), Z(int64(len(tx.Data))), Z(int64(len(tx.Payload))), Z(int64(len(tx.ServiceData)))))
		if re, e := rlp.EncodeToBytes(&tx); e != nil || !bytes.Equal(re, b) {
			g.fail("c23-reencode-tx", "Transaction struct accepted but its re-encoding differs from the input: "+hex.EncodeToString(re), b)
		}
	}
	// the executor's path: struct, data by type, signature
	var full *transaction.Transaction
	var ferr error
	if p := c23Guard(func() { full, ferr = g.ex.DecodeFromBytes(b) }); p != nil {
		g.fail("c23-panic", fmt.Sprintf("Executor.DecodeFromBytes panics: %v", p), b)
		return nil, false
	}
	g.count("tx-executor", ferr == nil)
	if ferr != nil {
		return nil, err == nil
	}
	if err != nil {
		g.fail("c23-reencode-tx", "executor accepts bytes that rlp.DecodeBytes into Transaction rejects", b)
	}
	if re, e := rlp.EncodeToBytes(full); e != nil || !bytes.Equal(re, b) {
		g.fail("c23-reencode-tx", "transaction accepted by Executor.DecodeFromBytes but its re-encoding differs from the input: "+hex.EncodeToString(re), b)
	}
	if re, e := rlp.EncodeToBytes(full.GetDecodedData()); e != nil || !bytes.Equal(re, full.Data) {
		g.fail("c23-reencode-data", fmt.Sprintf("tx type %d: decoded data re-encodes to %x, not to the Data bytes %x", full.Type, re, []byte(full.Data)), b)
	}
	switch full.SignatureType {
	case transaction.SigTypeSingle:
		var s transaction.Signature
		if e := rlp.DecodeBytes(full.SignatureData, &s); e != nil {
			g.fail("c23-reencode-sig", "signature data accepted by DecodeSig but not by a second decode", b)
		} else if re, _ := rlp.EncodeToBytes(&s); !bytes.Equal(re, full.SignatureData) {
			g.fail("c23-reencode-sig", "signature re-encodes to "+hex.EncodeToString(re), b)
		}
	case transaction.SigTypeMulti:
		var s transaction.SignatureMulti
		if e := rlp.DecodeBytes(full.SignatureData, &s); e != nil {
			g.fail("c23-reencode-sig", "multisignature data accepted by DecodeSig but not by a second decode", b)
		} else if re, _ := rlp.EncodeToBytes(&s); !bytes.Equal(re, full.SignatureData) {
			g.fail("c23-reencode-sig", "multisignature re-encodes to "+hex.EncodeToString(re), b)
		}
	}
	k := txKey(full)
	if prev, ok := g.seenTx[k]; ok && prev != string(b) {
		g.fail("c23-second-encoding", "two different byte strings decode to the same transaction; the other one is "+hex.EncodeToString([]byte(prev)), b)
	}
	g.seenTx[k] = string(b)
	return full, true
}

func (g *c23run) opCheck(b []byte) (*check.Check, bool) {
	var ck *check.Check
	var err error
	if p := c23Guard(func() { ck, err = check.DecodeFromBytes(b) }); p != nil {
		g.fail("c23-panic", fmt.Sprintf("check decode panics: %v", p), b)
		g.c.Op(bytesOp(4, b), L(Z(2)))
		return nil, false
	}
	g.count("check", err == nil)
	if err != nil {
		g.c.Op(bytesOp(4, b), L(Z(0)))
		return nil, false
	}
	g.c.Op(bytesOp(4, b), L(Z(1), Z(int64(len(ck.Nonce))), Z(int64(ck.ChainID)), u(ck.DueBlock), Z(int64(ck.Coin)), cp(ck.Value), Z(int64(ck.GasCoin)),
		cp(ck.Lock), cp(ck.V), cp(ck.R), cp(ck.S)))
	if re, e := rlp.EncodeToBytes(ck); e != nil || !bytes.Equal(re, b) {
		g.fail("c23-reencode-check", "check accepted but its re-encoding differs from the input: "+hex.EncodeToString(re), b)
	}
	k := checkKey(ck)
	if prev, ok := g.seenChk[k]; ok && prev != string(b) {
		g.fail("c23-second-encoding", "two different byte strings decode to the same check; the other one is "+hex.EncodeToString([]byte(prev)), b)
	}
	g.seenChk[k] = string(b)
	return ck, true
}

func (g *c23run) opSig(b []byte) (*transaction.Signature, bool) {
	var s transaction.Signature
	var err error
	if p := c23Guard(func() { err = rlp.DecodeBytes(b, &s) }); p != nil {
		g.fail("c23-panic", fmt.Sprintf("signature decode panics: %v", p), b)
		g.c.Op(bytesOp(5, b), L(Z(2)))
		return nil, false
	}
	g.count("sig", err == nil)
	if err != nil {
		g.c.Op(bytesOp(5, b), L(Z(0)))
		return nil, false
	}
	g.c.Op(bytesOp(5, b), L(Z(1), cp(s.V), cp(s.R), cp(s.S)))
	if re, _ := rlp.EncodeToBytes(&s); !bytes.Equal(re, b) {
		g.fail("c23-reencode-sig", "signature accepted but re-encodes to "+hex.EncodeToString(re), b)
	}
	return &s, true
}

// opValidate emits op 3: does RecoverPlain get past the signature-value validation?
func (g *c23run) opValidate(v, rr, s *big.Int) bool {
	var h types.Hash
	h[0] = 1
	var err error
	if p := c23Guard(func() { _, err = transaction.RecoverPlain(h, rr, s, v) }); p != nil {
		g.fail("c23-panic", fmt.Sprintf("RecoverPlain panics on v=%s r=%s s=%s: %v", v, rr, s, p), nil)
		g.c.Op(L(Z(3), cp(v), cp(rr), cp(s)), L(Z(2)))
		return false
	}
	ok := err != transaction.ErrInvalidSig
	g.count("validate", ok)
	// the property in integers: accepted values are v in {27,28}, 0 < r < N, 0 < s <= N/2
	half := new(big.Int).Rsh(secpN, 1)
	want := (v.Cmp(Z(27)) == 0 || v.Cmp(Z(28)) == 0) && rr.Sign() > 0 && rr.Cmp(secpN) < 0 && s.Sign() > 0 && s.Cmp(half) <= 0
	if ok != want {
		g.fail("c23-sigvalues", fmt.Sprintf("RecoverPlain validation says %v for v=%s r=%s s=%s, the rule (v in {27,28}, 0<r<N, 0<s<=N/2) says %v", ok, v, rr, s, want), nil)
	}
	out := int64(0)
	if ok {
		out = 1
	}
	g.c.Op(L(Z(3), cp(v), cp(rr), cp(s)), L(Z(out)))
	return ok
}

// ---- generators -------------------------------------------------------------------------------

func (g *c23run) rbytes(n int) []byte {
	b := make([]byte, n)
	for i := range b {
		switch g.r.Intn(8) {
		case 0:
			b[i] = 0
		case 1:
			b[i] = 0x7f + byte(g.r.Intn(3))
		default:
			b[i] = byte(g.r.U64())
		}
	}
	return b
}

func (g *c23run) strLen() int {
	switch g.r.Intn(12) {
	case 0:
		return 0
	case 1, 2:
		return 1
	case 3:
		return 55
	case 4:
		return 54 + g.r.Intn(3)
	case 5:
		return 57 + g.r.Intn(200)
	case 6:
		return 255 + g.r.Intn(3)
	case 7:
		return 300 + g.r.Intn(900)
	default:
		return 2 + g.r.Intn(53)
	}
}

func (g *c23run) u64() uint64 {
	switch g.r.Intn(10) {
	case 0:
		return 0
	case 1:
		return 1
	case 2:
		return 127
	case 3:
		return 128
	case 4:
		return 255 + uint64(g.r.Intn(3))
	case 5:
		return ^uint64(0) - uint64(g.r.Intn(2))
	case 6:
		return g.r.U64()
	default:
		return g.r.U64() >> uint(g.r.Intn(64))
	}
}

func (g *c23run) amount() *big.Int {
	switch g.r.Intn(5) {
	case 0:
		return big.NewInt(0)
	case 1:
		return big.NewInt(int64(g.r.Intn(300)))
	default:
		return g.r.Big(40)
	}
}

func (g *c23run) pubkey() types.Pubkey { return mkVal(g.r.Intn(20)).Pub }

// genData returns a transaction type and its data struct.
func (g *c23run) genData() (transaction.TxType, interface{}) {
	switch g.r.Intn(8) {
	case 0, 1:
		return transaction.TypeSend, transaction.SendData{Coin: types.CoinID(g.u64()), To: mkAcct(g.r.Intn(50)).Addr, Value: g.amount()}
	case 2:
		n := 1 + g.r.Intn(4)
		var l []transaction.MultisendDataItem
		for i := 0; i < n; i++ {
			l = append(l, transaction.MultisendDataItem{Coin: types.CoinID(g.u64()), To: mkAcct(g.r.Intn(50)).Addr, Value: g.amount()})
		}
		return transaction.TypeMultisend, transaction.MultisendData{List: l}
	case 3:
		return transaction.TypeSetCandidateOnline, transaction.SetCandidateOnData{PubKey: g.pubkey()}
	case 4:
		return transaction.TypeSetHaltBlock, transaction.SetHaltBlockData{PubKey: g.pubkey(), Height: g.u64()}
	case 5:
		return transaction.TypeCreateCoin, transaction.CreateCoinData{Name: string(g.rbytes(g.r.Intn(70))), Symbol: types.StrToCoinSymbol("TEST"),
			InitialAmount: g.amount(), InitialReserve: g.amount(), ConstantReserveRatio: uint32(g.u64()), MaxSupply: g.amount()}
	case 6:
		raw, _ := g.genCheck()
		var proof [65]byte
		copy(proof[:], g.rbytes(65))
		return transaction.TypeRedeemCheck, transaction.RedeemCheckData{RawCheck: raw, Proof: proof}
	default:
		n := 1 + g.r.Intn(4)
		d := transaction.CreateMultisigData{Threshold: uint32(g.u64())}
		for i := 0; i < n; i++ {
			d.Weights = append(d.Weights, uint32(g.r.Intn(1024)))
			d.Addresses = append(d.Addresses, mkAcct(g.r.Intn(50)).Addr)
		}
		return transaction.TypeCreateMultisig, d
	}
}

type genTx struct {
	tx     transaction.Transaction // public fields only are used afterwards
	raw    []byte
	signer Acct
}

func (g *c23run) genTx(huge bool) *genTx {
	typ, data := g.genData()
	enc, err := rlp.EncodeToBytes(data)
	if err != nil {
		panic(err)
	}
	a := mkAcct(g.r.Intn(50))
	pl := g.rbytes(g.strLen())
	if huge {
		pl = g.rbytes(65536 + g.r.Intn(2000))
	}
	var sd []byte
	if g.r.Intn(4) == 0 {
		sd = g.rbytes(g.strLen() % 80)
	}
	tx := transaction.Transaction{Nonce: g.u64(), ChainID: types.ChainID(g.u64()), GasPrice: uint32(g.u64()), GasCoin: types.CoinID(g.u64()),
		Type: typ, Data: enc, Payload: pl, ServiceData: sd, SignatureType: transaction.SigTypeSingle}
	if err := tx.Sign(a.Key); err != nil {
		panic(err)
	}
	raw, err := rlp.EncodeToBytes(&tx)
	if err != nil {
		panic(err)
	}
	return &genTx{tx: tx, raw: raw, signer: a}
}

func (g *c23run) genMultisigTx() []byte {
	typ, data := g.genData()
	enc, _ := rlp.EncodeToBytes(data)
	tx := transaction.Transaction{Nonce: g.u64(), ChainID: types.ChainID(g.u64()), GasPrice: uint32(g.u64()), GasCoin: types.CoinID(g.u64()),
		Type: typ, Data: enc, Payload: g.rbytes(g.strLen() % 100), SignatureType: transaction.SigTypeMulti}
	tx.SetMultisigAddress(mkAcct(900 + g.r.Intn(5)).Addr)
	for i, n := 0, 1+g.r.Intn(3); i < n; i++ {
		if err := tx.Sign(mkAcct(g.r.Intn(50)).Key); err != nil {
			panic(err)
		}
	}
	raw, _ := rlp.EncodeToBytes(&tx)
	return raw
}

func (g *c23run) genCheckFull() (*check.Check, []byte, Acct, Acct) {
	issuer := mkAcct(g.r.Intn(50))
	pass := mkAcct(7777 + g.r.Intn(3))
	chk := check.Check{Nonce: g.rbytes(g.r.Intn(17)), ChainID: types.ChainID(g.u64()), DueBlock: g.u64(), Coin: types.CoinID(g.u64()),
		Value: g.amount(), GasCoin: types.CoinID(g.u64())}
	lock, err := crypto.Sign(chk.HashWithoutLock().Bytes(), pass.Key)
	if err != nil {
		panic(err)
	}
	chk.Lock = big.NewInt(0).SetBytes(lock)
	if err := chk.Sign(issuer.Key); err != nil {
		panic(err)
	}
	raw, err := rlp.EncodeToBytes(&chk)
	if err != nil {
		panic(err)
	}
	return &chk, raw, issuer, pass
}

func (g *c23run) genCheck() ([]byte, Acct) {
	_, raw, issuer, _ := g.genCheckFull()
	return raw, issuer
}

func (g *c23run) genTree(depth int) interface{} {
	if depth > 0 && g.r.Intn(3) == 0 {
		n := g.r.Intn(6)
		if g.r.Intn(10) == 0 {
			n = 20 + g.r.Intn(60)
		}
		l := make([]interface{}, n)
		for i := range l {
			l[i] = g.genTree(depth - 1)
		}
		return l
	}
	return g.rbytes(g.strLen() % 320)
}

// tree annotators: integer widths of the typed structures
func annotateTx(t *rnode) {
	if t.list && len(t.kids) == 10 {
		for i, w := range map[int]int{0: 8, 1: 1, 2: 4, 3: 4, 4: 1, 8: 1} {
			t.kids[i].width = w
		}
	}
}
func annotateCheck(t *rnode) {
	if t.list && len(t.kids) == 10 {
		for i, w := range map[int]int{1: 1, 2: 8, 3: 4, 4: -1, 5: 4, 6: -1, 7: -1, 8: -1, 9: -1} {
			t.kids[i].width = w
		}
	}
}
func annotateSig(t *rnode) {
	if t.list {
		for _, k := range t.kids {
			k.width = -1
		}
	}
}

// ---- the run ------------------------------------------------------------------------------------

func runC23(seed uint64, n int, out, stats string, _ []string) {
	g := &c23run{r: NewRng(seed), c: NewCases(out), ex: transaction.NewExecutorV3(transaction.GetDataV3),
		seenTx: map[string]string{}, seenChk: map[string]string{}, acc: map[string]int{}, defects: map[string]int{}}
	r := g.r
	// self-test of the defective encoder: without a defect it is the real encoder
	for i := 0; i < 20; i++ {
		t := g.genTx(false)
		if !bytes.Equal((&badEnc{}).enc(mustTree(t.raw)), t.raw) {
			panic("c23: tree encoder differs from rlp.EncodeToBytes")
		}
	}
	for i := 0; i < n; i++ {
		g.c.Begin(10)
		kind := ""
		nontrivial := false
		p := r.Intn(100)
		switch {
		// ---------------- ~50 %: valid encodings
		case p < 20: // a signed transaction
			kind = "valid-tx"
			t := g.genTx(r.Intn(150) == 0)
			g.opGeneric(t.raw)
			full, ok := g.opTx(t.raw)
			if !ok || full == nil {
				g.fail("c23-valid-rejected", "a valid signed transaction is rejected by the decoder", t.raw)
			} else {
				var snd types.Address
				var err error
				if p := c23Guard(func() { snd, err = full.Sender() }); p != nil || err != nil || snd != t.signer.Addr {
					g.fail("c23-sender", fmt.Sprintf("sender of a valid transaction is %s err=%v panic=%v, signed by %s", snd.String(), err, p, t.signer.Addr.String()), t.raw)
				}
				if s, ok := g.opSig(full.SignatureData); ok {
					if !g.opValidate(s.V, s.R, s.S) {
						g.fail("c23-sender", "signature values of a valid transaction do not validate", t.raw)
					}
				}
			}
			nontrivial = ok
		case p < 23:
			kind = "valid-multisig-tx"
			raw := g.genMultisigTx()
			g.opGeneric(raw)
			full, ok := g.opTx(raw)
			if !ok || full == nil {
				g.fail("c23-valid-rejected", "a valid multisig transaction is rejected by the decoder", raw)
			}
			nontrivial = ok
		case p < 31: // a check
			kind = "valid-check"
			chk, raw, issuer, pass := g.genCheckFull()
			g.opGeneric(raw)
			ck, ok := g.opCheck(raw)
			if !ok {
				g.fail("c23-valid-rejected", "a valid check is rejected by the decoder", raw)
			} else {
				snd, err := ck.Sender()
				if err != nil || snd != issuer.Addr {
					g.fail("c23-sender", fmt.Sprintf("sender of a valid check is %s err=%v, issued by %s", snd.String(), err, issuer.Addr.String()), raw)
				}
				pub, err := ck.LockPubKey()
				if err != nil || !bytes.Equal(pub, crypto.FromECDSAPub(&pass.Key.PublicKey)) {
					g.fail("c23-sender", fmt.Sprintf("lock public key of a valid check is %x err=%v", pub, err), raw)
				}
				g.opValidate(ck.V, ck.R, ck.S)
			}
			_ = chk
			nontrivial = ok
		case p < 43: // a generic tree encoded by the real encoder
			kind = "valid-generic"
			raw, err := rlp.EncodeToBytes(g.genTree(4))
			if err != nil {
				panic(err)
			}
			ok := g.opGeneric(raw)
			if !ok {
				g.fail("c23-valid-rejected", "output of rlp.EncodeToBytes is rejected by the decoder", raw)
			}
			nontrivial = ok
		case p < 50: // signature values around the boundaries
			kind = "sigvalues"
			half := new(big.Int).Rsh(secpN, 1)
			pick := func() *big.Int {
				base := []*big.Int{Z(0), Z(1), half, secpN, r.BigBelow(secpN), r.BigBelow(half), new(big.Int).Lsh(Z(1), 256)}[r.Intn(7)]
				x := new(big.Int).Add(base, Z(int64(r.Intn(5)-2)))
				return x.Abs(x)
			}
			for k := 0; k < 4; k++ {
				v := []*big.Int{Z(27), Z(28), Z(26), Z(29), Z(0), Z(1), Z(255), Z(256), Z(283), Z(284), Z(int64(r.Intn(300))), new(big.Int).Lsh(Z(27), 64)}[r.Intn(12)]
				if r.Intn(3) == 0 {
					v = Z(int64(27 + r.Intn(2)))
				}
				if g.opValidate(v, pick(), pick()) {
					nontrivial = true
				}
			}
			nontrivial = true
		// ---------------- ~30 %: structured non-canonical variants of valid encodings
		case p < 62: // of a transaction (top level structure)
			kind = "noncanon-tx"
			t := g.genTx(false)
			tree := mustTree(t.raw)
			annotateTx(tree)
			d, nd := pickDefect(tree, r)
			bad := encodeBad(tree, d, nd, r)
			g.defects["tx:"+defectName[d]]++
			g.opGeneric(bad)
			g.opTx(bad)
			nontrivial = !bytes.Equal(bad, t.raw)
		case p < 68: // of the signature or the data inside a transaction
			kind = "noncanon-tx-inner"
			if r.Intn(4) == 0 { // the signature data of a multisig transaction: [address, [[V,R,S]...]]
				kind = "noncanon-multisig-inner"
				var t0 transaction.Transaction
				if err := rlp.DecodeBytes(g.genMultisigTx(), &t0); err != nil {
					panic(err)
				}
				tree := mustTree(t0.SignatureData)
				d, nd := pickDefect(tree, r)
				inner := encodeBad(tree, d, nd, r)
				g.defects["multisig:"+defectName[d]]++
				t0.SignatureData = inner
				raw, _ := rlp.EncodeToBytes(&t0)
				g.opGeneric(inner)
				g.opTx(raw)
				nontrivial = true
				break
			}
			t := g.genTx(false)
			tx2 := t.tx
			var inner []byte
			if r.Bool() {
				tree := mustTree(t.tx.SignatureData)
				annotateSig(tree)
				d, nd := pickDefect(tree, r)
				inner = encodeBad(tree, d, nd, r)
				g.defects["sig:"+defectName[d]]++
				tx2 = transaction.Transaction{Nonce: t.tx.Nonce, ChainID: t.tx.ChainID, GasPrice: t.tx.GasPrice, GasCoin: t.tx.GasCoin, Type: t.tx.Type,
					Data: t.tx.Data, Payload: t.tx.Payload, ServiceData: t.tx.ServiceData, SignatureType: t.tx.SignatureType, SignatureData: inner}
				g.opSig(inner)
			} else {
				tree := mustTree(t.tx.Data)
				d, nd := pickDefect(tree, r)
				inner = encodeBad(tree, d, nd, r)
				g.defects["data:"+defectName[d]]++
				tx2 = transaction.Transaction{Nonce: t.tx.Nonce, ChainID: t.tx.ChainID, GasPrice: t.tx.GasPrice, GasCoin: t.tx.GasCoin, Type: t.tx.Type,
					Data: inner, Payload: t.tx.Payload, ServiceData: t.tx.ServiceData, SignatureType: t.tx.SignatureType, SignatureData: t.tx.SignatureData}
			}
			raw, _ := rlp.EncodeToBytes(&tx2)
			g.opGeneric(inner)
			g.opTx(raw)
			nontrivial = true
		case p < 74: // of a check
			kind = "noncanon-check"
			_, raw, _, _ := g.genCheckFull()
			tree := mustTree(raw)
			annotateCheck(tree)
			d, nd := pickDefect(tree, r)
			bad := encodeBad(tree, d, nd, r)
			g.defects["check:"+defectName[d]]++
			g.opGeneric(bad)
			g.opCheck(bad)
			nontrivial = !bytes.Equal(bad, raw)
		case p < 80: // of a generic tree
			kind = "noncanon-generic"
			raw, _ := rlp.EncodeToBytes(g.genTree(4))
			tree := mustTree(raw)
			d, nd := pickDefect(tree, r)
			bad := encodeBad(tree, d, nd, r)
			g.defects["generic:"+defectName[d]]++
			g.opGeneric(bad)
			nontrivial = !bytes.Equal(bad, raw)
		// ---------------- ~20 %: signatures tampered, random, bit-flipped, truncated
		case p < 86: // high-S twin / bad V / signature moved to another transaction
			t := g.genTx(false)
			var s transaction.Signature
			if err := rlp.DecodeBytes(t.tx.SignatureData, &s); err != nil {
				panic(err)
			}
			tx2 := transaction.Transaction{Nonce: t.tx.Nonce, ChainID: t.tx.ChainID, GasPrice: t.tx.GasPrice, GasCoin: t.tx.GasCoin, Type: t.tx.Type,
				Data: t.tx.Data, Payload: t.tx.Payload, ServiceData: t.tx.ServiceData, SignatureType: t.tx.SignatureType}
			mode := r.Intn(3)
			switch mode {
			case 0:
				kind = "sig-high-s"
				s.S = new(big.Int).Sub(secpN, s.S)
				s.V = new(big.Int).Sub(Z(55), s.V)
			case 1:
				kind = "sig-bad-v"
				s.V = []*big.Int{Z(0), Z(1), Z(26), Z(29), Z(255), Z(283), Z(284), new(big.Int).Add(s.V, Z(256)), new(big.Int).Lsh(s.V, 64)}[r.Intn(9)]
			case 2:
				kind = "sig-moved"
				switch r.Intn(4) {
				case 0:
					tx2.Nonce++
				case 1:
					tx2.Payload = append(append([]byte{}, tx2.Payload...), 1)
				case 2:
					tx2.GasPrice ^= 1
				case 3:
					tx2.ServiceData = append(append([]byte{}, tx2.ServiceData...), 0)
				}
			}
			tx2.SignatureData, _ = rlp.EncodeToBytes(&s)
			raw, _ := rlp.EncodeToBytes(&tx2)
			full, ok := g.opTx(raw)
			g.opSig(tx2.SignatureData)
			valid := g.opValidate(s.V, s.R, s.S)
			if ok && full != nil {
				var snd types.Address
				var err error
				if p := c23Guard(func() { snd, err = full.Sender() }); p != nil {
					g.fail("c23-panic", fmt.Sprintf("Sender panics: %v", p), raw)
				}
				switch mode {
				case 0:
					if err == nil || valid {
						g.fail("c23-high-s", fmt.Sprintf("the high-S twin of a valid signature is accepted (sender %s)", snd.String()), raw)
					}
				case 1:
					if err == nil || valid {
						g.fail("c23-bad-v", fmt.Sprintf("a signature with V=%s is accepted (sender %s)", s.V, snd.String()), raw)
					}
				case 2:
					if err == nil && snd == t.signer.Addr {
						g.fail("c23-sender", "a signature copied onto a different transaction still recovers the original signer", raw)
					}
				}
			} else {
				g.fail("c23-valid-rejected", "a canonical encoding with a tampered signature is rejected by the decoder (expected only Sender to fail)", raw)
			}
			nontrivial = true
		case p < 89: // high-S twin / bad V of a check
			kind = "check-sig-tampered"
			chk, _, issuer, _ := g.genCheckFull()
			c2 := *chk
			hs := r.Bool()
			if hs {
				c2.S = new(big.Int).Sub(secpN, chk.S)
				c2.V = new(big.Int).Sub(Z(55), chk.V)
			} else {
				c2.V = []*big.Int{Z(0), Z(26), Z(29), Z(283), new(big.Int).Add(chk.V, Z(256))}[r.Intn(5)]
			}
			raw, _ := rlp.EncodeToBytes(&c2)
			ck, ok := g.opCheck(raw)
			valid := g.opValidate(c2.V, c2.R, c2.S)
			if ok {
				snd, err := ck.Sender()
				if err == nil || valid {
					g.fail(map[bool]string{true: "c23-high-s", false: "c23-bad-v"}[hs], fmt.Sprintf("a check with a tampered signature (V=%s) is accepted, sender %s (issuer %s)", c2.V, snd.String(), issuer.Addr.String()), raw)
				}
			}
			nontrivial = true
		case p < 93: // bit flip in a valid transaction or check
			kind = "bitflip"
			var raw []byte
			isTx := r.Intn(3) != 0
			if isTx {
				raw = g.genTx(false).raw
			} else {
				raw, _ = g.genCheck()
			}
			b := append([]byte{}, raw...)
			pos := r.Intn(len(b))
			if r.Bool() {
				pos = r.Intn(min(len(b), 12)) // headers are at the front
			}
			b[pos] ^= byte(1 << uint(r.Intn(8)))
			g.opGeneric(b)
			if isTx {
				g.opTx(b)
			} else {
				g.opCheck(b)
			}
			nontrivial = true
		case p < 96: // truncation / extension
			kind = "truncated"
			raw := g.genTx(false).raw
			b := append([]byte{}, raw[:1+r.Intn(len(raw)-1)]...)
			g.opGeneric(b)
			g.opTx(b)
			nontrivial = true
		default: // random bytes, biased towards header bytes
			kind = "random"
			b := make([]byte, r.Intn(80))
			for i := range b {
				switch r.Intn(6) {
				case 0:
					b[i] = []byte{0x80, 0x81, 0xb7, 0xb8, 0xb9, 0xc0, 0xc1, 0xf7, 0xf8, 0xf9, 0x00, 0x7f, 0x38, 0xbf, 0xff}[r.Intn(15)]
				case 1:
					b[i] = 0xc0 + byte(r.Intn(8))
				case 2:
					b[i] = byte(r.Intn(4))
				default:
					b[i] = byte(r.U64())
				}
			}
			if len(b) > 0 && r.Bool() { // make the outer header fit
				if len(b)-1 < 56 {
					b[0] = 0xc0 + byte(len(b)-1)
				}
			}
			if r.Intn(8) == 0 { // deep nesting
				d := 1 + r.Intn(1500)
				b = bytes.Repeat([]byte{0xc1}, d)
				b[d-1] = 0xc0
			}
			ok := g.opGeneric(b)
			g.opTx(b)
			g.opCheck(b)
			g.opSig(b)
			nontrivial = ok
		}
		g.c.End(nontrivial, kind)
	}
	g.c.Close()
	extra := map[string]interface{}{"accept_reject": g.acc, "defects": g.defects}
	writeStats(stats, &Stats{Property: "C23", Seed: seed, Cases: g.c.NCases, Ops: g.c.NOps, NonTrivial: g.c.NonTriv,
		Rule: "byte strings through the real rlp.DecodeBytes (generic interface{} tree, transaction.Transaction, check.Check, transaction.Signature), Executor.DecodeFromBytes, Sender/RecoverPlain vs. the Coq codec: ~50% valid encodings (signed transactions of 7 types, multisig transactions, checks, generic trees from rlp.EncodeToBytes, signature values at the boundaries of N and N/2), ~30% structured non-canonical variants of valid encodings (long-form length for a short payload, leading zero in the length of the length, 0x81 xx for xx<0x80, leading zero / oversized / 0x00 integers, one element more or less, list for string and string for list, length off by one, trailing bytes; at the top level, inside the signature, inside the signature data of a multisig transaction, inside the data), ~20% high-S twins, V outside {27,28}, signatures moved to another transaction, bit flips, truncations, random bytes. non-trivial = accepted by the real decoder, or a structured variant / tampered signature / mutation of a valid encoding; distinct = distinct case text",
		Dist: g.c.Dist, Samples: g.c.Samples, Monitor: g.mon, Extra: extra})
}

// ---- c23ms: demonstration on a real node that a multisig-signed transaction can be rewritten ----
// by anybody into other valid encodings (signatures permuted, a surplus signature dropped, a
// stranger's signature appended).  Reported through the monitor c23-multisig-malleable (a known finding).
func runC23ms(seed uint64, n int, out, stats string, _ []string) {
	node := newNode(&GenesisSpec{NAccounts: 5, Balance: pip(1000000), NVals: 1})
	defer node.Cleanup()
	a := node.Accts
	// block 1: account 0 creates a 2-of-3 multisig of accounts 1,2,3 and funds it
	create := node.MkTx(a[0], transaction.TypeCreateMultisig, transaction.CreateMultisigData{Threshold: 2, Weights: []uint32{1, 1, 1},
		Addresses: []types.Address{a[1].Addr, a[2].Addr, a[3].Addr}}, 0, 1, 1, nil)
	res := node.Block([][]byte{create}, nil)
	var ms types.Address
	b, _ := hex.DecodeString(res.Txs[0].Tags["tx.created_multisig"])
	copy(ms[:], b)
	fund := node.MkTx(a[0], transaction.TypeSend, transaction.SendData{Coin: 0, To: ms, Value: pip(1000)}, 0, 2, 1, nil)
	res2 := node.Block([][]byte{fund}, nil)
	_ = res2
	// the multisig sends 1 BIP to account 4
	data, _ := rlp.EncodeToBytes(transaction.SendData{Coin: 0, To: a[4].Addr, Value: pip(1)})
	mk := func(signers ...Acct) []byte {
		tx := transaction.Transaction{Nonce: 1, ChainID: types.CurrentChainID, GasPrice: 1, GasCoin: 0, Type: transaction.TypeSend, Data: data,
			SignatureType: transaction.SigTypeMulti}
		tx.SetMultisigAddress(ms)
		for _, s := range signers {
			if err := tx.Sign(s.Key); err != nil {
				panic(err)
			}
		}
		raw, _ := rlp.EncodeToBytes(&tx)
		return raw
	}
	variants := []struct {
		name string
		raw  []byte
	}{
		{"signed by owners 1,2,3 (as broadcast)", mk(a[1], a[2], a[3])},
		{"same signatures permuted 3,1,2", mk(a[3], a[1], a[2])},
		{"third signature dropped", mk(a[1], a[2])},
		{"third signature replaced by a stranger's (account 0, weight 0)", mk(a[1], a[2], a[0])},
	}
	ex := transaction.NewExecutorV3(transaction.GetDataV3)
	var mon []MonitorFailure
	accepted := 0
	var h0 types.Hash
	for i, v := range variants {
		tx, err := ex.DecodeFromBytes(v.raw)
		if err != nil {
			continue
		}
		r := ex.RunTx(node.App.CurrentState(), v.raw, nil, uint64(node.Height+1), newSyncMap(), 0, false)
		if i == 0 {
			h0 = tx.Hash()
			if r.Code != 0 {
				mon = append(mon, MonitorFailure{What: fmt.Sprintf("C23: the properly signed multisig transaction is rejected with code %d", r.Code), Key: "c23-multisig-setup", Replay: "vharness c23ms"})
			}
			continue
		}
		if r.Code == 0 && tx.Hash() == h0 && string(v.raw) != string(variants[0].raw) {
			accepted++
			mon = append(mon, MonitorFailure{What: fmt.Sprintf("C23: a valid multisig-signed transaction can be rewritten by anybody into a different valid encoding with the same signed content (%s): raw %x", v.name, v.raw), Key: "c23-multisig-malleable", Replay: "vharness c23ms"})
		}
	}
	NewCases(out).Close()
	writeStats(stats, &Stats{Property: "C23", Seed: seed, Cases: len(variants), Ops: len(variants), NonTrivial: len(variants),
		Rule: "one 2-of-3 multisig account on a real node; its transaction as broadcast and three rewritings of the signature list (permuted, surplus signature dropped, a stranger's signature appended) run through check-mode RunTx; non-trivial/distinct: the four encodings are distinct",
		Dist: map[string]int{"variants": len(variants)}, Samples: []string{fmt.Sprintf("%x", variants[1].raw)}, Monitor: mon,
		Extra: map[string]interface{}{"rewritings_accepted": accepted}})
}

func init() { commands["c23ms"] = runC23ms }

func sha256Sum(b []byte) []byte { h := sha256.Sum256(b); return h[:] }
