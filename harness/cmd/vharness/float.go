package main

import (
	"fmt"
	"math/big"
)

func init() { commands["float"] = runFloat }

func canonF(f *big.Float) []*big.Int {
	r, _ := f.Rat(nil)
	if r == nil {
		return L(Z(-7))
	}
	return L(new(big.Int).Set(r.Num()), new(big.Int).Set(r.Denom()))
}

func genF(r *Rng) *big.Int {
	switch r.Intn(6) {
	case 0:
		return Z(int64(1 + r.Intn(1000)))
	case 1: // near power of two
		b := new(big.Int).Lsh(Z(1), uint(1+r.Intn(120)))
		return b.Add(b, Z(int64(r.Intn(5)-2)))
	case 2: // tie patterns: 54-bit odd numbers times 2^k
		b := new(big.Int).SetUint64(r.U64() >> 10)
		b.Or(b, Z(1))
		b.Or(b, new(big.Int).Lsh(Z(1), 53))
		return b.Lsh(b, uint(r.Intn(40)))
	default:
		x := r.Big(36)
		return x.Add(x, Z(1))
	}
}

// runFloat: differential of Model/Float.v against math/big.Float as the node uses it.
func runFloat(seed uint64, n int, out, stats string, _ []string) {
	r := NewRng(seed)
	c := NewCases(out)
	var mon []MonitorFailure
	for i := 0; i < n; i++ {
		kind := 1 + r.Intn(7)
		a, b := genF(r), genF(r)
		if a.Sign() <= 0 {
			a = Z(1)
		}
		if b.Sign() <= 0 {
			b = Z(1)
		}
		c.Begin(2)
		switch kind {
		case 1:
			p := []int64{53, 64, 24, 100}[r.Intn(4)]
			f := new(big.Float).SetPrec(uint(p)).SetRat(new(big.Rat).SetFrac(a, b))
			c.Op(L(Z(1), Z(p), a, b), canonF(f))
		case 2:
			f := new(big.Float).SetRat(new(big.Rat).SetFrac(a, b))
			iv, _ := f.Int(nil)
			// rmi_spec / rdi_spec of C14: floor(a/b) <= Int(SetRat(a/b)) <= floor(a/b)+1
			fl := new(big.Int).Div(a, b)
			if iv.Cmp(fl) < 0 || iv.Cmp(new(big.Int).Add(fl, Z(1))) > 0 {
				mon = append(mon, MonitorFailure{What: fmt.Sprintf("C14 rmi_spec: Float.SetRat(%s/%s).Int() = %s, floor = %s", a, b, iv, fl), Key: "c14-rmi-spec", Replay: fmt.Sprintf("float op2 %s %s", a, b)})
			}
			c.Op(L(Z(2), a, b), append(L(iv), canonF(f)...))
		case 3:
			f := big.NewFloat(0).Mul(big.NewFloat(0).SetInt(a), big.NewFloat(0).SetInt(b))
			c.Op(L(Z(3), a, b), canonF(f))
		case 4:
			f := big.NewFloat(0).Quo(big.NewFloat(0).SetInt(a), big.NewFloat(0).SetInt(b))
			c.Op(L(Z(4), a, b), canonF(f))
		case 5:
			f := big.NewFloat(0).Sub(big.NewFloat(0).SetInt(a), big.NewFloat(0).SetInt(b))
			c.Op(L(Z(5), a, b), canonF(f))
		case 6:
			f := big.NewFloat(0).Sqrt(big.NewFloat(0).SetInt(a))
			c.Op(L(Z(6), a), canonF(f))
		case 7:
			p := []int64{53, 64, 24, 100}[r.Intn(4)]
			f := new(big.Float).SetPrec(uint(p)).SetInt(a)
			c.Op(L(Z(7), Z(p), a), canonF(f))
		}
		c.End(true, fmt.Sprintf("f%d", kind))
	}
	c.Close()
	writeStats(stats, &Stats{Property: "float", Seed: seed, Cases: c.NCases, Ops: c.NOps, NonTrivial: c.NonTriv,
		Rule: "big.Float operation on random/near-power-of-two/tie-pattern integers; all non-trivial; distinct = distinct case text",
		Dist: c.Dist, Samples: c.Samples, Monitor: mon})
}
