package main

// crashdb.go — write-logging / crash-injecting decorators for the three tm-db databases of a
// node (events, state, application), and nodes that run on them (C10, C29).
//
// A "write" is what reaches the database as one atomic unit: Set / SetSync / Delete / DeleteSync
// on the database itself, or Write / WriteSync of a batch (a batch is atomic).  While the
// controller is armed every write is appended to the log and, after the write was applied, the
// controller's hook is called with the number of writes so far: the hook may copy the three
// stores, which is exactly the on-disk state a process killed at that point leaves behind.

import (
	"bytes"
	"encoding/binary"
	"fmt"
	"os"
	"reflect"

	"github.com/MinterTeam/minter-go-node/cmd/utils"
	"github.com/MinterTeam/minter-go-node/config"
	"github.com/MinterTeam/minter-go-node/coreV2/minter"
	"github.com/MinterTeam/minter-go-node/coreV2/types"
	tmlog "github.com/tendermint/tendermint/libs/log"
	db "github.com/tendermint/tm-db"
)

// WriteRec is one logged write: the store, a classification of the key, and an integer argument
// (table id, height, version).
type WriteRec struct {
	Store string // "events" | "state" | "app"
	Code  int64  // see the table in classify / Model/Crash.v
	Arg   int64
	Key   string
}

func (w WriteRec) String() string { return fmt.Sprintf("%s:%s", w.Store, w.Key) }

type crashCtl struct {
	armed bool
	log   []WriteRec
	hook  func(k int) // called after the k-th write (1-based) while armed
}

func (c *crashCtl) note(w WriteRec) {
	if c == nil || !c.armed {
		return
	}
	c.log = append(c.log, w)
	if c.hook != nil {
		c.hook(len(c.log))
	}
}

type logDB struct {
	db.DB
	store string
	ctl   *crashCtl
}

// write codes (shared with Model/Crash.v [enc_write])
const (
	wEvAddr      = 10 // events: "address"+uint32 id
	wEvAddrCount = 11 // events: "addresses"
	wEvPk        = 12 // events: "pubKey"+uint16 id
	wEvPkCount   = 13 // events: "pubKeys"
	wEvHeight    = 14 // events: uint32 height -> batch of the block
	wTreeSave    = 20 // state: the SaveVersion batch (sets the root record of a version)
	wTreeDelete  = 21 // state: the DeleteVersion batch (deletes the root record of a version)
	wHash        = 30
	wHeight      = 31
	wVals        = 32
	wTimes       = 33
	wVersions    = 34
	wEmission    = 35
	wPrice       = 36
	wStart       = 37
	wAppBatch    = 39 // app: one batch carrying several records (only with the proposed patch)
	wUnknown     = 99
)

var appCodes = map[string]int64{"hash": wHash, "height": wHeight, "validators": wVals, "blockDelta": wTimes,
	"versions": wVersions, "emission": wEmission, "price": wPrice, "startHeight": wStart}

func classifyKey(store string, key []byte) (int64, int64, string) {
	switch store {
	case "app":
		if c, ok := appCodes[string(key)]; ok {
			return c, 0, string(key)
		}
	case "events":
		switch {
		case string(key) == "addresses":
			return wEvAddrCount, 0, "addresses"
		case string(key) == "pubKeys":
			return wEvPkCount, 0, "pubKeys"
		case len(key) == 11 && bytes.HasPrefix(key, []byte("address")):
			id := int64(binary.BigEndian.Uint32(key[7:]))
			return wEvAddr, id, fmt.Sprintf("address%d", id)
		case len(key) == 8 && bytes.HasPrefix(key, []byte("pubKey")):
			id := int64(binary.BigEndian.Uint16(key[6:]))
			return wEvPk, id, fmt.Sprintf("pubKey%d", id)
		case len(key) == 4:
			h := int64(binary.BigEndian.Uint32(key))
			return wEvHeight, h, fmt.Sprintf("height%d", h)
		}
	}
	return wUnknown, 0, fmt.Sprintf("?%x", key)
}

func (l *logDB) single(key []byte) {
	c, a, k := classifyKey(l.store, key)
	l.ctl.note(WriteRec{Store: l.store, Code: c, Arg: a, Key: k})
}

func (l *logDB) Set(k, v []byte) error {
	if err := l.DB.Set(k, v); err != nil {
		return err
	}
	l.single(k)
	return nil
}
func (l *logDB) SetSync(k, v []byte) error {
	if err := l.DB.SetSync(k, v); err != nil {
		return err
	}
	l.single(k)
	return nil
}
func (l *logDB) Delete(k []byte) error {
	if err := l.DB.Delete(k); err != nil {
		return err
	}
	l.single(k)
	return nil
}
func (l *logDB) DeleteSync(k []byte) error {
	if err := l.DB.DeleteSync(k); err != nil {
		return err
	}
	l.single(k)
	return nil
}
func (l *logDB) Close() error { return nil } // the harness owns the stores: a "restart" keeps them

type logBatch struct {
	db.Batch
	l       *logDB
	sets    [][]byte
	deletes [][]byte
}

func (l *logDB) NewBatch() db.Batch { return &logBatch{Batch: l.DB.NewBatch(), l: l} }
func (b *logBatch) Set(k, v []byte) error {
	b.sets = append(b.sets, append([]byte{}, k...))
	return b.Batch.Set(k, v)
}
func (b *logBatch) Delete(k []byte) error {
	b.deletes = append(b.deletes, append([]byte{}, k...))
	return b.Batch.Delete(k)
}

// iavl (v0.17) root records: 'r' + 8-byte big-endian version
func rootVersion(keys [][]byte) (int64, bool) {
	for _, k := range keys {
		if len(k) == 9 && k[0] == 'r' {
			return int64(binary.BigEndian.Uint64(k[1:])), true
		}
	}
	return 0, false
}

func (b *logBatch) rec() WriteRec {
	l := b.l
	switch l.store {
	case "state":
		if v, ok := rootVersion(b.sets); ok {
			return WriteRec{Store: "state", Code: wTreeSave, Arg: v, Key: fmt.Sprintf("save%d", v)}
		}
		if v, ok := rootVersion(b.deletes); ok {
			return WriteRec{Store: "state", Code: wTreeDelete, Arg: v, Key: fmt.Sprintf("delete%d", v)}
		}
		return WriteRec{Store: "state", Code: wUnknown, Key: fmt.Sprintf("batch(%d sets, %d deletes)", len(b.sets), len(b.deletes))}
	case "app":
		key := "batch"
		for _, k := range b.sets {
			key += "+" + string(k)
		}
		return WriteRec{Store: "app", Code: wAppBatch, Arg: int64(len(b.sets)), Key: key}
	}
	return WriteRec{Store: l.store, Code: wUnknown, Key: fmt.Sprintf("batch(%d sets, %d deletes)", len(b.sets), len(b.deletes))}
}
func (b *logBatch) Write() error {
	if len(b.sets)+len(b.deletes) == 0 {
		return b.Batch.Write()
	}
	if err := b.Batch.Write(); err != nil {
		return err
	}
	b.l.ctl.note(b.rec())
	return nil
}
func (b *logBatch) WriteSync() error {
	if len(b.sets)+len(b.deletes) == 0 {
		return b.Batch.WriteSync()
	}
	if err := b.Batch.WriteSync(); err != nil {
		return err
	}
	b.l.ctl.note(b.rec())
	return nil
}

// ---- the three stores of a node ------------------------------------------------------------------

type Stores struct {
	Ev, St, Snap, App *db.MemDB
	Ctl               *crashCtl
}

func newStores() *Stores {
	return &Stores{Ev: db.NewMemDB(), St: db.NewMemDB(), Snap: db.NewMemDB(), App: db.NewMemDB(), Ctl: &crashCtl{}}
}

func copyMem(src *db.MemDB) *db.MemDB {
	dst := db.NewMemDB()
	it, err := src.Iterator(nil, nil)
	if err != nil {
		panic(err)
	}
	defer it.Close()
	for ; it.Valid(); it.Next() {
		dst.Set(append([]byte{}, it.Key()...), append([]byte{}, it.Value()...))
	}
	return dst
}

// Copy = the disk a process killed now would leave behind (the snapshot store is not part of
// the commit path and starts empty).
func (s *Stores) Copy() *Stores {
	return &Stores{Ev: copyMem(s.Ev), St: copyMem(s.St), Snap: db.NewMemDB(), App: copyMem(s.App), Ctl: &crashCtl{}}
}

func memEqual(a, b *db.MemDB) string {
	ia, _ := a.Iterator(nil, nil)
	ib, _ := b.Iterator(nil, nil)
	defer ia.Close()
	defer ib.Close()
	for ia.Valid() && ib.Valid() {
		if !bytes.Equal(ia.Key(), ib.Key()) {
			return fmt.Sprintf("key %x vs %x", ia.Key(), ib.Key())
		}
		if !bytes.Equal(ia.Value(), ib.Value()) {
			return fmt.Sprintf("value of key %x (%q)", ia.Key(), ia.Key())
		}
		ia.Next()
		ib.Next()
	}
	if ia.Valid() {
		return fmt.Sprintf("extra key %x (%q) in the first", ia.Key(), ia.Key())
	}
	if ib.Valid() {
		return fmt.Sprintf("extra key %x (%q) in the second", ib.Key(), ib.Key())
	}
	return ""
}

// nodeOn creates a node process on the given stores: what the node binary does at start-up,
// with the application database replaced by the harness-owned one (hook VerifWrapDB).
func nodeOn(s *Stores, tmpl *Node, keep int64) *Node {
	types.CurrentChainID = types.ChainTestnet
	n := &Node{Accts: tmpl.Accts, Vals: tmpl.Vals, Genesis: tmpl.Genesis, Hashes: map[int64]string{}}
	home, err := os.MkdirTemp(os.Getenv("VERIF_TMP"), "vcnode")
	if err != nil {
		panic(err)
	}
	n.Home = home
	os.MkdirAll(home+"/data", 0755)
	os.MkdirAll(home+"/config", 0755)
	n.Cfg = config.GetConfig(home)
	n.Cfg.DBBackend = "memdb"
	n.Cfg.KeepLastStates = keep
	n.Height = tmpl.Height
	n.Time = tmpl.Time
	startOn(n, s)
	return n
}

func startOn(n *Node, s *Stores) {
	n.Store = utils.NewStorageWithDBs(n.Home, "", &logDB{DB: s.Ev, store: "events", ctl: s.Ctl},
		&logDB{DB: s.St, store: "state", ctl: s.Ctl}, &logDB{DB: s.Snap, store: "snapshot", ctl: nil})
	n.App = minter.NewMinterBlockchain(n.Store, n.Cfg, nil, stakePeriod, 5*stakePeriod, tmlog.NewNopLogger())
	n.App.VerifAppDB().VerifWrapDB(func(db.DB) db.DB { return &logDB{DB: s.App, store: "app", ctl: s.Ctl} })
}

// appdbFlags reads the private cache flags of the AppDB (reflection, read-only): which Save*
// of the coming Commit will write.
type appFlags struct{ Vals, DirtyV, DirtyE, DirtyP bool }

func readAppFlags(n *Node) appFlags {
	v := reflect.ValueOf(n.App.VerifAppDB()).Elem()
	return appFlags{Vals: !v.FieldByName("validators").IsNil(), DirtyV: v.FieldByName("isDirtyVersions").Bool(),
		DirtyE: v.FieldByName("isDirtyEmission").Bool(), DirtyP: v.FieldByName("isDirtyPrice").Bool()}
}
