package main

// c11scen.go — minimal scripted replays of the decided C11 findings.  Each scenario builds the
// smallest history that shows the defect on the real node, forks through the assembled genesis and
// reports the finding under its own key when (and only when) the defect manifests.  A scenario whose
// set-up does not work any more reports c11-scenario-broken:<name>, so it can never pass silently.

import (
	"fmt"
	"math/big"
	"os"
	"path/filepath"
	"regexp"
	"strings"
	"time"

	"github.com/MinterTeam/minter-go-node/coreV2/state/candidates"
	"github.com/MinterTeam/minter-go-node/coreV2/transaction"
	"github.com/MinterTeam/minter-go-node/coreV2/types"
)

// repoDir: the tree the harness was built against
func repoDir() string {
	if d := os.Getenv("VERIF_REPO"); d != "" {
		return d
	}
	return "/repo"
}

type c11Scen struct {
	x    *c11Run
	name string
	log  []string
}

func (s *c11Scen) note(f string, a ...interface{}) { s.log = append(s.log, fmt.Sprintf(f, a...)) }
func (s *c11Scen) broken(f string, a ...interface{}) {
	s.x.fail("c11-scenario-broken:"+s.name, fmt.Sprintf("scenario %s: ", s.name)+fmt.Sprintf(f, a...))
}
func (s *c11Scen) finding(key, f string, a ...interface{}) {
	s.x.failAll(key, fmt.Sprintf("scenario %s: ", s.name)+fmt.Sprintf(f, a...))
}

// one transaction in its own block; returns the response
func c11Tx(n *Node, a Acct, typ transaction.TxType, data interface{}) TxResult {
	r := n.Block([][]byte{n.MkTx(a, typ, data, 0, 0, 1, nil)}, nil)
	if r.Panic != "" || len(r.Txs) != 1 {
		return TxResult{Code: 99999, Log: r.Panic}
	}
	return r.Txs[0]
}

func c11Empty(n *Node, k int) {
	for i := 0; i < k; i++ {
		n.Block(nil, nil)
	}
}

// plain fork without the comparison machinery
func c11PlainFork(a *Node, initialHeight int64) (*Node, *c11Genesis, string) {
	g, err := c11Assemble(a)
	if err != nil {
		return nil, nil, err.Error()
	}
	b, failure := c11Fork(a, g.Bytes, initialHeight)
	if failure != "" {
		b.Cleanup()
		return nil, g, failure
	}
	return b, g, ""
}

func c11Cand(st *types.AppState, id uint64) *types.Candidate {
	for i := range st.Candidates {
		if st.Candidates[i].ID == id {
			return &st.Candidates[i]
		}
	}
	return nil
}

func c11StakeOf(c *types.Candidate, owner types.Address) string {
	if c == nil {
		return "no candidate"
	}
	for _, s := range c.Stakes {
		if s.Owner == owner && s.Coin == 0 {
			return s.Value
		}
	}
	return "0"
}

func c11WaitOf(st *types.AppState, owner types.Address) string {
	t := big.NewInt(0)
	for _, w := range st.Waitlist {
		if w.Owner == owner {
			t.Add(t, bi(w.Value))
		}
	}
	return t.String()
}

func c11Bal(st *types.AppState, a types.Address, coin uint64) *big.Int {
	for _, ac := range st.Accounts {
		if ac.Address == a {
			for _, b := range ac.Balance {
				if b.Coin == coin {
					return bi(b.Value)
				}
			}
		}
	}
	return big.NewInt(0)
}

func fourVals() *GenesisSpec {
	return &GenesisSpec{NAccounts: 8, Balance: pip(1000000), NVals: 4}
}

// with fewer than 4 validators the 20 %-of-the-network delegation limit is not applied
func threeVals() *GenesisSpec {
	return &GenesisSpec{NAccounts: 8, Balance: pip(1000000), NVals: 3}
}

// ---- 1. pending updates are merged at import ------------------------------------------------------
// delegate; export before the next update block.
func scenPendingUpdates(x *c11Run) {
	s := &c11Scen{x: x, name: "pending-updates"}
	a := newNode(threeVals())
	defer a.Cleanup()
	c11Empty(a, 4)
	if r := c11Tx(a, a.Accts[5], transaction.TypeDelegate, transaction.DelegateDataV260{PubKey: a.Vals[0].Pub, Coin: 0, Value: pip(5000)}); r.Code != 0 {
		s.broken("delegate rejected: code %d %s", r.Code, r.Log)
		return
	}
	e1 := a.Export()
	c1 := c11Cand(&e1, 1)
	if c1 == nil || len(c1.Updates) != 1 {
		s.broken("no pending update in the first export")
		return
	}
	b, _, failure := c11PlainFork(a, a.Height+1)
	if failure != "" {
		s.broken("fork: %s", failure)
		return
	}
	defer b.Cleanup()
	e2 := b.Export()
	c2 := c11Cand(&e2, 1)
	if len(c2.Updates) == 0 && c2.TotalBipStake != c1.TotalBipStake {
		s.finding("c11-pending-updates-merged", "export at height %d (period offset %d): candidate 1 has total %s, %d stakes, 1 pending update of 5000 BIP; the export of the chain started from it has total %s, %d stakes, %d updates (State.Import -> Candidates.RecalculateStakesV2, state.go:370)",
			a.Height, a.Height%stakePeriod, c1.TotalBipStake, len(c1.Stakes), c2.TotalBipStake, len(c2.Stakes), len(c2.Updates))
	}
	// consequence for the rewards of the current period: run both to the block after the next update block
	for a.Height%stakePeriod != 1 {
		a.Block(nil, nil)
		b.Block(nil, nil)
	}
	ea, eb := a.Export(), b.Export()
	ca, cb := c11Cand(&ea, 1), c11Cand(&eb, 1)
	if ca.TotalBipStake != cb.TotalBipStake || ea.TotalSlashed != eb.TotalSlashed {
		s.finding("c11-pending-updates-merged", "after the next update block (height %d) the two chains differ for good: candidate 1 total %s vs %s, candidate 2 total %s vs %s, total slashed %s vs %s — the block rewards of the running period were split by the early-merged stakes (InitChain -> updateValidators refreshes the validators' total stakes, blockchain.go:268)",
			a.Height, ca.TotalBipStake, cb.TotalBipStake, c11Cand(&ea, 2).TotalBipStake, c11Cand(&eb, 2).TotalBipStake, ea.TotalSlashed, eb.TotalSlashed)
	}
}

// ---- 1b. the early recalculation changes WHICH candidate is removed ------------------------------------
// 100 candidates; L is declared mid-period (101st); export; L receives a large delegation before the update block.
func scenDelete(x *c11Run) {
	s := &c11Scen{x: x, name: "delete"}
	a := newNode(&GenesisSpec{NAccounts: 8, Balance: pip(1000000), NVals: 4, ExtraCands: 96})
	defer a.Cleanup()
	c11Empty(a, 3)
	L := mkVal(5000).Pub
	if r := c11Tx(a, a.Accts[5], transaction.TypeDeclareCandidacy, transaction.DeclareCandidacyData{Address: a.Accts[5].Addr, PubKey: L, Commission: 10, Coin: 0, Stake: pip(100)}); r.Code != 0 {
		s.broken("DeclareCandidacy rejected: code %d %s", r.Code, r.Log)
		return
	}
	b, g, failure := c11PlainFork(a, a.Height+1)
	if failure != "" {
		s.broken("fork: %s", failure)
		return
	}
	defer b.Cleanup()
	e2 := b.Export()
	raw := a.MkTx(a.Accts[6], transaction.TypeDelegate, transaction.DelegateDataV260{PubKey: L, Coin: 0, Value: pip(20000)}, 0, 0, 1, nil)
	ra, rb := a.Block([][]byte{raw}, nil), b.Block([][]byte{raw}, nil)
	if len(ra.Txs) != 1 || len(rb.Txs) != 1 || ra.Txs[0].Code != 0 {
		s.broken("delegation to L: %+v / %+v", ra.Txs, rb.Txs)
		return
	}
	for a.Height%stakePeriod != 0 {
		a.Block(nil, nil)
		b.Block(nil, nil)
	}
	ea, eb := a.Export(), b.Export()
	if c11J(ea.DeletedCandidates) != c11J(eb.DeletedCandidates) || ra.Txs[0].Code != rb.Txs[0].Code {
		s.finding("c11-pending-updates-merged", "100 candidates of 10000 BIP, L (id 101, 100 BIP) declared at height %d, export (candidates: %d, deleted: %d); the chain started from the export has %d candidates and deleted %s at once (Import -> RecalculateStakesV2 removes rank > 100, state.go:370); L then receives 20000 BIP: code %d on the original, %d on the new chain; after update block %d the original removed %s and keeps L, the new chain removed %s",
			g.Height, len(g.State.Candidates), len(g.State.DeletedCandidates), len(e2.Candidates), c11J(e2.DeletedCandidates), ra.Txs[0].Code, rb.Txs[0].Code, a.Height, c11J(ea.DeletedCandidates), c11J(eb.DeletedCandidates))
	}
}

// ---- 2. reward recovery lost ----------------------------------------------------------------------
func scenReward(x *c11Run) {
	s := &c11Scen{x: x, name: "reward-recovery"}
	spec := fourVals()
	r0, r1 := pip(1000000), pip(8000) // pool price 0.008
	spec.Balance = pip(100000000)
	spec.PrevReward = types.RewardPrice{Time: 0, AmountBIP: pip(1000000).String(), AmountUSDT: pip(10000).String(), Reward: pip(100).String(), Off: false} // stored price 0.01: -20 %
	spec.Mutate = func(st *types.AppState) {
		owner := st.Accounts[0].Address
		st.Coins = append(st.Coins, types.Coin{ID: uint64(types.USDTID), Name: "Tether", Symbol: types.StrToCoinSymbol("USDTE"),
			Volume: new(big.Int).Add(r1, pip(1000)).String(), MaxSupply: "1000000000000000000000000000000000", OwnerAddress: &owner, Mintable: true, Burnable: true})
		st.Pools = append(st.Pools, types.Pool{Coin0: 0, Coin1: uint64(types.USDTID), Reserve0: r0.String(), Reserve1: r1.String(), ID: 1})
		st.Accounts[0].Balance = append(st.Accounts[0].Balance, types.Balance{Coin: uint64(types.USDTID), Value: pip(1000).String()})
	}
	a := newNode(spec)
	defer a.Cleanup()
	// first block = period start, 12:30: the price update runs and finds -20 %: reward off, safe reward = price rule
	a.Block(nil, &BlockOpts{Dt: 3*time.Hour + 30*time.Minute})
	c11Empty(a, 3)
	ra, sa := a.App.CurrentState().App().Reward()
	if ra.Cmp(sa) == 0 {
		s.broken("the reward update did not switch to recovery: reward %s safe %s panics %v", ra, sa, a.Panics)
		return
	}
	b, g, failure := c11PlainFork(a, a.Height+1)
	if failure != "" {
		s.broken("fork: %s", failure)
		return
	}
	defer b.Cleanup()
	rb, sb := b.App.CurrentState().App().Reward()
	zero := types.Address{}
	e0 := a.App.VerifAppDB().Emission()
	e0 = new(big.Int).Set(e0)
	c11Empty(a, 3)
	c11Empty(b, 3)
	ea, eb := a.App.VerifAppDB().Emission(), b.App.VerifAppDB().Emission()
	xa, xb := a.Export(), b.Export()
	if sa.Cmp(sb) != 0 || ea.Cmp(eb) != 0 {
		s.finding("c11-reward-recovery-lost", "export at height %d during reward recovery: App.Reward() = (%s, %s) on the original, (%s, %s) after Import (prev_reward.reward %s, off %v; state.go:292 SetReward(PrevReward.Reward, PrevReward.Reward)); 3 blocks later the emission grew by %s on the original and by %s on the new chain, the zero address holds %s vs %s",
			g.Height, ra, sa, rb, sb, g.State.PrevReward.Reward, g.State.PrevReward.Off, new(big.Int).Sub(ea, e0), new(big.Int).Sub(eb, e0), c11Bal(&xa, zero, 0), c11Bal(&xb, zero, 0))
	}
}

// ---- 3. halt votes lost (repaired by 49ebe8c: regression, silent on the repaired tree) ----------------------------------------------------------------------------
func scenHalt(x *c11Run) {
	s := &c11Scen{x: x, name: "halt-votes"}
	a := newNode(fourVals())
	defer a.Cleanup()
	H := uint64(a.Height + 500)
	for i := 0; i < 4; i++ {
		if r := c11Tx(a, a.Accts[i], transaction.TypeSetHaltBlock, transaction.SetHaltBlockData{PubKey: a.Vals[i].Pub, Height: H}); r.Code != 0 {
			s.broken("SetHaltBlock rejected: code %d %s", r.Code, r.Log)
			return
		}
	}
	b, g, failure := c11PlainFork(a, a.Height+1)
	if failure != "" {
		s.broken("fork: %s", failure)
		return
	}
	defer b.Cleanup()
	e2 := b.Export()
	a.Block(nil, nil) // the voting powers are computed by BeginBlock
	b.Block(nil, nil)
	ha, hb := a.App.VerifIsApplicationHalted(H), b.App.VerifIsApplicationHalted(H)
	if len(g.State.HaltBlocks) != 4 || !ha {
		s.broken("votes not recorded: %d exported, halted=%v", len(g.State.HaltBlocks), ha)
		return
	}
	if len(e2.HaltBlocks) != len(g.State.HaltBlocks) || ha != hb {
		s.finding("c11-halt-votes-lost", "all 4 validators voted to halt at %d; first export carries %d halt_blocks entries, the export of the chain started from it %d; the halt decision for block %d is %v on the original and %v on the new chain (State.Import never reads state.HaltBlocks)", H, len(g.State.HaltBlocks), len(e2.HaltBlocks), H, ha, hb)
	}
}

// ---- 4. a locked token makes Verify() fail (repaired by b66d393: regression) ------------------------------------------------------------
func scenTokenLock(x *c11Run) {
	s := &c11Scen{x: x, name: "token-lock"}
	a := newNode(fourVals())
	defer a.Cleanup()
	var sym types.CoinSymbol
	copy(sym[:], []byte("TOKENAAA"))
	r := c11Tx(a, a.Accts[5], transaction.TypeCreateToken, transaction.CreateTokenData{Name: "t", Symbol: sym, InitialAmount: pip(1000), MaxSupply: pip(1000), Mintable: false, Burnable: false})
	if r.Code != 0 {
		s.broken("CreateToken rejected: code %d %s", r.Code, r.Log)
		return
	}
	g0, _ := c11Assemble(a)
	if g0 == nil || g0.VerifyErr != nil {
		s.broken("export before the lock does not verify: %v", g0)
		return
	}
	if r := c11Tx(a, a.Accts[5], transaction.TypeLock, transaction.LockData{DueBlock: uint32(a.Height + 100), Coin: 1, Value: pip(10)}); r.Code != 0 {
		s.broken("Lock rejected: code %d %s", r.Code, r.Log)
		return
	}
	g, err := c11Assemble(a)
	if err != nil {
		s.broken("assemble: %v", err)
		return
	}
	if g.VerifyErr != nil && strings.Contains(g.VerifyErr.Error(), "wrong token") {
		b, failure := c11Fork(a, g.Bytes, a.Height+1)
		defer b.Cleanup()
		s.finding("c11-token-lock-verify", "CreateToken 1000, Lock 10 of it until block %d, export at %d: Verify() = %q (types/appstate.go:206-211 compares a token's volume with balances + pools + orders only; the frozen-funds loop at 213 is behind the `continue`); `minter export` stops with log.Fatalf.  InitChain itself accepts the same genesis (failure=%q)", a.Height+99, a.Height, g.VerifyErr.Error(), failure)
	}
}

// ---- 5. candidate id counter lost (repaired by 9497f5f: regression) ------------------------------------------------------------------------
func scenMaxID(x *c11Run) {
	s := &c11Scen{x: x, name: "candidate-maxid"}
	spec := &GenesisSpec{NAccounts: 8, Balance: pip(1000000), NVals: 4, ExtraCands: 96}
	a := newNode(spec)
	defer a.Cleanup()
	decl := func(n *Node, i int, acct int) []byte {
		return n.MkTx(n.Accts[acct], transaction.TypeDeclareCandidacy, transaction.DeclareCandidacyData{Address: n.Accts[acct].Addr, PubKey: mkVal(5000 + i).Pub, Commission: 10, Coin: 0, Stake: pip(100)}, 0, 0, 1, nil)
	}
	r := a.Block([][]byte{decl(a, 0, 5)}, nil)
	if len(r.Txs) != 1 || r.Txs[0].Code != 0 {
		s.broken("DeclareCandidacy rejected: %+v", r.Txs)
		return
	}
	for a.Height%stakePeriod != 0 {
		a.Block(nil, nil)
	}
	e1 := a.Export()
	if len(e1.DeletedCandidates) != 1 || e1.DeletedCandidates[0].ID != 101 {
		s.broken("candidate 101 was not deleted at the update block: %+v, %d candidates", e1.DeletedCandidates, len(e1.Candidates))
		return
	}
	b, _, failure := c11PlainFork(a, a.Height+1)
	if failure != "" {
		s.broken("fork: %s", failure)
		return
	}
	defer b.Cleanup()
	// make room first (101 candidates would delete the newcomer again): not needed for the id itself
	raw := decl(a, 1, 6)
	ra, rb := a.Block([][]byte{raw}, nil), b.Block([][]byte{raw}, nil)
	if len(ra.Txs) != 1 || len(rb.Txs) != 1 || ra.Txs[0].Code != 0 || rb.Txs[0].Code != 0 {
		s.broken("second DeclareCandidacy: %+v / %+v", ra.Txs, rb.Txs)
		return
	}
	ea, eb := a.Export(), b.Export()
	pk := mkVal(5001).Pub
	ida, idb := uint64(0), uint64(0)
	for _, c := range ea.Candidates {
		if c.PubKey == pk {
			ida = c.ID
		}
	}
	for _, c := range eb.Candidates {
		if c.PubKey == pk {
			idb = c.ID
		}
	}
	if ida != idb {
		s.finding("c11-candidate-maxid-lost", "100 candidates, the 101st (id 101) is declared and removed at update block %d (deleted_candidates [{101}]); export; the next DeclareCandidacy gets id %d on the original and id %d on the chain started from the export: Candidates.maxID is rebuilt from the live candidates only (CreateWithID -> setPubKeyID; SetDeletedCandidates does not raise it), so the id of a deleted candidate — still referenced by waitlist entries and frozen funds — is issued again",
			a.Height-1, ida, idb)
	}
}

// ---- 6. InitChain drops a validator's accumulated reward ---------------------------------------------------
func scenAccum(x *c11Run) {
	s := &c11Scen{x: x, name: "accum-reward"}
	a := newNode(fourVals())
	defer a.Cleanup()
	c11Empty(a, 3)
	if r := c11Tx(a, a.Accts[0], transaction.TypeUnbond, transaction.UnbondDataV3{PubKey: a.Vals[0].Pub, Coin: 0, Value: pip(9500)}); r.Code != 0 {
		s.broken("Unbond rejected: code %d %s", r.Code, r.Log)
		return
	}
	g, err := c11Assemble(a)
	if err != nil {
		s.broken("assemble: %v", err)
		return
	}
	accum := big.NewInt(0)
	for _, v := range g.State.Validators {
		if v.PubKey == a.Vals[0].Pub {
			accum = bi(v.AccumReward)
		}
	}
	if accum.Sign() <= 0 {
		s.broken("validator 1 has no accumulated reward at the export")
		return
	}
	b, failure := c11Fork(a, g.Bytes, a.Height+1)
	if failure != "" {
		s.broken("fork: %s", failure)
		b.Cleanup()
		return
	}
	defer b.Cleanup()
	h0 := holdings(&g.State).baseTotal()
	e0 := bi(g.State.Emission)
	for a.Height%stakePeriod != 1 {
		a.Block(nil, nil)
		b.Block(nil, nil)
	}
	xa, xb := a.Export(), b.Export()
	da := new(big.Int).Sub(holdings(&xa).baseTotal(), h0)
	db := new(big.Int).Sub(holdings(&xb).baseTotal(), h0)
	ema := new(big.Int).Sub(a.App.VerifAppDB().Emission(), e0)
	emb := new(big.Int).Sub(b.App.VerifAppDB().Emission(), e0)
	if da.Cmp(ema) != 0 {
		s.broken("the original chain itself does not conserve the base coin: holdings +%s, emission +%s", da, ema)
		return
	}
	if db.Cmp(emb) != 0 {
		s.finding("c11-accum-reward-dropped", "validator 1 unbonds down to 500 BIP mid-period and is exported with accum_reward %s; InitChain -> updateValidators() re-selects the validators (stake < 1000 BIP: out) and SetNewValidators discards its accumulated reward without paying it or returning it to the pool (validators.go:220-262; EndBlock pays first, blockchain.go:478 vs 576): up to height %d the new chain's base-coin holdings grew by %s while its emission grew by %s (missing %s); the original: %s = %s",
			accum, a.Height, db, emb, new(big.Int).Sub(emb, db), da, ema)
	}
}

// ---- 6b. empty stake slots are not exported -----------------------------------------------------------------
func scenSlots(x *c11Run) {
	s := &c11Scen{x: x, name: "stake-slots"}
	a := newNode(threeVals())
	defer a.Cleanup()
	del := func(n *Node, acct int, v int64) []byte {
		return n.MkTx(n.Accts[acct], transaction.TypeDelegate, transaction.DelegateDataV260{PubKey: n.Vals[0].Pub, Coin: 0, Value: pip(v)}, 0, 0, 1, nil)
	}
	a.Block([][]byte{del(a, 4, 300), del(a, 5, 200)}, nil)
	for a.Height%stakePeriod != 0 {
		a.Block(nil, nil)
	}
	// D1 (account 4) leaves: its slot (1) becomes empty, D2 (account 5) stays in slot 2
	if r := c11Tx(a, a.Accts[4], transaction.TypeUnbond, transaction.UnbondDataV3{PubKey: a.Vals[0].Pub, Coin: 0, Value: pip(300)}); r.Code != 0 {
		s.broken("Unbond rejected: code %d %s", r.Code, r.Log)
		return
	}
	for a.Height%stakePeriod != 0 {
		a.Block(nil, nil)
	}
	b, g, failure := c11PlainFork(a, a.Height+1)
	if failure != "" {
		s.broken("fork: %s", failure)
		return
	}
	defer b.Cleanup()
	if s2, why := c11RecalcSensitive(&g.State); s2 {
		s.broken("the export is not at a fixpoint: %s", why)
		return
	}
	raw := del(a, 6, 100)
	a.Block([][]byte{raw}, nil)
	b.Block([][]byte{raw}, nil)
	for a.Height%stakePeriod != 0 {
		a.Block(nil, nil)
		b.Block(nil, nil)
	}
	ea, eb := a.Export(), b.Export()
	order := func(c *types.Candidate) string {
		var l []string
		for _, st := range c.Stakes {
			for i, ac := range a.Accts {
				if ac.Addr == st.Owner {
					l = append(l, fmt.Sprintf("account%d", i))
				}
			}
		}
		return strings.Join(l, ",")
	}
	oa, ob := order(c11Cand(&ea, 1)), order(c11Cand(&eb, 1))
	if oa != ob {
		s.finding("c11-stake-slots-compacted", "candidate 1 has slots [owner, D1, D2]; D1 unbonds everything (slot 1 empty); export at update block %d lists the occupied slots only (Candidates.Export -> GetStakes) and Import packs them into slots 0..n-1 (SetStakes); a new delegator D3 then takes the first free slot: slot order %s on the original, %s on the new chain (the first slot with the minimal bip value is the one that is replaced when the candidate is full)",
			g.Height, oa, ob)
	}
}

// ---- 7. block times are not exported: the max-gas controller restarts ------------------------------------------
func scenBlockTimes(x *c11Run) {
	s := &c11Scen{x: x, name: "block-times"}
	a := newNode(fourVals())
	defer a.Cleanup()
	for i := 0; i < 6; i++ {
		a.Block(nil, &BlockOpts{Dt: 30 * time.Second})
	}
	b, g, failure := c11PlainFork(a, a.Height+1)
	if failure != "" {
		s.broken("fork: %s", failure)
		return
	}
	defer b.Cleanup()
	a.Block(nil, &BlockOpts{Dt: 30 * time.Second})
	b.Block(nil, &BlockOpts{Dt: 30 * time.Second})
	xa, xb := a.Export(), b.Export()
	if xa.MaxGas != xb.MaxGas {
		s.finding("c11-blocktimes-not-exported", "30-second blocks: max_gas %d at the export; after the next block %d on the original (x0.7) and %d on the new chain (calcMaxGas: no block times in the new appdb -> defaultMaxGas, minter.go:235-238)", g.State.MaxGas, xa.MaxGas, xb.MaxGas)
	}
}

// ---- 8. grace period: no absence slashing for 120 blocks after InitChain ---------------------------------------
func scenGrace(x *c11Run) {
	s := &c11Scen{x: x, name: "grace"}
	a := newNode(fourVals())
	defer a.Cleanup()
	c11Empty(a, 130) // beyond the original chain's own grace period (initial height + 120)
	b, _, failure := c11PlainFork(a, a.Height+1)
	if failure != "" {
		s.broken("fork: %s", failure)
		return
	}
	defer b.Cleanup()
	for i := 0; i < 14; i++ {
		o1, o2 := BlockOpts{Absent: map[int]bool{3: true}}, BlockOpts{Absent: map[int]bool{3: true}}
		a.Block(nil, &o1)
		b.Block(nil, &o2)
	}
	xa, xb := a.Export(), b.Export()
	ja, jb := c11Cand(&xa, 4).JailedUntil, c11Cand(&xb, 4).JailedUntil
	if ja != jb {
		// by design (every InitChain is treated as an upgrade): not a statement of C11 about transactions; recorded only
		s.note("c11-grace-period (by design, recorded only): validator 4 misses 13 of 24 blocks right after the export: jailed_until %d on the original, %d on the new chain (status %d vs %d) — initState opens an upgrade grace period [start, start+120] for every InitChain (blockchain.go:209), in which SetValidatorAbsent switches the validator off but does not punish (validators.go:203)",
			ja, jb, c11Cand(&xa, 4).Status, c11Cand(&xb, 4).Status)
	}
}

// ---- 9. cmd export writes InitialHeight = h -------------------------------------------------------------------
func scenInitialHeight(x *c11Run) {
	s := &c11Scen{x: x, name: "initial-height"}
	a := newNode(fourVals())
	defer a.Cleanup()
	c11Empty(a, 5)
	h := a.Height
	// the initial_height cmd/minter/cmd/export.go writes for an export at height h, read off its source
	src, err := os.ReadFile(filepath.Join(repoDir(), "cmd/minter/cmd/export.go"))
	m := regexp.MustCompile(`InitialHeight:\s*int64\(height\)(\s*\+\s*1)?,`).FindSubmatch(src)
	if err != nil || m == nil {
		s.broken("cannot read the initial height expression of export.go: %v", err)
		return
	}
	ih := h
	if len(m[1]) > 0 {
		ih = h + 1
	}
	b, _, failure := c11PlainFork(a, ih)
	if failure != "" {
		s.broken("fork: %s", failure)
		return
	}
	defer b.Cleanup()
	raw := a.MkTx(a.Accts[5], transaction.TypeLock, transaction.LockData{DueBlock: uint32(h + 1), Coin: 0, Value: pip(10)}, 0, 0, 1, nil)
	ra, rb := a.Block([][]byte{raw}, nil), b.Block([][]byte{raw}, nil)
	if len(ra.Txs) != 1 || len(rb.Txs) != 1 {
		s.broken("blocks failed: %v %v", ra.Panic, rb.Panic)
		return
	}
	if a.Height != b.Height || ra.Txs[0].Code != rb.Txs[0].Code {
		s.finding("c11-export-cmd-initial-height", "`minter export --height %d` writes initial_height %d (export.go:123), InitChain takes initial_height-1 as the last height (blockchain.go:225): the first block of the new chain is number %d again, the original continues with %d; the same Lock{DueBlock: %d} gets code %d on the original and %d on the new chain; every due height (frozen funds, orders, votes, checks) is reached one block later in real terms",
			h, ih, b.Height, a.Height, h+1, ra.Txs[0].Code, rb.Txs[0].Code)
	}
}

var c11Scenarios = []struct {
	name string
	f    func(*c11Run)
}{
	{"pending-updates", scenPendingUpdates}, {"delete", scenDelete}, {"reward-recovery", scenReward}, {"halt-votes", scenHalt},
	{"token-lock", scenTokenLock}, {"candidate-maxid", scenMaxID}, {"accum-reward", scenAccum}, {"stake-slots", scenSlots}, {"block-times", scenBlockTimes},
	{"grace", scenGrace}, {"initial-height", scenInitialHeight},
}

func runC11Scenarios(x *c11Run, only string) {
	for _, sc := range c11Scenarios {
		if only != "" && only != sc.name {
			continue
		}
		x.where = "vharness c11 -- -scenario " + sc.name
		func() {
			defer func() {
				if r := recover(); r != nil {
					x.fail("c11-scenario-broken:"+sc.name, fmt.Sprintf("scenario %s panics: %v STACK %s", sc.name, r, stackSummary()))
				}
			}()
			sc.f(x)
		}()
		x.dist["scenario:"+sc.name]++
	}
	_ = candidates.CandidateStatusOnline
}
