package main

// c16.go — C16 "staked coins leave staking only on schedule": the real node, driven block by
// block, against Model/Schedule.v (dispatch model 20) plus the C16 monitors evaluated directly on
// what the node did.
//
// Per block the tracer emits: the state the model cannot derive itself (candidate registry, stake /
// update / waitlist entries changed by EndBlock's recalculation, balances of the accounts
// involved), BeginBlock with the evidence flags (-> the matured funds as paid), every Unbond /
// MoveStake / LockStake / Lock / Delegate transaction (-> code, balances, lock mark, created fund,
// stake and waitlist entries after), every candidate removed by EndBlock (-> the funds created,
// per owner and coin), and the frozen-fund lists the block touched.

import (
	"fmt"
	"math/big"
	"os"
	"sort"
	"strconv"
	"strings"
	"time"

	"github.com/MinterTeam/minter-go-node/coreV2/state"
	"github.com/MinterTeam/minter-go-node/coreV2/state/candidates"
	"github.com/MinterTeam/minter-go-node/coreV2/transaction"
	"github.com/MinterTeam/minter-go-node/coreV2/types"
	abci "github.com/tendermint/tendermint/abci/types"
	tmproto "github.com/tendermint/tendermint/proto/tendermint/types"
)

func init() { commands["c16"] = runC16 }

type fundKey struct {
	H     uint64
	Addr  types.Address
	Cand  uint64
	Coin  uint64
	Value string
	Move  uint64
}

func fundsOf(st *types.AppState) map[fundKey]int {
	m := map[fundKey]int{}
	for _, f := range st.FrozenFunds {
		m[fundKey{f.Height, f.Address, f.CandidateID, f.Coin, f.Value, f.MoveToCandidateID}]++
	}
	return m
}

// c16Monitor checks the schedule properties on two consecutive exports.
// lockDue: due blocks of Lock transactions accepted in this block (by address/coin/value).
func c16Monitor(h uint64, prev, cur *types.AppState, lockDue map[uint64]bool, evidence bool, noTxs bool, mon *[]MonitorFailure, where string) {
	unbond, move := types.GetUnbondPeriod(), types.GetMovePeriod()
	pf, cf := fundsOf(prev), fundsOf(cur)
	cands := map[uint64]bool{}
	for _, c := range cur.Candidates {
		cands[c.ID] = true
	}
	for _, c := range prev.Candidates {
		cands[c.ID] = true
	}
	for k := range cf {
		if k.H <= h {
			*mon = append(*mon, MonitorFailure{What: fmt.Sprintf("C16: frozen fund due at %d still present after block %d (%+v)", k.H, h, k), Key: "c16-late", Replay: where})
		}
	}
	for k, n := range pf {
		if k.H > h && cf[k] < n && !evidence {
			*mon = append(*mon, MonitorFailure{What: fmt.Sprintf("C16: frozen fund due at %d disappeared at block %d before its due block (%+v)", k.H, h, k), Key: "c16-early", Replay: where})
		}
	}
	for k, n := range cf {
		if pf[k] >= n || evidence { // byzantine punishment rewrites the funds of the punished candidate
			continue
		}
		// a fund created in block h
		switch {
		case k.Move != 0:
			if k.H != h+move {
				*mon = append(*mon, MonitorFailure{What: fmt.Sprintf("C16: stake move created at block %d matures at %d, expected %d", h, k.H, h+move), Key: "c16-move-period", Replay: where})
			}
			if !cands[k.Move] {
				*mon = append(*mon, MonitorFailure{What: fmt.Sprintf("C16: stake move created at block %d towards candidate id %d which does not exist", h, k.Move), Key: "c16-move-target", Replay: where})
			}
		case k.Cand != 0:
			// unbond / candidate removal / byzantine unbonding: exactly one unbond period
			if k.H != h+unbond && !(evidence && k.H > h && k.H <= h+unbond) {
				if k.H == h+move {
					*mon = append(*mon, MonitorFailure{What: fmt.Sprintf("C16: coins leaving candidate %d at block %d return to the owner's balance after the move period (%d), not the unbond period: a move credited to the balance (%+v)", k.Cand, h, k.H, k), Key: "c16-move-to-balance", Replay: where})
				} else {
					*mon = append(*mon, MonitorFailure{What: fmt.Sprintf("C16: unbonding fund created at block %d matures at %d, expected %d (%+v)", h, k.H, h+unbond, k), Key: "c16-unbond-period", Replay: where})
				}
			}
		default:
			if !lockDue[k.H] {
				*mon = append(*mon, MonitorFailure{What: fmt.Sprintf("C16: locked fund created at block %d matures at %d, which no Lock transaction of this block asked for (%+v)", h, k.H, k), Key: "c16-lock-due", Replay: where})
			}
		}
	}
	// in a block without transactions, balances grow exactly by the matured balance-bound funds
	if noTxs && !evidence {
		due := map[string]*big.Int{}
		for k, n := range pf {
			if k.H == h && k.Move == 0 {
				key := fmt.Sprintf("%s/%d", k.Addr.String(), k.Coin)
				if due[key] == nil {
					due[key] = big.NewInt(0)
				}
				for i := 0; i < n; i++ {
					due[key].Add(due[key], bi(k.Value))
				}
			}
		}
		bal := func(st *types.AppState) map[string]*big.Int {
			m := map[string]*big.Int{}
			for _, a := range st.Accounts {
				for _, b := range a.Balance {
					m[fmt.Sprintf("%s/%d", a.Address.String(), b.Coin)] = bi(b.Value)
				}
			}
			return m
		}
		pb, cb := bal(prev), bal(cur)
		for key, v := range cb {
			old := pb[key]
			if old == nil {
				old = big.NewInt(0)
			}
			d := new(big.Int).Sub(v, old)
			want := due[key]
			if want == nil {
				want = big.NewInt(0)
			}
			// the zero address receives the burned part of the block reward every block
			if key[:42] == "Mx0000000000000000000000000000000000000000" {
				continue
			}
			if d.Cmp(want) != 0 {
				*mon = append(*mon, MonitorFailure{What: fmt.Sprintf("C16: balance %s changed by %s in an empty block %d, matured funds for it: %s", key, d, h, want), Key: "c16-maturity-amount", Replay: where})
			}
		}
		// ... and a matured move arrives at its target candidate: the owner's stake + pending update there grows by exactly the moved value
		staked := func(st *types.AppState) map[string]*big.Int {
			m := map[string]*big.Int{}
			add := func(id uint64, s types.Stake) {
				k := fmt.Sprintf("%d/%s/%d", id, s.Owner.String(), s.Coin)
				if m[k] == nil {
					m[k] = big.NewInt(0)
				}
				m[k].Add(m[k], bi(s.Value))
			}
			for _, c := range st.Candidates {
				for _, s := range c.Stakes {
					add(c.ID, s)
				}
				for _, s := range c.Updates {
					add(c.ID, s)
				}
			}
			for _, w := range st.Waitlist { // a full candidate (1000 slots) may pass the arriving coins on to the waitlist (C17)
				add(w.CandidateID, types.Stake{Owner: w.Owner, Coin: w.Coin, Value: w.Value})
			}
			return m
		}
		moved := map[string]*big.Int{}
		for k, n := range pf {
			if k.H == h && k.Move != 0 {
				key := fmt.Sprintf("%d/%s/%d", k.Move, k.Addr.String(), k.Coin)
				if moved[key] == nil {
					moved[key] = big.NewInt(0)
				}
				for i := 0; i < n; i++ {
					moved[key].Add(moved[key], bi(k.Value))
				}
			}
		}
		if len(moved) > 0 {
			ps, cs := staked(prev), staked(cur)
			for key, want := range moved {
				a, b := ps[key], cs[key]
				if a == nil {
					a = big.NewInt(0)
				}
				if b == nil {
					b = big.NewInt(0)
				}
				var id uint64
				fmt.Sscanf(key, "%d/", &id)
				if !cands[id] {
					continue // the target was removed (every node has panicked before: c16-move-target-removed)
				}
				gone := true
				for _, c := range cur.Candidates {
					if c.ID == id {
						gone = false
					}
				}
				if gone {
					continue // removed by this very EndBlock: the arrived coins are frozen funds now
				}
				// at the stake-period block EndBlock also pays the delegators' rewards into their stakes (PayRewards: candidate.AddUpdate)
				if d := new(big.Int).Sub(b, a); (h%stakePeriod != 0 && d.Cmp(want) != 0) || d.Cmp(want) < 0 {
					*mon = append(*mon, MonitorFailure{What: fmt.Sprintf("C16: stake moves of %s matured at block %d for (candidate/owner/coin) %s but the owner's stake there changed by %s", want, h, key, d), Key: "c16-move-not-delegated", Replay: where})
				}
			}
		}
	}
}

// checkUnlockTag: an accepted unbond/move announces its maturity block: exactly one period ahead.
func checkUnlockTag(mon *[]MonitorFailure, tr TxResult, h, period uint64, where string) {
	if tr.Code != 0 {
		return
	}
	if tr.Tags["tx.unlock_block_id"] != fmt.Sprint(h+period) {
		*mon = append(*mon, MonitorFailure{What: fmt.Sprintf("C16: transaction accepted in block %d announces unlock block %s, one period later is %d", h, tr.Tags["tx.unlock_block_id"], h+period), Key: "c16-first-block-height", Replay: where})
	}
}

// ---- the tracer -----------------------------------------------------------------------------------

type c16tx struct {
	A       Acct
	Typ     transaction.TxType
	Data    interface{}
	GP      uint32
	Payload []byte
	Kind    string
}

var c16ExportTime, c16CommitTime time.Duration

// c16Long: thorough runs (n >= 20) follow the move-target-removed scenario until the coins are back in the balance
var c16Long bool

type wlRow struct {
	id   uint64
	a    types.Address
	coin uint64
}

type c16T struct {
	nd      *Node
	c       *Cases
	mon     *[]MonitorFailure
	where   string
	unknown map[types.Pubkey]int64
	candSt  map[uint64]int // what the model was told: 1 existing, 2 deleted
	coinSet map[uint64]bool
	stSent  map[uint64]string
	upSent  map[uint64]string
	wlSent  map[string]string
	prev    types.AppState
	txFunds []fundKey // funds created by this block's transactions
	wlRows  map[string]wlRow
	codes   map[string]int
	nontriv bool
	// counters
	blocks, matured, movesArrived, created, removed, txOps, unmodelled, crashes, evidenceBlocks int
	dead                                                                                        bool
	sparse                                                                                      bool // export only after blocks in which something can have changed (large genesis)
	paidNow                                                                                     int
	bouncedNow, bounced                                                                         int // matured moves whose target was removed: frozen again for one unbond period
}

func (t *c16T) ds() *state.State { return t.nd.App.VerifStateDeliver() }

func (t *c16T) fail(key, what string) {
	*t.mon = append(*t.mon, MonitorFailure{What: what, Key: key, Replay: t.where})
}

func newC16T(nd *Node, c *Cases, mon *[]MonitorFailure, where string, codes map[string]int) *c16T {
	t := &c16T{nd: nd, c: c, mon: mon, where: where, unknown: map[types.Pubkey]int64{}, candSt: map[uint64]int{}, coinSet: map[uint64]bool{},
		stSent: map[uint64]string{}, upSent: map[uint64]string{}, wlSent: map[string]string{}, wlRows: map[string]wlRow{}, codes: codes}
	c.Begin(20)
	c.Op(L(Z(0), Z(int64(types.GetUnbondPeriod())), Z(int64(types.GetMovePeriod())), Z(int64(types.GetIncreasedRewardsPeriod())), Z(nd.Height)), L(Z(1), Z(1), Z(1)))
	t.prev = nd.Export()
	for _, a := range t.prev.Accounts {
		if a.LockStakeUntilBlock != 0 {
			c.Op(L(Z(5), addrZ(a.Address), Z(int64(a.LockStakeUntilBlock))), L(Z(0)))
		}
	}
	return t
}

// candZ: the model's integer for a public key: its candidate ID when it has (or had) one
func (t *c16T) candZ(pk types.Pubkey) *big.Int {
	if id := t.ds().Candidates.ID(pk); id != 0 {
		return Z(int64(id))
	}
	if v, ok := t.unknown[pk]; ok {
		return Z(v)
	}
	v := int64(1000000 + len(t.unknown))
	t.unknown[pk] = v
	return Z(v)
}

func encStakes(l []types.Stake) (string, []*big.Int) {
	var sb strings.Builder
	var z []*big.Int
	for _, s := range l {
		fmt.Fprintf(&sb, "%s/%d/%s;", s.Owner.String(), s.Coin, s.Value)
		z = append(z, addrZ(s.Owner), Z(int64(s.Coin)), bi(s.Value))
	}
	return sb.String(), z
}

// syncFromExport tells the model what only EndBlock / other transactions / the genesis decide:
// the registries and the stake, update and waitlist entries as of the last commit.
func (t *c16T) syncFromExport() {
	st := &t.prev
	for _, co := range st.Coins {
		if !t.coinSet[co.ID] {
			t.coinSet[co.ID] = true
			t.c.Op(L(Z(6), Z(int64(co.ID))), L(Z(0)))
		}
	}
	for _, c := range st.Candidates {
		if t.candSt[c.ID] != 1 {
			t.candSt[c.ID] = 1
			t.c.Op(L(Z(4), Z(int64(c.ID)), Z(1)), L(Z(0)))
		}
		if s, z := encStakes(c.Stakes); t.stSent[c.ID] != s {
			t.stSent[c.ID] = s
			t.c.Op(append(L(Z(2), Z(int64(c.ID)), Z(int64(len(c.Stakes)))), z...), L(Z(0)))
		}
		if s, z := encStakes(c.Updates); t.upSent[c.ID] != s {
			t.upSent[c.ID] = s
			t.c.Op(append(L(Z(7), Z(int64(c.ID)), Z(int64(len(c.Updates)))), z...), L(Z(0)))
		}
	}
	for _, d := range st.DeletedCandidates {
		if t.candSt[d.ID] != 2 {
			t.candSt[d.ID] = 2
			t.c.Op(L(Z(4), Z(int64(d.ID)), Z(2)), L(Z(0)))
		}
	}
	cur := map[string]string{}
	for _, w := range st.Waitlist {
		k := fmt.Sprintf("%d/%s/%d", w.CandidateID, w.Owner.String(), w.Coin)
		cur[k] = w.Value
		t.wlRows[k] = wlRow{w.CandidateID, w.Owner, w.Coin}
		if t.wlSent[k] != w.Value {
			t.wlSent[k] = w.Value
			t.c.Op(L(Z(3), Z(int64(w.CandidateID)), addrZ(w.Owner), Z(int64(w.Coin)), Z(1), bi(w.Value)), L(Z(0)))
		}
	}
	var gone []string
	for k := range t.wlSent {
		if _, ok := cur[k]; !ok {
			gone = append(gone, k)
		}
	}
	sort.Strings(gone)
	for _, k := range gone {
		delete(t.wlSent, k)
		r := t.wlRows[k]
		t.c.Op(L(Z(3), Z(int64(r.id)), addrZ(r.a), Z(int64(r.coin)), Z(0), Z(0)), L(Z(0)))
	}
}

func (t *c16T) syncBal(a types.Address, coin types.CoinID) {
	t.c.Op(L(Z(1), addrZ(a), Z(int64(coin)), cp(t.ds().Accounts.GetBalance(a, coin))), L(Z(0)))
}

func (t *c16T) fundsAt(h uint64) []fundKey {
	ff := t.ds().FrozenFunds.GetFrozenFunds(h)
	if ff == nil {
		return nil
	}
	var out []fundKey
	for _, it := range ff.List {
		out = append(out, fundKey{h, it.Address, uint64(it.CandidateID), uint64(it.Coin), it.Value.String(), uint64(it.GetMoveToCandidateID())})
	}
	return out
}

func optZ(b *big.Int) *big.Int {
	if b == nil {
		return Z(-1)
	}
	return cp(b)
}

func (t *c16T) stakeOf(pk types.Pubkey, a types.Address, coin types.CoinID) *big.Int {
	if !t.ds().Candidates.Exists(pk) {
		return nil
	}
	return t.ds().Candidates.GetStakeValueOfAddress(pk, a, coin)
}

func (t *c16T) waitOf(pk types.Pubkey, a types.Address, coin types.CoinID) *big.Int {
	if w := t.ds().Waitlist.Get(a, pk, coin); w != nil {
		return w.Value
	}
	return nil
}

var c16ModelCodes = map[uint32]bool{0: true, 102: true, 103: true, 106: true, 107: true, 123: true, 403: true, 404: true, 405: true, 408: true, 409: true, 412: true, 415: true, 416: true, 417: true}

// begin runs BeginBlock of height h with byzantine evidence against the given validator indexes.
func (t *c16T) begin(h uint64, ev []int) bool {
	nd := t.nd
	ds := t.ds()
	// evidence flags as the byzantine loop will see them
	in := L(Z(20), Z(int64(h)), Z(int64(len(ev))))
	punished := map[uint32]bool{}
	for _, i := range ev {
		tm := nd.Vals[i].TmAdr
		cand := ds.Candidates.GetCandidateByTendermintAddress(tm)
		cid, online := uint32(0), false
		if cand != nil {
			cid = cand.ID
			online = cand.Status == candidates.CandidateStatusOnline && !punished[cid]
		}
		isval := ds.Validators.GetByTmAddress(tm) != nil
		if cand != nil && online && isval {
			punished[cid] = true
		}
		in = append(in, Z(int64(cid)), b2z(online), b2z(isval))
	}
	// balances of the owners of the funds due now
	type ak struct {
		a types.Address
		c types.CoinID
	}
	pre := map[ak]*big.Int{}
	var keys []ak
	for _, f := range t.fundsAt(h) {
		k := ak{f.Addr, types.CoinID(f.Coin)}
		if _, ok := pre[k]; !ok {
			pre[k] = cp(ds.Accounts.GetBalance(k.a, k.c))
			keys = append(keys, k)
			t.syncBal(k.a, k.c)
		}
	}
	// moves due now whose target candidate is gone: they must come back as funds due one unbond period later (fix c9a3e76)
	unbondDue := h + types.GetUnbondPeriod()
	var lost []fundKey
	for _, f := range t.fundsAt(h) {
		if f.Move != 0 && !ds.Candidates.Exists(ds.Candidates.PubKey(uint32(f.Move))) {
			lost = append(lost, f)
		}
	}
	nd.Time = nd.Time.Add(5 * time.Second)
	var votes []abci.VoteInfo
	for _, v := range nd.curValidators() {
		addr := make([]byte, len(v.tm))
		copy(addr, v.tm[:])
		votes = append(votes, abci.VoteInfo{Validator: abci.Validator{Address: addr, Power: 1}, SignedLastBlock: true})
	}
	var evs []abci.Evidence
	for _, i := range ev {
		addr := make([]byte, 20)
		copy(addr, nd.Vals[i].TmAdr[:])
		evs = append(evs, abci.Evidence{Type: abci.EvidenceType_DUPLICATE_VOTE, Validator: abci.Validator{Address: addr, Power: 1}, Height: int64(h) - 1, Time: nd.Time})
	}
	ok := nd.guard("BeginBlock", func() {
		nd.App.BeginBlock(abci.RequestBeginBlock{Header: tmproto.Header{Height: int64(h), Time: nd.Time, ChainID: "verif"},
			LastCommitInfo: abci.LastCommitInfo{Votes: votes}, ByzantineValidators: evs})
	})
	if !ok {
		t.dead = true
		t.crashes++
		stack := nd.Stacks[len(nd.Stacks)-1]
		if strings.Contains(stack, "coreV2/minter/blockchain.go:383") && strings.Contains(stack, "candidates.go:730") {
			// Candidates.Delegate towards a candidate that is no longer in the list
			t.c.Op(in, L(Z(2), Z(1602)))
			var gone []string
			for _, f := range t.fundsAt(h) {
				if f.Move != 0 && !t.ds().Candidates.Exists(t.ds().Candidates.PubKey(uint32(f.Move))) {
					gone = append(gone, fmt.Sprintf("%s of coin %d from candidate %d to candidate %d", f.Value, f.Coin, f.Cand, f.Move))
				}
			}
			t.fail("c16-move-target-removed", fmt.Sprintf("C16: BeginBlock %d panics (%s) paying out a stake move whose target candidate was removed after the move was accepted: the moved coins (%s) never reach a candidate and every node stops at this height", h, stack, strings.Join(gone, "; ")))
		} else {
			t.c.Op(in, L(Z(2), Z(-1)))
			t.fail("c07-panic", "panic: "+nd.Panics[len(nd.Panics)-1]+" "+stack)
		}
		return false
	}
	t.bouncedNow = len(lost)
	t.bounced += len(lost)
	if len(lost) > 0 {
		// evidence in the same block may have slashed the value: compare owner, origin, coin, target 0 and the paid value
		back := map[fundKey]int{}
		for _, f := range t.fundsAt(unbondDue) {
			back[f]++
		}
		for _, f := range t.fundsAt(h) {
			if f.Move != 0 && !t.ds().Candidates.Exists(t.ds().Candidates.PubKey(uint32(f.Move))) {
				k := fundKey{unbondDue, f.Addr, f.Cand, f.Coin, f.Value, 0}
				if back[k] == 0 {
					t.fail("c16-move-target-removed", fmt.Sprintf("C16: the stake move %+v matured at block %d, its target candidate was removed in flight, and the coins are not frozen for the owner until %d: lost", f, h, unbondDue))
				}
				back[k]--
			}
		}
	}
	paid := t.fundsAt(h) // the list as it was paid (values after a byzantine slash); it is dropped at Commit
	out := L(Z(0), Z(int64(len(paid))))
	want := map[ak]*big.Int{}
	for _, f := range paid {
		out = append(out, addrZ(f.Addr), Z(int64(f.Coin)), bi(f.Value), Z(int64(f.Move)))
		if f.Move == 0 {
			k := ak{f.Addr, types.CoinID(f.Coin)}
			if want[k] == nil {
				want[k] = big.NewInt(0)
			}
			want[k].Add(want[k], bi(f.Value))
		} else if t.ds().Candidates.Exists(t.ds().Candidates.PubKey(uint32(f.Move))) {
			t.movesArrived++
		}
		t.matured++
	}
	t.paidNow = len(paid)
	t.c.Op(in, out)
	for _, k := range keys {
		now := t.ds().Accounts.GetBalance(k.a, k.c)
		t.c.Op(L(Z(30), addrZ(k.a), Z(int64(k.c))), L(cp(now)))
		w := want[k]
		if w == nil {
			w = big.NewInt(0)
		}
		if d := new(big.Int).Sub(now, pre[k]); d.Cmp(w) != 0 {
			t.fail("c16-maturity-amount", fmt.Sprintf("C16: BeginBlock %d changed the balance of %s (coin %d) by %s, its matured balance-bound funds sum to %s", h, k.a.String(), k.c, d, w))
		}
	}
	if len(paid) > 0 {
		t.nontriv = true
	}
	return true
}

func c16Price(com types.Commission, x *c16tx, per string) (*big.Int, *big.Int) {
	n := Z(int64(len(x.Payload)))
	pb := new(big.Int).Mul(n, bi(com.PayloadByte))
	c := new(big.Int).Mul(Z(int64(x.GP)), new(big.Int).Add(bi(per), pb))
	f := new(big.Int).Mul(Z(int64(x.GP)), new(big.Int).Add(bi(com.FailedTx), pb))
	return c, f
}

type c16touch struct {
	pk   types.Pubkey
	a    types.Address
	coin types.CoinID
}

// deliver signs x with the sender's next nonce (base gas coin), delivers it, and emits the model operation.
func (t *c16T) deliver(x *c16tx, h uint64, lockDue map[uint64]bool, touched *[]c16touch, newDues map[uint64]bool) (TxResult, bool) {
	nd := t.nd
	ds := t.ds()
	raw := nd.MkTx(x.A, x.Typ, x.Data, 0, ds.Accounts.GetNonce(x.A.Addr)+1, x.GP, x.Payload)
	com := nd.Genesis.Commission
	sender := x.A.Addr
	var in []*big.Int
	var pk types.Pubkey
	coin := types.CoinID(0)
	keyed := false
	var value *big.Int
	unbond, move := types.GetUnbondPeriod(), types.GetMovePeriod()
	dues := []uint64{h + unbond, h + move}
	switch d := x.Data.(type) {
	case transaction.UnbondDataV3:
		c, f := c16Price(com, x, com.Unbond)
		in = L(Z(10), addrZ(sender), c, f, Z(1), t.candZ(d.PubKey), Z(int64(d.Coin)), cp(d.Value))
		pk, coin, keyed, value = d.PubKey, d.Coin, true, d.Value
	case transaction.MoveStakeData:
		c, f := c16Price(com, x, com.MoveStake)
		in = L(Z(10), addrZ(sender), c, f, Z(2), t.candZ(d.FromPubKey), t.candZ(d.ToPubKey), Z(int64(d.Coin)), cp(d.Value))
		pk, coin, keyed, value = d.FromPubKey, d.Coin, true, d.Value
	case transaction.LockStakeData:
		c, f := c16Price(com, x, com.LockStake)
		in = L(Z(10), addrZ(sender), c, f, Z(3))
	case transaction.LockData:
		c, f := c16Price(com, x, com.Lock)
		in = L(Z(10), addrZ(sender), c, f, Z(4), Z(int64(d.DueBlock)), Z(int64(d.Coin)), cp(d.Value))
		coin, value = d.Coin, d.Value
		dues = append(dues, uint64(d.DueBlock))
	case transaction.DelegateDataV260:
		c, f := c16Price(com, x, com.Delegate)
		hr, verdict := int64(0), int64(0)
		cs := state.NewCheckState(ds)
		if ci := cs.Coins().GetCoin(d.Coin); ci != nil && ci.BaseOrHasReserve() {
			hr = 1
		}
		if cs.Candidates().Exists(d.PubKey) && cs.Coins().Exists(d.Coin) {
			v := new(big.Int).Set(d.Value)
			if w := t.waitOf(d.PubKey, sender, d.Coin); w != nil {
				v.Add(v, w)
			}
			if v.Sign() > 0 {
				low, big_ := cs.Candidates().IsDelegatorStakeAllowed(sender, d.PubKey, d.Coin, v)
				if low {
					verdict = 1
				} else if big_ {
					verdict = 2
				}
			}
		}
		in = L(Z(10), addrZ(sender), c, f, Z(5), t.candZ(d.PubKey), Z(int64(d.Coin)), cp(d.Value), Z(hr), Z(verdict))
		pk, coin, keyed, value = d.PubKey, d.Coin, true, d.Value
	}
	if in == nil {
		// not a transaction of the schedule model: delivered, then the model is told what it changed
		tr, ok := nd.DeliverOnly(raw)
		if !ok {
			t.dead = true
			t.fail("c07-panic", "panic: "+nd.Panics[len(nd.Panics)-1])
			return tr, false
		}
		if tr.Code == 0 {
			switch d := x.Data.(type) {
			case transaction.DeclareCandidacyData:
				id := uint64(t.ds().Candidates.ID(d.PubKey))
				t.candSt[id] = 1
				t.c.Op(L(Z(4), Z(int64(id)), Z(1)), L(Z(0)))
				t.stSent[id] = ""
				t.upSent[id] = "?"
				t.c.Op(L(Z(7), Z(int64(id)), Z(1), addrZ(sender), Z(int64(d.Coin)), cp(d.Stake)), L(Z(0)))
				*touched = append(*touched, c16touch{d.PubKey, sender, d.Coin})
			case transaction.CreateCoinData, transaction.CreateTokenData:
				if id, err := strconv.Atoi(tr.Tags["tx.coin_id"]); err == nil && !t.coinSet[uint64(id)] {
					t.coinSet[uint64(id)] = true
					t.c.Op(L(Z(6), Z(int64(id))), L(Z(0)))
				}
			}
		}
		return tr, true
	}
	// the model needs the sender's balances as of now (fees, rewards and other transactions are not its business)
	t.syncBal(sender, 0)
	if coin != 0 {
		t.syncBal(sender, coin)
	}
	preLock := ds.Accounts.GetLockStakeUntilBlock(sender)
	var preStake, preWait *big.Int
	if keyed {
		preStake, preWait = cp(t.stakeOf(pk, sender, coin)), cp(t.waitOf(pk, sender, coin))
	}
	preLen := map[uint64]int{}
	for _, d := range dues {
		preLen[d] = len(t.fundsAt(d))
	}
	tr, ok := nd.DeliverOnly(raw)
	if !ok {
		t.dead = true
		t.c.Op(in, L(Z(-2), Z(-1)))
		t.fail("c07-panic", "panic: "+nd.Panics[len(nd.Panics)-1]+" "+nd.Stacks[len(nd.Stacks)-1])
		return tr, false
	}
	t.codes[fmt.Sprintf("%s:%d", x.Kind, tr.Code)]++
	ds = t.ds()
	// the fund this transaction created
	var made []fundKey
	seen := map[uint64]bool{}
	for _, d := range dues {
		if seen[d] {
			continue
		}
		seen[d] = true
		if l := t.fundsAt(d); len(l) > preLen[d] {
			made = append(made, l[preLen[d]:]...)
		}
	}
	t.txFunds = append(t.txFunds, made...)
	crt := L(Z(0), Z(0), Z(0), Z(0), Z(0), Z(0), Z(0))
	if len(made) == 1 {
		f := made[0]
		crt = L(Z(1), Z(int64(f.H)), addrZ(f.Addr), Z(int64(f.Cand)), Z(int64(f.Coin)), bi(f.Value), Z(int64(f.Move)))
		newDues[f.H] = true
		t.created++
	} else if len(made) > 1 {
		t.fail("c16-many-funds", fmt.Sprintf("C16: one %s transaction created %d frozen funds", x.Kind, len(made)))
	}
	postStake, postWait := (*big.Int)(nil), (*big.Int)(nil)
	if keyed {
		postStake, postWait = t.stakeOf(pk, sender, coin), t.waitOf(pk, sender, coin)
	}
	if !c16ModelCodes[tr.Code] {
		t.unmodelled++
		return tr, true
	}
	out := L(Z(int64(tr.Code)), cp(ds.Accounts.GetBalance(sender, 0)), cp(ds.Accounts.GetBalance(sender, coin)), Z(int64(ds.Accounts.GetLockStakeUntilBlock(sender))))
	out = append(out, crt...)
	out = append(out, optZ(postStake), optZ(postWait), Z(-999)) // pending updates cannot be observed inside a block: checked at the end of the block
	t.c.Op(in, out)
	t.txOps++
	if keyed && tr.Code == 0 {
		*touched = append(*touched, c16touch{pk, sender, coin})
	}
	// ---- monitors, independent of the model ----
	zero := big.NewInt(0)
	nz := func(b *big.Int) *big.Int {
		if b == nil {
			return zero
		}
		return b
	}
	switch d := x.Data.(type) {
	case transaction.UnbondDataV3, transaction.MoveStakeData:
		_, isMove := d.(transaction.MoveStakeData)
		period := unbond
		if isMove {
			period = move
		}
		if tr.Code == 0 {
			t.nontriv = true
			checkUnlockTag(t.mon, tr, h, period, t.where)
			left := new(big.Int).Sub(new(big.Int).Add(nz(preStake), nz(preWait)), new(big.Int).Add(nz(postStake), nz(postWait)))
			if left.Cmp(value) != 0 {
				t.fail("c16-leave-amount", fmt.Sprintf("C16: accepted %s of %s at block %d took %s out of the sender's stake and waitlist", x.Kind, value, h, left))
			}
			if len(made) != 1 || made[0].Value != value.String() || made[0].H != h+period || made[0].Addr != sender || (isMove) != (made[0].Move != 0) {
				t.fail("c16-leave-fund", fmt.Sprintf("C16: accepted %s of %s at block %d created the frozen funds %+v, expected one of that value due at %d", x.Kind, value, h, made, h+period))
			}
			if !isMove && preLock > h {
				t.fail("c16-locked-unbond", fmt.Sprintf("C16: Unbond accepted at block %d while the sender's stake is locked until %d", h, preLock))
			}
			if mv, ok := d.(transaction.MoveStakeData); ok && !ds.Candidates.Exists(mv.ToPubKey) {
				t.fail("c16-move-target", "C16: MoveStake towards a public key that is not a candidate was accepted")
			}
		} else {
			if nz(preStake).Cmp(nz(postStake)) != 0 || nz(preWait).Cmp(nz(postWait)) != 0 || len(made) != 0 {
				t.fail("c16-reject-changed", fmt.Sprintf("C16: rejected %s (code %d) changed the stake, the waitlist or the frozen funds", x.Kind, tr.Code))
			}
			if !isMove && preLock > h && tr.Code != 416 {
				// a locked sender is told so before anything else is looked at
				t.fail("c16-locked-code", fmt.Sprintf("C16: Unbond of a sender locked until %d rejected at block %d with code %d, not UnbondBlocked", preLock, h, tr.Code))
			}
		}
	case transaction.LockData:
		if tr.Code == 0 {
			t.nontriv = true
			lockDue[uint64(d.DueBlock)] = true
			if len(made) != 1 || made[0].H != uint64(d.DueBlock) || made[0].Value != d.Value.String() || made[0].Move != 0 || made[0].Cand != 0 || uint64(d.DueBlock) <= h {
				t.fail("c16-lock-due", fmt.Sprintf("C16: accepted Lock of %s until %d at block %d created the frozen funds %+v", d.Value, d.DueBlock, h, made))
			}
		} else if len(made) != 0 {
			t.fail("c16-reject-changed", fmt.Sprintf("C16: rejected Lock (code %d) created a frozen fund", tr.Code))
		}
	case transaction.LockStakeData:
		post := ds.Accounts.GetLockStakeUntilBlock(sender)
		if tr.Code == 0 {
			t.nontriv = true
			if post != h+types.GetIncreasedRewardsPeriod() {
				t.fail("c16-lockstake-until", fmt.Sprintf("C16: LockStake accepted at block %d locks until %d, expected %d", h, post, h+types.GetIncreasedRewardsPeriod()))
			}
		} else if post != preLock {
			t.fail("c16-reject-changed", fmt.Sprintf("C16: rejected LockStake (code %d) changed the lock", tr.Code))
		}
	}
	return tr, true
}

// Block runs one block: BeginBlock with evidence, the transactions next() yields (built against the
// in-flight state), EndBlock + Commit; then the block-level comparisons and monitors.
func (t *c16T) Block(next func() *c16tx, ev []int, onTx func(*c16tx, TxResult)) bool {
	if t.dead {
		return false
	}
	nd := t.nd
	h := uint64(nd.Height + 1)
	t.syncFromExport()
	if !t.begin(h, ev) {
		return false
	}
	lockDue := map[uint64]bool{}
	newDues := map[uint64]bool{}
	var touched []c16touch
	if t.bouncedNow > 0 {
		newDues[h+types.GetUnbondPeriod()] = true
	}
	// the targets of the moves that arrived in this BeginBlock
	for _, f := range t.fundsAt(h) {
		if f.Move != 0 && t.ds().Candidates.Exists(t.ds().Candidates.PubKey(uint32(f.Move))) {
			touched = append(touched, c16touch{t.ds().Candidates.PubKey(uint32(f.Move)), f.Addr, types.CoinID(f.Coin)})
		}
	}
	ntx := 0
	for next != nil {
		x := next()
		if x == nil {
			break
		}
		tr, ok := t.deliver(x, h, lockDue, &touched, newDues)
		if !ok {
			return false
		}
		ntx++
		if onTx != nil {
			onTx(x, tr)
		}
	}
	// the stake slots right before EndBlock (its recalculation may merge updates into them and delete candidates)
	preEnd := map[uint64][]types.Stake{}
	for _, c := range t.prev.Candidates {
		if t.ds().Candidates.Exists(c.PubKey) {
			var l []types.Stake
			for _, s := range t.ds().Candidates.GetStakes(c.PubKey) {
				l = append(l, types.Stake{Owner: s.Owner, Coin: uint64(s.Coin), Value: s.Value.String()})
			}
			preEnd[c.ID] = l
		}
	}
	tC := time.Now()
	okEnd := nd.EndAndCommit(h)
	c16CommitTime += time.Since(tC)
	if !okEnd {
		t.dead = true
		t.fail("c07-panic", "panic: "+nd.Panics[len(nd.Panics)-1])
		return false
	}
	if t.sparse && ntx == 0 && len(ev) == 0 && t.paidNow == 0 && h%stakePeriod != 0 {
		// nothing the schedule is about can have changed: no transaction, no evidence, no fund due, no stake recalculation
		t.blocks++
		return true
	}
	tE := time.Now()
	cur := nd.Export()
	c16ExportTime += time.Since(tE)
	unbond := types.GetUnbondPeriod()
	// candidates removed by this EndBlock
	still := map[uint64]bool{}
	for _, c := range cur.Candidates {
		still[c.ID] = true
	}
	var removedIDs []uint64
	for id, s := range t.candSt {
		if s == 1 && !still[id] {
			removedIDs = append(removedIDs, id)
		}
	}
	sort.Slice(removedIDs, func(i, j int) bool { return removedIDs[i] < removedIDs[j] })
	for _, id := range removedIDs {
		// the stake slots as they were when EndBlock started (the model keeps its own pending updates)
		if l, ok := preEnd[id]; ok {
			s, z := encStakes(l)
			t.stSent[id] = s
			t.c.Op(append(L(Z(2), Z(int64(id)), Z(int64(len(l)))), z...), L(Z(0)))
		}
		// funds of this candidate due one unbond period from now, minus those this block's transactions created
		type rk struct {
			a types.Address
			c uint64
		}
		agg := map[rk]*big.Int{}
		for _, f := range cur.FrozenFunds {
			if f.Height == h+unbond && f.CandidateID == id && f.MoveToCandidateID == 0 {
				k := rk{f.Address, f.Coin}
				if agg[k] == nil {
					agg[k] = big.NewInt(0)
				}
				agg[k].Add(agg[k], bi(f.Value))
			}
		}
		for _, f := range t.txFunds {
			if f.H == h+unbond && f.Cand == id && f.Move == 0 {
				k := rk{f.Addr, f.Coin}
				if agg[k] != nil {
					agg[k].Sub(agg[k], bi(f.Value))
				}
			}
		}
		type row struct {
			a types.Address
			c uint64
			v *big.Int
		}
		var rows []row
		for k, v := range agg {
			if v.Sign() == 0 {
				continue
			}
			rows = append(rows, row{k.a, k.c, v})
		}
		sort.Slice(rows, func(i, j int) bool {
			if c := addrZ(rows[i].a).Cmp(addrZ(rows[j].a)); c != 0 {
				return c < 0
			}
			return rows[i].c < rows[j].c
		})
		out := L(Z(int64(len(rows))))
		for _, r := range rows {
			out = append(out, addrZ(r.a), Z(int64(r.c)), r.v)
		}
		due := Z(int64(h + unbond))
		if len(rows) == 0 {
			due = Z(-999)
		}
		out = append(out, due, Z(0), Z(int64(id)))
		t.c.Op(L(Z(21), Z(int64(id)), Z(0)), out)
		t.candSt[id] = 2
		delete(t.stSent, id)
		delete(t.upSent, id)
		t.removed++
		t.nontriv = true
		newDues[h+unbond] = true
	}
	// frozen funds: the total, and the lists this block touched (all of them after evidence)
	t.c.Op(L(Z(33)), L(Z(int64(h)), Z(int64(len(cur.FrozenFunds)))))
	if len(ev) > 0 {
		t.evidenceBlocks++
		for _, f := range cur.FrozenFunds {
			newDues[f.Height] = true
		}
		newDues[h+unbond] = true
	}
	var dl []uint64
	for d := range newDues {
		dl = append(dl, d)
	}
	sort.Slice(dl, func(i, j int) bool { return dl[i] < dl[j] })
	for _, d := range dl {
		var l []*big.Int
		n := 0
		for _, f := range cur.FrozenFunds {
			if f.Height == d {
				l = append(l, addrZ(f.Address), Z(int64(f.CandidateID)), Z(int64(f.Coin)), bi(f.Value), Z(int64(f.MoveToCandidateID)))
				n++
			}
		}
		t.c.Op(L(Z(32), Z(int64(d))), append(L(Z(int64(n))), l...))
	}
	// what the owner holds with the candidates this block's transactions and arrived moves touched: stake + pending update
	// the model changed these entries itself: they are sent again at the start of the next block
	for _, k := range touched {
		if id := uint64(t.ds().Candidates.ID(k.pk)); id != 0 {
			t.stSent[id] = "?"
			t.upSent[id] = "?"
			wk := fmt.Sprintf("%d/%s/%d", id, k.a.String(), k.coin)
			t.wlSent[wk] = "?"
			t.wlRows[wk] = wlRow{id, k.a, uint64(k.coin)}
		}
	}
	done := map[string]bool{}
	if h%stakePeriod == 0 {
		touched = nil // EndBlock has just paid the delegators' rewards into their stakes as well (PayRewards): not the schedule's business
	}
	for _, k := range touched {
		id := t.ds().Candidates.ID(k.pk)
		key := fmt.Sprintf("%d/%s/%d", id, k.a.String(), k.coin)
		if id == 0 || done[key] {
			continue
		}
		done[key] = true
		sum := big.NewInt(0)
		for _, c := range cur.Candidates {
			if c.ID != uint64(id) {
				continue
			}
			for _, s := range append(append([]types.Stake{}, c.Stakes...), c.Updates...) {
				if s.Owner == k.a && s.Coin == uint64(k.coin) {
					sum.Add(sum, bi(s.Value))
				}
			}
		}
		t.c.Op(L(Z(34), Z(int64(id)), addrZ(k.a), Z(int64(k.coin))), L(sum))
	}
	c16Monitor(h, &t.prev, &cur, lockDue, len(ev) > 0, ntx == 0, t.mon, t.where)
	t.prev = cur
	t.txFunds = nil
	t.blocks++
	return true
}

func (t *c16T) End(kind string) {
	t.c.End(t.nontriv, kind)
}

// ---- scripted scenarios -------------------------------------------------------------------------------

func c16Seq(l ...*c16tx) func() *c16tx {
	i := 0
	return func() *c16tx {
		if i >= len(l) {
			return nil
		}
		i++
		return l[i-1]
	}
}

// BlockTxs runs one block with the given transactions and returns their results.
func (t *c16T) BlockTxs(ev []int, l ...*c16tx) []TxResult {
	var res []TxResult
	t.Block(c16Seq(l...), ev, func(_ *c16tx, r TxResult) { res = append(res, r) })
	return res
}

func (t *c16T) Empty(n int) {
	for i := 0; i < n && !t.dead; i++ {
		t.Block(nil, nil, nil)
	}
}

func txUnbond(a Acct, pk types.Pubkey, coin types.CoinID, v *big.Int) *c16tx {
	return &c16tx{A: a, Typ: transaction.TypeUnbond, Data: transaction.UnbondDataV3{PubKey: pk, Coin: coin, Value: v}, GP: 1, Kind: "unbond"}
}
func txMove(a Acct, from, to types.Pubkey, coin types.CoinID, v *big.Int) *c16tx {
	return &c16tx{A: a, Typ: transaction.TypeMoveStake, Data: transaction.MoveStakeData{FromPubKey: from, ToPubKey: to, Coin: coin, Value: v}, GP: 1, Kind: "move"}
}
func txLockStake(a Acct) *c16tx {
	return &c16tx{A: a, Typ: transaction.TypeLockStake, Data: transaction.LockStakeData{}, GP: 1, Kind: "lockstake"}
}
func txLock(a Acct, due uint64, coin types.CoinID, v *big.Int) *c16tx {
	return &c16tx{A: a, Typ: transaction.TypeLock, Data: transaction.LockData{DueBlock: uint32(due), Coin: coin, Value: v}, GP: 1, Kind: "lock"}
}
func txDelegate(a Acct, pk types.Pubkey, coin types.CoinID, v *big.Int) *c16tx {
	return &c16tx{A: a, Typ: transaction.TypeDelegate, Data: transaction.DelegateDataV260{PubKey: pk, Coin: coin, Value: v}, GP: 1, Kind: "delegate"}
}
func txDeclare(a Acct, pk types.Pubkey, stake *big.Int) *c16tx {
	return &c16tx{A: a, Typ: transaction.TypeDeclareCandidacy, Data: transaction.DeclareCandidacyData{Address: a.Addr, PubKey: pk, Commission: 10, Coin: 0, Stake: stake}, GP: 1, Kind: "declare"}
}

func c16Expect(t *c16T, name string, res []TxResult, want ...uint32) {
	if len(res) != len(want) {
		t.fail("c16-scenario", fmt.Sprintf("scenario %s: %d results, expected %d", name, len(res), len(want)))
		return
	}
	for i := range want {
		if res[i].Code != want[i] {
			t.fail("c16-scenario", fmt.Sprintf("scenario %s: transaction %d answered code %d (%s), the scenario was written for %d", name, i, res[i].Code, res[i].Log, want[i]))
		}
	}
}

func spec100() *GenesisSpec {
	spec := &GenesisSpec{NAccounts: 6, Balance: pip(100000000), NVals: 4, ExtraCands: 96}
	for i := 0; i < 100; i++ {
		spec.Stakes = append(spec.Stakes, pip(int64(20000-100*i)))
	}
	return spec
}

type c16Scenario struct {
	name string
	spec func() *GenesisSpec
	run  func(t *c16T, nd *Node, name string)
}

var c16Scenarios = []c16Scenario{
	{"move-to-non-candidate", func() *GenesisSpec { return &GenesisSpec{NAccounts: 6, Balance: pip(100000000), NVals: 4} }, func(t *c16T, nd *Node, name string) {
		a := nd.Accts[0]
		unknown := mkVal(9001).Pub
		r := t.BlockTxs(nil, txMove(a, nd.Vals[0].Pub, unknown, 0, pip(5000)), txLockStake(a), txMove(a, nd.Vals[0].Pub, unknown, 0, pip(5000)), txMove(a, nd.Vals[0].Pub, nd.Vals[0].Pub, 0, pip(1)))
		if len(r) > 0 && r[0].Code == 0 {
			t.fail("c16-move-target", "C16: MoveStake towards a public key that is not a candidate was accepted")
		}
		c16Expect(t, name, r, 403, 0, 403, 417)
		t.Empty(2)
	}},
	{"unbond-in-first-block", func() *GenesisSpec { return &GenesisSpec{NAccounts: 6, Balance: pip(100000000), NVals: 4} }, func(t *c16T, nd *Node, name string) {
		r := t.BlockTxs(nil, txUnbond(nd.Accts[0], nd.Vals[0].Pub, 0, pip(100)))
		if os.Getenv("VERIF_DEBUG") != "" {
			fmt.Fprintf(os.Stderr, "first block: height=%d funds=%+v res=%+v\n", nd.Height, t.prev.FrozenFunds, r)
		}
		c16Expect(t, name, r, 0)
		if len(t.prev.FrozenFunds) != 1 {
			t.fail("c16-first-block-height", fmt.Sprintf("C16: an accepted Unbond in the first block left %d frozen funds in the state export", len(t.prev.FrozenFunds)))
		}
	}},
	{"waitlist", func() *GenesisSpec {
		return &GenesisSpec{NAccounts: 6, Balance: pip(100000000), NVals: 6, Mutate: func(st *types.AppState) {
			a4, a1 := st.Accounts[4].Address, st.Accounts[1].Address
			st.Waitlist = append(st.Waitlist,
				types.Waitlist{CandidateID: 1, Owner: a4, Coin: 0, Value: pip(300).String()},
				types.Waitlist{CandidateID: 2, Owner: a4, Coin: 0, Value: pip(50).String()},
				types.Waitlist{CandidateID: 2, Owner: a1, Coin: 0, Value: pip(40).String()},
				types.Waitlist{CandidateID: 3, Owner: a4, Coin: 0, Value: pip(70).String()})
		}}
	}, func(t *c16T, nd *Node, name string) {
		a4, a1 := nd.Accts[4], nd.Accts[1]
		v := nd.Vals
		r := t.BlockTxs(nil,
			txUnbond(a4, v[0].Pub, 0, pip(100)),        // part of the waitlisted 300
			txUnbond(a4, v[0].Pub, 0, pip(200)),        // exactly the rest
			txUnbond(a4, v[0].Pub, 0, big.NewInt(1)),   // nothing left, no stake
			txUnbond(a4, v[1].Pub, 0, pip(60)),         // more than the waitlisted 50, no stake
			txUnbond(a1, v[1].Pub, 0, pip(100)),        // waitlisted 40 + 60 of the stake
			txMove(a4, v[1].Pub, v[0].Pub, 0, pip(50)), // a move of exactly the waitlisted amount
			txMove(a4, v[2].Pub, v[0].Pub, 0, pip(30)), // a move of a part of a waitlisted amount
			txMove(a4, v[2].Pub, v[0].Pub, 0, pip(41))) // more than what is left there
		c16Expect(t, name, r, 0, 0, 404, 412, 0, 0, 0, 412)
		r = t.BlockTxs(nil, txDelegate(a4, v[2].Pub, 0, pip(5)), txUnbond(a4, v[2].Pub, 0, pip(1))) // the delegation takes the waitlisted rest along
		c16Expect(t, name, r, 0, 404)
		t.Empty(int(types.GetMovePeriod()) + 1)
	}},
	{"lock-boundary", func() *GenesisSpec {
		return &GenesisSpec{NAccounts: 6, Balance: pip(100000000), NVals: 4, Mutate: func(st *types.AppState) {
			st.Accounts[0].LockStakeUntilBlock = InitialHeight + 2
			st.Waitlist = append(st.Waitlist, types.Waitlist{CandidateID: 2, Owner: st.Accounts[0].Address, Coin: 0, Value: pip(20).String()})
		}}
	}, func(t *c16T, nd *Node, name string) {
		a := nd.Accts[0]
		v := nd.Vals
		r := t.BlockTxs(nil, txUnbond(a, v[0].Pub, 0, pip(10)), txUnbond(a, v[1].Pub, 0, pip(5)), txMove(a, v[0].Pub, v[1].Pub, 0, pip(10)), txUnbond(a, v[0].Pub, 0, big.NewInt(0)))
		c16Expect(t, name, r, 416, 416, 0, 416)
		r = t.BlockTxs(nil, txUnbond(a, v[0].Pub, 0, pip(10)))
		c16Expect(t, name, r, 416)
		r = t.BlockTxs(nil, txUnbond(a, v[0].Pub, 0, pip(10)), txUnbond(a, v[1].Pub, 0, pip(5))) // block = LockStakeUntilBlock: no longer blocked
		c16Expect(t, name, r, 0, 0)
		r = t.BlockTxs(nil, txLockStake(a), txUnbond(a, v[0].Pub, 0, pip(10)), txMove(a, v[0].Pub, v[2].Pub, 0, pip(10)))
		c16Expect(t, name, r, 0, 416, 0)
		r = t.BlockTxs(nil, txUnbond(a, v[0].Pub, 0, pip(10)), txLockStake(a))
		c16Expect(t, name, r, 416, 0)
		t.Empty(2)
	}},
	{"lock-due-edges", func() *GenesisSpec { return &GenesisSpec{NAccounts: 6, Balance: pip(100000000), NVals: 4} }, func(t *c16T, nd *Node, name string) {
		h := uint64(nd.Height + 1)
		var l []*c16tx
		l = append(l, txLock(nd.Accts[0], h, 0, pip(1)), txLock(nd.Accts[0], h-1, 0, pip(1)), txLock(nd.Accts[0], h+1, 0, pip(7)), txLock(nd.Accts[1], h+1, 0, big.NewInt(0)),
			txLock(nd.Accts[1], h+3, 7, pip(1)), txLock(nd.Accts[1], h+3, 0, pip(200000000)))
		for i := 0; i < 14; i++ {
			l = append(l, txLock(nd.Accts[i%6], h+3, 0, pip(int64(1+i))))
		}
		l = append(l, txUnbond(nd.Accts[2], nd.Vals[2].Pub, 0, pip(3)))
		r := t.BlockTxs(nil, l...)
		want := []uint32{123, 123, 0, 0, 102, 107}
		for i := 0; i < 15; i++ {
			want = append(want, 0)
		}
		c16Expect(t, name, r, want...)
		t.Empty(5)
	}},
	{"byzantine-moves-in-flight", func() *GenesisSpec { return &GenesisSpec{NAccounts: 6, Balance: pip(100000000), NVals: 6} }, func(t *c16T, nd *Node, name string) {
		a0, a1 := nd.Accts[0], nd.Accts[1]
		v := nd.Vals
		r := t.BlockTxs(nil, txMove(a0, v[0].Pub, v[1].Pub, 0, pip(1000)), txUnbond(a0, v[0].Pub, 0, pip(501)), txMove(a1, v[1].Pub, v[0].Pub, 0, pip(333)), txDelegate(a1, v[0].Pub, 0, pip(77)))
		c16Expect(t, name, r, 0, 0, 0, 0)
		t.BlockTxs([]int{0, 0}) // two pieces of evidence against validator 0 in one block
		t.BlockTxs([]int{0})    // and a third one in the next
		t.Empty(int(types.GetUnbondPeriod()) + 2)
	}},
	{"removal-with-funds-in-flight", spec100, func(t *c16T, nd *Node, name string) {
		t.sparse = true
		v := nd.Vals
		owner := nd.Accts[99%6]
		r := t.BlockTxs(nil, txUnbond(owner, v[99].Pub, 0, pip(50)), txMove(owner, v[99].Pub, v[0].Pub, 0, pip(70)), txDelegate(nd.Accts[2], v[99].Pub, 0, pip(11)))
		c16Expect(t, name, r, 0, 0, 0)
		r = t.BlockTxs(nil, txDeclare(nd.Accts[1], mkVal(500).Pub, pip(15000)))
		c16Expect(t, name, r, 0)
		for nd.Height%stakePeriod != 0 && !t.dead {
			t.Empty(1)
		}
		if t.removed == 0 {
			t.fail("c16-scenario", "scenario "+name+": the lowest candidate was not removed")
		}
		// an Unbond and a MoveStake out of the waitlist do not need the candidate; towards it nothing is accepted any more
		r = t.BlockTxs(nil, txMove(nd.Accts[0], v[0].Pub, v[99].Pub, 0, pip(5)), txUnbond(owner, v[99].Pub, 0, pip(5)), txDelegate(nd.Accts[2], v[99].Pub, 0, pip(5)))
		c16Expect(t, name, r, 403, 403, 403)
		t.Empty(int(types.GetMovePeriod()) + 3) // the move out of the removed candidate arrives; unbond maturities: see the byzantine scenario
	}},
	{"move-target-removed", spec100, func(t *c16T, nd *Node, name string) {
		t.sparse = true
		v := nd.Vals
		r := t.BlockTxs(nil, txMove(nd.Accts[0], v[0].Pub, v[99].Pub, 0, pip(100)))
		c16Expect(t, name, r, 0)
		r = t.BlockTxs(nil, txDeclare(nd.Accts[1], mkVal(500).Pub, pip(15000)))
		c16Expect(t, name, r, 0)
		moveDue := uint64(nd.Height) - 1 + types.GetMovePeriod()
		t.Empty(int(types.GetMovePeriod()) + 2)
		if t.bounced != 1 && !t.dead {
			t.fail("c16-scenario", "scenario "+name+": the move did not mature with its target removed")
		}
		if !t.dead {
			// a node that survives must not have lost the coins: they are with a candidate or frozen for the owner
			held := big.NewInt(0)
			for _, f := range t.prev.FrozenFunds {
				if f.Address == nd.Accts[0].Addr && f.CandidateID == 1 && f.Height > moveDue {
					held.Add(held, bi(f.Value))
				}
			}
			for _, c := range t.prev.Candidates {
				for _, s := range append(append([]types.Stake{}, c.Stakes...), c.Updates...) {
					if s.Owner == nd.Accts[0].Addr && c.ID == 100 {
						held.Add(held, bi(s.Value))
					}
				}
			}
			if held.Cmp(pip(100)) != 0 {
				t.fail("c16-move-target-removed", fmt.Sprintf("C16: a move of %s towards a candidate removed before maturity left the owner with %s staked or frozen after the due block", pip(100), held))
			}
			if !c16Long {
				return // quick runs stop here: the re-frozen fund is an ordinary unbond fund from now on (531 more blocks of a 100-candidate chain)
			}
			// ... and they arrive in the owner's balance exactly one unbond period after the move's due block
			before := t.ds().Accounts.GetBalance(nd.Accts[0].Addr, 0)
			for uint64(nd.Height) < moveDue+types.GetUnbondPeriod()-1 && !t.dead {
				t.Empty(1)
			}
			if !t.dead && t.ds().Accounts.GetBalance(nd.Accts[0].Addr, 0).Cmp(before) != 0 {
				t.fail("c16-early", "C16: the coins of a move whose target was removed came back before one unbond period had passed")
			}
			t.Empty(1)
			if !t.dead {
				if got := new(big.Int).Sub(t.ds().Accounts.GetBalance(nd.Accts[0].Addr, 0), before); got.Cmp(pip(100)) != 0 {
					t.fail("c16-move-target-removed", fmt.Sprintf("C16: one unbond period after the due block of a move whose target was removed the owner's balance grew by %s, not by the moved %s", got, pip(100)))
				}
			}
		}
	}},
}

func runC16(seed uint64, n int, out, stats string, _ []string) {
	var mon []MonitorFailure
	dist := map[string]int{}
	codes := map[string]int{}
	c := NewCases(out)
	tot := &c16T{}
	acc := func(t *c16T) {
		tot.blocks += t.blocks
		tot.matured += t.matured
		tot.movesArrived += t.movesArrived
		tot.created += t.created
		tot.removed += t.removed
		tot.txOps += t.txOps
		tot.unmodelled += t.unmodelled
		tot.crashes += t.crashes
		tot.evidenceBlocks += t.evidenceBlocks
		tot.bounced += t.bounced
	}
	c16Long = n >= 20
	for _, sc := range c16Scenarios {
		t0 := time.Now()
		nd := newNode(sc.spec())
		t := newC16T(nd, c, &mon, "vharness c16 scenario "+sc.name, codes)
		sc.run(t, nd, sc.name)
		t.End("scenario")
		acc(t)
		nd.Cleanup()
		dist["scenario"]++
		if os.Getenv("VERIF_DEBUG") != "" {
			fmt.Fprintf(os.Stderr, "scenario %s: %v, %d blocks (export %v, end+commit %v)\n", sc.name, time.Since(t0), t.blocks, c16ExportTime, c16CommitTime)
		}
	}
	for i := 0; i < n; i++ {
		s := seed*1000003 + uint64(i)
		r := NewRng(s)
		spec := stdSpec(r)
		lockedAcct, lockedFor := r.Intn(spec.NAccounts), uint64(r.Intn(40))
		nWait := r.Intn(4)
		spec.Mutate = func(st *types.AppState) {
			if r.Intn(2) == 0 {
				st.Accounts[lockedAcct].LockStakeUntilBlock = InitialHeight + lockedFor
			}
			for k := 0; k < nWait; k++ {
				st.Waitlist = append(st.Waitlist, types.Waitlist{CandidateID: uint64(1 + r.Intn(len(st.Candidates))), Owner: st.Accounts[r.Intn(len(st.Accounts))].Address, Coin: 0, Value: pip(int64(1 + r.Intn(400))).String()})
			}
		}
		nd := newNode(spec)
		w := newWorld(nd, r)
		for _, wl := range nd.Genesis.Waitlist {
			for _, a := range nd.Accts {
				if a.Addr == wl.Owner {
					w.Stakes = append(w.Stakes, stakeRef{a, nd.Vals[wl.CandidateID-1].Pub, 0})
				}
			}
		}
		w.Weights = map[string]int{"delegate": 10, "unbond": 10, "move": 10, "lockstake": 2, "lock": 6, "declare": 3, "candoff": 2, "candon": 2, "send": 2, "createcoin": 1}
		nb := 200 + r.Intn(500)
		where := fmt.Sprintf("vharness c16 -seed %d -n %d (history %d, seed %d)", seed, n, i, s)
		t := newC16T(nd, c, &mon, where, codes)
		for b := 0; b < nb && !t.dead; b++ {
			w.beginBlock()
			// transactions only in the first 150 blocks and only in even blocks, so that maturities are observed in empty blocks
			k := 0
			if b < 150 && b%2 == 0 {
				k = r.Intn(5)
			}
			var ev []int
			if b < 150 && r.Intn(60) == 0 {
				ev = []int{r.Intn(len(nd.Vals))}
			}
			next := func() *c16tx {
				if k <= 0 {
					return nil
				}
				k--
				g := w.Gen()
				if g == nil {
					return nil
				}
				x := &c16tx{A: g.Sender, Typ: g.Type, Data: g.Data, GP: uint32(1 + r.Intn(3)/2), Kind: g.Kind}
				if r.Intn(6) == 0 {
					x.Payload = make([]byte, r.Intn(40))
				}
				if ld, ok := x.Data.(transaction.LockData); ok && r.Intn(4) == 0 {
					ld.DueBlock = uint32(nd.Height + int64(r.Intn(3))) // the current block - 1, the current block, the next one
					x.Data = ld
				}
				return x
			}
			t.Block(next, ev, func(x *c16tx, tr TxResult) {
				w.Observe(&GenTx{Kind: x.Kind, Sender: x.A, Type: x.Typ, Data: x.Data}, tr)
			})
		}
		t.End("history")
		acc(t)
		nd.Cleanup()
		for k, v := range w.TypeDist {
			dist[k] += v
		}
	}
	c.Close()
	writeStats(stats, &Stats{Property: "C16", Seed: seed, Cases: c.NCases, Ops: c.NOps, NonTrivial: c.NonTriv,
		Rule: "scripted scenarios (move to a non-candidate incl. with a locked stake, unbond in the first block of a chain, unbond / move / delegate over waitlisted amounts, the LockStake boundary block, Lock due edges and many funds maturing in one block, byzantine evidence with moves and unbonds in flight, candidate removal with funds in flight, move target removed before maturity: regression of c9a3e76, followed until the coins are back in the owner's balance) and seeded histories of 200-700 blocks on testnet periods (unbond 531, move 177, lock-stake 34560): delegations, unbonds, moves (some towards non-candidates), stake locks (some from the genesis, ending inside the history), Lock txs (some with due = current-1/current/current+1), waitlisted amounts from the genesis, declarations, status switches, byzantine evidence in the first 150 blocks, then empty blocks until the funds matured. Every BeginBlock, every Unbond/MoveStake/LockStake/Lock/Delegate, every candidate removal and the touched frozen-fund lists are compared with Model/Schedule.v (model 20); the monitors check the schedule directly on in-flight state and exports. Non-trivial: at least one accepted schedule transaction, matured fund or removal; distinct by case text",
		Dist: dist, Samples: []string{fmt.Sprintf("histories=%d blocks=%d model_tx_ops=%d created_funds=%d matured_funds=%d moves_arrived=%d removed_candidates=%d evidence_blocks=%d bounced_moves=%d crashes=%d", n, tot.blocks, tot.txOps, tot.created, tot.matured, tot.movesArrived, tot.removed, tot.evidenceBlocks, tot.bounced, tot.crashes)}, Monitor: mon,
		Extra: map[string]interface{}{"blocks": tot.blocks, "matured_funds": tot.matured, "moves_arrived": tot.movesArrived, "created_funds": tot.created, "removed_candidates": tot.removed,
			"model_tx_ops": tot.txOps, "unmodelled_codes": tot.unmodelled, "crashes": tot.crashes, "codes": codes,
			"modelled_tx_types": "Unbond(V3) MoveStake LockStake Lock Delegate(V260, verdict of IsDelegatorStakeAllowed as input); gas coin: base"}})
}
