package main

import (
	"fmt"
	"math/big"
	"os"

	"github.com/MinterTeam/minter-go-node/coreV2/transaction"
	"github.com/MinterTeam/minter-go-node/coreV2/types"
)

func init() { commands["c16"] = runC16 }

type fundKey struct {
	H     uint64
	Addr  types.Address
	Cand  uint64
	Coin  uint64
	Value string
	Move  uint64
}

func fundsOf(st *types.AppState) map[fundKey]int {
	m := map[fundKey]int{}
	for _, f := range st.FrozenFunds {
		m[fundKey{f.Height, f.Address, f.CandidateID, f.Coin, f.Value, f.MoveToCandidateID}]++
	}
	return m
}

// c16Monitor checks the schedule properties on two consecutive exports.
// lockDue: due blocks of Lock transactions accepted in this block (by address/coin/value).
func c16Monitor(h uint64, prev, cur *types.AppState, lockDue map[uint64]bool, evidence bool, noTxs bool, mon *[]MonitorFailure, where string) {
	unbond, move := types.GetUnbondPeriod(), types.GetMovePeriod()
	pf, cf := fundsOf(prev), fundsOf(cur)
	cands := map[uint64]bool{}
	for _, c := range cur.Candidates {
		cands[c.ID] = true
	}
	for _, c := range prev.Candidates {
		cands[c.ID] = true
	}
	for k := range cf {
		if k.H <= h {
			*mon = append(*mon, MonitorFailure{What: fmt.Sprintf("C16: frozen fund due at %d still present after block %d (%+v)", k.H, h, k), Key: "c16-late", Replay: where})
		}
	}
	for k, n := range pf {
		if k.H > h && cf[k] < n && !evidence {
			*mon = append(*mon, MonitorFailure{What: fmt.Sprintf("C16: frozen fund due at %d disappeared at block %d before its due block (%+v)", k.H, h, k), Key: "c16-early", Replay: where})
		}
	}
	for k, n := range cf {
		if pf[k] >= n || evidence { // byzantine punishment rewrites the funds of the punished candidate
			continue
		}
		// a fund created in block h
		switch {
		case k.Move != 0:
			if k.H != h+move {
				*mon = append(*mon, MonitorFailure{What: fmt.Sprintf("C16: stake move created at block %d matures at %d, expected %d", h, k.H, h+move), Key: "c16-move-period", Replay: where})
			}
			if !cands[k.Move] {
				*mon = append(*mon, MonitorFailure{What: fmt.Sprintf("C16: stake move created at block %d towards candidate id %d which does not exist", h, k.Move), Key: "c16-move-target", Replay: where})
			}
		case k.Cand != 0:
			// unbond / candidate removal / byzantine unbonding: exactly one unbond period
			if k.H != h+unbond && !(evidence && k.H > h && k.H <= h+unbond) {
				if k.H == h+move {
					*mon = append(*mon, MonitorFailure{What: fmt.Sprintf("C16: coins leaving candidate %d at block %d return to the owner's balance after the move period (%d), not the unbond period: a move credited to the balance (%+v)", k.Cand, h, k.H, k), Key: "c16-move-to-balance", Replay: where})
				} else {
					*mon = append(*mon, MonitorFailure{What: fmt.Sprintf("C16: unbonding fund created at block %d matures at %d, expected %d (%+v)", h, k.H, h+unbond, k), Key: "c16-unbond-period", Replay: where})
				}
			}
		default:
			if !lockDue[k.H] {
				*mon = append(*mon, MonitorFailure{What: fmt.Sprintf("C16: locked fund created at block %d matures at %d, which no Lock transaction of this block asked for (%+v)", h, k.H, k), Key: "c16-lock-due", Replay: where})
			}
		}
	}
	// in a block without transactions, balances grow exactly by the matured balance-bound funds
	if noTxs && !evidence {
		due := map[string]*big.Int{}
		for k, n := range pf {
			if k.H == h && k.Move == 0 {
				key := fmt.Sprintf("%s/%d", k.Addr.String(), k.Coin)
				if due[key] == nil {
					due[key] = big.NewInt(0)
				}
				for i := 0; i < n; i++ {
					due[key].Add(due[key], bi(k.Value))
				}
			}
		}
		bal := func(st *types.AppState) map[string]*big.Int {
			m := map[string]*big.Int{}
			for _, a := range st.Accounts {
				for _, b := range a.Balance {
					m[fmt.Sprintf("%s/%d", a.Address.String(), b.Coin)] = bi(b.Value)
				}
			}
			return m
		}
		pb, cb := bal(prev), bal(cur)
		for key, v := range cb {
			old := pb[key]
			if old == nil {
				old = big.NewInt(0)
			}
			d := new(big.Int).Sub(v, old)
			want := due[key]
			if want == nil {
				want = big.NewInt(0)
			}
			// the zero address receives the burned part of the block reward every block
			if key[:42] == "Mx0000000000000000000000000000000000000000" {
				continue
			}
			if d.Cmp(want) != 0 {
				*mon = append(*mon, MonitorFailure{What: fmt.Sprintf("C16: balance %s changed by %s in an empty block %d, matured funds for it: %s", key, d, h, want), Key: "c16-maturity-amount", Replay: where})
			}
		}
	}
}

// checkUnlockTag: an accepted unbond/move announces its maturity block: exactly one period ahead.
func checkUnlockTag(mon *[]MonitorFailure, tr TxResult, h, period uint64, where string) {
	if tr.Code != 0 {
		return
	}
	if tr.Tags["tx.unlock_block_id"] != fmt.Sprint(h+period) {
		*mon = append(*mon, MonitorFailure{What: fmt.Sprintf("C16: transaction accepted in block %d announces unlock block %s, one period later is %d", h, tr.Tags["tx.unlock_block_id"], h+period), Key: "c16-first-block-height", Replay: where})
	}
}

func runC16(seed uint64, n int, out, stats string, _ []string) {
	var mon []MonitorFailure
	dist := map[string]int{}
	codes := map[string]int{}
	nontriv := 0
	blocks := 0
	matured := 0
	// scripted: move to a key that is not a candidate, with the stake locked
	func() {
		nd := nodeStd(4)
		defer nd.Cleanup()
		a := nd.Accts[0]
		unknown := mkVal(9001).Pub
		prev := nd.Export()
		r := nd.Block([][]byte{nd.MkTx(a, transaction.TypeMoveStake, transaction.MoveStakeData{FromPubKey: nd.Vals[0].Pub, ToPubKey: unknown, Coin: 0, Value: pip(5000)}, 0, 0, 1, nil)}, nil)
		cur := nd.Export()
		c16Monitor(uint64(nd.Height), &prev, &cur, map[uint64]bool{}, false, false, &mon, "scenario move-to-non-candidate")
		if len(r.Txs) == 1 && r.Txs[0].Code == 0 {
			mon = append(mon, MonitorFailure{What: "C16: MoveStake towards a public key that is not a candidate was accepted", Key: "c16-move-target", Replay: "scenario move-to-non-candidate"})
		}
		dist["scenario"]++
	}()
	// scripted: an unbond in the very first block of a chain must mature one unbond period later
	func() {
		nd := nodeStd(4)
		defer nd.Cleanup()
		prev := nd.Export()
		rr := nd.Block([][]byte{nd.MkTx(nd.Accts[0], transaction.TypeUnbond, transaction.UnbondDataV3{PubKey: nd.Vals[0].Pub, Coin: 0, Value: pip(100)}, 0, 0, 1, nil)}, nil)
		cur := nd.Export()
		if os.Getenv("VERIF_DEBUG") != "" {
			fmt.Fprintf(os.Stderr, "first block: height=%d funds=%+v res=%+v\n", nd.Height, cur.FrozenFunds, rr.Txs)
		}
		c16Monitor(uint64(nd.Height), &prev, &cur, map[uint64]bool{}, false, false, &mon, "scenario unbond-in-first-block")
		checkUnlockTag(&mon, rr.Txs[0], uint64(nd.Height), types.GetUnbondPeriod(), "scenario unbond-in-first-block")
		if len(cur.FrozenFunds) != 1 {
			mon = append(mon, MonitorFailure{What: fmt.Sprintf("C16: an accepted Unbond in the first block left %d frozen funds in the state export (unlock tag %s)", len(cur.FrozenFunds), rr.Txs[0].Tags["tx.unlock_block_id"]), Key: "c16-first-block-height", Replay: "scenario unbond-in-first-block"})
		}
		dist["scenario"]++
	}()
	for i := 0; i < n; i++ {
		s := seed*1000003 + uint64(i)
		r := NewRng(s)
		spec := stdSpec(r)
		nd := newNode(spec)
		w := newWorld(nd, r)
		w.Weights = map[string]int{"delegate": 10, "unbond": 10, "move": 10, "lockstake": 2, "lock": 6, "declare": 3, "candoff": 2, "candon": 2, "send": 2, "createcoin": 1}
		nb := 200 + r.Intn(500)
		prev := nd.Export()
		locked := map[types.Address]uint64{}
		where := fmt.Sprintf("vharness c16 -seed %d -n %d (history %d, seed %d)", seed, n, i, s)
		for b := 0; b < nb; b++ {
			w.beginBlock()
			var txs [][]byte
			var gens []*GenTx
			// transactions only in the first 150 blocks and only in even blocks, so that maturities are observed in empty blocks
			if b < 150 && b%2 == 0 {
				for k := r.Intn(5); k > 0; k-- {
					if g := w.Gen(); g != nil {
						txs = append(txs, g.Raw)
						gens = append(gens, g)
					}
				}
			}
			opts := BlockOpts{}
			ev := false
			if b < 150 && r.Intn(60) == 0 {
				opts.Evidence = []int{r.Intn(len(nd.Vals))}
				ev = true
			}
			br := nd.Block(txs, &opts)
			if br.Panic != "" {
				mon = append(mon, MonitorFailure{What: "panic: " + br.Panic, Key: "c07-panic", Replay: where})
				break
			}
			lockDue := map[uint64]bool{}
			for j, tr := range br.Txs {
				if j >= len(gens) {
					break
				}
				w.Observe(gens[j], tr)
				codes[fmt.Sprintf("%s:%d", gens[j].Kind, tr.Code)]++
				if tr.Code == 0 {
					switch d := gens[j].Data.(type) {
					case transaction.LockData:
						lockDue[uint64(d.DueBlock)] = true
					case transaction.LockStakeData:
						locked[gens[j].Sender.Addr] = uint64(nd.Height)
					case transaction.MoveStakeData:
						checkUnlockTag(&mon, tr, uint64(nd.Height), types.GetMovePeriod(), where)
					case transaction.UnbondDataV3:
						checkUnlockTag(&mon, tr, uint64(nd.Height), types.GetUnbondPeriod(), where)
						if _, ok := locked[gens[j].Sender.Addr]; ok {
							until := nd.App.CurrentState().Accounts().GetLockStakeUntilBlock(gens[j].Sender.Addr)
							if until > uint64(nd.Height) {
								mon = append(mon, MonitorFailure{What: fmt.Sprintf("C16: Unbond accepted at block %d while the sender's stake is locked until %d", nd.Height, until), Key: "c16-locked-unbond", Replay: where})
							}
						}
					}
				}
			}
			cur := nd.Export()
			for _, f := range prev.FrozenFunds {
				if f.Height == uint64(nd.Height) {
					matured++
				}
			}
			c16Monitor(uint64(nd.Height), &prev, &cur, lockDue, ev, len(txs) == 0, &mon, where)
			prev = cur
			blocks++
		}
		nd.Cleanup()
		for k, v := range w.TypeDist {
			dist[k] += v
		}
		nontriv++
	}
	writeStats(stats, &Stats{Property: "C16", Seed: seed, Cases: n + 1, Ops: blocks, NonTrivial: nontriv + 1,
		Rule: "scripted move-to-non-candidate scenario; seeded histories of 200-700 blocks on testnet periods (unbond 531, move 177): delegations, unbonds, moves (some towards non-candidates), stake locks, Lock txs, declarations, status switches, byzantine evidence in the first 150 blocks, then empty blocks until every fund matured; after every block the frozen-fund schedule and (in empty blocks) the exact balance credits are checked on the node's exports; distinct by seed",
		Dist: dist, Samples: []string{fmt.Sprintf("histories=%d blocks=%d matured_funds=%d", n, blocks, matured)}, Monitor: mon,
		Extra: map[string]interface{}{"blocks": blocks, "matured_funds": matured, "codes": codes}})
	NewCases(out).Close()
}
