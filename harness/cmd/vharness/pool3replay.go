package main

import (
	"bufio"
	"fmt"
	"math/big"
	"os"
	"strings"
)

func init() { commands["pool3replay"] = runPool3Replay }

func readOps(path string) [][]*big.Int {
	f, err := os.Open(path)
	if err != nil {
		panic(err)
	}
	defer f.Close()
	var ops [][]*big.Int
	sc := bufio.NewScanner(f)
	sc.Buffer(make([]byte, 1<<20), 1<<24)
	for sc.Scan() {
		line := sc.Text()
		if !strings.HasPrefix(line, ">") {
			continue
		}
		var op []*big.Int
		for _, x := range strings.Fields(line[1:]) {
			op = append(op, ZS(x))
		}
		ops = append(ops, op)
	}
	return ops
}

// runPool3Replay executes the '>' lines of a pool3 case against a real pair and prints
// each operation with its output (and the monitor verdicts at the end).
func runPool3Replay(seed uint64, n int, out, stats string, args []string) {
	p := newPool3()
	for _, op := range readOps(args[0]) {
		res := p.exec(op)
		fmt.Printf("> %s\n< %s\n", ints(op), ints(res))
	}
	for _, m := range p.mon {
		fmt.Println("MONITOR:", m.Key, m.What)
	}
}
