//go:build race

package main

// raceEnabled: this binary was built with -race (the C25 check builds it so).
const raceEnabled = true
