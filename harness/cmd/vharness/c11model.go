package main

// c11model.go — the correspondence operation of C11 (dispatch model 18, Model/GenesisRun.v): the first
// export of the real node, projected to the sections the Coq model has, goes in; the model's verdict of
// Verify and the model's export of the imported state come out and are compared with what the real
// node did (Verify() of the export, the export right after InitChain).

import (
	"math/big"
	"sort"

	"github.com/MinterTeam/minter-go-node/coreV2/types"
)

const c11Model = 18

func c11Bytes(b []byte) *big.Int { return new(big.Int).SetBytes(b) }

func c11EncStakes(l []types.Stake) []*big.Int {
	out := []*big.Int{Z(int64(len(l)))}
	for _, s := range l {
		out = append(out, c11Bytes(s.Owner[:]), new(big.Int).SetUint64(s.Coin), bi(s.Value), bi(s.BipValue))
	}
	return out
}

// c11Modelable: the parts of Import the model leaves out do not come into play
func c11Modelable(st *types.AppState) bool {
	if len(st.Candidates) >= 100 { // RecalculateStakesV2 removes candidates ranked beyond 100
		return false
	}
	for _, c := range st.Candidates {
		if len(c.Stakes) > 1000 {
			return false
		}
	}
	return true
}

func c11HasOrders(st *types.AppState) bool {
	for _, p := range st.Pools {
		if len(p.Orders) > 0 {
			return true
		}
	}
	return false
}

// c11EncState: APPSTATE of Model/GenesisRun.v; sortWait: the waitlist in the fixed order of the model's output
func c11EncState(st *types.AppState, sortWait bool) []*big.Int {
	var out []*big.Int
	u := func(x uint64) *big.Int { return new(big.Int).SetUint64(x) }
	out = append(out, Z(int64(len(st.Validators))))
	for _, v := range st.Validators {
		out = append(out, c11Bytes(v.PubKey[:]), bi(v.TotalBipStake), bi(v.AccumReward))
	}
	cands := append([]types.Candidate{}, st.Candidates...)
	sort.Slice(cands, func(i, j int) bool { return cands[i].ID < cands[j].ID })
	out = append(out, Z(int64(len(cands))))
	for _, c := range cands {
		out = append(out, u(c.ID), c11Bytes(c.PubKey[:]), c11Bytes(c.OwnerAddress[:]), u(c.Status), bi(c.TotalBipStake))
		out = append(out, c11EncStakes(c.Stakes)...)
		out = append(out, c11EncStakes(c.Updates)...)
	}
	out = append(out, Z(int64(len(st.DeletedCandidates))))
	for _, d := range st.DeletedCandidates {
		out = append(out, u(d.ID), c11Bytes(d.PubKey[:]))
	}
	wl := append([]types.Waitlist{}, st.Waitlist...)
	if sortWait {
		sort.SliceStable(wl, func(i, j int) bool {
			if c := c11Bytes(wl[i].Owner[:]).Cmp(c11Bytes(wl[j].Owner[:])); c != 0 {
				return c > 0
			}
			if wl[i].CandidateID != wl[j].CandidateID {
				return wl[i].CandidateID < wl[j].CandidateID
			}
			return wl[i].Coin < wl[j].Coin
		})
	}
	out = append(out, Z(int64(len(wl))))
	for _, w := range wl {
		out = append(out, c11Bytes(w.Owner[:]), u(w.CandidateID), u(w.Coin), bi(w.Value))
	}
	pools := append([]types.Pool{}, st.Pools...)
	sort.Slice(pools, func(i, j int) bool {
		if pools[i].Coin0 != pools[j].Coin0 {
			return pools[i].Coin0 < pools[j].Coin0
		}
		return pools[i].Coin1 < pools[j].Coin1
	})
	out = append(out, Z(int64(len(pools))))
	for _, p := range pools {
		out = append(out, u(p.Coin0), u(p.Coin1), bi(p.Reserve0), bi(p.Reserve1), u(p.ID))
	}
	out = append(out, Z(int64(len(st.Accounts))))
	for _, a := range st.Accounts {
		out = append(out, c11Bytes(a.Address[:]), Z(int64(len(a.Balance))))
		for _, b := range a.Balance {
			out = append(out, u(b.Coin), bi(b.Value))
		}
		out = append(out, u(a.Nonce))
		if a.MultisigData == nil {
			out = append(out, Z(0))
		} else {
			out = append(out, Z(1), u(a.MultisigData.Threshold), Z(int64(len(a.MultisigData.Addresses))))
			for i, ad := range a.MultisigData.Addresses {
				out = append(out, c11Bytes(ad[:]), u(a.MultisigData.Weights[i]))
			}
		}
	}
	out = append(out, Z(int64(len(st.Coins))))
	for _, c := range st.Coins {
		out = append(out, u(c.ID), c11Bytes(c.Symbol[:]), u(c.Version), bi(c.Volume), u(c.Crr), bi(c.Reserve), bi(c.MaxSupply))
		if c.OwnerAddress == nil {
			out = append(out, Z(0))
		} else {
			out = append(out, Z(1), c11Bytes(c.OwnerAddress[:]))
		}
		out = append(out, b2z(c.Mintable), b2z(c.Burnable))
	}
	out = append(out, Z(int64(len(st.FrozenFunds))))
	for _, f := range st.FrozenFunds {
		out = append(out, u(f.Height), c11Bytes(f.Address[:]), u(f.Coin), bi(f.Value))
	}
	out = append(out, Z(int64(len(st.HaltBlocks))))
	for _, h := range st.HaltBlocks {
		out = append(out, u(h.Height), c11Bytes(h.CandidateKey[:]))
	}
	c := st.Commission
	for _, s := range []string{c.PayloadByte, c.Send, c.MultisendBase, c.MultisendDelta, c.CreateTicker3, c.CreateTicker4, c.CreateTicker5,
		c.CreateTicker6, c.CreateTicker7_10, c.CreateToken, c.RecreateToken, c.MintToken, c.BurnToken, c.Lock, c.RedeemCheck,
		c.CreateMultisig, c.EditTickerOwner, c.FailedTx} {
		out = append(out, bi(s))
	}
	// the coin the table is denominated in and the reserves (price coin, base coin) of its pool with the base coin
	prc, prb := Z(0), Z(0)
	for _, p := range st.Pools {
		if c.Coin != 0 && p.Coin0 == 0 && p.Coin1 == c.Coin {
			prc, prb = bi(p.Reserve1), bi(p.Reserve0)
		}
		if c.Coin != 0 && p.Coin1 == 0 && p.Coin0 == c.Coin {
			prc, prb = bi(p.Reserve0), bi(p.Reserve1)
		}
	}
	out = append(out, u(c.Coin), prc, prb)
	out = append(out, Z(int64(len(st.UsedChecks))))
	for _, h := range st.UsedChecks {
		x, _ := new(big.Int).SetString(string(h), 16)
		out = append(out, x)
	}
	out = append(out, u(st.MaxGas), bi(st.TotalSlashed), bi(st.PrevReward.Reward))
	return out
}

// c11Case writes the correspondence case of one fork.
func c11Case(c *Cases, g, g2 *c11Genesis, kind string) {
	if c == nil || !c11Modelable(&g.State) {
		return
	}
	base := types.GetBaseCoin()
	rates := c17Rates(&g.State, genesisSlots)
	in := []*big.Int{Z(1), Z(g.Height), c11Bytes(base[:]), Z(int64(len(rates) / 3))}
	in = append(in, rates...)
	in = append(in, c11EncState(&g.State, false)...)
	v := b2z(g.VerifyErr == nil)
	if c11HasOrders(&g.State) {
		v = Z(-999) // Verify adds the escrow of limit orders to the coin volumes; orders are not in the model
	}
	out := append([]*big.Int{v, Z(0)}, c11EncState(&g2.State, true)...)
	c.Begin(c11Model)
	c.Op(in, out)
	nt := false
	for _, cd := range g.State.Candidates {
		if len(cd.Updates) > 0 {
			nt = true
		}
	}
	c.End(nt || len(g.State.Coins) > 0, kind)
}

// c11Mutations: corrupted copies of an export, one rule of AppState.Verify each; the real Verify() and the
// model's verify must agree on every one of them (operation 2).
func c11Mutations(c *Cases, st *types.AppState, r *Rng) {
	if c == nil || c11HasOrders(st) || !c11Modelable(st) {
		return
	}
	clone := func() *types.AppState {
		x := *st
		x.Validators = append([]types.Validator{}, st.Validators...)
		x.Candidates = append([]types.Candidate{}, st.Candidates...)
		for i := range x.Candidates {
			x.Candidates[i].Stakes = append([]types.Stake{}, st.Candidates[i].Stakes...)
			x.Candidates[i].Updates = append([]types.Stake{}, st.Candidates[i].Updates...)
		}
		x.Accounts = append([]types.Account{}, st.Accounts...)
		for i := range x.Accounts {
			x.Accounts[i].Balance = append([]types.Balance{}, st.Accounts[i].Balance...)
		}
		x.Coins = append([]types.Coin{}, st.Coins...)
		x.Waitlist = append([]types.Waitlist{}, st.Waitlist...)
		x.FrozenFunds = append([]types.FrozenFund{}, st.FrozenFunds...)
		x.Pools = append([]types.Pool{}, st.Pools...)
		return &x
	}
	type mut struct {
		name string
		f    func(x *types.AppState) bool
	}
	muts := []mut{
		{"none", func(x *types.AppState) bool { return true }},
		{"dup-validator", func(x *types.AppState) bool { x.Validators = append(x.Validators, x.Validators[0]); return true }},
		{"no-validators", func(x *types.AppState) bool { x.Validators = nil; return true }},
		{"validator-without-candidate", func(x *types.AppState) bool {
			pk := x.Validators[0].PubKey
			var l []types.Candidate
			for _, cd := range x.Candidates {
				if cd.PubKey != pk {
					l = append(l, cd)
				}
			}
			x.Candidates = l
			return true
		}},
		{"dup-account", func(x *types.AppState) bool {
			x.Accounts = append(x.Accounts, x.Accounts[r.Intn(len(x.Accounts))])
			return true
		}},
		{"unknown-balance-coin", func(x *types.AppState) bool {
			i := r.Intn(len(x.Accounts))
			x.Accounts[i].Balance = append(x.Accounts[i].Balance, types.Balance{Coin: 987654, Value: "1"})
			return true
		}},
		{"dup-stake", func(x *types.AppState) bool {
			i := r.Intn(len(x.Candidates))
			if len(x.Candidates[i].Stakes) == 0 {
				return false
			}
			x.Candidates[i].Stakes = append(x.Candidates[i].Stakes, x.Candidates[i].Stakes[0])
			return true
		}},
		{"unknown-stake-coin", func(x *types.AppState) bool {
			i := r.Intn(len(x.Candidates))
			x.Candidates[i].Stakes = append(x.Candidates[i].Stakes, types.Stake{Owner: types.Address{9}, Coin: 987654, Value: "1", BipValue: "1"})
			return true
		}},
		{"unknown-update-coin", func(x *types.AppState) bool { // updates are not checked
			i := r.Intn(len(x.Candidates))
			x.Candidates[i].Updates = append(x.Candidates[i].Updates, types.Stake{Owner: types.Address{9}, Coin: 987654, Value: "1", BipValue: "1"})
			return true
		}},
		{"base-symbol-declared", func(x *types.AppState) bool {
			if len(x.Coins) == 0 {
				return false
			}
			x.Coins[r.Intn(len(x.Coins))].Symbol = types.GetBaseCoin()
			return true
		}},
		{"dup-coin", func(x *types.AppState) bool {
			if len(x.Coins) == 0 {
				return false
			}
			x.Coins = append(x.Coins, x.Coins[r.Intn(len(x.Coins))])
			return true
		}},
		{"coin-volume+1", func(x *types.AppState) bool {
			if len(x.Coins) == 0 {
				return false
			}
			i := r.Intn(len(x.Coins))
			x.Coins[i].Volume = new(big.Int).Add(bi(x.Coins[i].Volume), Z(1)).String()
			return true
		}},
		{"balance+1", func(x *types.AppState) bool {
			i := r.Intn(len(x.Accounts))
			if len(x.Accounts[i].Balance) == 0 {
				return false
			}
			k := r.Intn(len(x.Accounts[i].Balance))
			x.Accounts[i].Balance[k].Value = new(big.Int).Add(bi(x.Accounts[i].Balance[k].Value), Z(1)).String()
			return true
		}},
		{"frozen+1", func(x *types.AppState) bool {
			if len(x.FrozenFunds) == 0 {
				return false
			}
			i := r.Intn(len(x.FrozenFunds))
			x.FrozenFunds[i].Value = new(big.Int).Add(bi(x.FrozenFunds[i].Value), Z(1)).String()
			return true
		}},
		{"unknown-frozen-coin", func(x *types.AppState) bool {
			x.FrozenFunds = append(x.FrozenFunds, types.FrozenFund{Height: 99999999, Address: types.Address{9}, Coin: 987654, Value: "1"})
			return true
		}},
		{"unknown-waitlist-coin", func(x *types.AppState) bool {
			x.Waitlist = append(x.Waitlist, types.Waitlist{CandidateID: 1, Owner: types.Address{9}, Coin: 987654, Value: "1"})
			return true
		}},
		{"waitlist+1", func(x *types.AppState) bool {
			if len(x.Waitlist) == 0 {
				return false
			}
			i := r.Intn(len(x.Waitlist))
			x.Waitlist[i].Value = new(big.Int).Add(bi(x.Waitlist[i].Value), Z(1)).String()
			return true
		}},
		{"stake+1", func(x *types.AppState) bool {
			i := r.Intn(len(x.Candidates))
			if len(x.Candidates[i].Stakes) == 0 {
				return false
			}
			k := r.Intn(len(x.Candidates[i].Stakes))
			x.Candidates[i].Stakes[k].Value = new(big.Int).Add(bi(x.Candidates[i].Stakes[k].Value), Z(1)).String()
			return true
		}},
		{"pool-reserve+1", func(x *types.AppState) bool {
			if len(x.Pools) == 0 {
				return false
			}
			i := r.Intn(len(x.Pools))
			x.Pools[i].Reserve1 = new(big.Int).Add(bi(x.Pools[i].Reserve1), Z(1)).String()
			return true
		}},
	}
	base := types.GetBaseCoin()
	c.Begin(c11Model)
	for _, m := range muts {
		x := clone()
		if !m.f(x) {
			continue
		}
		ok := x.Verify() == nil
		in := append([]*big.Int{Z(2), c11Bytes(base[:])}, c11EncState(x, false)...)
		c.Op(in, L(b2z(ok)))
		c.Dist["verify:"+m.name+":"+map[bool]string{true: "accepted", false: "rejected"}[ok]]++
	}
	c.End(true, "verify-mutations")
}
