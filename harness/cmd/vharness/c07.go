package main

import (
	"strconv"
	"fmt"
	"math/big"
	"strings"

	"github.com/MinterTeam/minter-go-node/coreV2/transaction"
	"github.com/MinterTeam/minter-go-node/coreV2/types"
)

func init() { commands["c07"] = runC07 }

// panicKey identifies a crash by the first repository frame of its stack.
func panicKey(stack string) string {
	f := strings.Split(stack, " <- ")[0]
	return "c07-panic:" + f
}

type scenario struct {
	Name string
	Run  func() *Node
}

func nodeStd(nvals int) *Node {
	return newNode(&GenesisSpec{NAccounts: 6, Balance: pip(100000000), NVals: nvals})
}

// deliverOne executes a block with the given txs and returns the results.
func codes(r *BlockResult) []uint32 {
	var c []uint32
	for _, t := range r.Txs {
		c = append(c, t.Code)
	}
	return c
}

var scenarios = []scenario{
	{"unbond-zero-value-without-stake", func() *Node {
		n := nodeStd(4)
		n.Block([][]byte{n.MkTx(n.Accts[5], transaction.TypeUnbond, transaction.UnbondDataV3{PubKey: n.Vals[0].Pub, Coin: 0, Value: big.NewInt(0)}, 0, 0, 1, nil)}, nil)
		n.Block(nil, nil)
		return n
	}},
	{"move-stake-zero-value-without-stake", func() *Node {
		n := nodeStd(4)
		n.Block([][]byte{n.MkTx(n.Accts[5], transaction.TypeMoveStake, transaction.MoveStakeData{FromPubKey: n.Vals[0].Pub, ToPubKey: n.Vals[1].Pub, Coin: 0, Value: big.NewInt(0)}, 0, 0, 1, nil)}, nil)
		n.Block(nil, nil)
		return n
	}},
	{"delegate-zero-bip-value-to-candidate-without-stake", func() *Node {
		n := nodeStd(4)
		a := n.Accts[0]
		r := n.Block([][]byte{n.MkTx(a, transaction.TypeCreateCoin, transaction.CreateCoinData{Name: "c", Symbol: types.StrToCoinSymbol("ZEROBIP"), InitialAmount: pip(1000000), InitialReserve: pip(10000), ConstantReserveRatio: 50, MaxSupply: pip(100000000)}, 0, 0, 1, nil)}, nil)
		if len(r.Txs) != 1 || r.Txs[0].Code != 0 {
			panic(fmt.Sprint("setup failed ", codes(r)))
		}
		coin := types.CoinID(n.App.CurrentState().App().GetCoinsCount())
		v := mkVal(500)
		n.Block([][]byte{n.MkTx(a, transaction.TypeDeclareCandidacy, transaction.DeclareCandidacyData{Address: a.Addr, PubKey: v.Pub, Commission: 10, Coin: 0, Stake: pip(2000)}, 0, 0, 1, nil)}, nil)
		n.Block([][]byte{n.MkTx(a, transaction.TypeDelegate, transaction.DelegateDataV260{PubKey: v.Pub, Coin: coin, Value: big.NewInt(1)}, 0, 0, 1, nil)}, nil)
		n.Block(nil, nil)
		return n
	}},
	{"byzantine-evidence-at-payout-block", func() *Node {
		n := nodeStd(4)
		for (n.Height+1)%stakePeriod != 0 {
			n.Block(nil, nil)
		}
		n.Block(nil, &BlockOpts{Evidence: []int{1}})
		n.Block(nil, nil)
		return n
	}},
	{"validator-changes-public-key-in-payout-block", func() *Node {
		n := nodeStd(4)
		for (n.Height+1)%stakePeriod != 0 {
			n.Block(nil, nil)
		}
		n.Block([][]byte{n.MkTx(n.Accts[1], transaction.TypeEditCandidatePublicKey, transaction.EditCandidatePublicKeyData{PubKey: n.Vals[1].Pub, NewPubKey: mkVal(4242).Pub}, 0, 0, 1, nil)}, nil)
		n.Block(nil, nil)
		n.Block(nil, nil)
		return n
	}},
	// a transaction whose own commission swap runs through the pool of the limit order it is about:
	// the commission fills the order (wholly / partly) before Run gets to it
	{"commission-swap-through-the-orders-own-pool", func() *Node {
		n := nodeStd(4)
		a := n.Accts[0]
		for v, poolSize := range []int64{10, 10, 10000} {
			sym := types.StrToCoinSymbol(fmt.Sprintf("ORDTOKEN%d", v))
			r := n.Block([][]byte{n.MkTx(a, transaction.TypeCreateToken, transaction.CreateTokenData{Name: "t", Symbol: sym, InitialAmount: pip(1000000), MaxSupply: pip(2000000), Mintable: true, Burnable: true}, 0, 0, 1, nil)}, nil)
			if len(r.Txs) != 1 || r.Txs[0].Code != 0 {
				panic(fmt.Sprint("setup failed ", codes(r)))
			}
			tok := types.CoinID(n.App.CurrentState().App().GetCoinsCount())
			n.Block([][]byte{n.MkTx(a, transaction.TypeCreateSwapPool, transaction.CreateSwapPoolData{Coin0: 0, Coin1: tok, Volume0: pip(poolSize), Volume1: pip(poolSize)}, 0, 0, 1, nil)}, nil)
			// sell 0.01 BIP for 0.0101 token (v=0), a larger order that the commission fills only partly (v=1)
			sell, buy := ZS("10000000000000000"), ZS("10100000000000000")
			if v == 1 {
				sell, buy = pip(2), new(big.Int).Add(pip(2), ZS("20000000000000000"))
			}
			r = n.Block([][]byte{n.MkTx(a, transaction.TypeAddLimitOrder, transaction.AddLimitOrderData{CoinToSell: 0, ValueToSell: sell, CoinToBuy: tok, ValueToBuy: buy}, 0, 0, 1, nil)}, nil)
			id := uint32(0)
			if len(r.Txs) == 1 && r.Txs[0].Code == 0 {
				x, _ := strconv.Atoi(r.Txs[0].Tags["tx.order_id"])
				id = uint32(x)
			}
			n.Block([][]byte{n.MkTx(a, transaction.TypeRemoveLimitOrder, transaction.RemoveLimitOrderData{ID: id}, tok, 0, 1, nil)}, nil)
			n.Block([][]byte{n.MkTx(a, transaction.TypeRemoveLimitOrder, transaction.RemoveLimitOrderData{ID: id}, tok, 0, 1, nil)}, nil)
			// a second order, then an AddLimitOrder / a Send paid through the same pool
			n.Block([][]byte{n.MkTx(a, transaction.TypeAddLimitOrder, transaction.AddLimitOrderData{CoinToSell: 0, ValueToSell: sell, CoinToBuy: tok, ValueToBuy: buy}, 0, 0, 1, nil)}, nil)
			n.Block([][]byte{n.MkTx(a, transaction.TypeAddLimitOrder, transaction.AddLimitOrderData{CoinToSell: 0, ValueToSell: sell, CoinToBuy: tok, ValueToBuy: buy}, tok, 0, 1, nil)}, nil)
			n.Block([][]byte{n.MkTx(a, transaction.TypeSend, transaction.SendData{Coin: tok, To: n.Accts[1].Addr, Value: pip(1)}, tok, 0, 1, nil)}, nil)
			n.Block(nil, nil)
		}
		return n
	}},
	// the only stake anywhere in a custom coin drops to zero in a block whose EndBlock recalculates stakes:
	// by byzantine evidence against its validator, and by a full unbond in a period block
	{"sole-custom-coin-stake-zeroed-in-recalculation-block", func() *Node {
		n := nodeStd(4)
		a := n.Accts[0]
		for v := 0; v < 2; v++ {
			r := n.Block([][]byte{n.MkTx(a, transaction.TypeCreateCoin, transaction.CreateCoinData{Name: "c", Symbol: types.StrToCoinSymbol(fmt.Sprintf("SOLECOIN%d", v)), InitialAmount: pip(100000),
				InitialReserve: pip(20000), ConstantReserveRatio: 50, MaxSupply: pip(1000000)}, 0, 0, 1, nil)}, nil)
			if len(r.Txs) != 1 || r.Txs[0].Code != 0 {
				panic(fmt.Sprint("setup failed ", codes(r)))
			}
			coin := types.CoinID(n.App.CurrentState().App().GetCoinsCount())
			n.Block([][]byte{n.MkTx(a, transaction.TypeDelegate, transaction.DelegateDataV260{PubKey: n.Vals[1+v].Pub, Coin: coin, Value: pip(1000)}, 0, 0, 1, nil)}, nil)
			for (n.Height+1)%stakePeriod != 0 {
				n.Block(nil, nil)
			}
			n.Block(nil, nil) // the delegation is applied at this recalculation
			if v == 0 {
				n.Block(nil, nil)
				n.Block(nil, &BlockOpts{Evidence: []int{1}})
			} else {
				for (n.Height+1)%stakePeriod != 0 {
					n.Block(nil, nil)
				}
				n.Block([][]byte{n.MkTx(a, transaction.TypeUnbond, transaction.UnbondDataV3{PubKey: n.Vals[2].Pub, Coin: coin, Value: pip(1000)}, 0, 0, 1, nil)}, nil)
			}
			n.Block(nil, nil)
			n.Block(nil, nil)
		}
		return n
	}},
	{"failed-tx-fee-from-dust-balance-through-pool", func() *Node {
		n := nodeStd(4)
		a, b := n.Accts[0], n.Accts[1]
		// token + pool token/base, then b holds 1 pip of the token and sends a failing tx paying gas in it
		r := n.Block([][]byte{n.MkTx(a, transaction.TypeCreateToken, transaction.CreateTokenData{Name: "t", Symbol: types.StrToCoinSymbol("DUSTTOKEN"), InitialAmount: pip(1000000), MaxSupply: pip(2000000), Mintable: true, Burnable: true}, 0, 0, 1, nil)}, nil)
		if len(r.Txs) != 1 || r.Txs[0].Code != 0 {
			panic(fmt.Sprint("setup failed ", codes(r)))
		}
		tok := types.CoinID(n.App.CurrentState().App().GetCoinsCount())
		n.Block([][]byte{n.MkTx(a, transaction.TypeCreateSwapPool, transaction.CreateSwapPoolData{Coin0: 0, Coin1: tok, Volume0: pip(10000), Volume1: pip(10000)}, 0, 0, 1, nil)}, nil)
		n.Block([][]byte{n.MkTx(a, transaction.TypeSend, transaction.SendData{Coin: tok, To: b.Addr, Value: big.NewInt(1)}, 0, 0, 1, nil)}, nil)
		// b: send more base coin than it has, gas coin = token (balance 1 pip)
		n.Block([][]byte{n.MkTx(b, transaction.TypeSend, transaction.SendData{Coin: 0, To: a.Addr, Value: new(big.Int).Mul(pip(100000000), big.NewInt(10))}, tok, 0, 1, nil)}, nil)
		n.Block(nil, nil)
		return n
	}},
}

// runC07: (1) scripted crash scenarios kept from earlier findings, (2) generated histories
// with the malformed stream, evidence and absences, (3) byte-level fuzz into DeliverTx and
// check-mode RunTx.  Every ABCI call runs under recover(); a recovered panic is the failure.
func runC07(seed uint64, n int, out, stats string, _ []string) {
	var mon []MonitorFailure
	dist := map[string]int{}
	seen := map[string]bool{}
	report := func(where string, node *Node) {
		for i, p := range node.Panics {
			st := ""
			if i < len(node.Stacks) {
				st = node.Stacks[i]
			}
			k := panicKey(st)
			dist[k]++
			if seen[k] {
				continue
			}
			seen[k] = true
			mon = append(mon, MonitorFailure{What: "C07: node panicked: " + p + " STACK " + st, Key: k, Replay: where})
		}
	}
	for _, sc := range scenarios {
		func() {
			defer func() {
				if r := recover(); r != nil {
					mon = append(mon, MonitorFailure{What: fmt.Sprintf("C07: scenario %s: harness-level panic %v", sc.Name, r), Key: "c07-scenario-setup", Replay: sc.Name})
				}
			}()
			node := sc.Run()
			report("scenario "+sc.Name, node)
			node.Cleanup()
		}()
		dist["scenario"]++
	}
	blocks, txs, fuzz := 0, 0, 0
	nontriv := 0
	for i := 0; i < n; i++ {
		s := seed*1000003 + uint64(i)
		r := NewRng(s)
		spec := stdSpec(r)
		g := &genOpts{Blocks: 30 + r.Intn(90), TxPerBlock: 6, Absences: true, Evidence: true, Malformed: true, OddChecks: true, TimeWalk: r.Intn(2) == 0}
		h, res, _ := genHistory(s, spec, g)
		blocks += len(h.Blocks)
		for _, b := range res.Results {
			txs += len(b)
		}
		for _, p := range res.Panics {
			st := ""
			if j := strings.Index(p, " STACK "); j >= 0 {
				st = p[j+7:]
			}
			k := panicKey(st)
			dist[k]++
			if !seen[k] {
				seen[k] = true
				mon = append(mon, MonitorFailure{What: "C07: node panicked: " + p, Key: k, Replay: fmt.Sprintf("vharness c07 -seed %d -n %d (history %d, seed %d)", seed, n, i, s)})
			}
		}
		if len(h.Blocks) > 0 {
			nontriv++
		}
	}
	// byte-level fuzz against one node
	node := nodeStd(3)
	w := newWorld(node, NewRng(seed^0x5eed))
	w.OddChecks = true
	for i := 0; i < n*200; i++ {
		gt := w.Gen()
		if gt == nil {
			continue
		}
		raw := w.Malformed(gt.Raw)
		fuzz++
		node.guard("DeliverTx(fuzz)", func() { node.App.DeliverTx(abciDeliver(raw)) })
		node.guard("CheckTx(fuzz)", func() {
			transaction.NewExecutorV3(transaction.GetDataV3).RunTx(node.App.CurrentState(), raw, nil, uint64(node.Height+1), newSyncMap(), 0, false)
		})
		w.beginBlock()
	}
	report("byte-level fuzz", node)
	node.Cleanup()
	writeStats(stats, &Stats{Property: "C07", Seed: seed, Cases: n + len(scenarios), Ops: txs + fuzz, NonTrivial: nontriv + len(scenarios),
		Rule: "scripted crash scenarios from earlier findings; seeded histories (30-120 blocks, structured + malformed transactions, a quarter of the redeemed checks validly signed but with a 62/66/73-byte lock or a nonce around the 16-byte limit, absences, byzantine evidence in every history, block-time walk); byte-level fuzz (truncated / bit-flipped / random / trailing bytes / length-mutated / deeply nested RLP) into DeliverTx and check-mode RunTx; every ABCI call under recover(); distinct by seed",
		Dist: dist, Samples: []string{fmt.Sprintf("histories=%d blocks=%d txs=%d fuzz_inputs=%d", n, blocks, txs, fuzz)}, Monitor: mon,
		Extra: map[string]interface{}{"blocks": blocks, "txs": txs, "fuzz_inputs": fuzz}})
	NewCases(out).Close()
}
