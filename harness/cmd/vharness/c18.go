package main

// c18.go — C18 "misbehaviour is punished exactly and only once" on the real in-process node.
//
// Every block's votes, SetCandidateOnline attempts and byzantine evidence are turned into
// operations of model 14 (coq/Model/Punish.v) with the outputs observed on the node (exports
// before/after the block, events), and the property text is evaluated directly on the same
// observations by monitors that do not use the model (keys "c18-...").
//
// Operations (see run_punish_op):
//   [1; chain; h0; j0; runs; (signed, grace, count)*] -> [dropped; candidate offline; JailedUntil; absent count; window bits]
//        one validator's votes since it joined the set at h0 (run-length encoded); observed from the export
//        after the block: removed from the validator list, candidate status/JailedUntil, AbsentTimes
//   [2; JailedUntil; h] -> [accepted]        a SetCandidateOnline delivered in block h (code 0 / 414)
//   [3; h; unbond; cid; n; (coin, value, ret)*] -> per stake [fund due; fund value; slashed; value left]
//   [4; h; unbond; cid; n; (due, cand, coin, value, ret)*] -> new fund values (-999: released in this block)
//   [6; h; unbond; known; cid; status; listed; k; nf; funds*; ns; stakes*] -> the whole byzantine loop for one
//        address with k pieces of evidence: status, (toDrop: not observable), total-slashed delta without the
//        reward remainder, stake values, all frozen funds after the block, SlashEvent amounts, custom-coin
//        volume/reserve decrease.  ret = formula.CalculateSaleReturn replayed on the running coin state.

import (
	"fmt"
	"math/big"

	eventsdb "github.com/MinterTeam/minter-go-node/coreV2/events"
	"github.com/MinterTeam/minter-go-node/coreV2/transaction"
	"github.com/MinterTeam/minter-go-node/coreV2/types"
	"github.com/MinterTeam/minter-go-node/formula"
)

func init() { commands["c18"] = runC18 }

const (
	c18GraceFrom = InitialHeight - 1       // blockchain.go: NewGracePeriod(initialHeight, initialHeight+120, true)
	c18GraceTo   = InitialHeight - 1 + 120 // (initialHeight = req.InitialHeight - 1)
)

func c18IsGrace(h uint64) bool { return h >= c18GraceFrom && h <= c18GraceTo }

// c18Ceil5 = the rounded-up 5 % of v (property text), computed without the model.
func c18Ceil5(v *big.Int) *big.Int {
	x := new(big.Int).Mul(v, big.NewInt(5))
	x.Add(x, big.NewInt(99))
	return x.Div(x, big.NewInt(100))
}
func c18Keep95(v *big.Int) *big.Int { return new(big.Int).Sub(v, c18Ceil5(v)) }

type c18Life struct {
	h0     uint64
	j0     uint64
	signed []bool
	grace  []bool
}

func (l *c18Life) missed24() int {
	m := 0
	from := len(l.signed) - 24
	if from < 0 {
		from = 0
	}
	for _, s := range l.signed[from:] {
		if !s {
			m++
		}
	}
	return m
}

type c18Tx struct {
	kind string // "seton" or ""
	idx  int
}

type c18Counters struct {
	blocks, voteOps, jailOps, byzOps, absentPunished, gracePunished, evidenceApplied, evidenceSkipped, dupEvidence, customSlashes int
	setOnJailed, setOnAccepted                                                                                                    int
}

type c18Run struct {
	nd      *Node
	c       *Cases
	mon     *[]MonitorFailure
	where   string
	prev    types.AppState
	lives   map[int]*c18Life
	jailAt  map[int]uint64
	cnt     *c18Counters
	nontriv bool
	seen    map[string]bool
	dead    bool
	stale   bool // r.prev is older than the last committed block (fast path for empty blocks)
}

var c18Samples = map[string]string{}

// op records one model operation and keeps a short sample of each kind for the evidence file.
func (r *c18Run) op(kind string, in, out []*big.Int) {
	r.c.Op(in, out)
	if _, ok := c18Samples[kind]; !ok {
		if s := fmt.Sprintf("%s: > %s < %s", kind, ints(in), ints(out)); len(s) < 900 {
			c18Samples[kind] = s
		}
	}
}

func (r *c18Run) fail(key, what string) {
	if r.seen[key] {
		return
	}
	r.seen[key] = true
	*r.mon = append(*r.mon, MonitorFailure{What: "C18: " + what, Key: key, Replay: r.where})
}

func newC18Run(nd *Node, c *Cases, mon *[]MonitorFailure, cnt *c18Counters, where string) *c18Run {
	r := &c18Run{nd: nd, c: c, mon: mon, where: where, lives: map[int]*c18Life{}, jailAt: map[int]uint64{}, cnt: cnt, seen: map[string]bool{}}
	r.prev = nd.Export()
	for _, v := range r.prev.Validators {
		r.lives[r.valIdx(v.PubKey)] = &c18Life{h0: uint64(nd.Height) + 1}
	}
	return r
}

func (r *c18Run) valIdx(p types.Pubkey) int {
	for i, v := range r.nd.Vals {
		if v.Pub == p {
			return i
		}
	}
	return -1
}

func c18Cand(st *types.AppState, p types.Pubkey) *types.Candidate {
	for i := range st.Candidates {
		if st.Candidates[i].PubKey == p {
			return &st.Candidates[i]
		}
	}
	return nil
}

func c18Listed(st *types.AppState, p types.Pubkey) *types.Validator {
	for i := range st.Validators {
		if st.Validators[i].PubKey == p {
			return &st.Validators[i]
		}
	}
	return nil
}

func c18StakeValue(c *types.Candidate, owner types.Address, coin uint64) *big.Int {
	if c != nil {
		for _, s := range c.Stakes {
			if s.Owner == owner && s.Coin == coin {
				return bi(s.Value)
			}
		}
	}
	return big.NewInt(0)
}

// step runs one block and does all the C18 bookkeeping for it.
func (r *c18Run) step(txs [][]byte, meta []c18Tx, opts *BlockOpts) *BlockResult {
	if r.dead {
		return nil
	}
	if opts == nil {
		opts = &BlockOpts{}
	}
	nd := r.nd
	if len(opts.Evidence) > 0 && (uint64(nd.Height)+1)%stakePeriod == 0 {
		// payout blocks add their own remainders to total-slashed: keep evidence out of them
		r.step(nil, nil, nil)
	}
	h := uint64(nd.Height) + 1
	grace := c18IsGrace(h)
	// fast path: an empty block in which every validator signs and no validator-set refresh is due
	// cannot change anything this check looks at; the export is skipped and re-taken lazily
	if len(txs) == 0 && len(opts.Absent) == 0 && len(opts.Evidence) == 0 && h%stakePeriod != 0 {
		checkpoint := false
		for _, l := range r.lives {
			if (len(l.signed)+1)%40 == 0 {
				checkpoint = true
			}
		}
		if !checkpoint {
			br := nd.Block(nil, opts)
			if br.Panic != "" {
				*r.mon = append(*r.mon, MonitorFailure{What: "panic: " + br.Panic, Key: "c07-panic", Replay: r.where})
				r.dead = true
				return br
			}
			r.cnt.blocks++
			for _, l := range r.lives {
				l.signed = append(l.signed, true)
				l.grace = append(l.grace, grace)
			}
			r.stale = true
			return br
		}
	}
	if r.stale {
		fresh := nd.Export()
		for i := range fresh.Candidates {
			cd := &fresh.Candidates[i]
			if old := c18Cand(&r.prev, cd.PubKey); old != nil && (old.Status != cd.Status || old.JailedUntil != cd.JailedUntil) {
				r.fail("c18-punished-without-cause", fmt.Sprintf("candidate %d changed status %d -> %d / jailed until %d -> %d during empty blocks before %d in which every validator signed", cd.ID, old.Status, cd.Status, old.JailedUntil, cd.JailedUntil, h))
			}
		}
		if len(fresh.Validators) != len(r.prev.Validators) {
			r.fail("c18-punished-without-cause", fmt.Sprintf("the validator set changed (%d -> %d) during empty blocks before %d in which every validator signed", len(r.prev.Validators), len(fresh.Validators), h))
		}
		r.prev = fresh
		r.stale = false
	}
	reward, _ := nd.App.CurrentState().App().Reward()
	reward = cp(reward)
	prev := r.prev
	br := nd.Block(txs, opts)
	if br.Panic != "" {
		*r.mon = append(*r.mon, MonitorFailure{What: "panic: " + br.Panic, Key: "c07-panic", Replay: r.where})
		r.dead = true
		return br
	}
	r.cnt.blocks++
	cur := nd.Export()
	evs := nd.App.VerifEventsDB().LoadEvents(uint32(h))
	var slashEv []*eventsdb.SlashEvent
	jailEv := map[int]uint64{}
	for _, e := range evs {
		switch x := e.(type) {
		case *eventsdb.SlashEvent:
			slashEv = append(slashEv, x)
		case *eventsdb.JailEvent:
			jailEv[r.valIdx(x.ValidatorPubKey)] = x.JailedUntil
		}
	}
	fees := big.NewInt(0)
	for _, tr := range br.Txs {
		if v, ok := tr.Tags["tx.commission_in_base_coin"]; ok && tr.Code == 0 {
			fees.Add(fees, bi(v))
		} else if v, ok := tr.Tags["tx.fail_fee"]; ok {
			fees.Add(fees, bi(v))
		}
	}

	// ---- the evidence of this block: one real target at most (possibly repeated), or an unknown address
	target, k := -1, 0
	for _, e := range opts.Evidence {
		if target == -1 || target == e {
			target = e
			k++
		}
	}

	// ---- 1. votes -----------------------------------------------------------------------
	absentPunishedNow := map[int]bool{}
	type voteObs struct {
		idx    int
		life   *c18Life
		m      int
		signed bool
	}
	var vobs []voteObs
	for _, v := range prev.Validators {
		idx := r.valIdx(v.PubKey)
		life := r.lives[idx]
		if life == nil { // cannot happen: every listed validator has a life
			life = &c18Life{h0: h}
			r.lives[idx] = life
		}
		signed := !opts.Absent[idx]
		life.signed = append(life.signed, signed)
		life.grace = append(life.grace, grace)
		m := life.missed24()
		if m > 12 {
			absentPunishedNow[idx] = true
		}
		vobs = append(vobs, voteObs{idx, life, m, signed})
	}
	// the guard of the byzantine loop sees the state after the vote loop
	byzApplied := false
	var tPrevCand *types.Candidate
	tStatus, tListed, tKnown := uint64(0), false, false
	if target >= 0 {
		tPrevCand = c18Cand(&prev, nd.Vals[target].Pub)
		if tPrevCand != nil {
			tKnown = true
			tStatus = tPrevCand.Status
			if absentPunishedNow[target] {
				tStatus = 1
			}
			tListed = c18Listed(&prev, nd.Vals[target].Pub) != nil
		}
		byzApplied = tKnown && tStatus == 2 && tListed
	}
	for _, o := range vobs {
		idx, life := o.idx, o.life
		pub := nd.Vals[idx].Pub
		cand := c18Cand(&cur, pub)
		pcand := c18Cand(&prev, pub)
		lv := c18Listed(&cur, pub)
		if byzApplied && idx == target {
			if lv == nil {
				delete(r.lives, idx)
			}
			continue
		}
		if cand == nil || pcand == nil {
			delete(r.lives, idx)
			continue
		}
		// model op: the whole life so far, at checkpoints
		if (!o.signed && o.m >= 11) || lv == nil || len(life.signed)%40 == 0 {
			var runs []*big.Int // run-length encoded (signed, grace, count)
			nruns := 0
			for i := 0; i < len(life.signed); {
				j := i
				for j < len(life.signed) && life.signed[j] == life.signed[i] && life.grace[j] == life.grace[i] {
					j++
				}
				runs = append(runs, b2z(life.signed[i]), b2z(life.grace[i]), Z(int64(j-i)))
				nruns++
				i = j
			}
			in := append(L(Z(1), Z(2), Z(int64(life.h0)), Z(int64(life.j0)), Z(int64(nruns))), runs...)
			var out []*big.Int
			if lv != nil {
				cnt, bits := int64(0), big.NewInt(0)
				for i := 0; i < 24; i++ {
					if lv.AbsentTimes.GetIndex(i) {
						cnt++
						bits.SetBit(bits, i, 1)
					}
				}
				out = L(Z(0), b2z(cand.Status == 1), Z(int64(cand.JailedUntil)), Z(cnt), bits)
			} else {
				out = L(Z(1), b2z(cand.Status == 1), Z(int64(cand.JailedUntil)), Z(-999), Z(-999))
			}
			kind := "votes"
			if lv == nil {
				kind = "votes-switched-off"
			}
			r.op(kind, in, out)
			r.cnt.voteOps++
		}
		// monitors, straight from the text
		if o.m > 12 {
			r.nontriv = true
			if grace {
				r.cnt.gracePunished++
			} else {
				r.cnt.absentPunished++
				if cand.Status != 1 || lv != nil {
					r.fail("c18-absent-not-punished", fmt.Sprintf("validator %d missed %d of the last 24 blocks at block %d (not a grace block) and is still online/listed (status %d, listed %v)", idx, o.m, h, cand.Status, lv != nil))
				}
				if cand.JailedUntil+1 < h+types.GetJailPeriod() {
					r.fail("c18-absent-not-jailed", fmt.Sprintf("validator %d missed %d of the last 24 blocks at block %d (not a grace block): jailed until %d, the jail period of %d blocks ends at %d", idx, o.m, h, cand.JailedUntil, types.GetJailPeriod(), h+types.GetJailPeriod()))
				}
				r.jailAt[idx] = h
			}
		} else {
			if _, jailed := jailEv[idx]; jailed || cand.JailedUntil != pcand.JailedUntil || (pcand.Status == 2 && cand.Status == 1) {
				r.fail("c18-punished-without-cause", fmt.Sprintf("validator %d missed only %d of the last 24 blocks at block %d but was switched off/jailed (status %d -> %d, jailed until %d -> %d)", idx, o.m, h, pcand.Status, cand.Status, pcand.JailedUntil, cand.JailedUntil))
			}
		}
		if lv == nil {
			delete(r.lives, idx)
		}
	}
	for _, v := range cur.Validators {
		idx := r.valIdx(v.PubKey)
		if r.lives[idx] == nil {
			j0 := uint64(0)
			if cd := c18Cand(&cur, v.PubKey); cd != nil {
				j0 = cd.JailedUntil
			}
			r.lives[idx] = &c18Life{h0: h + 1, j0: j0}
		}
	}

	// ---- 2. SetCandidateOnline attempts ------------------------------------------------------
	for i, m := range meta {
		if m.kind != "seton" || i >= len(br.Txs) {
			continue
		}
		pc := c18Cand(&prev, nd.Vals[m.idx].Pub)
		if pc == nil {
			continue
		}
		code := br.Txs[i].Code
		if code != 0 && code != 414 {
			continue
		}
		r.op(fmt.Sprintf("switch-on-code-%d", code), L(Z(2), Z(int64(pc.JailedUntil)), Z(int64(h))), L(b2z(code == 0)))
		r.cnt.jailOps++
		if code == 0 {
			r.cnt.setOnAccepted++
			if at, ok := r.jailAt[m.idx]; ok && h < at+types.GetJailPeriod() {
				r.fail("c18-jail-early", fmt.Sprintf("candidate %d was jailed at block %d for %d blocks and switched on again at block %d", m.idx, at, types.GetJailPeriod(), h))
			}
		} else {
			r.cnt.setOnJailed++
		}
	}

	// ---- 3. byzantine evidence ------------------------------------------------------------------
	if target >= 0 && len(txs) == 0 {
		r.evidence(h, target, k, tKnown, tStatus, tListed, byzApplied, tPrevCand, &prev, &cur, slashEv, reward, fees, opts, absentPunishedNow)
	}
	r.prev = cur
	return br
}

// c18RewardRemainder recomputes what EndBlock adds to total-slashed in this block (the part of
// reward+fees+returned rewards that the floor shares leave over).
func c18RewardRemainder(prev *types.AppState, reward, fees *big.Int, absent map[int]bool, dropped map[types.Pubkey]bool, idx func(types.Pubkey) int) *big.Int {
	rwt := new(big.Int).Add(reward, fees)
	total := big.NewInt(0)
	for _, v := range prev.Validators {
		if dropped[v.PubKey] {
			rwt.Add(rwt, bi(v.AccumReward))
		} else if !absent[idx(v.PubKey)] {
			total.Add(total, bi(v.TotalBipStake))
		}
	}
	if total.Sign() == 0 {
		total = big.NewInt(1)
	}
	rem := new(big.Int).Set(rwt)
	for _, v := range prev.Validators {
		if dropped[v.PubKey] || absent[idx(v.PubKey)] {
			continue
		}
		sh := new(big.Int).Mul(rwt, bi(v.TotalBipStake))
		rem.Sub(rem, sh.Div(sh, total))
	}
	return rem
}

func (r *c18Run) evidence(h uint64, target, k int, known bool, status uint64, listed, applied bool, pc *types.Candidate,
	prev, cur *types.AppState, slashEv []*eventsdb.SlashEvent, reward, fees *big.Int, opts *BlockOpts, absentPunishedNow map[int]bool) {
	nd := r.nd
	unbond := types.GetUnbondPeriod()
	pub := nd.Vals[target].Pub
	cid := uint64(0)
	if pc != nil {
		cid = pc.ID
	}
	if k > 1 {
		r.cnt.dupEvidence++
	}
	// the reward remainder of this block
	dropped := map[types.Pubkey]bool{}
	for i := range absentPunishedNow {
		dropped[nd.Vals[i].Pub] = true
	}
	if applied {
		dropped[pub] = true
	}
	rem := c18RewardRemainder(prev, reward, fees, opts.Absent, dropped, r.valIdx)
	poolDelta := new(big.Int).Sub(bi(cur.TotalSlashed), bi(prev.TotalSlashed))
	poolDelta.Sub(poolDelta, rem)

	// oracle replay: formula.CalculateSaleReturn on the running volume/reserve of each custom coin,
	// in the order of the code (funds first, then stakes), for the first piece of evidence
	type cstate struct {
		vol, res *big.Int
		crr      uint32
	}
	coins := map[uint64]*cstate{}
	for _, c := range prev.Coins {
		if c.Crr != 0 {
			coins[c.ID] = &cstate{bi(c.Volume), bi(c.Reserve), uint32(c.Crr)}
		}
	}
	oracle := func(coin uint64, v *big.Int) *big.Int {
		cs := coins[coin]
		if coin == 0 || cs == nil || !applied {
			return big.NewInt(0)
		}
		sl := c18Ceil5(v)
		ret := formula.CalculateSaleReturn(cs.vol, cs.res, cs.crr, sl)
		cs.vol = new(big.Int).Sub(cs.vol, sl)
		cs.res = new(big.Int).Sub(cs.res, ret)
		r.cnt.customSlashes++
		return ret
	}
	hit := func(f *types.FrozenFund) bool {
		return applied && f.CandidateID == cid && f.Height >= h && f.Height <= h+unbond
	}
	in6 := L(Z(6), Z(int64(h)), Z(int64(unbond)), b2z(known), Z(int64(cid)), Z(int64(status)), b2z(listed), Z(int64(k)), Z(int64(len(prev.FrozenFunds))))
	in4 := L(Z(4), Z(int64(h)), Z(int64(unbond)), Z(int64(cid)), Z(int64(len(prev.FrozenFunds))))
	expPool := big.NewInt(0)
	hasCustom := false
	for i := range prev.FrozenFunds {
		f := &prev.FrozenFunds[i]
		ret := big.NewInt(0)
		if hit(f) {
			ret = oracle(f.Coin, bi(f.Value))
			if f.Coin == 0 {
				expPool.Add(expPool, c18Ceil5(bi(f.Value)))
			} else {
				expPool.Add(expPool, ret)
				hasCustom = true
			}
		}
		row := L(Z(int64(f.Height)), Z(int64(f.CandidateID)), Z(int64(f.Coin)), bi(f.Value), ret)
		in6 = append(in6, row...)
		in4 = append(in4, row...)
	}
	var pstakes []types.Stake
	if pc != nil {
		pstakes = pc.Stakes
	}
	in6 = append(in6, Z(int64(len(pstakes))))
	in3 := L(Z(3), Z(int64(h)), Z(int64(unbond)), Z(int64(cid)), Z(int64(len(pstakes))))
	for _, s := range pstakes {
		ret := big.NewInt(0)
		if applied {
			ret = oracle(s.Coin, bi(s.Value))
			if s.Coin == 0 {
				expPool.Add(expPool, c18Ceil5(bi(s.Value)))
			} else {
				expPool.Add(expPool, ret)
				hasCustom = true
			}
		}
		in6 = append(in6, Z(int64(s.Coin)), bi(s.Value), ret)
		in3 = append(in3, Z(int64(s.Coin)), bi(s.Value), ret)
	}
	// ---- observed output of op 6
	cc := c18Cand(cur, pub)
	st := uint64(0)
	if cc != nil {
		st = cc.Status
	}
	out6 := L(Z(int64(st)), Z(-999), poolDelta, Z(int64(len(pstakes))))
	for _, s := range pstakes {
		out6 = append(out6, c18StakeValue(cc, s.Owner, s.Coin))
	}
	out6 = append(out6, Z(int64(len(cur.FrozenFunds))))
	for _, f := range cur.FrozenFunds {
		out6 = append(out6, Z(int64(f.Height)), bi(f.Value))
	}
	out6 = append(out6, Z(int64(len(slashEv))))
	for _, e := range slashEv {
		out6 = append(out6, bi(e.Amount))
	}
	dvol, dres := big.NewInt(0), big.NewInt(0)
	for _, c := range cur.Coins {
		if c.Crr == 0 {
			continue
		}
		for _, p := range prev.Coins {
			if p.ID == c.ID {
				dvol.Add(dvol, new(big.Int).Sub(bi(p.Volume), bi(c.Volume)))
				dres.Add(dres, new(big.Int).Sub(bi(p.Reserve), bi(c.Reserve)))
			}
		}
	}
	out6 = append(out6, dvol, dres)
	r.op(fmt.Sprintf("evidence-x%d-applied-%v", k, applied), in6, out6)
	r.cnt.byzOps++

	// the funds that survive the block, in export order: prev funds due > h, then the new ones
	var live []*types.FrozenFund
	for i := range prev.FrozenFunds {
		if prev.FrozenFunds[i].Height > h {
			live = append(live, &prev.FrozenFunds[i])
		}
	}
	if !applied {
		r.cnt.evidenceSkipped++
		// "unless already offline" / unknown address: nothing may be slashed
		if !known || status == 1 {
			bad := len(slashEv) != 0 || poolDelta.Sign() != 0 || len(cur.FrozenFunds) != len(live)
			if !bad {
				for i, f := range live {
					if cur.FrozenFunds[i].Value != f.Value {
						bad = true
					}
				}
			}
			if bad {
				r.fail("c18-offline-punished", fmt.Sprintf("evidence at block %d against address %d (known %v, status %d): %d slash events, pool grew by %s beyond the reward remainder, funds %d -> %d", h, target, known, status, len(slashEv), poolDelta, len(live), len(cur.FrozenFunds)))
			}
		}
		return
	}
	r.cnt.evidenceApplied++
	r.nontriv = true
	structOK := len(cur.FrozenFunds) >= len(live)+len(pstakes)
	if k == 1 && structOK {
		// ops 3 and 4: the per-item arithmetic
		out4 := make([]*big.Int, 0, len(prev.FrozenFunds))
		j := 0
		for i := range prev.FrozenFunds {
			if prev.FrozenFunds[i].Height > h {
				out4 = append(out4, bi(cur.FrozenFunds[j].Value))
				j++
			} else {
				out4 = append(out4, Z(-999))
			}
		}
		r.op("punish-frozen-funds", in4, out4)
		var out3 []*big.Int
		for i, s := range pstakes {
			nf := cur.FrozenFunds[len(live)+i]
			sl := Z(-999)
			if len(slashEv) >= len(pstakes) {
				sl = bi(slashEv[len(slashEv)-len(pstakes)+i].Amount)
			}
			out3 = append(out3, Z(int64(nf.Height)), bi(nf.Value), sl, c18StakeValue(cc, s.Owner, s.Coin))
		}
		r.op("punish-stakes", in3, out3)
		r.cnt.byzOps += 2
	}

	// ---- monitors, from the text: 5 % rounded up of every stake and every unbonding fund, rest of
	// each stake unbonded, validator dropped, slashed value into the pool; exactly once
	dup := ""
	if k > 1 {
		dup = fmt.Sprintf(" (%d pieces of evidence against it in this block)", k)
	}
	for i, f := range live {
		if i >= len(cur.FrozenFunds) {
			break
		}
		got := bi(cur.FrozenFunds[i].Value)
		if f.CandidateID != cid {
			if got.Cmp(bi(f.Value)) != 0 || cur.FrozenFunds[i].Height != f.Height {
				r.fail("c18-innocent-touched", fmt.Sprintf("evidence against candidate %d at block %d changed a frozen fund of candidate %d: %s -> %s", cid, h, f.CandidateID, f.Value, got))
			}
			continue
		}
		want := c18Keep95(bi(f.Value))
		if got.Cmp(want) != 0 {
			if k > 1 && got.Cmp(want) < 0 {
				r.fail("c18-double-slash", fmt.Sprintf("block %d, candidate %d%s: unbonding fund %s became %s; one rounded-up 5 %% slash leaves %s — it was slashed more than once", h, cid, dup, f.Value, got, want))
			} else {
				r.fail("c18-fund-slash-wrong", fmt.Sprintf("block %d, candidate %d%s: unbonding fund %s became %s, expected %s", h, cid, dup, f.Value, got, want))
			}
		}
	}
	for i, s := range pstakes {
		if len(live)+i >= len(cur.FrozenFunds) {
			r.fail("c18-unbond-wrong", fmt.Sprintf("block %d, candidate %d: no frozen fund for the rest of stake %d", h, cid, i))
			break
		}
		nf := cur.FrozenFunds[len(live)+i]
		want := c18Keep95(bi(s.Value))
		if nf.Height != h+unbond || nf.Address != s.Owner || nf.Coin != s.Coin || nf.CandidateID != cid {
			r.fail("c18-unbond-wrong", fmt.Sprintf("block %d, candidate %d: the rest of stake %d is not unbonded to its owner at %d (fund %+v)", h, cid, i, h+unbond, nf))
		} else if bi(nf.Value).Cmp(want) != 0 {
			if k > 1 && bi(nf.Value).Cmp(want) < 0 {
				r.fail("c18-double-slash", fmt.Sprintf("block %d, candidate %d%s: stake %s was unbonded as %s; one rounded-up 5 %% slash leaves %s — it was slashed more than once", h, cid, dup, s.Value, nf.Value, want))
			} else {
				r.fail("c18-unbond-wrong", fmt.Sprintf("block %d, candidate %d%s: stake %s was unbonded as %s, expected %s", h, cid, dup, s.Value, nf.Value, want))
			}
		}
		if c18StakeValue(cc, s.Owner, s.Coin).Sign() != 0 {
			// (a pending update of the same owner and coin would be merged here; the generator avoids that)
			r.fail("c18-stake-left", fmt.Sprintf("block %d, candidate %d: stake of %s still holds %s after the punishment", h, cid, s.Owner.String(), c18StakeValue(cc, s.Owner, s.Coin)))
		}
	}
	if len(cur.FrozenFunds) != len(live)+len(pstakes) {
		key := "c18-extra-funds"
		if k > 1 {
			key = "c18-double-slash"
		}
		r.fail(key, fmt.Sprintf("block %d, candidate %d%s: %d frozen funds after the punishment, expected %d in flight + %d stakes", h, cid, dup, len(cur.FrozenFunds), len(live), len(pstakes)))
	}
	if poolDelta.Cmp(expPool) != 0 {
		if k > 1 && poolDelta.Cmp(expPool) > 0 {
			r.fail("c18-double-slash", fmt.Sprintf("block %d, candidate %d%s: total-slashed grew by %s through the punishment; one rounded-up 5 %% of every stake and fund is %s", h, cid, dup, poolDelta, expPool))
		} else {
			r.fail("c18-pool-mismatch", fmt.Sprintf("block %d, candidate %d%s: total-slashed grew by %s through the punishment, expected %s (custom coins: %v)", h, cid, dup, poolDelta, expPool, hasCustom))
		}
	}
	if c18Listed(cur, pub) != nil {
		r.fail("c18-not-dropped", fmt.Sprintf("block %d: validator %d (candidate %d) is still in the validator set after the byzantine punishment (status %d, total stake %s; pending delegations before the block: %d)", h, target, cid, st, c18Listed(cur, pub).TotalBipStake, len(pc.Updates)))
	}
	// (Pending delegations — the candidate's "updates" — are not stakes in the property's vocabulary:
	// the punishment neither slashes nor unbonds them; they stay with the now offline candidate and
	// are merged into its stake slots by the next recalculation.  No monitor.)
}

// ---- drivers -------------------------------------------------------------------------------------

func (r *c18Run) idle(n int) {
	for i := 0; i < n && !r.dead; i++ {
		r.step(nil, nil, nil)
	}
}

func (r *c18Run) until(h uint64) {
	for uint64(r.nd.Height)+1 < h && !r.dead {
		r.step(nil, nil, nil)
	}
}

func (r *c18Run) setOn(idx int) *BlockResult {
	nd := r.nd
	tx := nd.MkTx(nd.Accts[idx%len(nd.Accts)], transaction.TypeSetCandidateOnline, transaction.SetCandidateOnData{PubKey: nd.Vals[idx].Pub}, 0, 0, 1, nil)
	return r.step([][]byte{tx}, []c18Tx{{"seton", idx}}, nil)
}

func (r *c18Run) tx(a Acct, typ transaction.TxType, data interface{}) uint32 {
	br := r.step([][]byte{r.nd.MkTx(a, typ, data, 0, 0, 1, nil)}, []c18Tx{{}}, nil)
	if br == nil || len(br.Txs) != 1 {
		return 9999
	}
	return br.Txs[0].Code
}

// absentRun: validator idx misses blocks according to pattern until it is dropped or the pattern ends.
// Returns the height at which it left the validator set (0 if it did not).
func (r *c18Run) absentRun(idx int, pattern []bool, also map[int]bool) uint64 {
	for _, a := range pattern {
		if r.dead {
			return 0
		}
		abs := map[int]bool{}
		for k, v := range also {
			abs[k] = v
		}
		if a {
			abs[idx] = true
		}
		r.step(nil, nil, &BlockOpts{Absent: abs})
		if c18Listed(&r.prev, r.nd.Vals[idx].Pub) == nil {
			return uint64(r.nd.Height)
		}
	}
	return 0
}

func c18Spec(nv int, stakes []*big.Int, mut func(*types.AppState)) *GenesisSpec {
	return &GenesisSpec{NAccounts: 9, Balance: pip(100000000), NVals: nv, Stakes: stakes, Mutate: mut}
}

func c18AddDelegator(st *types.AppState, ci int, owner types.Address, v *big.Int) {
	cd := &st.Candidates[ci]
	for _, s := range cd.Stakes {
		if s.Owner == owner {
			return
		}
	}
	cd.Stakes = append(cd.Stakes, types.Stake{Owner: owner, Coin: 0, Value: v.String(), BipValue: v.String()})
	total := new(big.Int).Add(bi(cd.TotalBipStake), v)
	cd.TotalBipStake = total.String()
	for vi := range st.Validators {
		if st.Validators[vi].PubKey == cd.PubKey {
			st.Validators[vi].TotalBipStake = total.String()
		}
	}
}

func c18Repeat(b bool, n int) []bool {
	o := make([]bool, n)
	for i := range o {
		o[i] = b
	}
	return o
}

// scripted histories: the boundaries named by the property, and the situations in which the
// code was found to leave the text
func c18Scenarios(c *Cases, mon *[]MonitorFailure, cnt *c18Counters) {
	run := func(name string, nv int, mut func(*types.AppState), f func(r *c18Run)) {
		nd := newNode(c18Spec(nv, nil, mut))
		defer nd.Cleanup()
		c.Begin(14)
		r := newC18Run(nd, c, mon, cnt, "vharness c18 -seed 1 -n 0 (scenario "+name+")")
		f(r)
		c.End(r.nontriv, "scenario")
	}
	delegs := func(st *types.AppState) {
		c18AddDelegator(st, 1, mkAcct(3).Addr, Z(1019))
		c18AddDelegator(st, 1, mkAcct(4).Addr, pip(777))
	}
	// 12 misses are tolerated, the 13th of 24 is punished; the jail gate on both sides of its end
	run("absent-12-13-and-jail-gate", 4, nil, func(r *c18Run) {
		r.until(c18GraceTo + 5)
		r.absentRun(0, c18Repeat(true, 12), nil)
		r.idle(30) // the misses slide out of the window
		at := r.absentRun(0, c18Repeat(true, 13), nil)
		if at == 0 {
			r.fail("c18-absent-not-punished", "scenario: 13 consecutive misses outside grace did not drop the validator")
			return
		}
		r.setOn(0)
		r.until(at + types.GetJailPeriod() - 1)
		r.setOn(0) // at + period - 1
		r.setOn(0) // at + period: JailedUntil itself
		br := r.setOn(0)
		if br != nil && len(br.Txs) == 1 && br.Txs[0].Code != 0 {
			r.fail("c18-jail-overlong", fmt.Sprintf("scenario: SetCandidateOnline at block %d, after JailedUntil %d, answered code %d", r.nd.Height, at+types.GetJailPeriod(), br.Txs[0].Code))
		}
		r.idle(14)
	})
	// the 13th miss on the last grace block (no jail) and on the first block after it (jail)
	run("absent-at-grace-end", 4, nil, func(r *c18Run) {
		r.until(c18GraceTo - 12)
		r.step(nil, nil, &BlockOpts{Absent: map[int]bool{0: true}})
		r.absentRun(0, c18Repeat(true, 12), map[int]bool{1: true}) // validator 1 starts one block later
		r.absentRun(1, c18Repeat(true, 1), nil)
		r.setOn(0) // not jailed: accepted
		r.setOn(1) // jailed
		r.idle(13)
	})
	// alternating misses: 12 of 24 for a long time, then one more
	run("absent-alternating", 3, nil, func(r *c18Run) {
		r.until(c18GraceTo + 2)
		var p []bool
		for i := 0; i < 40; i++ {
			p = append(p, i%2 == 0)
		}
		r.absentRun(2, p, nil)
		r.absentRun(2, []bool{false, true, true}, nil)
		r.idle(3)
	})
	// evidence against an online validator with delegators and an unbonding fund in flight; then again
	// in the next block (now dropped), against an unknown address, and against a jailed candidate
	run("evidence-once", 4, delegs, func(r *c18Run) {
		nd := r.nd
		r.until(c18GraceTo + 3)
		r.tx(nd.Accts[1], transaction.TypeUnbond, transaction.UnbondDataV3{PubKey: nd.Vals[1].Pub, Coin: 0, Value: pip(100)})
		r.tx(nd.Accts[4], transaction.TypeMoveStake, transaction.MoveStakeData{FromPubKey: nd.Vals[1].Pub, ToPubKey: nd.Vals[2].Pub, Coin: 0, Value: pip(77)})
		r.tx(nd.Accts[2], transaction.TypeUnbond, transaction.UnbondDataV3{PubKey: nd.Vals[2].Pub, Coin: 0, Value: pip(31)})
		r.absentRun(0, c18Repeat(true, 13), nil)
		if (nd.Height+1)%stakePeriod == 0 {
			r.idle(1)
		}
		r.step(nil, nil, &BlockOpts{Evidence: []int{1}})
		r.step(nil, nil, &BlockOpts{Evidence: []int{1}})
		nd.Vals = append(nd.Vals, mkVal(9999))
		r.step(nil, nil, &BlockOpts{Evidence: []int{len(nd.Vals) - 1}})
		r.step(nil, nil, &BlockOpts{Evidence: []int{0}})
		r.idle(2)
	})
	// regression (fixed by b9d9852): two pieces of evidence against the same validator in one block punished twice
	run("evidence-twice-in-one-block", 4, delegs, func(r *c18Run) {
		nd := r.nd
		r.until(c18GraceTo + 3)
		r.tx(nd.Accts[1], transaction.TypeUnbond, transaction.UnbondDataV3{PubKey: nd.Vals[1].Pub, Coin: 0, Value: pip(100)})
		if (nd.Height+1)%stakePeriod == 0 {
			r.idle(1)
		}
		r.step(nil, nil, &BlockOpts{Evidence: []int{1, 1}})
		r.idle(2)
	})
	// regression (fixed by b9d9852): a pending delegation of >= 1000 BIP kept the punished validator in the
	// set, and the next piece of evidence slashed the already unbonded funds again
	// (3 validators: with 4 or more, Delegate refuses to lift a candidate above 20 % of all stakes)
	run("evidence-with-pending-delegation", 3, delegs, func(r *c18Run) {
		nd := r.nd
		r.until(c18GraceTo + 3)
		for (nd.Height+1)%stakePeriod != 2 {
			r.idle(1)
		}
		if code := r.tx(nd.Accts[6], transaction.TypeDelegate, transaction.DelegateDataV260{PubKey: nd.Vals[1].Pub, Coin: 0, Value: pip(3000)}); code != 0 {
			r.fail("c18-scenario-setup", fmt.Sprintf("scenario: Delegate answered code %d", code))
		}
		r.step(nil, nil, &BlockOpts{Evidence: []int{1}})
		r.step(nil, nil, &BlockOpts{Evidence: []int{1}})
		r.idle(2)
	})
	// two validators switched off inside the grace period (no jail) come back in the SAME validator-set update;
	// afterwards each one's misses must be counted for itself: one misses 13 while the other signs (and is
	// processed later in the vote list), then the other way round with 12 allowed misses plus a single miss
	for _, first := range []int{0, 1} {
		first := first
		run(fmt.Sprintf("co-joined-validators-%d", first), 4, nil, func(r *c18Run) {
			a, b := first, 1-first
			r.idle(3)
			r.absentRun(a, c18Repeat(true, 13), map[int]bool{b: true})
			r.idle(1)
			r.setOn(0)
			r.setOn(1)
			r.idle(13)
			if c18Listed(&r.prev, r.nd.Vals[0].Pub) == nil || c18Listed(&r.prev, r.nd.Vals[1].Pub) == nil {
				r.fail("c18-scenario-setup", "scenario: the two validators did not come back into the set together")
				return
			}
			r.until(c18GraceTo + 3)
			r.absentRun(b, c18Repeat(true, 12), nil) // tolerated
			r.absentRun(a, c18Repeat(true, 1), nil)  // a single miss of the other one: nobody is punished
			r.idle(30)
			if at := r.absentRun(a, c18Repeat(true, 13), nil); at == 0 {
				r.fail("c18-absent-not-punished", "scenario: 13 consecutive misses outside grace did not drop the validator (the other one, which joined the set in the same update, signed)")
			}
			r.idle(3)
		})
	}
	// a validator that changed its public key is the same validator: Tendermint reports its votes and evidence under the
	// address of the NEW key; misses and double signing after the rotation are punished like before
	run("misbehaviour-after-public-key-rotation", 4, delegs, func(r *c18Run) {
		nd := r.nd
		r.idle(2)
		newIdx := make([]int, 2)
		for k, old := range []int{0, 1} {
			nv := mkVal(7000 + k)
			if code := r.tx(nd.Accts[old%len(nd.Accts)], transaction.TypeEditCandidatePublicKey, transaction.EditCandidatePublicKeyData{PubKey: nd.Vals[old].Pub, NewPubKey: nv.Pub}); code != 0 {
				r.fail("c18-scenario-setup", fmt.Sprintf("scenario: EditCandidatePublicKey answered code %d", code))
				return
			}
			nd.Vals = append(nd.Vals, nv)
			newIdx[k] = len(nd.Vals) - 1
		}
		r.idle(3)
		if c18Listed(&r.prev, nd.Vals[newIdx[0]].Pub) == nil || c18Listed(&r.prev, nd.Vals[newIdx[1]].Pub) == nil {
			r.fail("c18-scenario-setup", "scenario: the re-keyed validators are not in the validator set")
			return
		}
		r.until(c18GraceTo + 3)
		if at := r.absentRun(newIdx[0], c18Repeat(true, 13), nil); at == 0 {
			r.fail("c18-absent-not-punished", "scenario: a validator that rotated its public key missed 13 consecutive blocks outside grace and was not dropped")
		}
		if (nd.Height+1)%stakePeriod == 0 {
			r.idle(1)
		}
		r.step(nil, nil, &BlockOpts{Evidence: []int{newIdx[1]}})
		r.idle(3)
	})
	// evidence in the block in which the validator is switched off for absence: already offline
	run("evidence-after-switch-off-in-same-block", 4, delegs, func(r *c18Run) {
		r.until(c18GraceTo + 3)
		r.absentRun(1, c18Repeat(true, 12), nil)
		r.step(nil, nil, &BlockOpts{Absent: map[int]bool{1: true}, Evidence: []int{1}})
		r.idle(2)
	})
}

func runC18(seed uint64, n int, out, stats string, _ []string) {
	c := NewCases(out)
	var mon []MonitorFailure
	cnt := &c18Counters{}
	c18Scenarios(c, &mon, cnt)
	master := NewRng(seed) // the per-history seeds are drawn from one seeded stream
	for i := 0; i < n; i++ {
		s := master.U64() >> 1
		rg := NewRng(s)
		nv := 3 + rg.Intn(3)
		var stakes []*big.Int
		for j := 0; j < nv; j++ {
			switch rg.Intn(3) {
			case 0:
				stakes = append(stakes, new(big.Int).Add(rg.Big(24), pip(2000)))
			default:
				stakes = append(stakes, pip(int64(2000+rg.Intn(1000000))))
			}
		}
		spec := c18Spec(nv, stakes, func(st *types.AppState) {
			for ci := range st.Candidates {
				for k := 0; k < rg.Intn(4); k++ {
					var v *big.Int
					switch rg.Intn(4) {
					case 0:
						v = Z(int64(1 + rg.Intn(1000)))
					case 1:
						v = rg.Big(22)
					case 2:
						v = Z(int64(20 * (1 + rg.Intn(50)))) // multiples of 20: 5 % without rounding
					default:
						v = pip(int64(1 + rg.Intn(5000)))
					}
					if v.Sign() == 0 {
						v = Z(1)
					}
					c18AddDelegator(st, ci, mkAcct((ci+k+1)%6).Addr, v)
				}
			}
		})
		nd := newNode(spec)
		c.Begin(14)
		r := newC18Run(nd, c, &mon, cnt, fmt.Sprintf("vharness c18 -seed %d -n %d (history %d, seed %d)", seed, n, i, s))
		kind := c18Random(r, rg, nv)
		nd.Cleanup()
		c.End(r.nontriv, kind)
	}
	c.Close()
	for _, k := range []string{"votes-switched-off", "switch-on-code-414", "switch-on-code-0", "evidence-x1-applied-true", "evidence-x2-applied-true", "punish-stakes"} {
		if v, ok := c18Samples[k]; ok && len(c.Samples) < 6 {
			c.Samples = append(c.Samples, v)
		}
	}
	writeStats(stats, &Stats{Property: "C18", Seed: seed, Cases: c.NCases, Ops: c.NOps, NonTrivial: c.NonTriv,
		Rule: "7 scripted boundary histories (12/13 of 24, grace end, jail gate at JailedUntil-1/JailedUntil/+1, evidence once / twice in a block / with a pending delegation / against offline, unknown and just-switched-off addresses) + seeded histories of 140-700 blocks on the real node (testnet periods: jail 354, unbond 531, move 177; 3-5 validators, 0-3 extra delegators each, stakes 1 pip .. 10^24, one custom coin in a third of them): absence patterns inside and across the 120-block grace period and outside it, SetCandidateOnline attempts before/at/after the jail end, unbonds, stake moves and pending delegations in flight, evidence against online/offline/unknown/dropped addresses with multiplicity 1-3; every vote history (checkpoints), every switch-on attempt and every evidence block is compared with Model/Punish.v (model 14); non-trivial = at least one punishment (switch-off or applied evidence) compared; distinct = distinct case text",
		Dist: c.Dist, Samples: c.Samples, Monitor: mon,
		Extra: map[string]interface{}{"blocks": cnt.blocks, "vote_ops": cnt.voteOps, "jail_gate_ops": cnt.jailOps, "evidence_ops": cnt.byzOps,
			"switched_off_outside_grace": cnt.absentPunished, "switched_off_in_grace": cnt.gracePunished,
			"evidence_applied": cnt.evidenceApplied, "evidence_skipped": cnt.evidenceSkipped, "evidence_blocks_with_duplicates": cnt.dupEvidence,
			"custom_coin_slashes": cnt.customSlashes, "switch_on_rejected_jailed": cnt.setOnJailed, "switch_on_accepted": cnt.setOnAccepted}})
}

// pattern generators around 12/13 of 24
func c18Pattern(rg *Rng) []bool {
	var p []bool
	switch rg.Intn(5) {
	case 0: // 12 in a row, a pause, then 13 in a row
		p = append(p, c18Repeat(true, 12)...)
		p = append(p, c18Repeat(false, 1+rg.Intn(30))...)
		p = append(p, c18Repeat(true, 13)...)
	case 1: // alternating, then a double miss
		for i := 0; i < 24+rg.Intn(30); i++ {
			p = append(p, i%2 == 0)
		}
		p = append(p, true, true, true)
	case 2: // random, half
		for i := 0; i < 80; i++ {
			p = append(p, rg.Intn(2) == 0)
		}
		p = append(p, c18Repeat(true, 13)...)
	case 3: // 12 misses, exactly 12 signed, then misses again: the old ones slide out one by one
		p = append(p, c18Repeat(true, 12)...)
		p = append(p, c18Repeat(false, 11+rg.Intn(3))...)
		p = append(p, c18Repeat(true, 14)...)
	default: // dense random
		for i := 0; i < 60; i++ {
			p = append(p, rg.Intn(5) < 3)
		}
		p = append(p, c18Repeat(true, 13)...)
	}
	return p
}

func c18Random(r *c18Run, rg *Rng, nv int) string {
	nd := r.nd
	kind := ""
	byzT := nv - 1 // the validator that will receive evidence
	absV := rg.Intn(nv - 1)
	custom := rg.Intn(3) == 0
	var coin types.CoinID
	if custom {
		kind += "custom,"
		if r.tx(nd.Accts[0], transaction.TypeCreateCoin, transaction.CreateCoinData{Name: "c", Symbol: types.StrToCoinSymbol("SLASHCOIN"), InitialAmount: pip(1000000), InitialReserve: pip(int64(10000 + rg.Intn(100000))), ConstantReserveRatio: uint32(10 + rg.Intn(91)), MaxSupply: pip(100000000)}) != 0 {
			custom = false
		} else {
			coin = types.CoinID(nd.App.CurrentState().App().GetCoinsCount())
			r.tx(nd.Accts[0], transaction.TypeDelegate, transaction.DelegateDataV260{PubKey: nd.Vals[byzT].Pub, Coin: coin, Value: new(big.Int).Add(pip(int64(1000+rg.Intn(50000))), rg.Big(18))})
			r.tx(nd.Accts[0], transaction.TypeDelegate, transaction.DelegateDataV260{PubKey: nd.Vals[0].Pub, Coin: coin, Value: pip(int64(1000 + rg.Intn(5000)))})
		}
	}
	// ---- inside / across the grace period
	switch rg.Intn(4) {
	case 0: // switched off inside grace: no jail; back on at once
		kind += "grace-off,"
		r.idle(rg.Intn(60))
		var also map[int]bool
		other := (absV + 1) % (nv - 1)
		if other != absV && rg.Intn(2) == 0 { // a second validator goes off with it: both come back in the same update
			kind += "pair,"
			also = map[int]bool{other: true}
		}
		if at := r.absentRun(absV, c18Pattern(rg), also); at != 0 && c18IsGrace(at) {
			r.idle(rg.Intn(3))
			r.setOn(absV)
			if also != nil {
				r.idle(2)
				r.setOn(other)
			}
		}
	case 1: // the 13th consecutive miss lands on the last grace block or the first block after it
		kind += "grace-edge,"
		off := uint64(rg.Intn(3)) // 0: last grace block, 1: first block after, 2: second
		r.until(c18GraceTo + off - 12)
		r.absentRun(absV, c18Repeat(true, 13), nil)
		r.setOn(absV)
	case 2: // misses that start in grace and continue after it
		kind += "grace-across,"
		r.until(c18GraceTo - uint64(rg.Intn(12)))
		r.absentRun(absV, c18Pattern(rg), nil)
	default:
		kind += "grace-quiet,"
	}
	if uint64(nd.Height) < c18GraceTo {
		r.until(c18GraceTo + 1 + uint64(rg.Intn(4)))
	}
	if custom {
		// an unbonding fund in the custom coin
		r.tx(nd.Accts[0], transaction.TypeUnbond, transaction.UnbondDataV3{PubKey: nd.Vals[byzT].Pub, Coin: coin, Value: pip(int64(1 + rg.Intn(900)))})
	}
	// funds in flight from the evidence target and from an innocent validator
	owner := nd.Accts[byzT%len(nd.Accts)]
	if rg.Intn(4) != 0 {
		r.tx(owner, transaction.TypeUnbond, transaction.UnbondDataV3{PubKey: nd.Vals[byzT].Pub, Coin: 0, Value: new(big.Int).Add(pip(int64(rg.Intn(500))), Z(int64(1+rg.Intn(1000))))})
	}
	if rg.Intn(2) == 0 {
		r.tx(owner, transaction.TypeMoveStake, transaction.MoveStakeData{FromPubKey: nd.Vals[byzT].Pub, ToPubKey: nd.Vals[0].Pub, Coin: 0, Value: Z(int64(1 + rg.Intn(100000)))})
	}
	if rg.Intn(2) == 0 {
		r.tx(nd.Accts[0], transaction.TypeUnbond, transaction.UnbondDataV3{PubKey: nd.Vals[0].Pub, Coin: 0, Value: Z(int64(1 + rg.Intn(100000)))})
	}
	// ---- outside grace: a validator that is not yet off misses blocks until it is switched off and jailed
	jailedAt := uint64(0)
	jailedV := -1
	for _, v := range []int{absV, (absV + 1) % (nv - 1)} {
		if c18Listed(&r.prev, nd.Vals[v].Pub) != nil {
			if at := r.absentRun(v, c18Pattern(rg), nil); at != 0 {
				jailedAt, jailedV = at, v
			}
			break
		}
	}
	evidence := func() {
		kind += "evidence"
		if rg.Intn(3) == 0 { // a pending delegation from an account that has no stake there
			amt := pip(int64(1 + rg.Intn(900)))
			if rg.Intn(3) == 0 {
				amt = pip(int64(1000 + rg.Intn(5000)))
				kind += "+bigupdate"
			}
			if (nd.Height+2)%stakePeriod == 0 {
				r.idle(1)
			}
			r.tx(nd.Accts[6+rg.Intn(3)], transaction.TypeDelegate, transaction.DelegateDataV260{PubKey: nd.Vals[byzT].Pub, Coin: 0, Value: amt})
		}
		if (nd.Height+1)%stakePeriod == 0 {
			r.idle(1)
		}
		k := 1
		switch rg.Intn(10) {
		case 0, 1, 2:
			k = 2
		case 3:
			k = 3
		}
		if custom {
			k = 1
		}
		kind += fmt.Sprintf("x%d,", k)
		ev := make([]int, k)
		for i := range ev {
			ev[i] = byzT
		}
		o := &BlockOpts{Evidence: ev}
		if rg.Intn(4) == 0 {
			o.Absent = map[int]bool{rg.Intn(nv): true}
		}
		r.step(nil, nil, o)
		for j := 0; j < 3; j++ { // follow-ups: the same address again, an unknown one, the jailed one
			if (nd.Height+1)%stakePeriod == 0 {
				r.idle(1)
			}
			switch rg.Intn(4) {
			case 0:
				r.step(nil, nil, &BlockOpts{Evidence: []int{byzT}})
			case 1:
				if len(nd.Vals) == nv {
					nd.Vals = append(nd.Vals, mkVal(9999))
				}
				r.step(nil, nil, &BlockOpts{Evidence: []int{nv}})
			case 2:
				if jailedV >= 0 {
					r.step(nil, nil, &BlockOpts{Evidence: []int{jailedV}})
				}
			default:
				r.idle(1 + rg.Intn(3))
			}
		}
	}
	if jailedAt == 0 {
		kind += "nojail,"
		evidence()
		r.idle(5)
		return kind
	}
	kind += "jail,"
	until := jailedAt + types.GetJailPeriod()
	// switch-on attempts: early, (evidence somewhere in between), the three blocks around JailedUntil
	r.idle(rg.Intn(4))
	r.setOn(jailedV)
	evAt := uint64(nd.Height) + 2 + uint64(rg.Intn(200))
	full := rg.Intn(3) != 0 // a third of the histories do not wait for the end of the jail
	if !full {
		r.until(evAt)
		evidence()
		r.idle(3)
		r.setOn(jailedV)
		return kind
	}
	r.until(evAt)
	evidence()
	if uint64(nd.Height)+3 < until {
		r.until(uint64(nd.Height) + 1 + uint64(rg.Intn(int(until-uint64(nd.Height)-2))))
		r.setOn(jailedV)
	}
	r.until(until - 1)
	for uint64(nd.Height) < until+1 && !r.dead {
		br := r.setOn(jailedV)
		if br != nil && len(br.Txs) == 1 && br.Txs[0].Code == 0 {
			break
		}
	}
	r.idle(13) // back in the validator set after the next recalculation: a new life with JailedUntil carried
	if rg.Intn(2) == 0 && c18Listed(&r.prev, nd.Vals[jailedV].Pub) != nil {
		r.absentRun(jailedV, c18Repeat(true, 13), nil)
		r.setOn(jailedV)
	}
	return kind + "full"
}
