package main

// c10.go — C10: a crash at any point during Commit is recoverable.
//
// Every history is executed once on a node whose three databases are wrapped (crashdb.go).
// During Commit of the chosen blocks the wrapper copies all three stores after every single
// write (and before the first): those copies are exactly the disks a process killed at that
// point leaves behind.  For every copy a fresh node process is started on it, asked for Info,
// given the block Tendermint would resend (the block above the reported height, same request),
// then the rest of the history; app hashes, responses, validator updates, every appdb getter
// and the final export are compared with the uncrashed node.  The logged write sequence of every
// Commit (uncrashed, and of the recovered nodes) is compared with Model/Crash.v (model 16).

import (
	"fmt"
	"math/big"
	"sort"
	"strings"
	"time"

	"github.com/MinterTeam/minter-go-node/coreV2/events"
	"github.com/MinterTeam/minter-go-node/coreV2/transaction"
	"github.com/MinterTeam/minter-go-node/coreV2/types"
	abci "github.com/tendermint/tendermint/abci/types"
	tmproto "github.com/tendermint/tendermint/proto/tendermint/types"
)

func init() { commands["c10"] = runC10 }

const c10Model = 16

// reqBlock is one block as the consensus engine sends it (recorded once, resent verbatim).
type reqBlock struct {
	Begin abci.RequestBeginBlock
	Txs   [][]byte
}

func buildReq(n *Node, b *RecBlock) *reqBlock {
	h := n.Height + 1
	dt := b.Opts.Dt
	if dt == 0 {
		dt = 5 * time.Second
	}
	n.Time = n.Time.Add(dt)
	var votes []abci.VoteInfo
	for _, v := range n.curValidators() {
		addr := make([]byte, len(v.tm))
		copy(addr, v.tm[:])
		votes = append(votes, abci.VoteInfo{Validator: abci.Validator{Address: addr, Power: 1}, SignedLastBlock: !b.Opts.Absent[v.idx]})
	}
	var ev []abci.Evidence
	for _, i := range b.Opts.Evidence {
		addr := make([]byte, 20)
		copy(addr, n.Vals[i].TmAdr[:])
		ev = append(ev, abci.Evidence{Type: abci.EvidenceType_DUPLICATE_VOTE, Validator: abci.Validator{Address: addr, Power: 1}, Height: h - 1, Time: n.Time})
	}
	return &reqBlock{Begin: abci.RequestBeginBlock{Header: tmproto.Header{Height: h, Time: n.Time, ChainID: "verif"},
		LastCommitInfo: abci.LastCommitInfo{Votes: votes}, ByzantineValidators: ev}, Txs: b.Txs}
}

// execReq runs one recorded block; preCommit is called between EndBlock and Commit.
func execReq(n *Node, rb *reqBlock, preCommit func(), postCommit func()) *BlockResult {
	res := &BlockResult{}
	h := rb.Begin.Header.Height
	n.Height = h - 1
	n.Time = rb.Begin.Header.Time
	fail := func() *BlockResult { res.Panic = n.Panics[len(n.Panics)-1]; return res }
	if !n.guard("BeginBlock", func() { n.App.BeginBlock(rb.Begin) }) {
		return fail()
	}
	if f := n.afterBeginOnce; f != nil {
		n.afterBeginOnce = nil
		f()
	}
	for _, tx := range rb.Txs {
		var r abci.ResponseDeliverTx
		if !n.guard("DeliverTx", func() { r = n.App.DeliverTx(abci.RequestDeliverTx{Tx: tx}) }) {
			return fail()
		}
		tr := TxResult{Code: r.Code, Gas: r.GasUsed, Tags: map[string]string{}, Log: r.Log}
		for _, e := range r.Events {
			for _, a := range e.Attributes {
				tr.Tags[string(a.Key)] = string(a.Value)
			}
		}
		res.Txs = append(res.Txs, tr)
	}
	if !n.guard("EndBlock", func() { res.Updates = n.App.EndBlock(abci.RequestEndBlock{Height: h}).ValidatorUpdates }) {
		return fail()
	}
	if preCommit != nil {
		preCommit()
	}
	ok := n.guard("Commit", func() { res.Hash = fmt.Sprintf("%x", n.App.Commit().Data) })
	if postCommit != nil {
		postCommit()
	}
	if !ok {
		return fail()
	}
	n.Height = h
	n.Hashes[h] = res.Hash
	return res
}

// c10Obs: what the property compares after every block.
type c10Obs struct {
	Hash, Txs, Updates                     string
	Height                                 uint64
	AppHash                                string
	Emission, Versions, Vals, Times, Price string
}

func c10Getters(n *Node) (o c10Obs) {
	d := n.App.VerifAppDB()
	o.Height = d.GetLastHeight()
	o.AppHash = fmt.Sprintf("%x", d.GetLastBlockHash())
	if e := d.Emission(); e != nil {
		o.Emission = e.String()
	} else {
		o.Emission = "nil"
	}
	o.Versions = jsonStr(d.GetVersions())
	o.Vals = jsonStr(d.GetValidators())
	o.Times = fmt.Sprint(d.VerifBlockTimes())
	t, r0, r1, last, off := d.GetPrice()
	o.Price = fmt.Sprintf("%d %v %v %v %v", t.UnixNano(), r0, r1, last, off)
	return
}

func c10Observe(n *Node, r *BlockResult) c10Obs {
	o := c10Getters(n)
	o.Hash, o.Txs, o.Updates = r.Hash, jsonStr(r.Txs), fmtUpdates(r)
	return o
}

func (a c10Obs) diff(b c10Obs) string {
	switch {
	case a.Hash != b.Hash:
		return "app hash"
	case a.Txs != b.Txs:
		return "DeliverTx responses"
	case a.Updates != b.Updates:
		return "validator updates"
	case a.Height != b.Height:
		return "getter height"
	case a.AppHash != b.AppHash:
		return "getter hash"
	case a.Vals != b.Vals:
		return "getter validators"
	case a.Times != b.Times:
		return "getter block times"
	case a.Versions != b.Versions:
		return "getter versions"
	case a.Emission != b.Emission:
		return "getter emission"
	case a.Price != b.Price:
		return "getter price"
	}
	return ""
}

// diffs lists every observable that differs.
func (a c10Obs) diffs(b c10Obs) []string {
	var out []string
	add := func(c bool, n string) {
		if c {
			out = append(out, n)
		}
	}
	add(a.Hash != b.Hash, "app hash")
	add(a.Txs != b.Txs, "DeliverTx responses")
	add(a.Updates != b.Updates, "validator updates")
	add(a.Height != b.Height, "getter height")
	add(a.AppHash != b.AppHash, "getter hash")
	add(a.Vals != b.Vals, "getter validators")
	add(a.Times != b.Times, "getter block times")
	add(a.Versions != b.Versions, "getter versions")
	add(a.Emission != b.Emission, "getter emission")
	add(a.Price != b.Price, "getter price")
	return out
}

// mentions of one block's events: the saveAddress / savePubKey calls of CommitEvents, in order
// (1 = address, 2 = public key), each key interned to a small integer.
type interner struct{ m map[string]int64 }

func (i *interner) id(s string) int64 {
	if v, ok := i.m[s]; ok {
		return v
	}
	v := int64(len(i.m) + 1)
	i.m[s] = v
	return v
}

func c10Mentions(evs events.Events, in *interner) []*big.Int {
	var out []*big.Int
	A := func(a types.Address) { out = append(out, Z(1), Z(in.id("a"+a.String()))) }
	P := func(p types.Pubkey) { out = append(out, Z(2), Z(in.id("p"+p.String()))) }
	for _, e := range evs {
		switch v := e.(type) {
		case *events.RewardEvent:
			A(v.Address)
			P(v.ValidatorPubKey)
		case *events.SlashEvent:
			A(v.Address)
			P(v.ValidatorPubKey)
		case *events.UnbondEvent:
			A(v.Address)
			if v.ValidatorPubKey != nil {
				P(*v.ValidatorPubKey)
			}
		case *events.StakeKickEvent:
			A(v.Address)
			P(v.ValidatorPubKey)
		case *events.JailEvent:
			P(v.ValidatorPubKey)
		case *events.OrderExpiredEvent:
			A(v.Address)
		case *events.UnlockEvent:
			A(v.Address)
		case *events.StakeMoveEvent:
			A(v.Address)
			P(v.CandidatePubKey)
			P(v.ToCandidatePubKey)
		}
	}
	return out
}

func encLog(log []WriteRec) []*big.Int {
	out := []*big.Int{}
	for _, w := range log {
		out = append(out, Z(w.Code), Z(w.Arg))
	}
	return out
}

func logStr(log []WriteRec) string {
	var s []string
	for _, w := range log {
		s = append(s, w.String())
	}
	return strings.Join(s, " ")
}

// c10Block: everything recorded about one block of the uncrashed run.
type c10Block struct {
	Req      *reqBlock
	Obs      c10Obs
	Log      []WriteRec
	ModelOp  []*big.Int // the block as an operation of model 16 (without the crash position)
	Snaps    []*Stores  // Snaps[k] = the three stores after the k-th write of Commit (k = 0: before the first)
	Flags    appFlags
	PriceSet bool
}

// c10History builds a history: a genesis with a BIP/USDT pool (so that reward price updates
// happen), mixed block-time steps, generated transactions, a version vote by all validators,
// and returns the recorded blocks (txs + options).
type c10Plan struct {
	H        *History
	PriceAt  []int // block indexes expected to update the price
	VoteAt   int   // block index where the version is adopted (-1: none)
	PayoutAt []int
	Keep     int64
	TypeDist map[string]int
}

func c10Plan_(s uint64, nb int) *c10Plan {
	r := NewRng(NewRng(s).U64())
	spec := &GenesisSpec{NAccounts: 6 + r.Intn(3), Balance: pip(100000000), NVals: 3 + r.Intn(2), ExtraCands: r.Intn(2)}
	spec.Versions = []types.Version{{Name: "v300", Height: 0}, {Name: "v310", Height: 0}, {Name: "v320", Height: 0}}
	r0 := pip(int64(1000000 + r.Intn(5000000)))
	r1 := new(big.Int).Div(new(big.Int).Mul(r0, Z(int64(5+r.Intn(200)))), Z(10000))
	spec.Mutate = func(st *types.AppState) {
		owner := st.Accounts[0].Address
		usdtBal := new(big.Int).Mul(r1, Z(100))
		vol := new(big.Int).Add(usdtBal, r1)
		st.Coins = append(st.Coins, types.Coin{ID: uint64(types.USDTID), Name: "Tether", Symbol: types.StrToCoinSymbol("USDTE"),
			Volume: vol.String(), MaxSupply: "1000000000000000000000000000000000", OwnerAddress: &owner, Mintable: true, Burnable: true})
		st.Pools = append(st.Pools, types.Pool{Coin0: 0, Coin1: uint64(types.USDTID), Reserve0: r0.String(), Reserve1: r1.String(), ID: 1})
		st.Accounts[0].Balance = append(st.Accounts[0].Balance, types.Balance{Coin: uint64(types.USDTID), Value: usdtBal.String()})
	}
	p := &c10Plan{VoteAt: -1, Keep: []int64{1, 2, 100000}[r.Intn(3)]}
	n := newNode(spec)
	defer n.Cleanup()
	w := newWorld(n, r)
	w.Weights = map[string]int{"send": 8, "multisend": 3, "createcoin": 2, "createtoken": 2, "sellcoin": 2, "buycoin": 2, "delegate": 4, "unbond": 4,
		"declare": 1, "createpool": 2, "addliq": 2, "sellpool": 3, "buypool": 2, "addorder": 3, "remorder": 1, "lock": 1, "mint": 1, "burn": 1, "candoff": 1, "candon": 1}
	h := &History{Spec: spec}
	voteBlock := 1 + r.Intn(3)
	voteFor := voteBlock + 1 + r.Intn(3)
	p.VoteAt = voteFor
	for b := 0; b < nb; b++ {
		w.beginBlock()
		var txs [][]byte
		var gens []*GenTx
		for i := r.Intn(5); i > 0; i-- {
			if gt := w.Gen(); gt != nil {
				txs = append(txs, gt.Raw)
				gens = append(gens, gt)
			}
		}
		if b == voteBlock {
			for i := 0; i < spec.NVals; i++ {
				owner := n.Accts[i%len(n.Accts)]
				raw := n.MkTx(owner, transaction.TypeVoteUpdate, transaction.VoteUpdateDataV230{Version: "v330", PubKey: n.Vals[i].Pub,
					Height: uint64(InitialHeight + voteFor)}, 0, w.nextNonce(owner), 1, nil)
				w.nonce[owner.Addr]++
				txs = append(txs, raw)
				gens = append(gens, nil)
			}
		}
		opts := BlockOpts{}
		if r.Intn(4) == 0 {
			opts.Absent = map[int]bool{r.Intn(len(n.Vals)): true}
		}
		// block-time steps around the 7 s target of calcMaxGas, so that the stored block times matter
		switch r.Intn(3) {
		case 0:
			opts.Dt = time.Duration(1+r.Intn(4)) * time.Second
		case 1:
			opts.Dt = time.Duration(8+r.Intn(40)) * time.Second
		default:
			opts.Dt = time.Duration(5+r.Intn(5)) * time.Second
		}
		if (InitialHeight+int64(b))%stakePeriod == 1 {
			// period start: place the block in the 12:00-14:59 window, > 3 h after the previous update
			target := nextAt(n.Time.Add(3*time.Hour), 12+r.Intn(3), r.Intn(60), r.Intn(60), 0)
			opts.Dt = target.Sub(n.Time)
		}
		h.Blocks = append(h.Blocks, RecBlock{Txs: txs, Opts: opts})
		br := n.Block(txs, &opts)
		if br.Panic != "" {
			break
		}
		for i, tr := range br.Txs {
			if i < len(gens) && gens[i] != nil {
				w.Observe(gens[i], tr)
			}
		}
	}
	p.H = h
	p.TypeDist = w.TypeDist
	return p
}

type c10Run struct {
	Blocks []*c10Block
	Node   *Node
	S      *Stores
	Export string
	InitOp []*big.Int
	// root hash of the state tree committed by InitChain
	GenesisRoot string
}

// c10LoadedRoot: root hash of the state tree a node has loaded (last saved version it opened)
func c10LoadedRoot(n *Node) (root string) {
	defer func() {
		if r := recover(); r != nil {
			root = fmt.Sprintf("panic: %v", r)
		}
	}()
	sd := n.App.VerifStateDeliver()
	if sd == nil {
		return "no state"
	}
	return fmt.Sprintf("%x", sd.Tree().GetLastImmutable().Hash())
}

// c10Straight executes the plan on wrapped stores; for the block indexes in [targets] it
// copies the stores before the first and after every write of Commit.
func c10Straight(p *c10Plan, targets map[int]bool, hashes, keys *interner) *c10Run {
	tmplNode := &Node{}
	st, accts, vals := buildGenesis(p.H.Spec)
	tmplNode.Accts, tmplNode.Vals, tmplNode.Genesis = accts, vals, st
	S := newStores()
	n := nodeOn(S, tmplNode, p.Keep)
	n.initChain(st, InitialHeight)
	run := &c10Run{Node: n, S: S}
	run.GenesisRoot = c10LoadedRoot(n)
	run.InitOp = L(Z(0), Z(InitialHeight-1), Z(p.Keep), Z(hashes.id("genesis")), Z(0))
	for bi_, rb := range p.H.Blocks {
		b := rb
		blk := &c10Block{}
		tBefore, _, _, _, _ := n.App.VerifAppDB().GetPrice()
		blk.Req = buildReq(n, &b)
		res := execReq(n, blk.Req, func() {
			blk.Flags = readAppFlags(n)
			tAfter, _, _, _, _ := n.App.VerifAppDB().GetPrice()
			blk.PriceSet = !tAfter.Equal(tBefore)
			S.Ctl.log = nil
			S.Ctl.armed = true
			if targets[bi_] {
				blk.Snaps = append(blk.Snaps, S.Copy())
				S.Ctl.hook = func(k int) { blk.Snaps = append(blk.Snaps, S.Copy()) }
			}
		}, func() {
			S.Ctl.armed = false
			S.Ctl.hook = nil
			blk.Log = S.Ctl.log
			S.Ctl.log = nil
		})
		if res.Panic != "" {
			break
		}
		blk.Obs = c10Observe(n, res)
		blk.ModelOp = c10ModelOp(n, blk, res.Hash, hashes, keys)
		run.Blocks = append(run.Blocks, blk)
	}
	run.Export = jsonStr(n.Export())
	return run
}

func b2z10(b bool) *big.Int {
	if b {
		return Z(1)
	}
	return Z(0)
}

// c10ModelOp: [content; setvals; addversion; setemission; setprice; nmentions; (kind, key)*]
func c10ModelOp(n *Node, blk *c10Block, hash string, hashes, keys *interner) []*big.Int {
	h := uint32(blk.Req.Begin.Header.Height)
	ment := c10Mentions(n.App.VerifEventsDB().LoadEvents(h), keys)
	op := L(Z(hashes.id(hash)), b2z10(blk.Flags.Vals), b2z10(blk.Flags.DirtyV), b2z10(blk.Flags.DirtyE), b2z10(blk.PriceSet), Z(int64(len(ment)/2)))
	return append(op, ment...)
}

func runC10(seed uint64, n int, out, stats string, args []string) {
	thorough, dump := false, false
	for _, a := range args {
		switch a {
		case "thorough":
			thorough = true
		case "dump":
			dump = true
		}
	}
	if n >= 40 { // the thorough tier of the check flow asks for many histories: every block, whole continuation
		thorough = true
	}
	c := NewCases(out)
	var mon []MonitorFailure
	seenKey := map[string]int{}
	dist := map[string]int{}
	// scripted scenario (seed independent): the recorded finding c10-restart-after-initchain
	if what := c10InitChainScenario(); what != "" {
		key := "c10-restart-after-initchain"
		if strings.Contains(what, "panics") {
			key = "c10-restart-after-initchain-panics" // the recorded finding is a different app hash, not a crash
		}
		seenKey[key]++
		mon = append(mon, MonitorFailure{What: "C10: " + what, Key: key,
			Replay: "vharness c10 (scripted scenario restart-after-initchain: fixed genesis with 3 equal validators, InitChain, process re-created on the same stores, first block)"})
	}
	crashPoints, recovered, replayed := 0, 0, 0
	nontriv := 0
	var samples []string
	regionCount := map[string]int{}
	for i := 0; i < n; i++ {
		s := seed*1000003 + uint64(i)
		r := NewRng(s ^ 0xc10c10)
		nb := 14 + r.Intn(4)
		if thorough {
			nb = 14 + r.Intn(14)
		}
		p := c10Plan_(s, nb)
		nb = len(p.H.Blocks)
		// target blocks
		targets := map[int]bool{}
		if thorough {
			for b := 0; b < nb; b++ {
				targets[b] = true
			}
		} else {
			targets[0] = true                            // price update block (period start; the first block after InitChain)
			if nb > int(stakePeriod) {
				targets[int(stakePeriod)] = true // the second price update: a restart is an ordinary one here
			}
			targets[int(stakePeriod)-1] = true           // payout block (height % 12 == 0)
			targets[1+r.Intn(int(stakePeriod)-2)] = true // a block in between (transactions)
			if r.Intn(2) == 0 && p.VoteAt > 0 {
				targets[p.VoteAt] = true // the block that adopts the voted network version
			}
		}
		hashes := &interner{m: map[string]int64{}}
		keys := &interner{m: map[string]int64{}}
		U := c10Straight(p, targets, hashes, keys)
		if len(U.Blocks) < nb {
			mon = append(mon, MonitorFailure{What: fmt.Sprintf("C10: the uncrashed run stopped at block %d: %v", len(U.Blocks), U.Node.Panics), Key: "c10-straight-panic",
				Replay: fmt.Sprintf("vharness c10 -seed %d -n %d (history %d seed %d)", seed, n, i, s)})
			U.Node.Cleanup()
			continue
		}
		if dump {
			for bi_, b := range U.Blocks {
				fmt.Printf("hist %d block %d h=%d flags=%+v priceSet=%v log: %s\n", i, bi_, b.Req.Begin.Header.Height, b.Flags, b.PriceSet, logStr(b.Log))
			}
		}
		// the appdb records of a Commit in one batch (only a repaired tree does that)
		for _, b := range U.Blocks {
			for _, wr := range b.Log {
				if wr.Code == wAppBatch {
					U.InitOp[4] = Z(1)
				}
			}
		}
		// model correspondence of the uncrashed run's write sequences
		c.Begin(c10Model)
		c.Op(U.InitOp, L(Z(0)))
		for _, b := range U.Blocks {
			c.Op(append(L(Z(1), Z(-1)), b.ModelOp...), encLog(b.Log))
		}
		c.End(true, "straight")
		kinds := map[string]bool{}
		var tb []int
		for b := range targets {
			tb = append(tb, b)
		}
		sort.Ints(tb)
		for _, bidx := range tb {
			if bidx >= nb {
				continue
			}
			B := U.Blocks[bidx]
			hgt := B.Req.Begin.Header.Height
			for k, snap := range B.Snaps {
				crashPoints++
				where := fmt.Sprintf("vharness c10 -seed %d -n %d%s (history %d seed %d, crash at height %d after write %d of %d: %s | remaining: %s)",
					seed, n, map[bool]string{true: " thorough", false: ""}[thorough], i, s, hgt, k, len(B.Log), logStr(B.Log[:k]), logStr(B.Log[k:]))
				// region of the crash position
				region := "before-height"
				hIdx := -1
				for j, wr := range B.Log {
					if wr.Code == wHeight || wr.Code == wAppBatch {
						hIdx = j
					}
				}
				firstMissing := ""
				if hIdx >= 0 && k > hIdx {
					region = "complete"
					if k < len(B.Log) {
						region = "after-height"
						firstMissing = B.Log[k].Key
					}
				}
				regionCount[region]++
				fail := func(generic, what string) {
					key := generic
					// (a different state re-executed: a different app hash, or Commit refusing to overwrite the tree version the
					// crashed Commit had saved; any other panic of the recovered node is not that finding)
					if region == "before-height" && bidx == 0 && generic != "c10-info-not-replayable" &&
						(generic != "c10-recovery-panic" || strings.Contains(what, "was already saved to different hash")) {
						// the recorded finding: a process restarted between InitChain and the first Commit
						key = "c10-restart-after-initchain"
					}
					if region == "after-height" {
						// the recorded finding: height is on disk, later records of the same commit are not
						key = "c10-crash-after-height-before-" + strings.ToLower(firstMissing)
					}
					seenKey[key]++
					if seenKey[key] <= 3 {
						mon = append(mon, MonitorFailure{What: "C10: " + what, Key: key, Replay: where})
					}
				}
				// ---- recovery ----------------------------------------------------------------
				R := nodeOn(snap, U.Node, p.Keep)
				R.Height = hgt - 1
				var info abci.ResponseInfo
				if !R.guard("Info", func() { info = R.App.Info(abci.RequestInfo{}) }) {
					fail("c10-recovery-panic", "Info panics on the recovered node: "+R.Panics[len(R.Panics)-1])
					R.Cleanup()
					continue
				}
				next := bidx + 1
				switch info.LastBlockHeight {
				case hgt - 1:
					next = bidx // the consensus engine resends block hgt
					replayed++
				case hgt:
					if fmt.Sprintf("%x", info.LastBlockAppHash) != B.Obs.Hash {
						fail("c10-info-hash", fmt.Sprintf("Info reports height %d with app hash %x, the block's hash is %s", hgt, info.LastBlockAppHash, B.Obs.Hash))
					}
				default:
					fail("c10-info-not-replayable", fmt.Sprintf("Info reports height %d after a crash while committing %d", info.LastBlockHeight, hgt))
					R.Cleanup()
					continue
				}
				// the state the recovered node has loaded is the state committed for the height it reports
				// (for the height before the first block: the genesis state committed by InitChain); read after the
				// first BeginBlock, which is where a node restarted before its first Commit opens its state
				if info.LastBlockHeight == hgt || info.LastBlockHeight == hgt-1 {
					want := B.Obs.Hash
					if info.LastBlockHeight == hgt-1 {
						want = U.GenesisRoot
						if bidx > 0 {
							want = U.Blocks[bidx-1].Obs.Hash
						}
					}
					reported := info.LastBlockHeight
					R.afterBeginOnce = func() {
						if got := c10LoadedRoot(R); got != want {
							key := "c10-loaded-state-is-not-the-committed-state"
							seenKey[key]++
							if seenKey[key] <= 3 {
								mon = append(mon, MonitorFailure{What: fmt.Sprintf("C10: after the crash the node reports height %d but the state tree it has loaded has root %s; the state committed for that height has root %s", reported, got, want), Key: key, Replay: where})
							}
						}
					}
				}
				// model case: prefix of the history, the crash, the recovered node's commits
				c.Begin(c10Model)
				c.Op(U.InitOp, L(Z(0)))
				for _, b := range U.Blocks[:bidx] {
					c.Op(append(L(Z(1), Z(-1)), b.ModelOp...), encLog(b.Log))
				}
				c.Op(append(L(Z(1), Z(int64(k))), B.ModelOp...), append(encLog(B.Log[:k]), Z(-1), Z(info.LastBlockHeight)))
				d := ""
				firstKey := ""
				cons := map[string]int{}
				last := len(U.Blocks)
				if !thorough && last > next+6 {
					last = next + 6
				}
				modelBlocks := 0
				for j := next; j < last; j++ {
					ub := U.Blocks[j]
					var flags appFlags
					var log []WriteRec
					var priceSet bool
					res := execReq(R, ub.Req, func() {
						flags = readAppFlags(R)
						snap.Ctl.log = nil
						snap.Ctl.armed = true
					}, func() {
						snap.Ctl.armed = false
						log = snap.Ctl.log
						snap.Ctl.log = nil
					})
					if res.Panic != "" {
						if d == "" {
							d = fmt.Sprintf("the recovered node panics at height %d: %s", ub.Req.Begin.Header.Height, res.Panic)
							firstKey = "c10-recovery-panic"
						} else {
							cons["panic: "+res.Panic] = j - bidx
						}
						break
					}
					priceSet = ub.PriceSet
					o := c10Observe(R, res)
					if x := ub.Obs.diff(o); x != "" {
						if d == "" {
							d = fmt.Sprintf("%s differs at height %d (%d blocks after the crashed commit): uncrashed %s, recovered %s", x, ub.Req.Begin.Header.Height, j-bidx, c10Field(ub.Obs, x), c10Field(o, x))
							firstKey = "c10-getter-differs"
							if x == "app hash" {
								firstKey = "c10-apphash-differs"
							} else if !strings.HasPrefix(x, "getter") {
								firstKey = "c10-response-differs"
							}
						}
						for _, y := range ub.Obs.diffs(o) {
							if _, ok := cons[y]; !ok {
								cons[y] = j - bidx
							}
						}
						continue
					}
					if d == "" && modelBlocks < 2 && region != "after-height" {
						rb := &c10Block{Req: ub.Req, Flags: flags, PriceSet: priceSet}
						c.Op(append(L(Z(1), Z(-1)), c10ModelOp(R, rb, res.Hash, hashes, keys)...), encLog(log))
						modelBlocks++
					}
				}
				c.End(true, "crash-"+region)
				if d != "" {
					var cl []string
					for y, at := range cons {
						cl = append(cl, fmt.Sprintf("%s (+%d)", y, at))
					}
					sort.Strings(cl)
					fail(firstKey, d+"; everything that differs in the following blocks (first block offset): "+strings.Join(cl, ", "))
				}
				if d == "" {
					recovered++
					if last == len(U.Blocks) {
						// (a node that was given no block has not initialised its state yet: nothing to export)
						if R.App.CurrentState() == nil {
						} else if e := jsonStr(R.Export()); e != U.Export {
							fail("c10-export-differs", "final state export of the recovered node differs")
						}
						if x := memEqual(snap.App, U.S.App); x != "" {
							fail("c10-appdb-differs", "final application database differs from the uncrashed node's: "+x)
						}
						if x := memEqual(snap.Ev, U.S.Ev); x != "" {
							fail("c10-eventsdb-differs", "final events database differs from the uncrashed node's: "+x)
						}
					}
				}
				kinds[region] = true
				R.Cleanup()
			}
			B.Snaps = nil
		}
		U.Node.Cleanup()
		dist[fmt.Sprintf("keep%d", p.Keep)]++
		if len(kinds) > 0 {
			nontriv++
		}
		if len(samples) < 2 {
			samples = append(samples, fmt.Sprintf("history seed=%d blocks=%d keep=%d targets=%v tx kinds=%v first target log: %s", s, nb, p.Keep, tb, p.TypeDist, logStr(U.Blocks[tb[0]].Log)))
		}
	}
	c.Close()
	for k, v := range seenKey {
		dist["monitor:"+k] = v
	}
	for k, v := range regionCount {
		dist["crash-"+k] = v
	}
	writeStats(stats, &Stats{Property: "C10", Seed: seed, Cases: c.NCases, Ops: crashPoints, NonTrivial: nontriv,
		Rule: "history of 14-17 blocks (thorough: 14-27) on a node whose events / state / application databases are wrapped: genesis with a BIP/USDT pool, first block a reward-price update (height % 12 = 1, 12:00-14:59), generated transactions, block-time steps around the 7 s gas target, a network-version vote adopted 2-6 blocks in, a payout block (height % 12 = 0), KeepLastStates 1 / 2 / 100000 (DeleteVersion batches); for the price-update block, a middle block and the payout block (thorough: every block) the three stores are copied before the first and after every write of Commit; a fresh node on each copy is asked Info, given the block above the reported height and the following blocks (quick: 6, thorough: all); compared with the uncrashed node: app hash, DeliverTx responses, validator updates, appdb getters (height, hash, validators, block times, versions, emission, price) after every block, final export and final application / events databases; the write sequence of every Commit is compared with Model/Crash.v (model 16); non-trivial = at least one crash point recovered; distinct by seed",
		Dist: dist, Samples: samples, Monitor: mon, Extra: map[string]interface{}{"crash_points": crashPoints, "recovered_equal": recovered, "blocks_resent": replayed}})
}

// c10InitChainScenario: InitChain, then the process dies before the first Commit wrote anything and
// is started again on the same stores (Tendermint does not repeat InitChain: Info reports a non-zero
// height); the first block must give the app hash of a node that never stopped.  Returns "" if it does.
func c10InitChainScenario() string {
	spec := &GenesisSpec{NAccounts: 6, Balance: pip(100000000), NVals: 3}
	tmpl := &Node{}
	st, accts, vals := buildGenesis(spec)
	tmpl.Accts, tmpl.Vals, tmpl.Genesis = accts, vals, st
	S := newStores()
	U := nodeOn(S, tmpl, 100000)
	defer U.Cleanup()
	U.initChain(st, InitialHeight)
	snap := S.Copy()
	rq := buildReq(U, &RecBlock{})
	ru := execReq(U, rq, nil, nil)
	if ru.Panic != "" {
		return "scripted scenario: the uncrashed node stopped: " + ru.Panic
	}
	R := nodeOn(snap, U, 100000)
	defer R.Cleanup()
	var info abci.ResponseInfo
	if !R.guard("Info", func() { info = R.App.Info(abci.RequestInfo{}) }) {
		return "scripted scenario: Info panics after a restart that follows InitChain"
	}
	rr := execReq(R, rq, nil, nil)
	if rr.Panic != "" {
		return fmt.Sprintf("a process restarted between InitChain and the first Commit (Info height %d) panics in block %d: %s", info.LastBlockHeight, rq.Begin.Header.Height, rr.Panic)
	}
	if rr.Hash != ru.Hash {
		return fmt.Sprintf("a process restarted between InitChain and the first Commit (Info height %d) computes app hash %s for block %d, a node that never stopped %s: InitChain calls updateValidators after committing the genesis state, its effects live in memory only", info.LastBlockHeight, rr.Hash, rq.Begin.Header.Height, ru.Hash)
	}
	return ""
}

func c10Field(o c10Obs, x string) string {
	switch x {
	case "app hash":
		return o.Hash
	case "validator updates":
		return o.Updates
	case "getter height":
		return fmt.Sprint(o.Height)
	case "getter hash":
		return o.AppHash
	case "getter validators":
		return o.Vals
	case "getter block times":
		return o.Times
	case "getter versions":
		return o.Versions
	case "getter emission":
		return o.Emission
	case "getter price":
		return o.Price
	}
	return "…"
}
