//go:build !race

package main

const raceEnabled = false
