package main

import (
	"fmt"
	"math/big"

	"github.com/MinterTeam/minter-go-node/coreV2/state/bus"
	"github.com/MinterTeam/minter-go-node/coreV2/state/checker"
	"github.com/MinterTeam/minter-go-node/coreV2/state/swap"
	"github.com/MinterTeam/minter-go-node/tree"
	db "github.com/tendermint/tm-db"
)

func init() { commands["c13"] = runC13 }

// newPair makes a fresh SwapV2 over an in-memory tree with one pool (0,1) holding r0,r1.
func newPair(r0, r1 *big.Int) (*swap.SwapV2, *swap.PairV2, bool) {
	memDB := db.NewMemDB()
	t, err := tree.NewMutableTree(0, memDB, 1024, 0)
	if err != nil {
		panic(err)
	}
	b := bus.NewBus()
	checker.NewChecker(b)
	s := swap.NewV2(b, t.GetLastImmutable())
	ok := true
	func() {
		defer func() {
			if recover() != nil {
				ok = false
			}
		}()
		s.PairCreate(0, 1, cp(r0), cp(r1))
	}()
	if !ok {
		return nil, nil, false
	}
	return s, s.Pair(0, 1), true
}

func nilOr(v *big.Int) []*big.Int {
	if v == nil {
		return L(Z(1))
	}
	return L(Z(0), cp(v))
}

// errCode maps swap errors to the model's enum.
func errCode(err error) int64 {
	switch err {
	case nil:
		return 0
	case swap.ErrorInsufficientLiquidity:
		return 1
	case swap.ErrorInsufficientOutputAmount:
		return 2
	case swap.ErrorInsufficientInputAmount:
		return 3
	case swap.ErrorK:
		return 4
	case swap.ErrorInsufficientLiquidityMinted:
		return 7
	case swap.ErrorInsufficientLiquidityBurned:
		return 8
	}
	return 99
}

// panicSite maps a recovered panic value to the model's site ids.
func panicSite(r interface{}) int64 {
	if e, ok := r.(error); ok {
		if c := errCode(e); c != 99 {
			return c
		}
		if e.Error() == "division by zero" {
			return 900
		}
		s := e.Error()
		if len(s) > 20 && s[:20] == "runtime error: inval" { // nil dereference
			return 6
		}
	}
	if s, ok := r.(string); ok {
		if len(s) > 10 && s[:10] == "calculated" {
			return 5
		}
		if s == "division by zero" {
			return 900
		}
	}
	return 999
}

// guard runs f and converts a panic into the model's [2; site] outcome.
func guard(f func() []*big.Int) (out []*big.Int) {
	defer func() {
		if r := recover(); r != nil {
			out = L(Z(2), Z(panicSite(r)))
		}
	}()
	return f()
}

func genReserves(r *Rng) (*big.Int, *big.Int) {
	for {
		var a, b *big.Int
		switch r.Intn(4) {
		case 0:
			a, b = r.Big(6), r.Big(6)
		case 1:
			a, b = r.Big(33), r.Big(33)
		case 2:
			a, b = r.Big(33), r.Big(4)
		default:
			a, b = r.Big(20), r.Big(25)
		}
		if new(big.Int).Sqrt(new(big.Int).Mul(a, b)).Cmp(big.NewInt(1000)) == 1 {
			return a, b
		}
	}
}

func genAmount(r *Rng, ref *big.Int) *big.Int {
	switch r.Intn(8) {
	case 0:
		return Z(int64(r.Intn(3)))
	case 1:
		return cp(ref)
	case 2:
		return new(big.Int).Sub(ref, Z(1))
	case 3:
		return new(big.Int).Add(ref, Z(1))
	case 4:
		return r.Big(36)
	default:
		return r.BigBelow(new(big.Int).Add(ref, Z(1)))
	}
}

func runC13(seed uint64, n int, out, stats string, _ []string) {
	r := NewRng(seed)
	c := NewCases(out)
	var mon []MonitorFailure
	kOK := func(what string, r0, r1, x0, x1 *big.Int) {
		if new(big.Int).Mul(x0, x1).Cmp(new(big.Int).Mul(r0, r1)) < 0 || x0.Sign() <= 0 || x1.Sign() <= 0 {
			mon = append(mon, MonitorFailure{What: fmt.Sprintf("C13: %s: reserves (%s,%s) -> (%s,%s): product decreased or reserve not positive", what, r0, r1, x0, x1), Key: "c13-k", Replay: what})
		}
	}
	// monitor-only: add liquidity then remove exactly the minted tokens
	for i := 0; i < n/4; i++ {
		r0, r1 := genReserves(r)
		s2, _, ok := newPair(r0, r1)
		if !ok {
			continue
		}
		a0 := genAmount(r, r0)
		t := new(big.Int).Add(r.Big(30), Z(1))
		func() {
			defer func() { recover() }()
			p := s2.Pair(0, 1)
			l := p.Mint(cp(a0), Z(0), cp(t))
			n0, n1 := p.Reserves()
			a1 := new(big.Int).Sub(n1, r1)
			x0, x1 := p.Burn(cp(l), Z(0), Z(0), new(big.Int).Add(t, l))
			m0, m1 := p.Reserves()
			if x0.Cmp(a0) > 0 || x1.Cmp(a1) > 0 || m0.Cmp(r0) < 0 || m1.Cmp(r1) < 0 || n0.Cmp(new(big.Int).Add(r0, a0)) != 0 {
				mon = append(mon, MonitorFailure{What: fmt.Sprintf("C13: add %s then remove %s LP returned (%s,%s) for (%s,%s) put in; reserves %s,%s total %s", a0, l, x0, x1, a0, a1, r0, r1, t), Key: "c13-mintburn", Replay: fmt.Sprintf("mint-burn r0=%s r1=%s a0=%s total=%s", r0, r1, a0, t)})
			}
			// proportional share
			if new(big.Int).Mul(x0, new(big.Int).Add(t, l)).Cmp(new(big.Int).Mul(l, n0)) > 0 {
				mon = append(mon, MonitorFailure{What: "C13: burn returned more than the proportional share", Key: "c13-share", Replay: fmt.Sprintf("mint-burn r0=%s r1=%s a0=%s total=%s", r0, r1, a0, t)})
			}
		}()
	}
	for i := 0; i < n; i++ {
		r0, r1 := genReserves(r)
		_, p, ok := newPair(r0, r1)
		if !ok {
			continue
		}
		kind := r.Intn(9) + 1
		c.Begin(1)
		nt := false
		switch kind {
		case 1:
			a := genAmount(r, r0)
			v := guard(func() []*big.Int { return nilOr(p.CalculateBuyForSell(cp(a))) })
			c.Op(L(Z(1), r0, r1, a), v)
			nt = v[0].Sign() == 0
		case 2:
			o := genAmount(r, r1)
			v := guard(func() []*big.Int { return nilOr(p.CalculateSellForBuy(cp(o))) })
			c.Op(L(Z(2), r0, r1, o), v)
			nt = v[0].Sign() == 0
		case 3:
			a := genAmount(r, r0)
			o := genAmount(r, r1)
			if r.Intn(2) == 0 {
				if x := p.CalculateBuyForSell(cp(a)); x != nil {
					o = x
					if r.Intn(3) == 0 {
						o = new(big.Int).Add(o, Z(1))
					}
				}
			}
			e := p.CheckSwap(cp(a), cp(o))
			c.Op(L(Z(3), r0, r1, a, Z(0), Z(0), o), L(Z(errCode(e))))
			nt = e == nil
		case 4:
			a := genAmount(r, r0)
			m := Z(0)
			if r.Intn(3) == 0 {
				m = genAmount(r, r1)
			}
			s2, _, _ := newPair(r0, r1)
			v := guard(func() []*big.Int {
				s2.PairSell(0, 1, cp(a), cp(m))
				x0, x1 := s2.Pair(0, 1).Reserves()
				kOK(fmt.Sprintf("PairSell a=%s", a), r0, r1, x0, x1)
				return L(Z(0), x0, x1, new(big.Int).Sub(r1, x1))
			})
			c.Op(L(Z(4), r0, r1, a, m), v)
			nt = v[0].Sign() == 0
		case 5:
			o := genAmount(r, r1)
			m := r.Big(40)
			s2, _, _ := newPair(r0, r1)
			v := guard(func() []*big.Int {
				s2.PairBuy(0, 1, cp(m), cp(o))
				x0, x1 := s2.Pair(0, 1).Reserves()
				kOK(fmt.Sprintf("PairBuy out=%s", o), r0, r1, x0, x1)
				return L(Z(0), x0, x1, new(big.Int).Sub(x0, r0))
			})
			c.Op(L(Z(5), r0, r1, m, o), v)
			nt = v[0].Sign() == 0
		case 6:
			a0 := genAmount(r, r0)
			t := r.Big(30)
			s2, _, _ := newPair(r0, r1)
			v := guard(func() []*big.Int {
				l := s2.Pair(0, 1).Mint(cp(a0), Z(0), cp(t))
				x0, x1 := s2.Pair(0, 1).Reserves()
				return L(Z(0), l, x0, x1)
			})
			c.Op(L(Z(6), r0, r1, a0, t), v)
			nt = v[0].Sign() == 0
		case 7:
			a0 := genAmount(r, r0)
			t := r.Big(30)
			m1 := genAmount(r, r1)
			v := guard(func() []*big.Int { return L(Z(0), Z(errCode(p.CheckMint(cp(a0), cp(m1), cp(t))))) })
			c.Op(L(Z(7), r0, r1, a0, m1, t), v)
			nt = true
		case 8:
			a0, a1 := r.Big(20), r.Big(20)
			if r.Intn(3) == 0 {
				a0, a1 = r.Big(4), r.Big(4)
			}
			v := guard(func() []*big.Int {
				memDB := db.NewMemDB()
				t, _ := tree.NewMutableTree(0, memDB, 1024, 0)
				b := bus.NewBus()
				checker.NewChecker(b)
				s := swap.NewV2(b, t.GetLastImmutable())
				_, _, l, _ := s.PairCreate(0, 1, cp(a0), cp(a1))
				x0, x1 := s.Pair(0, 1).Reserves()
				return L(Z(0), l, x0, x1)
			})
			c.Op(L(Z(8), a0, a1), v)
			nt = v[0].Sign() == 0
		case 9:
			t := new(big.Int).Add(r.Big(30), Z(1))
			l := genAmount(r, t)
			m0, m1 := Z(0), Z(0)
			if r.Intn(3) == 0 {
				m0 = genAmount(r, r0)
			}
			s2, _, _ := newPair(r0, r1)
			v := guard(func() []*big.Int {
				x0, x1 := s2.Pair(0, 1).Burn(cp(l), cp(m0), cp(m1), cp(t))
				y0, y1 := s2.Pair(0, 1).Reserves()
				return L(Z(0), x0, x1, y0, y1)
			})
			c.Op(L(Z(9), r0, r1, l, m0, m1, t), v)
			nt = v[0].Sign() == 0
		}
		c.End(nt, fmt.Sprintf("op%d", kind))
	}
	c.Close()
	writeStats(stats, &Stats{Property: "C13", Seed: seed, Cases: c.NCases, Ops: c.NOps, NonTrivial: c.NonTriv,
		Rule: "one pool operation on PairV2 over random reserves (1..10^33) and boundary amounts (0,1,reserve-1,reserve,reserve+1,uniform); non-trivial = the implementation returned a value (not nil/panic); distinct = distinct case text",
		Dist: c.Dist, Samples: c.Samples, Monitor: mon})
}
