package main

// c29.go — C29: a state-synced node behaves like one that replayed every block.
//
// Node level, through the real ABCI snapshot calls and the real cosmos-sdk snapshots.Manager /
// Store on a temporary directory:
//   producer A   executes a history with snapshots every [interval] blocks;
//   producer B   executes the same history but its process is re-created at random heights;
//                every snapshot (metadata hash and every chunk) must be byte-identical to A's;
//   restored R   a fresh node is offered a snapshot of height h (OfferSnapshot, ApplySnapshotChunk
//                for every chunk); Info must report A's height and app hash at h; then R and A are
//                given the same following blocks: responses, validator updates, app hashes, every
//                appdb getter after every block, the events of the new blocks and the final state
//                export must be equal.
// The write sequence of a restored node's commits is also compared with Model/Crash.v (model 16):
// a restored node is a restarted process on a disk without older tree versions and event tables.

import (
	"bytes"
	"crypto/sha256"
	"fmt"
	"math/big"
	"os"
	"sort"

	"github.com/cosmos/cosmos-sdk/snapshots"
	abci "github.com/tendermint/tendermint/abci/types"
)

func init() { commands["c29"] = runC29 }

type snapNode struct {
	N        *Node
	S        *Stores
	Dir      string
	Interval int
}

func (sn *snapNode) attach() {
	store, err := snapshots.NewStore(&logDB{DB: sn.S.Snap, store: "snapshot"}, sn.Dir)
	if err != nil {
		panic(err)
	}
	sn.N.App.SetSnapshotStore(store, sn.Interval, 0)
}

func newSnapNode(tmpl *Node, keep int64, interval int) *snapNode {
	S := newStores()
	n := nodeOn(S, tmpl, keep)
	dir, err := os.MkdirTemp(os.Getenv("VERIF_TMP"), "vsnap")
	if err != nil {
		panic(err)
	}
	sn := &snapNode{N: n, S: S, Dir: dir, Interval: interval}
	sn.attach()
	return sn
}

func (sn *snapNode) restart() {
	sn.waitSnapshot()
	sn.N.App.Close()
	startOn(sn.N, sn.S)
	sn.attach()
}

// waitSnapshot: first until the snapshot goroutine has read the appdb records (it holds the
// appdb's wait group until then), then until the snapshot is complete.
func (sn *snapNode) waitSnapshot() {
	sn.N.App.VerifAppDB().WG.Wait()
	sn.N.App.VerifWaitSnapshot()
}

func (sn *snapNode) cleanup() {
	sn.waitSnapshot()
	sn.N.Cleanup()
	os.RemoveAll(sn.Dir)
}

type snapData struct {
	Meta   *abci.Snapshot
	Chunks [][]byte
}

func (sn *snapNode) snapshotsOf() map[uint64]*snapData {
	out := map[uint64]*snapData{}
	resp := sn.N.App.ListSnapshots(abci.RequestListSnapshots{})
	for _, s := range resp.Snapshots {
		d := &snapData{Meta: s}
		for c := uint32(0); c < s.Chunks; c++ {
			ch := sn.N.App.LoadSnapshotChunk(abci.RequestLoadSnapshotChunk{Height: s.Height, Format: s.Format, Chunk: c})
			d.Chunks = append(d.Chunks, ch.Chunk)
		}
		out[s.Height] = d
	}
	return out
}

func snapDigest(d *snapData) string {
	h := sha256.New()
	h.Write(d.Meta.Hash)
	h.Write(d.Meta.Metadata)
	fmt.Fprintf(h, "%d/%d/%d", d.Meta.Height, d.Meta.Format, d.Meta.Chunks)
	for _, c := range d.Chunks {
		h.Write(c)
	}
	return fmt.Sprintf("%x", h.Sum(nil))
}

func runC29(seed uint64, n int, out, stats string, args []string) {
	c := NewCases(out)
	var mon []MonitorFailure
	seen := map[string]int{}
	dist := map[string]int{}
	nontriv, snaps, restores, contBlocks, restarts := 0, 0, 0, 0, 0
	queriedEmpty := 0
	var samples []string
	for i := 0; i < n; i++ {
		s := seed*1000003 + uint64(i)
		r := NewRng(s ^ 0xc29c29)
		nb := 16 + r.Intn(6)
		p := c10Plan_(s, nb)
		nb = len(p.H.Blocks)
		interval := 3 + r.Intn(4)
		where := func(extra string) string {
			return fmt.Sprintf("vharness c29 -seed %d -n %d (history %d seed %d, %d blocks, snapshot interval %d, keep %d%s)", seed, n, i, s, nb, interval, p.Keep, extra)
		}
		fail := func(key, what, extra string) {
			seen[key]++
			if seen[key] <= 3 {
				mon = append(mon, MonitorFailure{What: "C29: " + what, Key: key, Replay: where(extra)})
			}
		}
		tmpl := &Node{}
		st, accts, vals := buildGenesis(p.H.Spec)
		tmpl.Accts, tmpl.Vals, tmpl.Genesis = accts, vals, st
		// ---- producer A: no restarts; records the requests and observations ----------------
		A := newSnapNode(tmpl, p.Keep, interval)
		A.N.initChain(st, InitialHeight)
		var reqs []*reqBlock
		var obsA []c10Obs
		var evA []string
		okA := true
		for _, rb := range p.H.Blocks {
			b := rb
			rq := buildReq(A.N, &b)
			res := execReq(A.N, rq, nil, nil)
			if res.Panic != "" {
				fail("c29-straight-panic", "producer stopped: "+res.Panic, "")
				okA = false
				break
			}
			A.waitSnapshot()
			reqs = append(reqs, rq)
			obsA = append(obsA, c10Observe(A.N, res))
			evA = append(evA, jsonStr(A.N.App.VerifEventsDB().LoadEvents(uint32(rq.Begin.Header.Height))))
		}
		if !okA {
			A.cleanup()
			continue
		}
		exportA := jsonStr(A.N.Export())
		snapsA := A.snapshotsOf()
		snaps += len(snapsA)
		if len(snapsA) == 0 {
			fail("c29-no-snapshot", "the producer made no snapshot", "")
		}
		// ---- producer B: the same blocks, process re-created at random heights ---------------
		B := newSnapNode(tmpl, p.Keep, interval)
		B.N.initChain(st, InitialHeight)
		ra := map[int]int{}
		for j := range reqs {
			if r.Intn(3) == 0 {
				ra[j] = 1 + r.Intn(2)
			}
		}
		// always one restart right before a snapshot height and one right after
		for j, rq := range reqs {
			if int(rq.Begin.Header.Height)%interval == 0 && j > 0 {
				ra[j-1]++
				break
			}
		}
		okB := true
		for j, rq := range reqs {
			res := execReq(B.N, rq, nil, nil)
			if res.Panic != "" {
				fail("c29-restart-panic", "restarted producer stopped: "+res.Panic, fmt.Sprintf(", restarts after %v", ra))
				okB = false
				break
			}
			B.waitSnapshot()
			for k := 0; k < ra[j]; k++ {
				B.restart()
				restarts++
			}
		}
		if okB {
			snapsB := B.snapshotsOf()
			for h, a := range snapsA { // (order irrelevant: only the first three failures of a key are kept, all counted)
				b := snapsB[h]
				switch {
				case b == nil:
					fail("c29-snapshot-missing", fmt.Sprintf("the restarted producer has no snapshot of height %d", h), fmt.Sprintf(", restarts after %v", ra))
				case !bytes.Equal(a.Meta.Hash, b.Meta.Hash) || snapDigest(a) != snapDigest(b):
					fail("c29-snapshot-differs", fmt.Sprintf("snapshot of height %d differs between a never restarted producer and one restarted after block indexes %v (hash %x vs %x, %d vs %d chunks)", h, ra, a.Meta.Hash, b.Meta.Hash, len(a.Chunks), len(b.Chunks)), "")
				}
			}
		}
		B.cleanup()
		// ---- restore every snapshot on a fresh node and continue ---------------------------------
		var heights []uint64
		for h := range snapsA {
			heights = append(heights, h)
		}
		sort.Slice(heights, func(a, b int) bool { return heights[a] < heights[b] })
		for _, h := range heights {
			sd := snapsA[h]
			idx := int(int64(h) - InitialHeight) // index of the block that produced height h
			if idx < 0 || idx >= len(reqs) {
				continue
			}
			restores++
			R := newSnapNode(tmpl, p.Keep, 0)
			R.N.Height = int64(h)
			extra := fmt.Sprintf(", snapshot height %d", h)
			apphash := []byte{}
			fmt.Sscanf(obsA[idx].Hash, "%x", &apphash)
			if restores%2 == 0 {
				// the node is asked for its status while it is still empty (a syncing node answers queries): every
				// application-database getter is read once before the snapshot is offered
				R.N.guard("getters on the empty node", func() { c10Getters(R.N) })
				extra += ", getters read on the empty node before the offer"
				queriedEmpty++
			}
			off := R.N.App.OfferSnapshot(abci.RequestOfferSnapshot{Snapshot: sd.Meta, AppHash: apphash})
			if off.Result != abci.ResponseOfferSnapshot_ACCEPT {
				fail("c29-offer-rejected", fmt.Sprintf("OfferSnapshot answered %v", off.Result), extra)
				R.cleanup()
				continue
			}
			okR := true
			for ci, ch := range sd.Chunks {
				ap := R.N.App.ApplySnapshotChunk(abci.RequestApplySnapshotChunk{Index: uint32(ci), Chunk: ch, Sender: "verif"})
				if ap.Result != abci.ResponseApplySnapshotChunk_ACCEPT {
					fail("c29-chunk-rejected", fmt.Sprintf("ApplySnapshotChunk %d answered %v", ci, ap.Result), extra)
					okR = false
					break
				}
			}
			if !okR {
				R.cleanup()
				continue
			}
			var info abci.ResponseInfo
			if !R.N.guard("Info", func() { info = R.N.App.Info(abci.RequestInfo{}) }) {
				fail("c29-restore-panic", "Info panics on the restored node: "+R.N.Panics[len(R.N.Panics)-1], extra)
				R.cleanup()
				continue
			}
			if info.LastBlockHeight != int64(h) || fmt.Sprintf("%x", info.LastBlockAppHash) != obsA[idx].Hash {
				fail("c29-info-differs", fmt.Sprintf("Info of the restored node: height %d hash %x, producer: height %d hash %s", info.LastBlockHeight, info.LastBlockAppHash, h, obsA[idx].Hash), extra)
			}
			// getters right after the restore
			g := c10Getters(R.N)
			g.Hash, g.Txs, g.Updates = obsA[idx].Hash, obsA[idx].Txs, obsA[idx].Updates
			if x := obsA[idx].diff(g); x != "" {
				fail("c29-getter-differs", fmt.Sprintf("%s of the restored node differs right after the restore: producer %s, restored %s", x, c10Field(obsA[idx], x), c10Field(g, x)), extra)
			}
			// model 16: the restored node is a freshly started process on a disk with one tree version
			hashes := &interner{m: map[string]int64{}}
			keys := &interner{m: map[string]int64{}}
			// (the operations are collected first: whether the appdb records go out in one batch is read
			// off the logged writes and is part of the model's first operation)
			initOp := L(Z(0), Z(int64(h)), Z(p.Keep), Z(hashes.id(obsA[idx].Hash)), Z(0))
			var modelOps [][2][]*big.Int
			d := ""
			for j := idx + 1; j < len(reqs) && d == ""; j++ {
				var flags appFlags
				var log []WriteRec
				tBefore, _, _, _, _ := R.N.App.VerifAppDB().GetPrice()
				priceSet := false
				res := execReq(R.N, reqs[j], func() {
					flags = readAppFlags(R.N)
					tAfter, _, _, _, _ := R.N.App.VerifAppDB().GetPrice()
					priceSet = !tAfter.Equal(tBefore)
					R.S.Ctl.log = nil
					R.S.Ctl.armed = true
				}, func() {
					R.S.Ctl.armed = false
					log = R.S.Ctl.log
					R.S.Ctl.log = nil
				})
				if res.Panic != "" {
					d = "the restored node panics: " + res.Panic
					fail("c29-restore-panic", d, extra)
					break
				}
				contBlocks++
				o := c10Observe(R.N, res)
				if x := obsA[j].diff(o); x != "" {
					d = fmt.Sprintf("%s differs at height %d (%d blocks after the snapshot): producer %s, restored %s", x, reqs[j].Begin.Header.Height, j-idx, c10Field(obsA[j], x), c10Field(o, x))
					fail("c29-continuation-differs", d, extra)
					break
				}
				if ev := jsonStr(R.N.App.VerifEventsDB().LoadEvents(uint32(reqs[j].Begin.Header.Height))); ev != evA[j] {
					d = fmt.Sprintf("events of height %d differ", reqs[j].Begin.Header.Height)
					fail("c29-events-differ", d, extra)
					break
				}
				if j-idx <= 3 {
					rb := &c10Block{Req: reqs[j], Flags: flags, PriceSet: priceSet}
					modelOps = append(modelOps, [2][]*big.Int{append(L(Z(1), Z(-1)), c10ModelOp(R.N, rb, res.Hash, hashes, keys)...), encLog(log)})
					for _, wr := range log {
						if wr.Code == wAppBatch {
							initOp[4] = Z(1)
						}
					}
				}
			}
			c.Begin(c10Model)
			c.Op(initOp, L(Z(0)))
			c.Op(L(Z(2)), L(Z(0)))
			for _, mo := range modelOps {
				c.Op(mo[0], mo[1])
			}
			c.End(true, "restored")
			if d == "" && idx+1 < len(reqs) {
				if e := jsonStr(R.N.Export()); e != exportA {
					fail("c29-export-differs", "final state export of the restored node differs from the producer's", extra)
				}
				if x := memEqual(R.S.App, A.S.App); x != "" {
					fail("c29-appdb-differs", "final application database of the restored node differs from the producer's: "+x, extra)
				}
			}
			R.cleanup()
		}
		A.cleanup()
		dist[fmt.Sprintf("interval%d", interval)]++
		if len(snapsA) > 0 {
			nontriv++
		}
		if len(samples) < 2 {
			var hs []uint64
			for h := range snapsA {
				hs = append(hs, h)
			}
			samples = append(samples, fmt.Sprintf("history seed=%d blocks=%d interval=%d keep=%d snapshots at %v restarts of producer B after block indexes %v", s, nb, interval, p.Keep, hs, ra))
		}
	}
	c.Close()
	for k, v := range seen {
		dist["monitor:"+k] = v
	}
	writeStats(stats, &Stats{Property: "C29", Seed: seed, Cases: c.NCases, Ops: restores, NonTrivial: nontriv,
		Rule: "history of 16-21 blocks (reward-price update, transactions, version vote, payout block, KeepLastStates 1 / 2 / 100000) on a producer with a real cosmos-sdk snapshot store (interval 3-6 blocks); a second producer whose process is re-created after random blocks (always once right before a snapshot height) must produce byte-identical snapshots (metadata hash and every chunk read through ListSnapshots / LoadSnapshotChunk); every snapshot is restored on a fresh node through OfferSnapshot / ApplySnapshotChunk (every second one after all application-database getters were read on the still empty node); compared with the producer: Info (height, app hash), every appdb getter right after the restore, then for every following block the DeliverTx responses, validator updates, app hash, getters (height, hash, validators, block times, versions, emission, price), the block's events, and the final state export and application database; the write sequences of the restored node's first commits are compared with Model/Crash.v (model 16); non-trivial = at least one snapshot restored; distinct by seed",
		Dist: dist, Samples: samples, Monitor: mon,
		Extra: map[string]interface{}{"snapshots": snaps, "restores": restores, "restores_after_getters_were_read_on_the_empty_node": queriedEmpty, "continuation_blocks": contBlocks, "producer_restarts": restarts}})
}
